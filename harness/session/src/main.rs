// H-session: drives the watch-mode session API of beff_wasm (feature beff_verif) over histories read from stdin.
// job (one JSON per line): {"id", "files": {name: text}, "entry": "entry.ts", "settings": {"string_formats": [], "number_formats": []},
//                           "ops": [["update", file, text] | ["rebuild"]]}
// A session is one thread (the compiler's cache is thread-local); the from-scratch oracle of every rebuild is a new
// thread given a snapshot of the same disk.
use beff_wasm::verif;
use serde_json::{json, Value};
use std::collections::BTreeMap;
use std::io::{self, BufRead, Write};

const STACK: usize = 512 * 1024 * 1024;

fn build(entry: &str, settings: &str) -> Value {
    let diags: Value = serde_json::from_str(&verif::bundle_to_diagnostics(entry, settings)).unwrap_or(Value::Null);
    let code = verif::bundle_to_string(entry, settings);
    let emitted: Vec<Value> = verif::take_diagnostics()
        .iter()
        .map(|s| serde_json::from_str(s).unwrap_or(Value::Null))
        .collect();
    json!({"diags": diags, "code": code.as_ref().ok(), "error": code.as_ref().err(), "emitted": emitted})
}

fn fresh(disk: BTreeMap<String, String>, entry: String, settings: String) -> Value {
    let h = std::thread::Builder::new().stack_size(STACK).spawn(move || {
        for (k, v) in &disk {
            verif::set_disk_file(k, Some(v));
        }
        build(&entry, &settings)
    });
    match h.map(|h| h.join()) {
        Ok(Ok(v)) => v,
        _ => json!({"panic": true}),
    }
}

fn cache_json() -> Value {
    Value::Array(verif::cached_sources().into_iter().map(|(k, v)| json!([k, v])).collect())
}

fn run_job(job: Value) -> Value {
    let entry = job["entry"].as_str().unwrap_or("entry.ts").to_string();
    let settings = job["settings"].to_string();
    for (k, v) in job["files"].as_object().unwrap() {
        verif::set_disk_file(k, Some(v.as_str().unwrap()));
    }
    let mut steps = vec![];
    for op in job["ops"].as_array().unwrap() {
        match op[0].as_str().unwrap() {
            "update" => {
                let f = op[1].as_str().unwrap();
                let c = op[2].as_str().unwrap();
                // the watcher reads the changed file from the disk and hands its text to the session
                verif::set_disk_file(f, Some(c));
                verif::update_file_content(f, c);
                steps.push(json!({"op": "update", "cache": cache_json()}));
            }
            "rebuild" => {
                let s = build(&entry, &settings);
                let cache = cache_json();
                let f = fresh(verif::disk_snapshot(), entry.clone(), settings.clone());
                steps.push(json!({"op": "rebuild", "session": s, "fresh": f, "cache": cache}));
            }
            other => panic!("unknown op {other}"),
        }
    }
    json!({"id": job["id"], "steps": steps})
}

fn main() {
    std::panic::set_hook(Box::new(|_| {}));
    let stdin = io::stdin();
    let stdout = io::stdout();
    for line in stdin.lock().lines() {
        let line = line.unwrap();
        if line.trim().is_empty() {
            continue;
        }
        let job: Value = serde_json::from_str(&line).expect("job json");
        let id = job["id"].clone();
        let h = std::thread::Builder::new().stack_size(STACK).spawn(move || run_job(job)).unwrap();
        let v = match h.join() {
            Ok(v) => v,
            Err(_) => json!({"id": id, "panic": true}),
        };
        let mut out = stdout.lock();
        writeln!(out, "{}", v).unwrap();
        out.flush().unwrap();
    }
}
