// H-compile: compiles an in-memory project with beff_core::extract and prints the outcome as JSON.
// stdin: {"files": [[name, text], ...], "entry": "entry.ts", "string_formats": [...], "number_formats": [...],
//         "lazy": bool}
// One job per process (stack overflows and hangs are handled by the caller's watchdog).
use beff_core::diag::Location;
use beff_core::swc_tools::bind_exports::{parse_and_bind, FsModuleResolver};
use beff_core::{BeffUserSettings, BffFileName, EntryPoints, FileManager, ParsedModule};
use serde_json::{json, Value};
use std::collections::BTreeMap;
use std::io::Read;
use std::panic;
use std::rc::Rc;
use swc_common::{Globals, GLOBALS};

fn resolve(spec: &str) -> Option<BffFileName> {
    // "./x" -> "x.ts" ; "./x.d" -> "x.d.ts" ; "./x.tsx" kept ; anything else unresolved
    let rest = spec.strip_prefix("./")?;
    if rest == "mock_could_not_resolve" || rest.is_empty() {
        return None;
    }
    if rest.ends_with(".ts") || rest.ends_with(".tsx") {
        return Some(BffFileName::new(rest.to_string()));
    }
    Some(BffFileName::new(format!("{}.ts", rest)))
}

struct Resolver {}
impl FsModuleResolver for Resolver {
    fn resolve_import(&mut self, _current: BffFileName, spec: &str) -> Option<BffFileName> {
        resolve(spec)
    }
}

struct Manager {
    texts: BTreeMap<String, String>,
    parsed: BTreeMap<BffFileName, Rc<ParsedModule>>,
    parse_errors: Vec<(String, String)>,
}
impl Manager {
    fn parse(&mut self, name: &BffFileName) -> Option<Rc<ParsedModule>> {
        if let Some(p) = self.parsed.get(name) {
            return Some(p.clone());
        }
        let text = self.texts.get(name.as_str())?.clone();
        let mut r = Resolver {};
        match parse_and_bind(&mut r, name, &text) {
            Ok(m) => {
                self.parsed.insert(name.clone(), m.clone());
                Some(m)
            }
            Err(e) => {
                self.parse_errors.push((name.as_str().to_string(), e.to_string()));
                None
            }
        }
    }
}
impl FileManager for Manager {
    fn get_or_fetch_file(&mut self, name: &BffFileName) -> Option<Rc<ParsedModule>> {
        self.parse(name)
    }
    fn get_existing_file(&self, name: &BffFileName) -> Option<Rc<ParsedModule>> {
        self.parsed.get(name).cloned()
    }
    fn resolve_import(&mut self, _current: BffFileName, spec: &str) -> Option<BffFileName> {
        resolve(spec)
    }
}

// ---------------------------------------------------------------- IR as JSON
use beff_core::ast::runtype::{Optionality, Runtype, RuntypeConst, RuntypeKind, TplLitTypeItem};
use beff_core::{RuntypeName, RuntypeUUID};

fn uuid_key(u: &RuntypeUUID) -> String {
    let base = match &u.ty {
        RuntypeName::Address(a) => format!("{}::{}", a.file.as_str(), a.name),
        RuntypeName::BuiltIn(b) => format!("builtin::{}", b),
        RuntypeName::EnumItem { address, member_name } => format!("{}::{}.{}", address.file.as_str(), address.name, member_name),
        RuntypeName::SemtypeRecursiveGenerated(n) => format!("generated::{}", n),
    };
    if u.type_arguments.is_empty() {
        base
    } else {
        format!("{}<{}>", base, u.type_arguments.iter().map(|a| ir_json(a).to_string()).collect::<Vec<_>>().join(","))
    }
}
fn tpl_item_json(i: &TplLitTypeItem) -> Value {
    match i {
        TplLitTypeItem::String => json!(["string"]),
        TplLitTypeItem::Number => json!(["number"]),
        TplLitTypeItem::Boolean => json!(["boolean"]),
        TplLitTypeItem::StringConst(s) => json!(["const", s]),
        TplLitTypeItem::OneOf(vs) => json!(["oneof", vs.iter().map(tpl_item_json).collect::<Vec<_>>()]),
    }
}
fn opt_json(o: &Optionality<Runtype>) -> Value {
    json!([o.is_required(), ir_json(o.inner())])
}
fn ir_json(r: &Runtype) -> Value {
    let k = match &r.kind {
        RuntypeKind::Null => json!(["Null"]),
        RuntypeKind::Undefined => json!(["Undefined"]),
        RuntypeKind::Void => json!(["Void"]),
        RuntypeKind::Boolean => json!(["Boolean"]),
        RuntypeKind::String => json!(["String"]),
        RuntypeKind::Number => json!(["Number"]),
        RuntypeKind::Any => json!(["Any"]),
        RuntypeKind::AnyArrayLike => json!(["AnyArrayLike"]),
        RuntypeKind::StringWithFormat(f) => json!(["StringFmt", f.0, f.1]),
        RuntypeKind::NumberWithFormat(f) => json!(["NumberFmt", f.0, f.1]),
        RuntypeKind::TplLitType(t) => json!(["Tpl", t.0.iter().map(tpl_item_json).collect::<Vec<_>>(), t.describe(), t.regex_expr()]),
        RuntypeKind::Object { vs, indexed_properties } => json!([
            "Object",
            vs.iter().map(|(k, v)| json!([k, opt_json(v)])).collect::<Vec<_>>(),
            indexed_properties.as_ref().map(|ip| json!([ir_json(&ip.key), opt_json(&ip.value)]))
        ]),
        RuntypeKind::Array(t) => json!(["Array", ir_json(t)]),
        RuntypeKind::Tuple { prefix_items, items } => json!([
            "Tuple",
            prefix_items.iter().map(ir_json).collect::<Vec<_>>(),
            items.as_ref().map(|t| ir_json(t))
        ]),
        RuntypeKind::Ref(u) => json!(["Ref", uuid_key(u)]),
        RuntypeKind::AnyOf(vs) => json!(["AnyOf", vs.iter().map(ir_json).collect::<Vec<_>>()]),
        RuntypeKind::AllOf(vs) => json!(["AllOf", vs.iter().map(ir_json).collect::<Vec<_>>()]),
        RuntypeKind::Const(c) => match c {
            RuntypeConst::Bool(b) => json!(["Const", b]),
            RuntypeConst::Number(n) => json!(["Const", {"n": n.to_serde()}]),
        },
        RuntypeKind::Never => json!(["Never"]),
        RuntypeKind::StNot(t) => json!(["StNot", ir_json(t)]),
        RuntypeKind::Function => json!(["Function"]),
        RuntypeKind::Date => json!(["Date"]),
        RuntypeKind::BigInt => json!(["BigInt"]),
        RuntypeKind::TypedArray(k) => json!(["TypedArray", k.js_name()]),
        RuntypeKind::Map(k, v) => json!(["Map", ir_json(k), ir_json(v)]),
        RuntypeKind::Set(t) => json!(["Set", ir_json(t)]),
    };
    match &r.metadata.description {
        Some(d) => json!(["Meta", d, k]),
        None => k,
    }
}

fn once(job: &Value) -> Value {
    let files: Vec<(String, String)> = job["files"]
        .as_array()
        .unwrap()
        .iter()
        .map(|f| (f[0].as_str().unwrap().to_string(), f[1].as_str().unwrap().to_string()))
        .collect();
    let strs = |v: &Value| -> Vec<String> {
        v.as_array().map(|a| a.iter().map(|s| s.as_str().unwrap().to_string()).collect()).unwrap_or_default()
    };
    let settings = BeffUserSettings {
        string_formats: strs(&job["string_formats"]).into_iter().collect(),
        number_formats: strs(&job["number_formats"]).into_iter().collect(),
    };
    let entry = job["entry"].as_str().unwrap_or("entry.ts").to_string();
    let lazy = job["lazy"].as_bool().unwrap_or(false);
    let result = panic::catch_unwind(move || {
        GLOBALS.set(&Globals::new(), || {
            let mut man = Manager {
                texts: files.iter().cloned().collect(),
                parsed: BTreeMap::new(),
                parse_errors: vec![],
            };
            if !lazy {
                // register (parse) every file up front, in the given order
                for (name, _) in &files {
                    man.parse(&BffFileName::new(name.clone()));
                }
            }
            let res = beff_core::extract(
                &mut man,
                EntryPoints { parser_entry_point: BffFileName::new(entry.clone()), settings },
            );
            let mut diags = vec![];
            for d in &res.errors {
                let (file, lo, hi, olo, ohi) = match &d.loc {
                    Location::Full(f) => (
                        f.file_name.as_str().to_string(),
                        json!({"line": f.loc_lo.line, "col": f.loc_lo.col.0}),
                        json!({"line": f.loc_hi.line, "col": f.loc_hi.col.0}),
                        json!(f.offset_lo),
                        json!(f.offset_hi),
                    ),
                    Location::Unknown(u) => (u.current_file.as_str().to_string(), Value::Null, Value::Null, Value::Null, Value::Null),
                };
                diags.push(json!({"message": d.message.to_string(), "file": file, "lo": lo, "hi": hi,
                                  "offset_lo": olo, "offset_hi": ohi}));
            }
            let parse_errors: Vec<Value> = man.parse_errors.iter().map(|(f, e)| json!({"file": f, "error": e})).collect();
            let has_errors = !res.errors.is_empty();
            let ir = if has_errors { None } else { Some(res.debug_print()) };
            let named_ir: Vec<Value> = res.validators.iter().map(|v| json!([uuid_key(&v.name), ir_json(&v.schema)])).collect();
            let decoders_ir: Vec<Value> = res
                .built_decoders
                .as_ref()
                .map(|d| d.iter().map(|b| json!([b.exported_name, ir_json(&b.schema)])).collect())
                .unwrap_or_default();
            let decoders = res.built_decoders.as_ref().map(|d| d.iter().map(|b| b.exported_name.clone()).collect::<Vec<_>>());
            let code = if has_errors {
                None
            } else {
                match res.emit_code() {
                    Ok(c) => Some(Ok(c)),
                    Err(e) => Some(Err(e.to_string())),
                }
            };
            json!({
                "outcome": if has_errors { "diagnostics" } else { match &code { Some(Ok(_)) => "code", _ => "emit_error" } },
                "diags": diags,
                "parse_errors": parse_errors,
                "ir": ir,
                "named_ir": named_ir,
                "decoders_ir": decoders_ir,
                "decoders": decoders,
                "code": match &code { Some(Ok(c)) => json!(c), _ => Value::Null },
                "emit_error": match &code { Some(Err(e)) => json!(e), _ => Value::Null },
            })
        })
    });
    match result {
        Ok(v) => v,
        Err(_) => json!({"outcome": "panic"}),
    }
}

fn main() {
    let mut input = String::new();
    std::io::stdin().read_to_string(&mut input).unwrap();
    let job: Value = serde_json::from_str(&input).expect("job");
    panic::set_hook(Box::new(|info| {
        let loc = info.location().map(|l| format!("{}:{}", l.file(), l.line())).unwrap_or_default();
        let msg = info
            .payload()
            .downcast_ref::<String>()
            .cloned()
            .or_else(|| info.payload().downcast_ref::<&str>().map(|s| s.to_string()))
            .unwrap_or_default();
        eprintln!("@@PANIC {} {}", loc, msg.replace('\n', " "));
    }));
    // "repeat": compile the same project several times in this one process (the last time on a new thread):
    // the outputs must not depend on what the process compiled before
    let repeat = job["repeat"].as_u64().unwrap_or(1).max(1);
    let mut first = once(&job);
    if repeat > 1 {
        let key = |v: &Value| json!([v["outcome"], v["code"], v["diags"]]).to_string();
        let k0 = key(&first);
        let mut differs = Value::Null;
        for i in 1..repeat {
            let v = if i + 1 == repeat {
                let j2 = job.clone();
                std::thread::Builder::new().stack_size(64 * 1024 * 1024).spawn(move || once(&j2)).unwrap().join().unwrap_or(json!({"outcome": "panic"}))
            } else {
                once(&job)
            };
            if differs.is_null() && key(&v) != k0 {
                differs = json!({"run": i, "outcome": v["outcome"], "code": v["code"], "diags": v["diags"]});
            }
        }
        first["repeat_differs"] = differs;
    }
    println!("{}", first);
}
