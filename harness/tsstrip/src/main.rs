// Strip TypeScript-only syntax from a .ts file and print JavaScript (ESM).
use swc_common::{sync::Lrc, FileName, SourceMap, DUMMY_SP};
use swc_ecma_ast::*;
use swc_ecma_codegen::{text_writer::JsWriter, Config, Emitter};
use swc_ecma_parser::{parse_file_as_module, Syntax, TsSyntax};
use swc_ecma_visit::{VisitMut, VisitMutWith};

struct Strip;

fn unwrap_ts(e: &mut Expr) {
    loop {
        let inner = match e {
            Expr::TsAs(x) => Some(std::mem::replace(&mut *x.expr, Expr::Invalid(Invalid { span: DUMMY_SP }))),
            Expr::TsNonNull(x) => Some(std::mem::replace(&mut *x.expr, Expr::Invalid(Invalid { span: DUMMY_SP }))),
            Expr::TsTypeAssertion(x) => Some(std::mem::replace(&mut *x.expr, Expr::Invalid(Invalid { span: DUMMY_SP }))),
            Expr::TsConstAssertion(x) => Some(std::mem::replace(&mut *x.expr, Expr::Invalid(Invalid { span: DUMMY_SP }))),
            Expr::TsSatisfies(x) => Some(std::mem::replace(&mut *x.expr, Expr::Invalid(Invalid { span: DUMMY_SP }))),
            Expr::TsInstantiation(x) => Some(std::mem::replace(&mut *x.expr, Expr::Invalid(Invalid { span: DUMMY_SP }))),
            _ => None,
        };
        match inner {
            Some(i) => { *e = Expr::Paren(ParenExpr { span: DUMMY_SP, expr: Box::new(i) }); if let Expr::Paren(p) = e { unwrap_ts(&mut p.expr); } return; }
            None => return,
        }
    }
}

impl VisitMut for Strip {
    fn visit_mut_expr(&mut self, e: &mut Expr) {
        unwrap_ts(e);
        e.visit_mut_children_with(self);
    }
    fn visit_mut_module_items(&mut self, items: &mut Vec<ModuleItem>) {
        items.retain_mut(|it| match it {
            ModuleItem::Stmt(Stmt::Decl(Decl::TsInterface(_) | Decl::TsTypeAlias(_))) => false,
            ModuleItem::ModuleDecl(ModuleDecl::ExportDecl(ExportDecl { decl: Decl::TsInterface(_) | Decl::TsTypeAlias(_), .. })) => false,
            ModuleItem::ModuleDecl(ModuleDecl::Import(i)) => {
                if i.type_only { return false; }
                let had = !i.specifiers.is_empty();
                i.specifiers.retain(|s| match s { ImportSpecifier::Named(n) => !n.is_type_only, _ => true });
                !(had && i.specifiers.is_empty())
            }
            ModuleItem::ModuleDecl(ModuleDecl::ExportNamed(e)) => {
                if e.type_only { return false; }
                e.specifiers.retain(|s| match s { ExportSpecifier::Named(n) => !n.is_type_only, _ => true });
                true
            }
            _ => true,
        });
        items.visit_mut_children_with(self);
    }
    fn visit_mut_stmts(&mut self, items: &mut Vec<Stmt>) {
        items.retain(|it| !matches!(it, Stmt::Decl(Decl::TsInterface(_) | Decl::TsTypeAlias(_))));
        items.visit_mut_children_with(self);
    }
    fn visit_mut_class(&mut self, c: &mut Class) {
        c.is_abstract = false;
        c.implements.clear();
        c.type_params = None;
        c.super_type_params = None;
        c.body.retain(|m| match m {
            ClassMember::Method(m) => m.function.body.is_some() && !m.is_abstract,
            ClassMember::ClassProp(p) => !p.declare && !p.is_abstract,
            ClassMember::TsIndexSignature(_) => false,
            ClassMember::Constructor(c) => c.body.is_some(),
            _ => true,
        });
        c.visit_mut_children_with(self);
    }
    fn visit_mut_class_prop(&mut self, p: &mut ClassProp) {
        p.type_ann = None; p.accessibility = None; p.readonly = false; p.is_override = false; p.is_optional = false; p.definite = false;
        p.visit_mut_children_with(self);
    }
    fn visit_mut_private_prop(&mut self, p: &mut PrivateProp) {
        p.type_ann = None; p.accessibility = None; p.readonly = false; p.is_override = false; p.is_optional = false; p.definite = false;
        p.visit_mut_children_with(self);
    }
    fn visit_mut_class_method(&mut self, m: &mut ClassMethod) {
        m.accessibility = None; m.is_override = false; m.is_optional = false;
        m.visit_mut_children_with(self);
    }
    fn visit_mut_constructor(&mut self, c: &mut Constructor) {
        c.accessibility = None;
        for p in c.params.iter() { if let ParamOrTsParamProp::TsParamProp(_) = p { panic!("parameter properties unsupported"); } }
        c.visit_mut_children_with(self);
    }
    fn visit_mut_function(&mut self, f: &mut Function) {
        f.type_params = None; f.return_type = None;
        f.params.retain(|p| !matches!(&p.pat, Pat::Ident(i) if &*i.id.sym == "this"));
        f.visit_mut_children_with(self);
    }
    fn visit_mut_arrow_expr(&mut self, f: &mut ArrowExpr) {
        f.type_params = None; f.return_type = None;
        f.visit_mut_children_with(self);
    }
    fn visit_mut_binding_ident(&mut self, b: &mut BindingIdent) { b.type_ann = None; b.id.optional = false; }
    fn visit_mut_array_pat(&mut self, p: &mut ArrayPat) { p.type_ann = None; p.optional = false; p.visit_mut_children_with(self); }
    fn visit_mut_object_pat(&mut self, p: &mut ObjectPat) { p.type_ann = None; p.optional = false; p.visit_mut_children_with(self); }
    fn visit_mut_rest_pat(&mut self, p: &mut RestPat) { p.type_ann = None; p.visit_mut_children_with(self); }
    fn visit_mut_call_expr(&mut self, c: &mut CallExpr) { c.type_args = None; c.visit_mut_children_with(self); }
    fn visit_mut_new_expr(&mut self, c: &mut NewExpr) { c.type_args = None; c.visit_mut_children_with(self); }
    fn visit_mut_opt_call(&mut self, c: &mut OptCall) { c.type_args = None; c.visit_mut_children_with(self); }
    fn visit_mut_tagged_tpl(&mut self, c: &mut TaggedTpl) { c.type_params = None; c.visit_mut_children_with(self); }
    fn visit_mut_var_declarator(&mut self, v: &mut VarDeclarator) { v.definite = false; v.visit_mut_children_with(self); }
}

struct Uses(std::collections::HashSet<String>);
impl swc_ecma_visit::Visit for Uses {
    fn visit_ident(&mut self, i: &Ident) { self.0.insert(i.sym.to_string()); }
    fn visit_import_decl(&mut self, _: &ImportDecl) {}
}
fn value_exports(path: &std::path::Path) -> std::collections::HashSet<String> {
    let mut out = std::collections::HashSet::new();
    let src = match std::fs::read_to_string(path) { Ok(s) => s, Err(_) => return out };
    let cm: Lrc<SourceMap> = Default::default();
    let fm = cm.new_source_file(FileName::Custom(path.display().to_string()).into(), src);
    let mut errs = vec![];
    let module = parse_file_as_module(&fm, Syntax::Typescript(TsSyntax::default()), EsVersion::latest(), None, &mut errs).expect("parse dep");
    for it in &module.body {
        if let ModuleItem::ModuleDecl(ModuleDecl::ExportDecl(e)) = it {
            match &e.decl {
                Decl::Class(c) => { out.insert(c.ident.sym.to_string()); }
                Decl::Fn(f) => { out.insert(f.ident.sym.to_string()); }
                Decl::Var(v) => for d in &v.decls { if let Pat::Ident(i) = &d.name { out.insert(i.id.sym.to_string()); } },
                _ => {}
            }
        }
        if let ModuleItem::ModuleDecl(ModuleDecl::ExportNamed(e)) = it {
            if e.type_only { continue; }
            if let Some(src) = &e.src {
                let dep = path.parent().unwrap().join(src.value.to_string_lossy().replace(".js", ".ts"));
                let depv = value_exports(&dep);
                for s in &e.specifiers { if let ExportSpecifier::Named(n) = s { if n.is_type_only { continue; }
                    let orig = match &n.orig { ModuleExportName::Ident(i) => i.sym.to_string(), ModuleExportName::Str(s) => s.value.to_string_lossy().to_string() };
                    let exported = match &n.exported { Some(ModuleExportName::Ident(i)) => i.sym.to_string(), Some(ModuleExportName::Str(s)) => s.value.to_string_lossy().to_string(), None => orig.clone() };
                    if depv.contains(&orig) { out.insert(exported); } } }
            }
        }
    }
    out
}
fn main() {
    let path = std::env::args().nth(1).expect("path");
    let src = std::fs::read_to_string(&path).expect("read");
    let cm: Lrc<SourceMap> = Default::default();
    let fm = cm.new_source_file(FileName::Custom(path.clone()).into(), src);
    let mut errs = vec![];
    let mut module = parse_file_as_module(&fm, Syntax::Typescript(TsSyntax::default()), EsVersion::latest(), None, &mut errs).expect("parse");
    module.visit_mut_with(&mut Strip);
    {
        use swc_ecma_visit::VisitWith;
        let mut uses = Uses(Default::default());
        module.visit_with(&mut uses);
        let base = std::path::Path::new(&path).parent().unwrap().to_path_buf();
        module.body.retain_mut(|it| match it {
            ModuleItem::ModuleDecl(ModuleDecl::Import(i)) => {
                let had = !i.specifiers.is_empty();
                i.specifiers.retain(|s| { let l = match s { ImportSpecifier::Named(n) => &n.local, ImportSpecifier::Default(n) => &n.local, ImportSpecifier::Namespace(n) => &n.local }; uses.0.contains(&l.sym.to_string()) });
                !(had && i.specifiers.is_empty())
            }
            ModuleItem::ModuleDecl(ModuleDecl::ExportNamed(e)) if e.src.is_some() => {
                let dep = base.join(e.src.as_ref().unwrap().value.to_string_lossy().replace(".js", ".ts"));
                let depv = value_exports(&dep);
                e.specifiers.retain(|s| match s { ExportSpecifier::Named(n) => { let orig = match &n.orig { ModuleExportName::Ident(i) => i.sym.to_string(), ModuleExportName::Str(s) => s.value.to_string_lossy().to_string() }; depv.contains(&orig) } _ => true });
                !e.specifiers.is_empty()
            }
            _ => true,
        });
    }
    let mut buf = vec![];
    {
        let mut emitter = Emitter { cfg: Config::default(), cm: cm.clone(), comments: None, wr: JsWriter::new(cm.clone(), "\n", &mut buf, None) };
        emitter.emit_module(&module).expect("emit");
    }
    print!("{}", String::from_utf8(buf).unwrap());
}
