// Canonical text syntax for JavaScript values, shared with the Coq model (Model/JsValue.v show_val)
// and the Python generators (tools/vals.py).
//   u n t f  #<number>  "<str>"  B<int>  S  F  D<ms>  R  [a,b]  {"k":v}  M[k:v,...]  E[a,b]  Y<Kind>[1,2]

import { types as T } from "node:util";

const TYPED = {
  Uint8Array, Uint8ClampedArray, Uint16Array, Uint32Array, Int8Array, Int16Array, Int32Array,
  Float32Array, Float64Array, BigInt64Array, BigUint64Array,
};

export function parseVal(text) {
  let i = 0;
  const peek = () => text[i];
  const expect = (c) => {
    if (text[i] !== c) throw new Error(`canon: expected ${c} at ${i} in ${text}`);
    i++;
  };
  const str = () => {
    expect('"');
    let out = "";
    while (text[i] !== '"') {
      if (text[i] === "\\") {
        i++;
      }
      out += text[i++];
    }
    i++;
    return out;
  };
  const list = (close, item) => {
    const out = [];
    if (peek() === close) {
      i++;
      return out;
    }
    for (;;) {
      out.push(item());
      if (peek() === ",") {
        i++;
        continue;
      }
      expect(close);
      return out;
    }
  };
  const int = () => {
    let s = "";
    while (/[-0-9]/.test(text[i] ?? "")) s += text[i++];
    return s;
  };
  const val = () => {
    const c = text[i++];
    switch (c) {
      case "u":
        return undefined;
      case "n":
        return null;
      case "t":
        return true;
      case "f":
        return false;
      case "#": {
        let s = "";
        while (/[-+0-9.eA-Za-z]/.test(text[i] ?? "")) s += text[i++];
        if (s === "NaN") return NaN;
        if (s === "-0") return -0;
        if (s === "Infinity") return Infinity;
        if (s === "-Infinity") return -Infinity;
        return Number(s);
      }
      case '"':
        i--;
        return str();
      case "B":
        return BigInt(int());
      case "S":
        return Symbol.for("verif");
      case "F":
        return function verifFn() {};
      case "D":
        return new Date(Number(int()));
      case "R":
        return new RegExp("");
      case "[":
        return list("]", val);
      case "{": {
        const o = {};
        const kvs = list("}", () => {
          const k = str();
          expect(":");
          return [k, val()];
        });
        for (const [k, v] of kvs) {
          Object.defineProperty(o, k, { value: v, enumerable: true, writable: true, configurable: true });
        }
        return o;
      }
      case "M": {
        expect("[");
        return new Map(
          list("]", () => {
            const k = val();
            expect(":");
            return [k, val()];
          }),
        );
      }
      case "E":
        expect("[");
        return new Set(list("]", val));
      case "Y": {
        let name = "";
        while (text[i] !== "[") name += text[i++];
        i++;
        const items = list("]", int);
        const ctor = TYPED[name];
        return name.startsWith("Big") ? new ctor(items.map((x) => BigInt(x))) : new ctor(items.map(Number));
      }
    }
    throw new Error(`canon: bad char ${c} at ${i - 1} in ${text}`);
  };
  const v = val();
  if (i !== text.length) throw new Error(`canon: trailing input at ${i} in ${text}`);
  return v;
}

const esc = (s) => '"' + s.replace(/\\/g, "\\\\").replace(/"/g, '\\"') + '"';

export function showNum(n) {
  if (Number.isNaN(n)) return "NaN";
  if (Object.is(n, -0)) return "-0";
  return String(n);
}

export function showVal(v, depth = 0) {
  if (depth > 200) return "<deep>";
  if (v === undefined) return "u";
  if (v === null) return "n";
  switch (typeof v) {
    case "boolean":
      return v ? "t" : "f";
    case "number":
      return "#" + showNum(v);
    case "string":
      return esc(v);
    case "bigint":
      return "B" + v.toString();
    case "symbol":
      return "S";
    case "function":
      return "F";
  }
  if (T.isDate(v)) return "D" + v.getTime();
  if (T.isRegExp(v)) return "R";
  if (Array.isArray(v)) return "[" + Array.from(v, (x) => showVal(x, depth + 1)).join(",") + "]";
  if (T.isMap(v))
    return "M[" + [...v].map(([k, x]) => showVal(k, depth + 1) + ":" + showVal(x, depth + 1)).join(",") + "]";
  if (T.isSet(v)) return "E[" + [...v].map((x) => showVal(x, depth + 1)).join(",") + "]";
  if (T.isTypedArray(v)) return "Y" + v.constructor.name + "[" + Array.from(v, (x) => x.toString()).join(",") + "]";
  const proto = Object.getPrototypeOf(v);
  // a replaced prototype is printed as the pseudo-entry "<proto>" (same convention as Model/Parse.v obj_assign)
  const entries = Object.keys(v).map((k) => esc(k) + ":" + showVal(v[k], depth + 1));
  if (proto !== Object.prototype) entries.unshift(esc("<proto>") + ":" + showVal(proto, depth + 1));
  return "{" + entries.join(",") + "}";
}

export function deepFreeze(v, seen = new Set()) {
  if (v === null || (typeof v !== "object" && typeof v !== "function")) return v;
  if (seen.has(v)) return v;
  seen.add(v);
  if (ArrayBuffer.isView(v)) return v; // cannot freeze views with elements
  if (v instanceof Map) {
    for (const [k, x] of v) {
      deepFreeze(k, seen);
      deepFreeze(x, seen);
    }
  } else if (v instanceof Set) {
    for (const x of v) deepFreeze(x, seen);
  } else {
    for (const k of Object.keys(v)) deepFreeze(v[k], seen);
  }
  Object.freeze(v);
  return v;
}
