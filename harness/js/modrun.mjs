// Runs generated parser modules (emit_code output assembled as bundle-to-disk.ts does) against the stripped client.
// usage: node modrun.mjs <client-root> < jobs.jsonl
// job: {"id", "code": <emit_code text>, "glue": <bundled-code/codegen-v2.js text>, "sformats": [...], "nformats": [...], "ops": [...]}
import * as readline from "node:readline";
import * as path from "node:path";
import * as fs from "node:fs";
import { createHash } from "node:crypto";
import { pathToFileURL } from "node:url";
import { parseVal, showVal, showNum, deepFreeze } from "./canon.mjs";

const root = process.argv[2];
const genDir = path.join(root, "gen");
fs.mkdirSync(genDir, { recursive: true });
const C = await import(pathToFileURL(path.join(root, "node_modules/@beff/client/dist/codegen-v2.js")).href);

const FORMATS = {
  string: { nonempty: (s) => s.length > 0, short: (s) => s.length <= 3 },
  number: { nonneg: (n) => n >= 0, even: (n) => Number.isInteger(n) && n % 2 === 0 },
};

function classify(e) {
  const m = String(e && e.message);
  if (e instanceof TypeError && /is not a function/.test(m)) return "!NotFunction";
  if (e instanceof TypeError && /BigInt/.test(m)) return "!StringifyBigInt";
  if (e instanceof TypeError && /^Cannot convert/.test(m)) return "!CannotConvert";
  if (/^INTERNAL ERROR/.test(m)) return "!Internal";
  if (m === "unreachable") return "!Unreachable";
  if (/^Failed to parse /.test(m)) return "!ParseFailure";
  if (/^Failed to print schema/.test(m)) return "!SchemaUnsupported";
  if (e instanceof RangeError) return "!StackOverflow";
  return "!Other:" + (e && e.constructor && e.constructor.name) + ":" + m.slice(0, 160);
}

const cstJson = (v) => (typeof v === "number" ? { n: showNum(v) } : v);

// structural dump of a constructed validator, in the syntax of tools/lib/vals.py rt_json
function dump(r, depth = 0) {
  if (depth > 60) return ["TooDeep"];
  const md = r.metadata && r.metadata.description != null ? r.metadata.description : null;
  const wrap = (x) => (md == null ? x : ["Meta", md, x]);
  const d = (x) => dump(x, depth + 1);
  if (r instanceof C.OptionalFieldRuntype) return ["Optional", d(r.t)];
  if (r instanceof C.BaseRefRuntype) return wrap(["Ref", r.refName]);
  if (r instanceof C.TypeofRuntype) return wrap(["Typeof", r.typeName]);
  if (r instanceof C.AnyRuntype) return wrap(["Any"]);
  if (r instanceof C.NullishRuntype) return wrap(["Nullish", r.description]);
  if (r instanceof C.NeverRuntype) return wrap(["Never"]);
  if (r instanceof C.ConstRuntype) return wrap(["Const", cstJson(r.value)]);
  if (r instanceof C.RegexRuntype) return wrap(["Regex", r.regex.source, r.description]);
  if (r instanceof C.DateRuntype) return wrap(["Date"]);
  if (r instanceof C.BigIntRuntype) return wrap(["BigInt"]);
  if (r instanceof C.TypedArrayRuntype) return wrap(["TypedArray", r.ctorName]);
  if (r instanceof C.StringWithFormatRuntype) return wrap(["StringFmt", r.formats]);
  if (r instanceof C.NumberWithFormatRuntype) return wrap(["NumberFmt", r.formats]);
  if (r instanceof C.AnyOfConstsRuntype) return wrap(["AnyOfConsts", r.values.map(cstJson)]);
  if (r instanceof C.TupleRuntype) return wrap(["Tuple", r.prefix.map(d), r.rest == null ? null : d(r.rest)]);
  if (r instanceof C.AllOfRuntype) return wrap(["AllOf", r.schemas.map(d)]);
  if (r instanceof C.AnyOfRuntype) return wrap(["AnyOf", r.schemas.map(d)]);
  if (r instanceof C.ArrayRuntype) return wrap(["Array", d(r.itemParser)]);
  if (r instanceof C.MapRuntype) return wrap(["Map", d(r.keyParser), d(r.valueParser)]);
  if (r instanceof C.SetRuntype) return wrap(["Set", d(r.itemParser)]);
  const table = (o) => {
    const out = Object.keys(o).map((k) => [k, d(o[k])]);
    const proto = Object.getPrototypeOf(o);
    if (proto !== Object.prototype) out.unshift(["<proto>", proto && typeof proto.validate === "function" ? d(proto) : ["Any"]]);
    return out;
  };
  if (r instanceof C.AnyOfDiscriminatedRuntype)
    return wrap(["Disc", r.schemas.map(d), r.discriminator, table(r.mapping), table(r.schemaMapping)]);
  if (r instanceof C.ObjectRuntype)
    return wrap(["Object", table(r.properties), r.indexedPropertiesParser.map((p) => [d(p.key), d(p.value)])]);
  return ["Unknown", String(r && r.constructor && r.constructor.name)];
}

function stable(j) {
  if (j === undefined) return "undefined";
  if (j === null || typeof j !== "object") return typeof j === "number" ? showNum(j) : JSON.stringify(j);
  if (Array.isArray(j)) return "[" + j.map(stable).join(",") + "]";
  return "{" + Object.keys(j).sort().map((k) => JSON.stringify(k) + ":" + stable(j[k])).join(",") + "}";
}

function runOp(parsers, mod, op) {
  if (op.op === "names") return JSON.stringify(Object.keys(parsers));
  if (op.op === "dumpNamed") {
    // the table of named types, through any reference
    return "n/a";
  }
  const p = parsers[op.parser];
  if (p == null) return "!NoSuchParser";
  const o = {};
  if (op.strict !== undefined) o.disallowExtraProperties = op.strict;
  if (op.order !== undefined) o.objectKeyOrder = op.order;
  switch (op.op) {
    case "validate":
      return showVal(p.validate(deepFreeze(parseVal(op.v)), o));
    case "hash256":
      return p.hash256();
    case "hash":
      return String(p.hash());
    case "describe":
      return p.describe();
    case "schema":
      return stable(p.schema());
    case "dump": {
      // follow the RefRuntype of buildParsersInput into the named table when asked
      const named = {};
      const seen = new Set();
      const walk = (r) => {
        if (r instanceof C.BaseRefRuntype) {
          const n = r.refName;
          if (!seen.has(n)) {
            seen.add(n);
            const t = r.getNamedRuntypes()[n];
            named[n] = t == null ? ["Missing"] : dump(t);
            if (t != null) walk(t);
          }
          return;
        }
        for (const c of r.describeChildren ? r.describeChildren() : []) walk(c);
        if (r instanceof C.AnyOfDiscriminatedRuntype) {
          for (const k of Object.keys(r.mapping)) walk(r.mapping[k]);
        }
      };
      walk(p._runtype);
      return JSON.stringify({ root: dump(p._runtype), named });
    }
  }
  return "!UnknownOp";
}

const rl = readline.createInterface({ input: process.stdin, crlfDelay: Infinity });
const out = [];
for await (const line of rl) {
  if (!line.trim()) continue;
  const job = JSON.parse(line);
  const res = { id: job.id, out: [] };
  try {
    const text = [
      job.glue,
      `const RequiredStringFormats = ${JSON.stringify(job.sformats ?? [])};`,
      `const RequiredNumberFormats = ${JSON.stringify(job.nformats ?? [])};`,
      job.code,
      "export default { buildParsers };",
    ].join("\n");
    const file = path.join(genDir, createHash("sha256").update(text).digest("hex").slice(0, 24) + ".mjs");
    if (!fs.existsSync(file)) {
      // several worker processes may be given the same text: write under a private name, then rename (atomic), so that nobody imports a half-written file
      const tmp = file + "." + process.pid + ".tmp";
      fs.writeFileSync(tmp, text);
      fs.renameSync(tmp, file);
    }
    const mod = (await import(pathToFileURL(file).href)).default;
    const sf = {}, nf = {};
    for (const k of job.sformats ?? []) sf[k] = FORMATS.string[k] ?? (() => true);
    for (const k of job.nformats ?? []) nf[k] = FORMATS.number[k] ?? (() => true);
    const parsers = mod.buildParsers({ stringFormats: sf, numberFormats: nf });
    res.loaded = true;
    for (const op of job.ops) {
      try {
        res.out.push(runOp(parsers, mod, op));
      } catch (e) {
        res.out.push(classify(e));
      }
    }
  } catch (e) {
    res.error = classify(e) + " :: " + String(e && e.stack).slice(0, 400);
  }
  out.push(JSON.stringify(res));
}
process.stdout.write(out.join("\n") + "\n");
