// Node driver: builds runtime validator trees from a JSON description and runs operations on them.
// usage: node driver.mjs <client-root> < jobs.jsonl > results.jsonl
// A job: {"id":..,"env":{name:rt},"rt":rt,"ops":[...]}  ->  {"id":..,"out":[string,...]}
import { createRequire } from "node:module";
import * as readline from "node:readline";
import * as path from "node:path";
import { createHash } from "node:crypto";
import { pathToFileURL } from "node:url";
import { parseVal, showVal, showNum, deepFreeze } from "./canon.mjs";

const root = process.argv[2];
const load = async (sub) =>
  import(pathToFileURL(path.join(root, "node_modules/@beff/client/dist", sub)).href);
const C = await load("codegen-v2.js");
const H = await load("hash.js");
const I = await load("index.js");

// the registered custom formats of the modelled stream (same definitions in Model/Cases.v)
C.registerStringFormatter("nonempty", (s) => s.length > 0);
C.registerStringFormatter("short", (s) => s.length <= 3);
C.registerNumberFormatter("nonneg", (n) => n >= 0);
C.registerNumberFormatter("even", (n) => Number.isInteger(n) && n % 2 === 0);

const cst = (c) => {
  if (c !== null && typeof c === "object") {
    const s = c.n;
    if (s === "NaN") return NaN;
    if (s === "-0") return -0;
    if (s === "Infinity") return Infinity;
    if (s === "-Infinity") return -Infinity;
    return Number(s);
  }
  return c;
};

function ownTable(pairs, f) {
  const o = {};
  for (const [k, v] of pairs) {
    Object.defineProperty(o, k, { value: f(v), enumerable: true, writable: true, configurable: true });
  }
  return o;
}

function build(desc, named, md) {
  const b = (d) => build(d, named, undefined);
  const [tag, ...a] = desc;
  switch (tag) {
    case "Meta":
      return build(a[1], named, { description: a[0] });
    case "Typeof":
      return new C.TypeofRuntype(md, a[0]);
    case "Any":
      return new C.AnyRuntype(md);
    case "Nullish":
      return new C.NullishRuntype(md, a[0]);
    case "Never":
      return new C.NeverRuntype(md);
    case "Const":
      return new C.ConstRuntype(md, cst(a[0]));
    case "Regex":
      return new C.RegexRuntype(md, new RegExp(a[0]), a[1]);
    case "Date":
      return new C.DateRuntype(md);
    case "BigInt":
      return new C.BigIntRuntype(md);
    case "TypedArray":
      return new C.TypedArrayRuntype(md, a[0]);
    case "StringFmt":
      return new C.StringWithFormatRuntype(md, a[0]);
    case "NumberFmt":
      return new C.NumberWithFormatRuntype(md, a[0]);
    case "AnyOfConsts":
      return new C.AnyOfConstsRuntype(md, a[0].map(cst));
    case "Tuple":
      return new C.TupleRuntype(md, a[0].map(b), a[1] == null ? null : b(a[1]));
    case "AllOf":
      return new C.AllOfRuntype(md, a[0].map(b));
    case "AnyOf":
      return new C.AnyOfRuntype(md, a[0].map(b));
    case "Array":
      return new C.ArrayRuntype(md, b(a[0]));
    case "Map":
      return new C.MapRuntype(md, b(a[0]), b(a[1]));
    case "Set":
      return new C.SetRuntype(md, b(a[0]));
    case "Disc": {
      // the emitted module hoists structurally equal validators into one constant: the variants of one union share instances the same way
      const memo = new Map();
      const bs = (d) => {
        const k = JSON.stringify(d);
        if (!memo.has(k)) memo.set(k, b(d));
        return memo.get(k);
      };
      return new C.AnyOfDiscriminatedRuntype(md, a[0].map(bs), a[1], ownTable(a[2], bs), ownTable(a[3], bs));
    }
    case "Optional":
      return new C.OptionalFieldRuntype(b(a[0]));
    case "Object":
      return new C.ObjectRuntype(
        md,
        ownTable(a[0], b),
        a[1].map(([k, v]) => ({ key: b(k), value: b(v) })),
      );
    case "Ref": {
      class RefRuntype extends C.BaseRefRuntype {
        getNamedRuntypes() {
          return named;
        }
      }
      return new RefRuntype(md, a[0]);
    }
  }
  throw new Error("driver: unknown rt tag " + tag);
}

function classify(e) {
  const m = String(e && e.message);
  if (e instanceof TypeError && /is not a function/.test(m)) return "!NotFunction";
  if (e instanceof TypeError && /BigInt/.test(m)) return "!StringifyBigInt";
  if (e instanceof TypeError && /^Cannot convert/.test(m)) return "!CannotConvert";
  if (/^INTERNAL ERROR/.test(m)) return "!Internal";
  if (m === "unreachable") return "!Unreachable";
  if (/^Failed to parse /.test(m)) return "!ParseFailure";
  if (/^Failed to print schema/.test(m)) return "!SchemaUnsupported";
  if (e instanceof RangeError) return "!StackOverflow";
  return "!Other:" + (e && e.constructor && e.constructor.name) + ":" + m.slice(0, 120);
}

const esc = (s) => '"' + s.replace(/\\/g, "\\\\").replace(/"/g, '\\"') + '"';
const showPath = (p) => "[" + p.map(esc).join(",") + "]";
function showErr(e) {
  if ("isUnionError" in e) {
    return "U(" + showPath(e.path) + ";" + showVal(e.received) + ";[" + e.errors.map(showErr).join(",") + "])";
  }
  return "e(" + showPath(e.path) + ";" + esc(e.message) + ";" + showVal(e.received) + ")";
}

// JSON with sorted object keys (schemas are compared up to key order)
function stable(j) {
  if (j === undefined) return "undefined";
  if (j === null || typeof j !== "object") return typeof j === "number" ? showNum(j) : JSON.stringify(j);
  if (Array.isArray(j)) return "[" + j.map(stable).join(",") + "]";
  return (
    "{" +
    Object.keys(j)
      .sort()
      .map((k) => JSON.stringify(k) + ":" + stable(j[k]))
      .join(",") +
    "}"
  );
}

class RecordingWriter extends H.Hash256Writer {
  constructor() {
    super();
    this.rec = [];
  }
  updateBytes(data) {
    for (const b of data) this.rec.push(b);
    super.updateBytes(data);
  }
}
const hex = (bytes) => Array.from(bytes, (b) => b.toString(16).padStart(2, "0")).join("");
const unhex = (s) => Uint8Array.from(s.match(/../g) ?? [], (h) => parseInt(h, 16));

function opts(op) {
  const o = {};
  if (op.strict !== undefined) o.disallowExtraProperties = op.strict;
  if (op.order !== undefined) o.objectKeyOrder = op.order;
  return op.noopts ? undefined : o;
}

function runOp(parsers, named, op, rebuild) {
  const p = parsers[op.p ?? 0];
  switch (op.op) {
    case "validate": {
      const v = deepFreeze(parseVal(op.v));
      return showVal(p.validate(v, opts(op)));
    }
    case "safeParse": {
      const v = deepFreeze(parseVal(op.v));
      const before = showVal(v);
      const r = p.safeParse(v, opts(op));
      const after = showVal(v);
      const mut = before === after ? "" : "MUTATED;";
      if (r.success) return mut + "ok:" + showVal(r.data);
      return mut + "err:[" + r.errors.map(showErr).join(",") + "]";
    }
    case "parse": {
      const v = deepFreeze(parseVal(op.v));
      try {
        return "ok:" + showVal(p.parse(v, opts(op)));
      } catch (e) {
        const c = classify(e);
        if (c === "!ParseFailure") return c + ":" + e.message;
        throw e;
      }
    }
    case "parse2": {
      // idempotence: parse the parsed data again
      const v = parseVal(op.v);
      const d = p.parse(v, opts(op));
      return "ok:" + showVal(p.parse(d, opts(op)));
    }
    case "printErrors": {
      const v = parseVal(op.v);
      const r = p.safeParse(v, opts(op));
      if (r.success) return "ok";
      const m1 = I.printErrors(r.errors);
      const m2 = I.printErrors(r.errors);
      return (m1 === m2 ? "same:" : "DIFFERENT:") + m1;
    }
    case "schema":
      return stable(p.schema());
    case "hash":
      return String(p.hash());
    case "hash256":
      return p.hash256();
    case "describe":
      return p.describe();
    case "hash256rec": {
      // the byte stream written by hash256(), its digest by the writer, by node:crypto, and the public hash256()
      const w = new RecordingWriter();
      const ctx = { writer: w, active: new Map(), nextCycleId: 0 };
      w.updateTag("beff-hash256-v1");
      p._runtype.hash256(ctx);
      const bytes = Uint8Array.from(w.rec);
      return hex(bytes) + "|" + w.digestHex() + "|" + createHash("sha256").update(bytes).digest("hex") + "|" + p.hash256();
    }
    case "writer": {
      // raw write sequences through the streaming writer vs node:crypto
      const w = new H.Hash256Writer();
      const c = createHash("sha256");
      for (const h of op.writes) {
        const b = unhex(h);
        w.updateBytes(b);
        c.update(b);
      }
      return w.digestHex() + "|" + c.digest("hex");
    }
    case "ctxseq": {
      // a history of schemaWithContext calls on one context
      // op.overrides: { typeName: index of the parser whose validator replaces the named type's schema }
      const mk = (ps) =>
        new I.SchemaPrintingContext({
          refPathTemplate: op.template ?? "#/components/schemas/{name}",
          definitionContainerKey: op.container ?? null,
          ...(op.overrides == null
            ? {}
            : {
                namedTypeSchemaOverrides: Object.fromEntries(
                  Object.entries(op.overrides).map(([n, i]) => [n, ps[i]]),
                ),
              }),
        });
      const ctx = mk(parsers);
      const outs = [];
      for (const idx of op.calls) {
        try {
          outs.push(stable(parsers[idx].schemaWithContext(ctx)));
        } catch (e) {
          outs.push(classify(e));
        }
      }
      const line = outs.join(" ;; ") + " ==> " + stable(ctx.exportDefinitions());
      if (!op.fresh) return line;
      // the oracle of C16: each parser printed alone into a fresh context
      const fresh = {};
      for (const idx of new Set(op.calls)) {
        const ps = rebuild();
        const c = mk(ps);
        try {
          // newly built validator objects: nothing cached on instances by earlier calls can leak into the oracle
          const sch = ps[idx].schemaWithContext(c);
          fresh[idx] = { schema: JSON.parse(JSON.stringify(sch)), defs: JSON.parse(JSON.stringify(c.exportDefinitions())) };
        } catch (e) {
          fresh[idx] = { error: classify(e) };
        }
      }
      let raw;
      const rawOuts = [];
      const parsers2 = rebuild();
      const c2 = mk(parsers2);
      for (const idx of op.calls) {
        try {
          rawOuts.push(JSON.parse(JSON.stringify(parsers2[idx].schemaWithContext(c2))));
        } catch (e) {
          rawOuts.push({ __error: classify(e) });
        }
      }
      raw = { outs: rawOuts, defs: JSON.parse(JSON.stringify(c2.exportDefinitions())) };
      return JSON.stringify({ line, fresh, raw });
    }
    case "schemaRaw": {
      try {
        return JSON.stringify({ schema: p.schema() });
      } catch (e) {
        return JSON.stringify({ error: classify(e) });
      }
    }
  }
  throw new Error("driver: unknown op " + op.op);
}

const rl = readline.createInterface({ input: process.stdin, crlfDelay: Infinity });
const out = [];
for await (const line of rl) {
  if (!line.trim()) continue;
  const job = JSON.parse(line);
  const res = { id: job.id, out: [] };
  try {
    const rebuild = () => {
      const named = {};
      for (const [k, d] of Object.entries(job.env ?? {})) {
        Object.defineProperty(named, k, { value: null, enumerable: true, writable: true, configurable: true });
      }
      for (const [k, d] of Object.entries(job.env ?? {})) named[k] = build(d, named, undefined);
      const rts = job.rts ?? [job.rt];
      return rts.map((d, i) =>
        C.buildParserFromRuntype(build(d, named, undefined), (job.names ?? [])[i] ?? "T", job.hide ?? false),
      );
    };
    const parsers = rebuild();
    const named = null;
    for (const op of job.ops) {
      try {
        res.out.push(runOp(parsers, named, op, rebuild));
      } catch (e) {
        res.out.push(classify(e));
      }
    }
  } catch (e) {
    res.error = String(e && e.stack);
  }
  out.push(JSON.stringify(res));
}
process.stdout.write(out.join("\n") + "\n");
