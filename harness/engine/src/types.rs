// Type-level jobs: IR types as JSON (the syntax of harness/compile ir_json), converted with Runtype::to_sem_type in a fresh
// SemTypeContext; assignability decisions (C05) and materialisation of computed types (C07).
use beff_core::ast::json::N;
use beff_core::ast::runtype::{
    CustomFormat, IndexedProperty, Optionality, Runtype, RuntypeConst, RuntypeKind, TplLitType, TplLitTypeItem, TypedArrayKind,
};
use beff_core::subtyping::semtype::{SemType, SemTypeContext, SemTypeOps};
use beff_core::subtyping::to_schema::semtype_to_runtypes;
use beff_core::subtyping::ToSemType;
use beff_core::{BffFileName, NamedSchema, RuntypeName, RuntypeUUID, TypeAddress};
use serde_json::{json, Value};
use std::rc::Rc;

fn uuid_of(key: &str) -> RuntypeUUID {
    if let Some(n) = key.strip_prefix("generated::") {
        return RuntypeUUID { ty: RuntypeName::SemtypeRecursiveGenerated(n.parse().unwrap()), type_arguments: vec![] };
    }
    let (file, name) = key.split_once("::").unwrap_or(("entry.ts", key));
    RuntypeUUID {
        ty: RuntypeName::Address(TypeAddress { file: BffFileName::new(file.to_string()), name: name.to_string() }),
        type_arguments: vec![],
    }
}
fn uuid_key(u: &RuntypeUUID) -> String {
    match &u.ty {
        RuntypeName::Address(a) => format!("{}::{}", a.file.as_str(), a.name),
        RuntypeName::BuiltIn(b) => format!("builtin::{}", b),
        RuntypeName::EnumItem { address, member_name } => format!("{}::{}.{}", address.file.as_str(), address.name, member_name),
        RuntypeName::SemtypeRecursiveGenerated(n) => format!("generated::{}", n),
    }
}
fn strs(v: &Value) -> Vec<String> {
    v.as_array().unwrap().iter().map(|s| s.as_str().unwrap().to_string()).collect()
}
fn tpl_item_of(v: &Value) -> TplLitTypeItem {
    match v[0].as_str().unwrap() {
        "string" => TplLitTypeItem::String,
        "number" => TplLitTypeItem::Number,
        "boolean" => TplLitTypeItem::Boolean,
        "const" => TplLitTypeItem::StringConst(v[1].as_str().unwrap().to_string()),
        "oneof" => TplLitTypeItem::one_of(v[1].as_array().unwrap().iter().map(tpl_item_of).collect()),
        x => panic!("bad tpl item {x}"),
    }
}
fn tpl_item_json(i: &TplLitTypeItem) -> Value {
    match i {
        TplLitTypeItem::String => json!(["string"]),
        TplLitTypeItem::Number => json!(["number"]),
        TplLitTypeItem::Boolean => json!(["boolean"]),
        TplLitTypeItem::StringConst(s) => json!(["const", s]),
        TplLitTypeItem::OneOf(vs) => json!(["oneof", vs.iter().map(tpl_item_json).collect::<Vec<_>>()]),
    }
}
fn opt_of(v: &Value) -> Optionality<Runtype> {
    if v[0].as_bool().unwrap() {
        Optionality::Required(runtype_of(&v[1]))
    } else {
        Optionality::Optional(runtype_of(&v[1]))
    }
}
fn opt_json(o: &Optionality<Runtype>) -> Value {
    json!([o.is_required(), ir_json(o.inner())])
}
pub fn runtype_of(v: &Value) -> Runtype {
    let t = v[0].as_str().unwrap();
    let k = match t {
        "Null" => RuntypeKind::Null,
        "Undefined" => RuntypeKind::Undefined,
        "Void" => RuntypeKind::Void,
        "Boolean" => RuntypeKind::Boolean,
        "String" => RuntypeKind::String,
        "Number" => RuntypeKind::Number,
        "Any" => RuntypeKind::Any,
        "AnyArrayLike" => RuntypeKind::AnyArrayLike,
        "StringFmt" => RuntypeKind::StringWithFormat(CustomFormat(v[1].as_str().unwrap().to_string(), strs(&v[2]))),
        "NumberFmt" => RuntypeKind::NumberWithFormat(CustomFormat(v[1].as_str().unwrap().to_string(), strs(&v[2]))),
        "Tpl" => RuntypeKind::TplLitType(TplLitType(v[1].as_array().unwrap().iter().map(tpl_item_of).collect())),
        "Object" => RuntypeKind::Object {
            vs: v[1].as_array().unwrap().iter().map(|kv| (kv[0].as_str().unwrap().to_string(), opt_of(&kv[1]))).collect(),
            indexed_properties: if v[2].is_null() {
                None
            } else {
                Some(Box::new(IndexedProperty { key: runtype_of(&v[2][0]), value: opt_of(&v[2][1]) }))
            },
        },
        "Array" => RuntypeKind::Array(Box::new(runtype_of(&v[1]))),
        "Tuple" => RuntypeKind::Tuple {
            prefix_items: v[1].as_array().unwrap().iter().map(runtype_of).collect(),
            items: if v[2].is_null() { None } else { Some(Box::new(runtype_of(&v[2]))) },
        },
        "Ref" => RuntypeKind::Ref(uuid_of(v[1].as_str().unwrap())),
        "AnyOf" => RuntypeKind::AnyOf(v[1].as_array().unwrap().iter().map(runtype_of).collect()),
        "AllOf" => RuntypeKind::AllOf(v[1].as_array().unwrap().iter().map(runtype_of).collect()),
        "Const" => match &v[1] {
            Value::Bool(b) => RuntypeKind::Const(RuntypeConst::Bool(*b)),
            c => {
                let n = &c["n"];
                RuntypeKind::Const(RuntypeConst::Number(match n.as_i64() {
                    Some(i) => N::parse_int(i),
                    None => N::parse_f64(n.as_f64().unwrap()),
                }))
            }
        },
        "Never" => RuntypeKind::Never,
        "StNot" => RuntypeKind::StNot(Box::new(runtype_of(&v[1]))),
        "Function" => RuntypeKind::Function,
        "Date" => RuntypeKind::Date,
        "BigInt" => RuntypeKind::BigInt,
        "TypedArray" => RuntypeKind::TypedArray(
            TypedArrayKind::all().into_iter().find(|k| k.js_name() == v[1].as_str().unwrap()).expect("typed array kind"),
        ),
        "Map" => RuntypeKind::Map(Box::new(runtype_of(&v[1])), Box::new(runtype_of(&v[2]))),
        "Set" => RuntypeKind::Set(Box::new(runtype_of(&v[1]))),
        "Meta" => return runtype_of(&v[2]).with_description(v[1].as_str().unwrap().to_string()),
        x => panic!("bad ir tag {x}"),
    };
    Runtype::new(k)
}
pub fn ir_json(r: &Runtype) -> Value {
    let k = match &r.kind {
        RuntypeKind::Null => json!(["Null"]),
        RuntypeKind::Undefined => json!(["Undefined"]),
        RuntypeKind::Void => json!(["Void"]),
        RuntypeKind::Boolean => json!(["Boolean"]),
        RuntypeKind::String => json!(["String"]),
        RuntypeKind::Number => json!(["Number"]),
        RuntypeKind::Any => json!(["Any"]),
        RuntypeKind::AnyArrayLike => json!(["AnyArrayLike"]),
        RuntypeKind::StringWithFormat(f) => json!(["StringFmt", f.0, f.1]),
        RuntypeKind::NumberWithFormat(f) => json!(["NumberFmt", f.0, f.1]),
        RuntypeKind::TplLitType(t) => json!(["Tpl", t.0.iter().map(tpl_item_json).collect::<Vec<_>>(), t.describe(), t.regex_expr()]),
        RuntypeKind::Object { vs, indexed_properties } => json!([
            "Object",
            vs.iter().map(|(k, v)| json!([k, opt_json(v)])).collect::<Vec<_>>(),
            indexed_properties.as_ref().map(|ip| json!([ir_json(&ip.key), opt_json(&ip.value)]))
        ]),
        RuntypeKind::Array(t) => json!(["Array", ir_json(t)]),
        RuntypeKind::Tuple { prefix_items, items } => {
            json!(["Tuple", prefix_items.iter().map(ir_json).collect::<Vec<_>>(), items.as_ref().map(|t| ir_json(t))])
        }
        RuntypeKind::Ref(u) => json!(["Ref", uuid_key(u)]),
        RuntypeKind::AnyOf(vs) => json!(["AnyOf", vs.iter().map(ir_json).collect::<Vec<_>>()]),
        RuntypeKind::AllOf(vs) => json!(["AllOf", vs.iter().map(ir_json).collect::<Vec<_>>()]),
        RuntypeKind::Const(c) => match c {
            RuntypeConst::Bool(b) => json!(["Const", b]),
            RuntypeConst::Number(n) => json!(["Const", {"n": n.to_serde()}]),
        },
        RuntypeKind::Never => json!(["Never"]),
        RuntypeKind::StNot(t) => json!(["StNot", ir_json(t)]),
        RuntypeKind::Function => json!(["Function"]),
        RuntypeKind::Date => json!(["Date"]),
        RuntypeKind::BigInt => json!(["BigInt"]),
        RuntypeKind::TypedArray(k) => json!(["TypedArray", k.js_name()]),
        RuntypeKind::Map(k, v) => json!(["Map", ir_json(k), ir_json(v)]),
        RuntypeKind::Set(t) => json!(["Set", ir_json(t)]),
    };
    match &r.metadata.description {
        Some(d) => json!(["Meta", d, k]),
        None => k,
    }
}

fn named_of(job: &Value) -> Vec<NamedSchema> {
    job["named"]
        .as_array()
        .map(|a| a.iter().map(|kv| NamedSchema { name: uuid_of(kv[0].as_str().unwrap()), schema: runtype_of(&kv[1]) }).collect())
        .unwrap_or_default()
}

// a computed type: ["ty", ir] | ["diff", x, y] | ["intersect", x, y] | ["union", x, y] | ["keyof", x] | ["index", x, y]
fn eval_expr(e: &Value, named: &[&NamedSchema], ctx: &mut SemTypeContext) -> anyhow::Result<Rc<SemType>> {
    match e[0].as_str().unwrap() {
        "ty" => runtype_of(&e[1]).to_sem_type(named, ctx),
        "diff" => {
            let a = eval_expr(&e[1], named, ctx)?;
            let b = eval_expr(&e[2], named, ctx)?;
            a.diff(&b)
        }
        "intersect" => {
            let a = eval_expr(&e[1], named, ctx)?;
            let b = eval_expr(&e[2], named, ctx)?;
            a.intersect(&b)
        }
        "union" => {
            let a = eval_expr(&e[1], named, ctx)?;
            let b = eval_expr(&e[2], named, ctx)?;
            a.union(&b)
        }
        "keyof" => {
            let a = eval_expr(&e[1], named, ctx)?;
            ctx.keyof(a)
        }
        "index" => {
            let a = eval_expr(&e[1], named, ctx)?;
            let b = eval_expr(&e[2], named, ctx)?;
            ctx.indexed_access(a, b)
        }
        x => panic!("bad expr {x}"),
    }
}

fn errv<T>(r: anyhow::Result<T>, f: impl FnOnce(T) -> Value) -> Value {
    match r {
        Ok(t) => f(t),
        Err(e) => json!({"err": e.to_string()}),
    }
}

pub fn run(op: &str, job: &Value) -> Value {
    let named_owned = named_of(job);
    let named: Vec<&NamedSchema> = named_owned.iter().collect();
    match op {
        "ty_subtype" => {
            let mut ctx = SemTypeContext::new();
            let (ra, rb) = (runtype_of(&job["a"]), runtype_of(&job["b"]));
            let b_first = job["first"].as_str() == Some("b");
            let conv = (|| -> anyhow::Result<(Rc<SemType>, Rc<SemType>)> {
                if b_first {
                    let b = rb.to_sem_type(&named, &mut ctx)?;
                    let a = ra.to_sem_type(&named, &mut ctx)?;
                    Ok((a, b))
                } else {
                    let a = ra.to_sem_type(&named, &mut ctx)?;
                    let b = rb.to_sem_type(&named, &mut ctx)?;
                    Ok((a, b))
                }
            })();
            match conv {
                Err(e) => json!({"err": e.to_string()}),
                Ok((a, b)) => {
                    let order: Vec<&str> = job["order"].as_array().map(|o| o.iter().map(|s| s.as_str().unwrap()).collect())
                        .unwrap_or(vec!["a_sub_b", "b_sub_a", "same", "a_empty", "b_empty"]);
                    let mut out = serde_json::Map::new();
                    for q in order {
                        let r = match q {
                            "a_sub_b" => a.is_subtype(&b, &mut ctx),
                            "b_sub_a" => b.is_subtype(&a, &mut ctx),
                            "same" => a.is_same_type(&b, &mut ctx),
                            "a_empty" => a.is_empty(&mut ctx),
                            "b_empty" => b.is_empty(&mut ctx),
                            x => panic!("bad query {x}"),
                        };
                        out.insert(q.to_string(), errv(r, |v| json!(v)));
                    }
                    out.insert("sem_a".to_string(), crate::sem::semtype_json(&a));
                    out.insert("sem_b".to_string(), crate::sem::semtype_json(&b));
                    // the list atoms created by the conversion: index -> (prefix element types, rest type)
                    let lists: Vec<Value> = ctx.list_definitions.iter().enumerate().map(|(i, d)| match d {
                        Some(la) => json!([i, {"prefix": la.prefix_items.iter().map(|t| crate::sem::semtype_json(t)).collect::<Vec<_>>(),
                                               "items": crate::sem::semtype_json(&la.items)}]),
                        None => json!([i, null]),
                    }).collect();
                    out.insert("lists".to_string(), Value::Array(lists));
                    // the object atoms: index -> (fields in key order, has an index signature)
                    let mappings: Vec<Value> = ctx.mapping_definitions.iter().enumerate().map(|(i, d)| match d {
                        Some(ma) => json!([i, {"fields": ma.vs.iter().map(|(k, t)| json!([k, crate::sem::semtype_json(t)])).collect::<Vec<_>>(),
                                               "indexed": ma.indexed_properties.is_some(),
                                               "index": ma.indexed_properties.as_ref().map(|ip| json!([crate::sem::semtype_json(&ip.key), crate::sem::semtype_json(&ip.value)]))}]),
                        None => json!([i, null]),
                    }).collect();
                    out.insert("mappings".to_string(), Value::Array(mappings));
                    Value::Object(out)
                }
            }
        }
        "ty_materialize" => {
            let mut ctx = SemTypeContext::new();
            let st = match eval_expr(&job["expr"], &named, &mut ctx) {
                Ok(s) => s,
                Err(e) => return json!({"err": e.to_string()}),
            };
            let name = uuid_of("entry.ts::Out");
            let mut counter = 0usize;
            let (root, extra) = match semtype_to_runtypes(&mut ctx, &st, &name, &mut counter) {
                Ok(x) => x,
                Err(e) => return json!({"err": e.to_string(), "sem": crate::sem::semtype_json(&st)}),
            };
            // re-interpret the materialised type: a fresh conversion against the given named types plus the generated ones
            let mut all: Vec<NamedSchema> = named_owned.iter().map(|n| NamedSchema { name: n.name.clone(), schema: n.schema.clone() }).collect();
            let mut generated = vec![];
            for n in extra.iter() {
                generated.push(json!([uuid_key(&n.name), ir_json(&n.schema)]));
                all.push(NamedSchema { name: n.name.clone(), schema: n.schema.clone() });
            }
            all.push(NamedSchema { name: root.name.clone(), schema: root.schema.clone() });
            let all_refs: Vec<&NamedSchema> = all.iter().collect();
            let back = root.schema.to_sem_type(&all_refs, &mut ctx);
            let same = match &back {
                Ok(b) => errv(st.is_same_type(b, &mut ctx), |v| json!(v)),
                Err(e) => json!({"err": e.to_string()}),
            };
            let empty = errv(st.is_empty(&mut ctx), |v| json!(v));
            json!({"root": ir_json(&root.schema), "root_name": uuid_key(&root.name), "generated": generated, "same_type_after_reconversion": same,
                   "is_empty": empty, "sem": crate::sem::semtype_json(&st)})
        }
        _ => panic!("unknown op {op}"),
    }
}
