// SemType-level jobs: operands as JSON, operations of SemTypeOps.
//   semtype: {"all": u32, "data": [proper, ...]}
//   proper:  ["Boolean", b] | ["Number", allowed, [v..]] | ["String", allowed, [v..]] | ["TypedArray", allowed, [kind..]]
//            | ["VoidUndefined", allowed, ["Void"|"Undefined", ..]] | ["Mapping"|"List"|"Map"|"Set", bdd]
//   number value: ["Lit", i64] | ["Format", name, [args]]
//   string value: ["Tpl", [item..]] | ["Format", name, [args]]     item: "string"|"number"|"boolean"|["const", s]
use crate::{bdd_json, bdd_of};
use beff_core::ast::json::N;
use beff_core::ast::runtype::{CustomFormat, TplLitType, TplLitTypeItem, TypedArrayKind};
use beff_core::subtyping::semtype::{SemType, SemTypeOps};
use beff_core::subtyping::subtype::{
    NumberRepresentationOrFormat, ProperSubtype, StringLitOrFormat, VoidUndefinedSubtype,
};
use serde_json::{json, Value};
use std::rc::Rc;

fn strs(v: &Value) -> Vec<String> {
    v.as_array().unwrap().iter().map(|s| s.as_str().unwrap().to_string()).collect()
}
fn fmt_of(v: &Value) -> CustomFormat {
    CustomFormat(v[1].as_str().unwrap().to_string(), strs(&v[2]))
}
fn fmt_json(tag: &str, f: &CustomFormat) -> Value {
    json!([tag, f.0, f.1])
}
fn tpl_item_of(v: &Value) -> TplLitTypeItem {
    match v {
        Value::String(s) if s == "string" => TplLitTypeItem::String,
        Value::String(s) if s == "number" => TplLitTypeItem::Number,
        Value::String(s) if s == "boolean" => TplLitTypeItem::Boolean,
        Value::Array(a) if a[0] == "const" => TplLitTypeItem::StringConst(a[1].as_str().unwrap().to_string()),
        _ => panic!("bad tpl item"),
    }
}
fn tpl_item_json(i: &TplLitTypeItem) -> Value {
    match i {
        TplLitTypeItem::String => json!("string"),
        TplLitTypeItem::Number => json!("number"),
        TplLitTypeItem::Boolean => json!("boolean"),
        TplLitTypeItem::StringConst(s) => json!(["const", s]),
        TplLitTypeItem::OneOf(vs) => json!(["oneof", vs.iter().map(tpl_item_json).collect::<Vec<_>>()]),
    }
}
fn kind_of(s: &str) -> TypedArrayKind {
    TypedArrayKind::all().into_iter().find(|k| k.js_name() == s).expect("typed array kind")
}

fn proper_of(v: &Value) -> Rc<ProperSubtype> {
    let tag = v[0].as_str().unwrap();
    Rc::new(match tag {
        "Boolean" => ProperSubtype::Boolean(v[1].as_bool().unwrap()),
        "Number" => ProperSubtype::Number {
            allowed: v[1].as_bool().unwrap(),
            values: v[2]
                .as_array()
                .unwrap()
                .iter()
                .map(|x| match x[0].as_str().unwrap() {
                    "Lit" => NumberRepresentationOrFormat::Lit(N::parse_int(x[1].as_i64().unwrap())),
                    _ => NumberRepresentationOrFormat::Format(fmt_of(x)),
                })
                .collect(),
        },
        "String" => ProperSubtype::String {
            allowed: v[1].as_bool().unwrap(),
            values: v[2]
                .as_array()
                .unwrap()
                .iter()
                .map(|x| match x[0].as_str().unwrap() {
                    "Tpl" => StringLitOrFormat::Tpl(TplLitType(x[1].as_array().unwrap().iter().map(tpl_item_of).collect())),
                    _ => StringLitOrFormat::Format(fmt_of(x)),
                })
                .collect(),
        },
        "TypedArray" => ProperSubtype::TypedArray {
            allowed: v[1].as_bool().unwrap(),
            values: strs(&v[2]).iter().map(|s| kind_of(s)).collect(),
        },
        "VoidUndefined" => ProperSubtype::VoidUndefined {
            allowed: v[1].as_bool().unwrap(),
            values: strs(&v[2])
                .iter()
                .map(|s| if s == "Void" { VoidUndefinedSubtype::Void } else { VoidUndefinedSubtype::Undefined })
                .collect(),
        },
        "Mapping" => ProperSubtype::Mapping(bdd_of(&v[1])),
        "List" => ProperSubtype::List(bdd_of(&v[1])),
        "Map" => ProperSubtype::Map(bdd_of(&v[1])),
        "Set" => ProperSubtype::Set(bdd_of(&v[1])),
        _ => panic!("bad proper tag {tag}"),
    })
}

fn proper_json(p: &ProperSubtype) -> Value {
    match p {
        ProperSubtype::Boolean(b) => json!(["Boolean", b]),
        ProperSubtype::Number { allowed, values } => json!([
            "Number",
            allowed,
            values
                .iter()
                .map(|x| match x {
                    NumberRepresentationOrFormat::Lit(n) => json!(["Lit", n.to_serde()]),
                    NumberRepresentationOrFormat::Format(f) => fmt_json("Format", f),
                })
                .collect::<Vec<_>>()
        ]),
        ProperSubtype::String { allowed, values } => json!([
            "String",
            allowed,
            values
                .iter()
                .map(|x| match x {
                    StringLitOrFormat::Tpl(t) => json!(["Tpl", t.0.iter().map(tpl_item_json).collect::<Vec<_>>()]),
                    StringLitOrFormat::Format(f) => fmt_json("Format", f),
                })
                .collect::<Vec<_>>()
        ]),
        ProperSubtype::TypedArray { allowed, values } => {
            json!(["TypedArray", allowed, values.iter().map(|k| k.js_name()).collect::<Vec<_>>()])
        }
        ProperSubtype::VoidUndefined { allowed, values } => json!([
            "VoidUndefined",
            allowed,
            values
                .iter()
                .map(|v| match v {
                    VoidUndefinedSubtype::Void => "Void",
                    VoidUndefinedSubtype::Undefined => "Undefined",
                })
                .collect::<Vec<_>>()
        ]),
        ProperSubtype::Mapping(b) => json!(["Mapping", bdd_json(b)]),
        ProperSubtype::List(b) => json!(["List", bdd_json(b)]),
        ProperSubtype::Map(b) => json!(["Map", bdd_json(b)]),
        ProperSubtype::Set(b) => json!(["Set", bdd_json(b)]),
    }
}

pub fn semtype_of(v: &Value) -> Rc<SemType> {
    Rc::new(SemType::new_complex(
        v["all"].as_u64().unwrap() as u32,
        v["data"].as_array().unwrap().iter().map(proper_of).collect(),
    ))
}
pub fn semtype_json(t: &SemType) -> Value {
    json!({"all": t.all, "data": t.subtype_data.iter().map(|p| proper_json(p)).collect::<Vec<_>>()})
}

fn res(r: anyhow::Result<Rc<SemType>>) -> Value {
    match r {
        Ok(t) => semtype_json(&t),
        Err(e) => json!({"err": e.to_string()}),
    }
}

pub fn run(op: &str, job: &Value) -> Value {
    match op {
        "st_union" => res(semtype_of(&job["a"]).union(&semtype_of(&job["b"]))),
        "st_intersect" => res(semtype_of(&job["a"]).intersect(&semtype_of(&job["b"]))),
        "st_diff" => res(semtype_of(&job["a"]).diff(&semtype_of(&job["b"]))),
        "st_complement" => res(semtype_of(&job["a"]).complement()),
        _ => panic!("unknown op {op}"),
    }
}
