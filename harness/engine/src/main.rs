fn main(){}
