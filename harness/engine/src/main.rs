// H-engine: drives the public API of beff_core::subtyping on operands read from stdin (one JSON job per line)
// and prints one JSON result per line.  Every job runs under catch_unwind.
//
// BDD syntax (JSON):  true | false | [kind, index, left, middle, right]   kind: "M" Mapping, "L" List, "P" Map, "S" Set
// DNF syntax: [[ [pos atoms], [neg atoms] ], ...]   atom: [kind, index]
use beff_core::subtyping::bdd::{Atom, Bdd, BddOps};
use beff_core::subtyping::dnf::{bdd_to_dnf, dnf_to_bdd, Conjunction};
use serde_json::{json, Value};
use std::io::{self, BufRead, Write};
use std::panic;
use std::rc::Rc;

mod sem;
mod types;

fn atom_of(kind: &str, idx: u64) -> Atom {
    match kind {
        "M" => Atom::Mapping(idx as usize),
        "L" => Atom::List(idx as usize),
        "P" => Atom::Map(idx as usize),
        "S" => Atom::Set(idx as usize),
        _ => panic!("bad atom kind {kind}"),
    }
}
pub fn atom_json(a: &Atom) -> Value {
    match a {
        Atom::Mapping(i) => json!(["M", i]),
        Atom::List(i) => json!(["L", i]),
        Atom::Map(i) => json!(["P", i]),
        Atom::Set(i) => json!(["S", i]),
    }
}
pub fn bdd_of(v: &Value) -> Rc<Bdd> {
    match v {
        Value::Bool(true) => Rc::new(Bdd::True),
        Value::Bool(false) => Rc::new(Bdd::False),
        Value::Array(a) => Rc::new(Bdd::Node {
            atom: atom_of(a[0].as_str().unwrap(), a[1].as_u64().unwrap()),
            left: bdd_of(&a[2]),
            middle: bdd_of(&a[3]),
            right: bdd_of(&a[4]),
        }),
        _ => panic!("bad bdd"),
    }
}
pub fn bdd_json(b: &Bdd) -> Value {
    match b {
        Bdd::True => json!(true),
        Bdd::False => json!(false),
        Bdd::Node { atom, left, middle, right } => {
            let a = atom_json(atom);
            json!([a[0], a[1], bdd_json(left), bdd_json(middle), bdd_json(right)])
        }
    }
}
fn dnf_json(d: &[Conjunction]) -> Value {
    Value::Array(
        d.iter()
            .map(|c| {
                json!([
                    c.positive.iter().map(atom_json).collect::<Vec<_>>(),
                    c.negative.iter().map(atom_json).collect::<Vec<_>>()
                ])
            })
            .collect(),
    )
}
fn dnf_of(v: &Value) -> Vec<Conjunction> {
    v.as_array()
        .unwrap()
        .iter()
        .map(|c| {
            let f = |x: &Value| {
                x.as_array()
                    .unwrap()
                    .iter()
                    .map(|a| atom_of(a[0].as_str().unwrap(), a[1].as_u64().unwrap()))
                    .collect::<Vec<_>>()
            };
            Conjunction { positive: f(&c[0]), negative: f(&c[1]) }
        })
        .collect()
}

fn run(job: &Value) -> Value {
    let op = job["op"].as_str().unwrap();
    match op {
        "union" => bdd_json(&bdd_of(&job["a"]).union(&bdd_of(&job["b"]))),
        "intersect" => bdd_json(&bdd_of(&job["a"]).intersect(&bdd_of(&job["b"]))),
        "diff" => bdd_json(&bdd_of(&job["a"]).diff(&bdd_of(&job["b"]))),
        "complement" => bdd_json(&bdd_of(&job["a"]).complement()),
        "from_node" => {
            let a = &job["atom"];
            bdd_json(&Bdd::from_node(
                atom_of(a[0].as_str().unwrap(), a[1].as_u64().unwrap()),
                bdd_of(&job["l"]),
                bdd_of(&job["m"]),
                bdd_of(&job["r"]),
            ))
        }
        "to_dnf" => dnf_json(&bdd_to_dnf(&bdd_of(&job["a"]))),
        "from_dnf" => bdd_json(&dnf_to_bdd(&dnf_of(&job["d"]))),
        _ if op.starts_with("ty_") => types::run(op, job),
        _ => sem::run(op, job),
    }
}

fn main() {
    panic::set_hook(Box::new(|_| {}));
    let stdin = io::stdin();
    let stdout = io::stdout();
    let mut out = stdout.lock();
    for line in stdin.lock().lines() {
        let line = line.unwrap();
        if line.trim().is_empty() {
            continue;
        }
        let job: Value = serde_json::from_str(&line).expect("job json");
        let id = job["id"].clone();
        let res = panic::catch_unwind(|| run(&job));
        let v = match res {
            Ok(v) => json!({"id": id, "ok": v}),
            Err(e) => {
                let msg = e
                    .downcast_ref::<String>()
                    .cloned()
                    .or_else(|| e.downcast_ref::<&str>().map(|s| s.to_string()))
                    .unwrap_or_else(|| "panic".to_string());
                json!({"id": id, "panic": msg})
            }
        };
        writeln!(out, "{}", v).unwrap();
    }
}
