(* ListEmpty.v — emptiness of the list component of a semantic type (subtyping/bdd.rs: bdd_every_result, list_formula_is_empty,
   list_inhabited — formula Phi' of Frisch's thesis generalised to tuples with a rest element — and list_is_empty without its
   memo table, i.e. for list types that are not recursive: the memo only cuts cycles).  Emptiness of the other structural
   components (mappings, Map, Set) stays a parameter. *)
From Beff Require Export Model.Subtype.

Record latom := mkLatom { la_prefix : list semtype; la_items : semtype }.
Definition ltable := list (N * latom).          (* ListAtomic definitions by index *)

Fixpoint lookup_latom (i : N) (tbl : ltable) : option latom :=
  match tbl with
  | [] => None
  | (j, a) :: tbl' => if N.eqb i j then Some a else lookup_latom i tbl'
  end.

Definition sem_never : semtype := mkSem 0 [].
Definition sem_unknown : semtype := mkSem VAL [].
Definition is_never (t : semtype) : bool := N.eqb (st_all t) 0 && match st_data t with [] => true | _ => false end.

Fixpoint set_nth {A} (i : nat) (x : A) (l : list A) : list A :=
  match l, i with
  | [], _ => []
  | _ :: l', O => x :: l'
  | y :: l', S i' => y :: set_nth i' x l'
  end.

Section Level.
  (* emptiness of element types (one level down) *)
  Variable is_empty : semtype -> res bool.

  (* for k in len..neg_len: try the lists of exactly that length against the remaining negatives;
     answers (a shorter list is a witness, the rest type turned out to be empty: there is no longer list) *)
  Fixpoint shorter_loop (rec : list semtype -> semtype -> res bool) (shorter : list semtype) (items : semtype) (n : nat) : res (bool * bool) :=
    match n with
    | O => Ok (false, false)
    | S n' =>
        do y <- rec shorter sem_never;
        if y then Ok (true, false) else
        do e <- is_empty items;
        if e then Ok (false, true) else shorter_loop rec (shorter ++ [items]) items n'
    end.

  (* the element that escapes through the rest type may sit at any position from len to the longest remaining prefix *)
  Fixpoint tail_loop (rec : list semtype -> semtype -> res bool) (s : list semtype) (items diff : semtype) (n : nat) : res bool :=
    match n with
    | O => Ok false
    | S n' =>
        do y <- rec (s ++ [diff]) items;
        if y then Ok true else tail_loop rec (s ++ [items]) items diff n'
    end.

  Definition inhabited_main (nt : latom) (longest_rest : nat) (rec : list semtype -> semtype -> res bool)
             (prefix : list semtype) (items : semtype) : res bool :=
    let len := List.length prefix in
    do a <- exists_res (fun i =>
                          do d <- sem_diff (nth i prefix sem_never) (nth i (la_prefix nt) (la_items nt));
                          do e <- is_empty d;
                          if e then Ok false else rec (set_nth i d prefix) items) (seq 0 len);
    if a then Ok true else
    do diff <- sem_diff items (la_items nt);
    do e <- is_empty diff;
    if e then Ok false else tail_loop rec prefix items diff (S (Nat.max len longest_rest - len)).

  Definition inhabited_step (nt : latom) (longest_rest : nat) (rec : list semtype -> semtype -> res bool)
             (prefix : list semtype) (items : semtype) : res bool :=
    let len := List.length prefix in
    let neg_len := List.length (la_prefix nt) in
    if Nat.ltb len neg_len then
      if is_never items then rec prefix items else
      do fr <- shorter_loop rec prefix items (neg_len - len);
      if fst fr then Ok true else
      if snd fr then Ok false else inhabited_main nt longest_rest rec (prefix ++ repeat items (neg_len - len)) items
    else if Nat.ltb neg_len len && is_never (la_items nt) then rec prefix items
    else inhabited_main nt longest_rest rec prefix items.

  Definition longest_prefix (neg : list latom) : nat := fold_left (fun m n => Nat.max m (List.length (la_prefix n))) neg 0.

  (* list_inhabited: true = Yes *)
  Fixpoint list_inhabited (neg : list latom) : list semtype -> semtype -> res bool :=
    match neg with
    | [] => fun _ _ => Ok true
    | nt :: rest => inhabited_step nt (longest_prefix rest) (list_inhabited rest)
    end.

  (* the positive atoms intersected into one (prefix, rest) pair; None = the intersection is empty for a reason of lengths *)
  Definition meet_positive (acc : list semtype * semtype) (lt : latom) : res (option (list semtype * semtype)) :=
    let '(prefix, items) := acc in
    let new_len := Nat.max (List.length prefix) (List.length (la_prefix lt)) in
    if Nat.ltb (List.length prefix) new_len && is_never items then Ok None else
    let prefix1 := prefix ++ repeat items (new_len - List.length prefix) in
    if Nat.ltb (List.length (la_prefix lt)) new_len && is_never (la_items lt) then Ok None else
    let other := la_prefix lt ++ repeat (la_items lt) (new_len - List.length (la_prefix lt)) in
    do prefix2 <- map_res (fun pq => sem_intersect (fst pq) (snd pq)) (combine prefix1 other);
    do items2 <- sem_intersect items (la_items lt);
    Ok (Some (prefix2, items2)).

  Fixpoint meet_all (acc : list semtype * semtype) (ps : list latom) : res (option (list semtype * semtype)) :=
    match ps with
    | [] => Ok (Some acc)
    | lt :: ps' => do o <- meet_positive acc lt; match o with None => Ok None | Some acc' => meet_all acc' ps' end
    end.

  (* list_formula_is_empty: true = IsEmpty *)
  Definition list_formula_is_empty (pos neg : list latom) : res bool :=
    do o <- match pos with
            | [] => Ok (Some ([], sem_unknown))
            | lt0 :: ps =>
                do o <- meet_all (la_prefix lt0, la_items lt0) ps;
                match o with
                | None => Ok None
                | Some (prefix, items) =>
                    do some_empty <- exists_res is_empty prefix;
                    if some_empty then Ok None else Ok (Some (prefix, items))
                end
            end;
    match o with
    | None => Ok true
    | Some (prefix, items) => do y <- list_inhabited neg prefix items; Ok (negb y)
    end.
End Level.

Section ListEmpty.
  Variable tbl : ltable.
  Variable other_empty : proper -> res bool.      (* mappings, Map, Set: not modelled here *)

  Definition latoms_of (l : list atom) : res (list latom) :=
    map_res (fun a => match ak a with
                      | AList => match lookup_latom (ai a) tbl with Some la => Ok la | None => Throw (EInternal "list atom") end
                      | _ => Throw (EInternal "not a list atom")
                      end) l.

  (* bdd_every_result: right, middle, left are all evaluated; the answer is their conjunction *)
  Fixpoint bdd_every (pred : list atom -> list atom -> res bool) (b : bdd) (pos neg : list atom) : res bool :=
    match b with
    | BFalse => Ok true
    | BTrue => pred pos neg
    | BNode a l m r =>
        do x <- bdd_every pred r pos (a :: neg);
        do y <- bdd_every pred m pos neg;
        do z <- bdd_every pred l (a :: pos) neg;
        Ok (x && (y && z))
    end.

  Fixpoint list_is_empty (fuel : nat) (b : bdd) {struct fuel} : res bool :=
    match fuel with
    | O => Throw EOutOfFuel
    | S f =>
        let elem_empty := sem_is_empty (fun p => match p with PList b' => list_is_empty f b' | _ => other_empty p end) in
        bdd_every (fun pos neg => do ps <- latoms_of pos; do ns <- latoms_of neg; list_formula_is_empty elem_empty ps ns) b [] []
    end.

  Definition sem_is_empty_l (fuel : nat) (t : semtype) : res bool :=
    sem_is_empty (fun p => match p with PList b => list_is_empty fuel b | _ => other_empty p end) t.
  Definition sem_is_subtype_l (fuel : nat) (a b : semtype) : res bool := do d <- sem_diff a b; sem_is_empty_l fuel d.
End ListEmpty.
