(* SemSpec.v — what a semtype denotes: membership of a (tagged) point, for any interpretation of the atoms. *)
From Beff Require Export Model.SemType.

Inductive point :=
| PtBool (b : bool)
| PtNum (z : Z)
| PtStr (s : string)
| PtTyped (k : typed_kind)
| PtUnit (t : stag)                            (* null, absent property, bigint, Date: one point per tag *)
| PtStruct (t : stag) (rho : atom -> bool).    (* an object / array / Map / Set value, seen through the atoms it satisfies *)

Definition point_tag (pt : point) : stag :=
  match pt with
  | PtBool _ => TgBoolean | PtNum _ => TgNumber | PtStr _ => TgString | PtTyped _ => TgTypedArray
  | PtUnit t => t | PtStruct t _ => t
  end.

Definition lits_mem {K} (eqb : K -> K -> bool) (allowed : bool) (vs : list K) (x : K) : bool :=
  if allowed then existsb (eqb x) vs else negb (existsb (eqb x) vs).

Definition lit_str (s : string) : strval := STpl [TplConst s].

Definition pmem (p : proper) (pt : point) : bool :=
  match p, pt with
  | PBoolean b, PtBool x => Bool.eqb b x
  | PNumber a vs, PtNum z => lits_mem numval_eqb a vs (NLit z)
  | PString a vs, PtStr s => lits_mem strval_eqb a vs (lit_str s)
  | PTypedArray a vs, PtTyped k => lits_mem typed_kind_eqb a vs k
  | PMapping b, PtStruct TgMapping rho | PList b, PtStruct TgList rho
  | PMap b, PtStruct TgMap rho | PSet b, PtStruct TgSet rho => eval rho b
  | _, _ => false
  end.

Definition smem (s : subtype) (pt : point) : bool :=
  match s with
  | SFalse _ => false
  | STrue t => stag_eqb t (point_tag pt)
  | SProper p => pmem p pt
  end.

Definition mem (t : semtype) (pt : point) : bool :=
  has_bit (st_all t) (stag_code (point_tag pt)) || existsb (fun p => pmem p pt) (st_data t).

(* ---------- the fragment the theorems are about ---------- *)
Definition numval_lit (v : numval) : bool := match v with NLit _ => true | _ => false end.
Definition strval_lit (v : strval) : bool := match v with STpl [TplConst _] => true | _ => false end.
Definition proper_frag (p : proper) : bool :=
  match p with
  | PNumber _ vs => forallb numval_lit vs && negb (match vs with [] => true | _ => false end)
  | PString _ vs => forallb strval_lit vs && negb (match vs with [] => true | _ => false end)
  | PTypedArray _ vs => negb (match vs with [] => true | _ => false end)
  | PVoidUndefined _ _ => false
  | _ => true
  end.

Fixpoint codes_increasing (l : list proper) : bool :=
  match l with
  | [] => true
  | p :: l' => forallb (fun q => N.ltb (proper_code p) (proper_code q)) l' && codes_increasing l'
  end.
Definition wf (t : semtype) : bool :=
  codes_increasing (st_data t) && forallb proper_frag (st_data t)
  && forallb (fun p => negb (has_bit (st_all t) (proper_code p))) (st_data t).

(* ---------- a finite sample of points for the spec-side search (testing) ---------- *)
Definition sample_atoms : list atom :=
  List.concat (map (fun k => [mkAtom k 0; mkAtom k 1; mkAtom k 2]) [AMapping; AList; AMap; ASet]).
Fixpoint assignments_of (atoms : list atom) : list (atom -> bool) :=
  match atoms with
  | [] => [fun _ => false]
  | a :: rest => List.concat (map (fun rho => [rho; fun x => if atom_eqb x a then true else rho x]) (assignments_of rest))
  end.
Definition all_typed : list typed_kind :=
  [Uint8Array; Uint8ClampedArray; Uint16Array; Uint32Array; Int8Array; Int16Array; Int32Array; Float32Array;
   Float64Array; BigInt64Array; BigUint64Array].
Definition sample_points : list point :=
  [PtBool true; PtBool false]
  ++ map PtNum [0; 1; 2; 3; 7; 99]%Z
  ++ map PtStr ["a"; "b"; "c"; "d"; "zz"]
  ++ map PtTyped all_typed
  ++ map PtUnit [TgNull; TgOptionalProp; TgBigInt; TgDate; TgVoidUndefined]
  ++ List.concat (map (fun kt => map (PtStruct (snd kt))
                                     (assignments_of [mkAtom (fst kt) 0; mkAtom (fst kt) 1; mkAtom (fst kt) 2]))
                      [(AMapping, TgMapping); (AList, TgList); (AMap, TgMap); (ASet, TgSet)]).
Definition sem_table (t : semtype) : string :=
  concat_str "" (map (fun pt => show_bool (mem t pt)) sample_points).
