(* ListSpec.v — what list types denote: values with list structure, membership by recursion on the value. *)
From Beff Require Export Model.ListEmpty.

Section Shape.
  Variable V : Type.
  Variable vm : V -> semtype -> bool.
  (* xs is a list of the shape (prefix, rest): at least the prefix, element-wise members, the remaining ones in the rest type *)
  Fixpoint in_shape (xs : list V) (prefix : list semtype) (items : semtype) {struct xs} : bool :=
    match prefix, xs with
    | [], _ => forallb (fun x => vm x items) xs
    | p :: prefix', x :: xs' => vm x p && in_shape xs' prefix' items
    | _ :: _, [] => false
    end.
End Shape.
Arguments in_shape {V} vm xs prefix items.

(* values: a point that is not a list (basic values; objects, Maps and Sets seen through their atoms), or a list of values *)
Inductive lval := LPt (pt : point) | LList (xs : list lval).

Section Spec.
  Variable tbl : ltable.

  Fixpoint vmem (v : lval) (t : semtype) {struct v} : bool :=
    match v with
    | LPt pt => mem t pt
    | LList xs =>
        mem t (PtStruct TgList
                 (fun a => match ak a with
                           | AList => match lookup_latom (ai a) tbl with
                                      | Some la => in_shape vmem xs (la_prefix la) (la_items la)
                                      | None => false
                                      end
                           | _ => false
                           end))
    end.

  (* the valuation of the list atoms a list value induces *)
  Definition rho_of (xs : list lval) : atom -> bool :=
    fun a => match ak a with
             | AList => match lookup_latom (ai a) tbl with
                        | Some la => in_shape vmem xs (la_prefix la) (la_items la)
                        | None => false
                        end
             | _ => false
             end.
  Lemma vmem_list xs t : vmem (LList xs) t = mem t (PtStruct TgList (rho_of xs)).
  Proof. reflexivity. Qed.
End Spec.
