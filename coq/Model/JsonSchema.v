(* JsonSchema.v — an executable reading of JSON Schema Draft 2020-12 for the keywords beff emits. *)
From Beff Require Export Model.Schema.

(* JSON documents are the json values of Schema.v.  Numbers: integers and decimals only. *)
Definition json_type_is (t : string) (d : json) : bool :=
  match d with
  | JNull => String.eqb t "null"
  | JBool _ => String.eqb t "boolean"
  | JNum _ => String.eqb t "number"
  | JStr _ => String.eqb t "string"
  | JArr _ => String.eqb t "array"
  | JObj _ => String.eqb t "object"
  end.
(* equality of JSON values as `const` / `enum` need it: scalars by value, compound values by their key-sorted text *)
Definition json_eqb (a b : json) : bool :=
  match a, b with
  | JNull, JNull => true
  | JBool x, JBool y => Bool.eqb x y
  | JNum x, JNum y => num_strict_eqb x y
  | JStr x, JStr y => String.eqb x y
  | JArr _, JArr _ | JObj _, JObj _ => String.eqb (show_json a) (show_json b)
  | _, _ => false
  end.

Section JsValid.
  Variable resolve : string -> option json.      (* $ref -> schema *)

  Fixpoint js_valid (fuel : nat) (s : json) (d : json) {struct fuel} : bool :=
    match fuel with
    | O => false
    | S f =>
      match s with
      | JBool b => b
      | JObj kw =>
          let has k := assoc k kw in
          let all_of (l : list json) := forallb (fun s' => js_valid f s' d) l in
          (match has "$ref" with Some (JStr r) => match resolve r with Some t => js_valid f t d | None => false end | _ => true end)
          && (match has "type" with Some (JStr t) => json_type_is t d | _ => true end)
          && (match has "const" with Some c => json_eqb c d | None => true end)
          && (match has "enum" with Some (JArr cs) => existsb (fun c => json_eqb c d) cs | _ => true end)
          && (match has "anyOf" with Some (JArr l) => existsb (fun s' => js_valid f s' d) l | _ => true end)
          && (match has "oneOf" with
              | Some (JArr l) => Nat.eqb (List.length (filter (fun s' => js_valid f s' d) l)) 1
              | _ => true end)
          && (match has "allOf" with Some (JArr l) => all_of l | _ => true end)
          && (match d with
              | JObj fields =>
                  let props := match has "properties" with Some (JObj ps) => ps | _ => [] end in
                  forallb (fun kv => match assoc (fst kv) props with Some ps => js_valid f ps (snd kv) | None => true end) fields
                  && (match has "required" with
                      | Some (JArr rs) => forallb (fun r => match r with JStr k => mem_str k (keys fields) | _ => true end) rs
                      | _ => true end)
                  && (match has "additionalProperties" with
                      | Some ap => forallb (fun kv => mem_str (fst kv) (keys props) || js_valid f ap (snd kv)) fields
                      | None => true end)
                  && (match has "propertyNames" with
                      | Some pn => forallb (fun kv => js_valid f pn (JStr (fst kv))) fields
                      | None => true end)
              | JArr xs =>
                  let prefix := match has "prefixItems" with Some (JArr ps) => ps | _ => [] end in
                  forallb (fun sx => js_valid f (fst sx) (snd sx)) (combine prefix xs)
                  && (match has "items" with
                      | Some it => forallb (js_valid f it) (skipn (List.length prefix) xs)
                      | None => true end)
              | _ => true
              end)
      | _ => false
      end
    end.
End JsValid.

(* refs of the form <template with {name}> are resolved in the exported definitions *)
Definition resolve_in (cf : pconf) (defs : list (string * json)) (r : string) : option json :=
  (fix go (l : list (string * json)) :=
     match l with
     | [] => None
     | (n, b) :: l' => if String.eqb r (get_ref cf n) then Some b else go l'
     end) defs.

(* JS value -> JSON document (None for values JSON cannot carry) *)
Fixpoint val_to_json (fuel : nat) (v : val) : option json :=
  match fuel with
  | O => None
  | S f =>
      match v with
      | VNull => Some JNull
      | VBool b => Some (JBool b)
      | VNum (NInt z) => Some (JNum (NInt z))
      | VNum (NDec s) => Some (JNum (NDec s))
      | VStr s => Some (JStr s)
      | VArr xs =>
          option_map JArr
          ((fix go (l : list val) : option (list json) :=
             match l with
             | [] => Some []
             | x :: l' => match val_to_json f x, go l' with Some a, Some b => Some (a :: b) | _, _ => None end
             end) xs)
      | VObj fs =>
          option_map JObj
          ((fix go (l : list (string * val)) : option (list (string * json)) :=
             match l with
             | [] => Some []
             | (k, x) :: l' => match val_to_json f x, go l' with Some a, Some b => Some ((k, a) :: b) | _, _ => None end
             end) fs)
      | _ => None
      end
  end.
