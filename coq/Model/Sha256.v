(* Sha256.v — hash.ts: the streaming Hash256Writer, and FIPS 180-4 SHA-256 as the specification. *)
From Beff Require Export Model.Base Model.Generated.
Local Open Scope N_scope.

Definition byte := N.
Definition word := N.
Definition W32 : N := 4294967296.
Definition w32 (x : N) : word := x mod W32.                      (* x >>> 0 for a non-negative exact integer *)

(* ---------- 32-bit operations as the JS code performs them ---------- *)
Definition shr (x : word) (n : N) : word := N.shiftr x n.         (* x >>> n *)
Definition rotr (x : word) (n : N) : word :=                     (* (x >>> n) | (x << (32 - n)), as uint32 *)
  N.lor (N.shiftr x n) (w32 (N.shiftl x (32 - n))).
Definition lnot32 (x : word) : word := W32 - 1 - x.               (* ~x, as uint32 *)

Definition ch (e f g : word) : word := N.lxor (N.land e f) (N.land (lnot32 e) g).
Definition maj (a b c : word) : word := N.lxor (N.lxor (N.land a b) (N.land a c)) (N.land b c).
Definition bsig0 (a : word) : word := N.lxor (N.lxor (rotr a 2) (rotr a 13)) (rotr a 22).
Definition bsig1 (e : word) : word := N.lxor (N.lxor (rotr e 6) (rotr e 11)) (rotr e 25).
Definition ssig0 (x : word) : word := N.lxor (N.lxor (rotr x 7) (rotr x 18)) (shr x 3).
Definition ssig1 (x : word) : word := N.lxor (N.lxor (rotr x 17) (rotr x 19)) (shr x 10).

Definition nthN (l : list N) (i : nat) : N := nth i l 0.

(* words[i] for i < 16: big-endian load *)
Fixpoint load_words (bytes : list byte) (n : nat) : list word :=
  match n with
  | O => []
  | S n' =>
      match bytes with
      | b0 :: b1 :: b2 :: b3 :: rest =>
          w32 (N.lor (N.lor (N.lor (N.shiftl b0 24) (N.shiftl b1 16)) (N.shiftl b2 8)) b3) :: load_words rest n'
      | _ => []
      end
  end.

(* words[16..63]: the schedule, appended one word at a time *)
Fixpoint extend_schedule (ws : list word) (n : nat) : list word :=
  match n with
  | O => ws
  | S n' =>
      let i := List.length ws in
      let s0 := ssig0 (nthN ws (i - 15)) in
      let s1 := ssig1 (nthN ws (i - 2)) in
      extend_schedule (ws ++ [w32 (nthN ws (i - 16) + s0 + nthN ws (i - 7) + s1)]) n'
  end.

Record regs := { ra : word; rb : word; rc : word; rd : word; re : word; rf : word; rg : word; rh : word }.

Definition round (K : list word) (ws : list word) (r : regs) (i : nat) : regs :=
  let s1 := bsig1 (re r) in
  let c := ch (re r) (rf r) (rg r) in
  let temp1 := w32 (rh r + s1 + c + nthN K i + nthN ws i) in
  let s0 := bsig0 (ra r) in
  let m := maj (ra r) (rb r) (rc r) in
  let temp2 := w32 (s0 + m) in
  {| ra := w32 (temp1 + temp2); rb := ra r; rc := rb r; rd := rc r;
     re := w32 (rd r + temp1); rf := re r; rg := rf r; rh := rg r |}.

Fixpoint seq_nat (i n : nat) : list nat := match n with O => [] | S n' => i :: seq_nat (S i) n' end.

(* processChunk: the compression function applied to the eight state words *)
Definition process_chunk (K : list word) (h : list word) (chunk : list byte) : list word :=
  let ws := extend_schedule (load_words chunk 16) 48 in
  let r0 := {| ra := nthN h 0; rb := nthN h 1; rc := nthN h 2; rd := nthN h 3;
               re := nthN h 4; rf := nthN h 5; rg := nthN h 6; rh := nthN h 7 |} in
  let r := fold_left (round K ws) (seq_nat 0 64) r0 in
  [w32 (nthN h 0 + ra r); w32 (nthN h 1 + rb r); w32 (nthN h 2 + rc r); w32 (nthN h 3 + rd r);
   w32 (nthN h 4 + re r); w32 (nthN h 5 + rf r); w32 (nthN h 6 + rg r); w32 (nthN h 7 + rh r)].

(* ---------- the streaming writer (Hash256Writer) ---------- *)
Record writer := { wh : list word; wbuf : list byte; whashed : N }.

Section Writer.
  Variable K : list word.
  Variable H0 : list word.

  Definition writer_init : writer := {| wh := H0; wbuf := []; whashed := 0 |}.

  (* the `while (position < data.length)` copy loop of updateBytes *)
  Fixpoint update_loop (fuel : nat) (h : list word) (buf : list byte) (data : list byte) : list word * list byte :=
    match fuel with
    | O => (h, buf)
    | S f =>
        match data with
        | [] => (h, buf)
        | _ =>
            let space := (64 - List.length buf)%nat in
            let part := firstn space data in
            let buf' := buf ++ part in
            let rest := skipn space data in
            if Nat.eqb (List.length buf') 64 then update_loop f (process_chunk K h buf') [] rest
            else update_loop f h buf' rest
        end
    end.

  Definition update_bytes (w : writer) (data : list byte) : writer :=
    let '(h, buf) := update_loop (S (List.length data)) (wh w) (wbuf w) data in
    {| wh := h; wbuf := buf; whashed := whashed w + N.of_nat (List.length data) |}.

  Definition byte_at (x : N) (shift : N) : byte := N.land (N.shiftr x shift) 255.
  Definition u32_bytes (x : N) : list byte := [byte_at x 24; byte_at x 16; byte_at x 8; byte_at x 0].

  (* digestHex up to the hex rendering: the eight final words *)
  Definition digest_words (w : writer) : list word :=
    let bit_len := whashed w * 8 in
    let high := bit_len / W32 in               (* Math.floor(bytesHashed * 8 / 2^32) *)
    let low := w32 bit_len in                  (* (bytesHashed * 8) >>> 0 *)
    let buf1 := wbuf w ++ [128] in
    let '(h, buf2) :=
      if Nat.ltb 56 (List.length buf1)
      then (process_chunk K (wh w) (buf1 ++ repeat 0 (64 - List.length buf1)), [])
      else (wh w, buf1) in
    process_chunk K h (buf2 ++ repeat 0 (56 - List.length buf2) ++ u32_bytes high ++ u32_bytes low).

  (* ---------- FIPS 180-4, section 5.1.1 and 6.2 ---------- *)
  Fixpoint be_bytes (k : nat) (x : N) : list byte :=      (* x as k big-endian bytes *)
    match k with
    | O => []
    | S k' => (x / 256 ^ N.of_nat k') mod 256 :: be_bytes k' x
    end.

  Definition pad_zeros (len : nat) : nat := ((119 - len mod 64) mod 64)%nat.
  Definition pad (msg : list byte) : list byte :=
    msg ++ [128] ++ repeat 0 (pad_zeros (List.length msg)) ++ be_bytes 8 (N.of_nat (List.length msg) * 8).

  (* the first n 64-byte blocks of l *)
  Fixpoint nblocks (n : nat) (l : list byte) : list (list byte) :=
    match n with
    | O => []
    | S n' => firstn 64 l :: nblocks n' (skipn 64 l)
    end.

  Definition sha256_words (msg : list byte) : list word :=
    let p := pad msg in fold_left (process_chunk K) (nblocks (List.length p / 64) p) H0.
End Writer.

(* hex rendering of the digest *)
Definition hex_digit (n : N) : string :=
  String (ascii_of_N (if N.ltb n 10 then 48 + n else 87 + n)) "".
Definition hex_word (w : word) : string :=
  concat_str "" (map (fun s => hex_digit (N.land (N.shiftr w s) 15)) [28; 24; 20; 16; 12; 8; 4; 0]).
Definition hex_words (ws : list word) : string := concat_str "" (map hex_word ws).

Fixpoint bytes_of_string (s : string) : list byte :=
  match s with EmptyString => [] | String c s' => N_of_ascii c :: bytes_of_string s' end.

(* the constants of hash.ts are those of FIPS 180-4 (first 32 bits of the fractional parts of the cube
   roots of the first 64 primes / square roots of the first 8 primes) *)
Definition K_fips : list word :=
  [0x428a2f98; 0x71374491; 0xb5c0fbcf; 0xe9b5dba5; 0x3956c25b; 0x59f111f1; 0x923f82a4; 0xab1c5ed5;
   0xd807aa98; 0x12835b01; 0x243185be; 0x550c7dc3; 0x72be5d74; 0x80deb1fe; 0x9bdc06a7; 0xc19bf174;
   0xe49b69c1; 0xefbe4786; 0x0fc19dc6; 0x240ca1cc; 0x2de92c6f; 0x4a7484aa; 0x5cb0a9dc; 0x76f988da;
   0x983e5152; 0xa831c66d; 0xb00327c8; 0xbf597fc7; 0xc6e00bf3; 0xd5a79147; 0x06ca6351; 0x14292967;
   0x27b70a85; 0x2e1b2138; 0x4d2c6dfc; 0x53380d13; 0x650a7354; 0x766a0abb; 0x81c2c92e; 0x92722c85;
   0xa2bfe8a1; 0xa81a664b; 0xc24b8b70; 0xc76c51a3; 0xd192e819; 0xd6990624; 0xf40e3585; 0x106aa070;
   0x19a4c116; 0x1e376c08; 0x2748774c; 0x34b0bcb5; 0x391c0cb3; 0x4ed8aa4a; 0x5b9cca4f; 0x682e6ff3;
   0x748f82ee; 0x78a5636f; 0x84c87814; 0x8cc70208; 0x90befffa; 0xa4506ceb; 0xbef9a3f7; 0xc67178f2].
Definition H0_fips : list word :=
  [0x6a09e667; 0xbb67ae85; 0x3c6ef372; 0xa54ff53a; 0x510e527f; 0x9b05688c; 0x1f83d9ab; 0x5be0cd19].

Definition sha256_hex (msg : list byte) : string := hex_words (sha256_words K_fips H0_fips msg).
Definition writer_hex (writes : list (list byte)) : string :=
  hex_words (digest_words K_source (fold_left (update_bytes K_source) writes (writer_init H0_source))).
