(* Validate.v — validate() of every runtime class, as written in codegen-v2.ts. *)
From Beff Require Export Model.Rt.

Definition tyname_type (t : tyname) : jstype :=
  match t with TyString => TString | TyNumber => TNumber | TyBoolean => TBoolean end.
Definition tyname_str (t : tyname) : string :=
  match t with TyString => "string" | TyNumber => "number" | TyBoolean => "boolean" end.

(* instanceof globalThis[ctorName] *)
Definition typed_array_is (ctor : string) (v : val) : bool :=
  match v with VTyped k _ => String.eqb (typed_kind_name k) ctor | _ => false end.

(* ToString(v) as ToPropertyKey / Array.prototype.join perform it.  The functions of the model
   (VFun) return undefined when called. *)
Fixpoint to_str (v : val) : res string :=
  match v with
  | VStr s => Ok s
  | VNum n => Ok (num_to_string n)
  | VBool b => Ok (if b then "true" else "false")
  | VBig z => Ok (Z_to_string z)
  | VUndef => Ok "undefined"
  | VNull => Ok "null"
  | VSym => Throw ECannotConvert
  | VFun => Ok "<function>"
  | VDate _ => Ok "<date>"
  | VRegExp => Ok "/(?:)/"
  | VArr xs =>
      do parts <- map_res (fun x => match x with VUndef | VNull => Ok "" | _ => to_str x end) xs;
      Ok (concat_str "," parts)
  | VObj fs =>
      match assoc "toString" fs with
      | None => Ok "[object Object]"
      | Some VFun => Ok "undefined"
      | Some _ => match assoc "valueOf" fs with Some VFun => Ok "undefined" | _ => Throw ECannotConvert end
      end
  | VMap _ => Ok "[object Map]"
  | VSet _ => Ok "[object Set]"
  | VTyped _ xs => Ok (concat_str "," (map Z_to_string xs))
  end.
(* ToPropertyKey(d): None for a symbol (never an own key of the emitted tables) *)
Definition to_key (v : val) : res (option string) :=
  match v with
  | VSym => Ok None
  | _ => do s <- to_str v; Ok (Some s)
  end.

(* table[key] on a plain object literal: own key, else what Object.prototype provides *)
Inductive looked (A : Type) := LOwn (a : A) | LProtoFunction | LProtoObject | LMissing.
Arguments LOwn {A} a. Arguments LProtoFunction {A}. Arguments LProtoObject {A}. Arguments LMissing {A}.
Definition lookup_plain {A} (tbl : list (string * A)) (k : option string) : looked A :=
  match k with
  | None => LMissing
  | Some k =>
      match assoc k tbl with
      | Some a => LOwn a
      | None => if mem_str k object_proto_functions then LProtoFunction
                else if String.eqb k proto_key then LProtoObject else LMissing
      end
  end.

Definition check_formats {A} (look : string -> option (A -> bool)) (fs : list string) (x : A) : bool :=
  forallb (fun f => match look f with Some p => p x | None => false end) fs.

Section Validate.
  Variable F : formats.
  Variable env : renv.

  Fixpoint validate (fuel : nat) (strict : bool) (r : rt) (v : val) {struct fuel} : res bool :=
    match fuel with
    | O => Throw EOutOfFuel
    | S f =>
      match r with
      | RTypeof t => Ok (jstype_eqb (typeof v) (tyname_type t))
      | RAny => Ok true
      | RNullish _ => Ok (is_nullish v)
      | RNever => Ok false
      | RConst CNull => Ok (is_nullish v)
      | RConst c => Ok (cst_strict_eqb c v)
      | RRegex items _ => Ok (match v with VStr s => re_full (tpl_re items) s | _ => false end)   (* new RegExp(`^(?:${source})$`, "s") *)
      | RDate => Ok (match v with VDate _ => true | _ => false end)
      | RBigInt => Ok (match v with VBig _ => true | _ => false end)
      | RTypedArray ctor => Ok (typed_array_is ctor v)
      | RStringFmt fs => Ok (match v with VStr s => check_formats (sfmt F) fs s | _ => false end)
      | RNumberFmt fs => Ok (match v with VNum n => check_formats (nfmt F) fs n | _ => false end)
      | RAnyOfConsts cs =>
          Ok ((is_nullish v && existsb (fun c => match c with CNull => true | _ => false end) cs)
              || existsb (fun c => cst_same_value_zero c v) cs)
      | RTuple prefix rest =>
          match v with
          | VArr xs =>
              do ok <- prefix_res (validate f strict) VUndef xs prefix 0;
              if negb ok then Ok false else
              match rest with
              | Some rr => forall_res (validate f strict rr) (skipn (List.length prefix) xs)
              | None => Ok (negb (Nat.ltb (List.length prefix) (List.length xs)))
              end
          | _ => Ok false
          end
      | RAllOf rs =>
          forall_res (fun m => if negb (is_object_type v) then Ok false else validate f strict m v) rs
      | RAnyOf rs => exists_res (fun m => validate f strict m v) rs
      | RArray item =>
          match v with VArr xs => forall_res (validate f strict item) xs | _ => Ok false end
      | RMap kr vr =>
          match v with
          | VMap kvs =>
              forall_res (fun kv =>
                            do a <- validate f strict kr (fst kv);
                            if negb a then Ok false else validate f strict vr (snd kv)) kvs
          | _ => Ok false
          end
      | RSet item =>
          match v with VSet xs => forall_res (validate f strict item) xs | _ => Ok false end
      | RDisc _ disc mapping _ =>
          if negb (is_object_type v) || is_nullish v then Ok false else
          let d := get v disc in
          if is_nullish d then Ok false else
          do key <- to_key d;
          match lookup_plain mapping key with
          | LOwn m => validate f strict m v
          | LMissing => Ok false
          | LProtoFunction | LProtoObject => Throw ENotFunction
          end
      | ROptional t => if is_nullish v then Ok true else validate f strict t v
      | RObject props indexed =>
          if is_object_type v && negb (is_array v) && negb (match v with VNull => true | _ => false end) then
            let config_keys := keys props in
            do ok <- forall_res (fun kp => validate f strict (snd kp) (get v (fst kp))) props;
            if negb ok then Ok false else
            let extra := filter (fun k => negb (mem_str k config_keys)) (own_keys v) in
            match indexed with
            | _ :: _ =>
                forall_res (fun k =>
                  exists_res (fun p =>
                    do a <- validate f strict (fst p) (VStr k);
                    if negb a then Ok false else validate f strict (snd p) (get v k)) indexed) extra
            | [] => if strict then Ok (match extra with [] => true | _ => false end) else Ok true
            end
          else Ok false
      | RRef name =>
          match assoc name env with
          | Some t => validate f strict t v
          | None => Throw (EInternal "unknown named type")
          end
      | RMeta _ t => validate f strict t v
      end
    end.
End Validate.
