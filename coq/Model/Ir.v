(* Ir.v — the Runtype IR of the compiler (ast/runtype.rs:296-332) and what a type of the IR denotes under beff's
   runtime conventions (null and undefined interchangeable, optional = absent or nullish, extra properties ignored). *)
From Beff Require Export Model.Validate.

Inductive irconst := ICBool (b : bool) | ICNum (n : num).

Inductive ir :=
| INull | IUndefined | IVoid | IBoolean | IString | INumber | IAny | IAnyArrayLike
| IStringFmt (first : string) (rest : list string)
| INumberFmt (first : string) (rest : list string)
| ITpl (items : list tpl_item)
| IObject (vs : list (string * (bool * ir))) (indexed : option (ir * (bool * ir)))     (* bool: required *)
| IArray (t : ir)
| ITuple (prefix : list ir) (rest : option ir)
| IRef (name : string)
| IAnyOf (vs : list ir)
| IAllOf (vs : list ir)
| IConst (c : irconst)
| INever
| IStNot (t : ir)
| IFunction | IDate | IBigInt
| ITypedArray (k : string)
| IMap (k v : ir)
| ISet (t : ir)
| IMetaIR (description : string) (t : ir).

Definition ienv := list (string * ir).

(* TypeScript's reading of a template-literal type: the whole string, every alternative (also the empty one) *)
Fixpoint tpl_item_re_ts (i : tpl_item) : re :=
  match i with
  | TplString => ReStar ReDot
  | TplNumber => number_re
  | TplBoolean => ReAlt (re_lit "true") (re_lit "false")
  | TplConst s => re_lit s
  | TplOneOf vs => fold_right (fun x acc => re_alt (tpl_item_re_ts x) acc) ReNull vs
  end.
Fixpoint tpl_re_ts (items : list tpl_item) : re :=
  match items with [] => ReEps | i :: is' => re_seq (tpl_item_re_ts i) (tpl_re_ts is') end.

Section RMember.
  Variable F : formats.
  Variable env : ienv.

  Fixpoint rmember (fuel : nat) (t : ir) (v : val) {struct fuel} : res bool :=
    match fuel with
    | O => Throw EOutOfFuel
    | S f =>
      let opt (req : bool) (t' : ir) (x : val) : res bool :=
        if negb req && is_nullish x then Ok true else rmember f t' x in
      match t with
      | INull | IUndefined | IVoid => Ok (is_nullish v)
      | IBoolean => Ok (jstype_eqb (typeof v) TBoolean)
      | IString => Ok (jstype_eqb (typeof v) TString)
      | INumber => Ok (jstype_eqb (typeof v) TNumber)
      | IFunction => Ok (jstype_eqb (typeof v) TFunction)
      | IAny => Ok true
      | IAnyArrayLike => Ok (is_array v)
      | INever => Ok false
      | IStringFmt first rest => Ok (match v with VStr s => check_formats (sfmt F) (first :: rest) s | _ => false end)
      | INumberFmt first rest => Ok (match v with VNum n => check_formats (nfmt F) (first :: rest) n | _ => false end)
      | ITpl items => Ok (match v with VStr s => re_full (tpl_re_ts items) s | _ => false end)
      | IObject vs indexed =>
          if is_object_type v && negb (is_array v) && negb (match v with VNull => true | _ => false end) then
            do ok <- forall_res (fun kp => opt (fst (snd kp)) (snd (snd kp)) (get v (fst kp))) vs;
            if negb ok then Ok false else
            match indexed with
            | None => Ok true
            | Some (kt, (req, vt)) =>
                forall_res (fun k =>
                              do a <- rmember f kt (VStr k);
                              if negb a then Ok false else opt req vt (get v k))
                           (filter (fun k => negb (mem_str k (keys vs))) (own_keys v))
            end
          else Ok false
      | IArray t' => match v with VArr xs => forall_res (rmember f t') xs | _ => Ok false end
      | ITuple prefix rest =>
          match v with
          | VArr xs =>
              if Nat.ltb (List.length xs) (List.length prefix) then Ok false else
              do ok <- prefix_res (rmember f) VUndef xs prefix 0;
              if negb ok then Ok false else
              match rest with
              | Some r => forall_res (rmember f r) (skipn (List.length prefix) xs)
              | None => Ok (Nat.eqb (List.length xs) (List.length prefix))
              end
          | _ => Ok false
          end
      | IRef name => match assoc name env with Some t' => rmember f t' v | None => Throw (EInternal "unknown named type") end
      | IAnyOf ts => exists_res (fun t' => rmember f t' v) ts
      | IAllOf ts => forall_res (fun t' => rmember f t' v) ts
      | IConst (ICBool b) => Ok (match v with VBool x => Bool.eqb b x | _ => false end)
      | IConst (ICNum n) => Ok (match v with VNum x => num_strict_eqb n x | _ => false end)
      | IStNot t' => do b <- rmember f t' v; Ok (negb b)
      | IDate => Ok (match v with VDate _ => true | _ => false end)
      | IBigInt => Ok (match v with VBig _ => true | _ => false end)
      | ITypedArray k => Ok (typed_array_is k v)
      | IMap kt vt =>
          match v with
          | VMap kvs => forall_res (fun kv => do a <- rmember f kt (fst kv); if negb a then Ok false else rmember f vt (snd kv)) kvs
          | _ => Ok false
          end
      | ISet t' => match v with VSet xs => forall_res (rmember f t') xs | _ => Ok false end
      | IMetaIR _ t' => rmember f t' v
      end
    end.
End RMember.
