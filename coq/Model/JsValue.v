(* JsValue.v — the universe of JavaScript values the runtime properties quantify over. *)
From Beff Require Export Model.Base.

Inductive num :=
| NInt (z : Z)          (* integers, |z| < 2^53 *)
| NDec (repr : string)  (* a non-integral finite double, by its canonical String(n) *)
| NNaN
| NNegZero
| NInf (neg : bool).

Inductive typed_kind :=
| Uint8Array | Uint8ClampedArray | Uint16Array | Uint32Array | Int8Array | Int16Array | Int32Array
| Float32Array | Float64Array | BigInt64Array | BigUint64Array.

Inductive val :=
| VUndef | VNull
| VBool (b : bool)
| VNum (n : num)
| VStr (s : string)
| VBig (z : Z)
| VSym
| VFun
| VDate (ms : Z)
| VRegExp
| VArr (xs : list val)
| VObj (fs : list (string * val))    (* plain object: own enumerable string keys, insertion order *)
| VMap (kvs : list (val * val))
| VSet (xs : list val)
| VTyped (k : typed_kind) (xs : list Z).

(* ---------- numbers ---------- *)
Definition num_strict_eqb (a b : num) : bool :=      (* === on numbers *)
  match a, b with
  | NInt x, NInt y => Z.eqb x y
  | NInt x, NNegZero | NNegZero, NInt x => Z.eqb x 0
  | NNegZero, NNegZero => true
  | NDec x, NDec y => String.eqb x y
  | NInf x, NInf y => Bool.eqb x y
  | _, _ => false
  end.
Definition num_same_value_zero (a b : num) : bool :=  (* Array.prototype.includes *)
  match a, b with
  | NNaN, NNaN => true
  | _, _ => num_strict_eqb a b
  end.
Definition num_to_string (n : num) : string :=        (* String(n) *)
  match n with
  | NInt z => Z_to_string z
  | NDec s => s
  | NNaN => "NaN"
  | NNegZero => "0"
  | NInf false => "Infinity"
  | NInf true => "-Infinity"
  end.
Definition canonical_number (n : num) : string :=     (* hash.ts canonicalNumber *)
  match n with NNegZero => "-0" | _ => num_to_string n end.

Definition typed_kind_name (k : typed_kind) : string :=
  match k with
  | Uint8Array => "Uint8Array" | Uint8ClampedArray => "Uint8ClampedArray" | Uint16Array => "Uint16Array"
  | Uint32Array => "Uint32Array" | Int8Array => "Int8Array" | Int16Array => "Int16Array"
  | Int32Array => "Int32Array" | Float32Array => "Float32Array" | Float64Array => "Float64Array"
  | BigInt64Array => "BigInt64Array" | BigUint64Array => "BigUint64Array"
  end.

(* ---------- typeof and friends ---------- *)
Inductive jstype := TUndefined | TObject | TBoolean | TNumber | TString | TBigint | TSymbol | TFunction.
Definition typeof (v : val) : jstype :=
  match v with
  | VUndef => TUndefined
  | VNull => TObject
  | VBool _ => TBoolean
  | VNum _ => TNumber
  | VStr _ => TString
  | VBig _ => TBigint
  | VSym => TSymbol
  | VFun => TFunction
  | _ => TObject
  end.
Definition jstype_eqb (a b : jstype) : bool :=
  match a, b with
  | TUndefined, TUndefined | TObject, TObject | TBoolean, TBoolean | TNumber, TNumber
  | TString, TString | TBigint, TBigint | TSymbol, TSymbol | TFunction, TFunction => true
  | _, _ => false
  end.
Definition is_nullish (v : val) : bool := match v with VUndef | VNull => true | _ => false end.  (* v == null *)
Definition is_array (v : val) : bool := match v with VArr _ => true | _ => false end.
Definition is_object_type (v : val) : bool := jstype_eqb (typeof v) TObject.

(* ---------- property access on values ---------- *)
Fixpoint index_strings_from (i : nat) (n : nat) : list string :=
  match n with O => [] | S n' => nat_to_string i :: index_strings_from (S i) n' end.

(* pseudo-key of the model: "the prototype of this object was replaced by ..." (see Parse.v obj_assign);
   never an own key *)
Definition proto_mark := "<proto>".

(* Object.keys(v) for an object-typed v *)
Definition own_keys (v : val) : list string :=
  match v with
  | VObj fs => filter (fun k => negb (String.eqb k proto_mark)) (keys fs)
  | VArr xs => index_strings_from 0 (List.length xs)
  | VTyped _ xs => index_strings_from 0 (List.length xs)
  | _ => []
  end.

Fixpoint find_index_key (k : string) (i : nat) (xs : list val) : option val :=
  match xs with
  | [] => None
  | x :: xs' => if String.eqb k (nat_to_string i) then Some x else find_index_key k (S i) xs'
  end.

(* the value of Object.prototype, as far as validators can observe it *)
Definition object_prototype : val := VObj [].

(* the elements of BigInt64Array / BigUint64Array are bigints *)
Definition typed_is_big (k : typed_kind) : bool :=
  match k with BigInt64Array | BigUint64Array => true | _ => false end.
Definition typed_elem (k : typed_kind) (z : Z) : val := if typed_is_big k then VBig z else VNum (NInt z).

(* v[k] for an object-typed, non-null v and a string key *)
Definition get (v : val) (k : string) : val :=
  let inherited :=
    if mem_str k object_proto_functions then VFun
    else if String.eqb k proto_key then object_prototype
    else VUndef in
  match v with
  | VObj fs => match assoc k fs with Some x => x | None => inherited end
  | VArr xs =>
      if String.eqb k "length" then VNum (NInt (Z.of_nat (List.length xs)))
      else match find_index_key k 0 xs with Some x => x | None => inherited end
  | VTyped tk xs =>
      if String.eqb k "length" then VNum (NInt (Z.of_nat (List.length xs)))
      else match find_index_key k 0 (map (typed_elem tk) xs) with Some x => x | None => inherited end
  | VDate _ | VRegExp | VMap _ | VSet _ => inherited
  | _ => VUndef
  end.

Definition has_own (v : val) (k : string) : bool := mem_str k (own_keys v).

(* input[idx] on an array *)
Definition get_idx (v : val) (i : nat) : val :=
  match v with VArr xs => nth i xs VUndef | _ => VUndef end.

(* ---------- strict equality of primitives (what ConstRuntype / includes use) ---------- *)
Inductive cst := CNull | CBool (b : bool) | CNum (n : num) | CStr (s : string).

Definition cst_strict_eqb (c : cst) (v : val) : bool :=
  match c, v with
  | CNull, VNull => true
  | CBool a, VBool b => Bool.eqb a b
  | CNum a, VNum b => num_strict_eqb a b
  | CStr a, VStr b => String.eqb a b
  | _, _ => false
  end.
Definition cst_same_value_zero (c : cst) (v : val) : bool :=
  match c, v with
  | CNum a, VNum b => num_same_value_zero a b
  | _, _ => cst_strict_eqb c v
  end.
Definition cst_to_val (c : cst) : val :=
  match c with CNull => VNull | CBool b => VBool b | CNum n => VNum n | CStr s => VStr s end.

(* ---------- canonical text of a value (the syntax shared with the Node driver) ---------- *)
Fixpoint escape_str (s : string) : string :=
  match s with
  | EmptyString => ""
  | String c s' =>
      let n := nat_of_ascii c in
      if Nat.eqb n 34 then String "\" (String c (escape_str s'))
      else if Nat.eqb n 92 then String "\" (String "\" (escape_str s'))
      else String c (escape_str s')
  end.
Definition quote (s : string) : string := String """" (escape_str s +++ String """" "").

Fixpoint show_val (v : val) : string :=
  match v with
  | VUndef => "u" | VNull => "n"
  | VBool true => "t" | VBool false => "f"
  | VNum n => "#" +++ canonical_number n
  | VStr s => quote s
  | VBig z => "B" +++ Z_to_string z
  | VSym => "S" | VFun => "F"
  | VDate ms => "D" +++ Z_to_string ms
  | VRegExp => "R"
  | VArr xs => "[" +++ concat_str "," (map show_val xs) +++ "]"
  | VObj fs => "{" +++ concat_str "," (map (fun kv => quote (fst kv) +++ ":" +++ show_val (snd kv)) fs) +++ "}"
  | VMap kvs => "M[" +++ concat_str "," (map (fun kv => show_val (fst kv) +++ ":" +++ show_val (snd kv)) kvs) +++ "]"
  | VSet xs => "E[" +++ concat_str "," (map show_val xs) +++ "]"
  | VTyped k xs => "Y" +++ typed_kind_name k +++ "[" +++ concat_str "," (map Z_to_string xs) +++ "]"
  end.

Definition show_exn (e : exn) : string :=
  match e with
  | ENotFunction => "!NotFunction"
  | EStringifyBigInt => "!StringifyBigInt"
  | ECannotConvert => "!CannotConvert"
  | EInternal m => "!Internal"
  | EUnreachable => "!Unreachable"
  | EParseFailure => "!ParseFailure"
  | ESchemaUnsupported w => "!SchemaUnsupported"
  | EOutOfFuel => "!OutOfFuel"
  end.
Definition show_res {A} (sh : A -> string) (r : res A) : string :=
  match r with Ok a => sh a | Throw e => show_exn e end.
Definition show_bool (b : bool) : string := if b then "t" else "f".
