(* Report.v — reportDecodeError of every class, union error assembly, safeParse/parse, printErrors
   (codegen-v2.ts:233-306, 634-2230, 2405-2430; err.ts). *)
From Beff Require Export Model.Parse.

Inductive err :=
| ERegular (message : string) (path : list string) (received : val)
| EUnion (path : list string) (received : val) (errors : list err).

(* ---------- JSON.stringify ---------- *)
Definition pad2 (n : Z) : string := (if Z.ltb n 10 then "0" else "") +++ Z_to_string n.
Definition pad3 (n : Z) : string :=
  (if Z.ltb n 10 then "00" else if Z.ltb n 100 then "0" else "") +++ Z_to_string n.
Definition pad4 (n : Z) : string :=
  (if Z.ltb n 10 then "000" else if Z.ltb n 100 then "00" else if Z.ltb n 1000 then "0" else "") +++ Z_to_string n.
(* Date.prototype.toISOString for 0 <= ms (years 1970..9999); civil-from-days *)
Definition iso_date (ms : Z) : string :=
  let days := Z.div ms 86400000 in
  let rem := Z.modulo ms 86400000 in
  let z := (days + 719468)%Z in
  let era := Z.div z 146097 in
  let doe := (z - era * 146097)%Z in
  let yoe := Z.div (doe - Z.div doe 1460 + Z.div doe 36524 - Z.div doe 146096) 365 in
  let y := (yoe + era * 400)%Z in
  let doy := (doe - (365 * yoe + Z.div yoe 4 - Z.div yoe 100))%Z in
  let mp := Z.div (5 * doy + 2) 153 in
  let d := (doy - Z.div (153 * mp + 2) 5 + 1)%Z in
  let m := (if Z.ltb mp 10 then mp + 3 else mp - 9)%Z in
  let y' := (if Z.leb m 2 then y + 1 else y)%Z in
  pad4 y' +++ "-" +++ pad2 m +++ "-" +++ pad2 d +++ "T" +++
  pad2 (Z.div rem 3600000) +++ ":" +++ pad2 (Z.modulo (Z.div rem 60000) 60) +++ ":" +++
  pad2 (Z.modulo (Z.div rem 1000) 60) +++ "." +++ pad3 (Z.modulo rem 1000) +++ "Z".

Definition json_number (n : num) : string :=
  match n with NNaN | NInf _ => "null" | _ => num_to_string n end.

(* JSON.stringify(v): None = undefined *)
Fixpoint json_stringify (fuel : nat) (v : val) : res (option string) :=
  match fuel with
  | O => Throw EOutOfFuel
  | S f =>
      let in_array (x : val) : res string :=
        do s <- json_stringify f x; Ok (match s with Some t => t | None => "null" end) in
      match v with
      | VUndef | VSym | VFun => Ok None
      | VNull => Ok (Some "null")
      | VBool b => Ok (Some (if b then "true" else "false"))
      | VNum n => Ok (Some (json_number n))
      | VStr s => Ok (Some (quote s))
      | VBig _ => Throw EStringifyBigInt
      | VDate ms => Ok (Some (quote (iso_date ms)))
      | VRegExp | VMap _ | VSet _ => Ok (Some "{}")
      | VArr xs => do parts <- map_res in_array xs; Ok (Some ("[" +++ concat_str "," parts +++ "]"))
      | VTyped k (_ :: _) => if typed_is_big k then Throw EStringifyBigInt else json_object f v
      | VObj _ | VTyped _ _ => json_object f v
      end
  end
with json_object (fuel : nat) (v : val) : res (option string) :=
  match fuel with
  | O => Throw EOutOfFuel
  | S f =>
          do parts <- (fix go (ks : list string) : res (list string) :=
                         match ks with
                         | [] => Ok []
                         | k :: ks' =>
                             do s <- json_stringify f (get v k);
                             do rest <- go ks';
                             Ok (match s with Some t => (quote k +++ ":" +++ t) :: rest | None => rest end)
                         end) (own_keys v);
          Ok (Some ("{" +++ concat_str "," parts +++ "}"))
  end.
Definition template_json (fuel : nat) (v : val) : res string :=   (* `${JSON.stringify(v)}` *)
  do s <- json_stringify fuel v; Ok (match s with Some t => t | None => "undefined" end).

Definition json_path (p : list string) : string := "[" +++ concat_str "," (map quote p) +++ "]".

(* JSON.stringify of a DecodeError object, key order as the objects are built *)
Fixpoint json_err (fuel : nat) (e : err) : res string :=
  match fuel with
  | O => Throw EOutOfFuel
  | S f =>
      match e with
      | ERegular m p r =>
          do rs <- json_stringify f r;
          Ok ("{""message"":" +++ quote m +++ ",""path"":" +++ json_path p +++
              match rs with Some t => ",""received"":" +++ t | None => "" end +++ "}")
      | EUnion p r es =>
          do rs <- json_stringify f r;
          do parts <- map_res (json_err f) es;
          Ok ("{""path"":" +++ json_path p +++
              match rs with Some t => ",""received"":" +++ t | None => "" end +++
              ",""errors"":[" +++ concat_str "," parts +++ "],""isUnionError"":true}")
      end
  end.

(* ---------- union error assembly ---------- *)
Fixpoint max_error_depth (fuel : nat) (es : list err) : nat :=
  match fuel with
  | O => 0
  | S f =>
      fold_left (fun mx e =>
                   let d := match e with
                            | ERegular _ p _ => List.length p
                            | EUnion p _ inner => List.length p + max_error_depth f inner
                            end in
                   Nat.max mx d) es 0
  end.

Definition prepend_path (parent : list string) (e : err) : err :=
  match e with
  | ERegular m p r => ERegular m (parent ++ p) r
  | EUnion p r es => EUnion (parent ++ p) r es
  end.

Definition deduplicate_errors (fuel : nat) (es : list err) : res (list err) :=
  do keyed <- map_res (fun e => do k <- json_err fuel e; Ok (k, e)) es;
  Ok ((fix go (l : list (string * err)) (seen : list string) : list err :=
         match l with
         | [] => []
         | (k, e) :: l' => if mem_str k seen then go l' seen else e :: go l' (k :: seen)
         end) keyed []).

Definition build_union_error (fuel : nat) (path : list string) (es : list err) (received : val) : res (list err) :=
  do d <- deduplicate_errors fuel es;
  match d with
  | [e] => Ok [prepend_path path e]
  | _ => Ok [EUnion path received d]
  end.

Definition limited_comma_join (parts : list string) : string :=
  if Nat.ltb (List.length parts) 3 then concat_str ", " parts
  else concat_str ", " (firstn 3 parts) +++ "...".

Definition cst_json (c : cst) : string :=
  match c with
  | CNull => "null"
  | CBool b => if b then "true" else "false"
  | CNum n => json_number n
  | CStr s => quote s
  end.

Section Report.
  Variable F : formats.
  Variable env : renv.
  Variable strict : bool.

  Notation validate' f := (validate F env f strict).

  Fixpoint concat_res {A} (l : list (res (list A))) : res (list A) :=
    match l with
    | [] => Ok []
    | x :: l' => do a <- x; do b <- concat_res l'; Ok (a ++ b)
    end.

  Fixpoint report (fuel : nat) (path : list string) (r : rt) (v : val) {struct fuel} : res (list err) :=
    match fuel with
    | O => Throw EOutOfFuel
    | S f =>
      let one (m : string) : res (list err) := Ok [ERegular m path v] in
      let fmt_msg (kind : string) (fs : list string) :=
        "expected " +++ kind +++ " with format " +++ quote (concat_str " and " fs) in
      match r with
      | RTypeof t => one ("expected " +++ tyname_str t)
      | RAny => one "expected any"
      | RNullish _ => one "expected nullish value"
      | RNever => one "expected never"
      | RConst c => one ("expected " +++ cst_json c)
      | RRegex _ d => one ("expected string matching " +++ d)
      | RDate => one "expected Date"
      | RBigInt => one "expected BigInt"
      | RTypedArray ctor => one ("expected " +++ ctor)
      | RStringFmt fs => one (fmt_msg "string" fs)
      | RNumberFmt fs => one (fmt_msg "number" fs)
      | RAnyOfConsts cs => one ("expected one of " +++ limited_comma_join (map cst_json cs))
      | RTuple prefix rest =>
          match v with
          | VArr xs =>
              do pre <- concat_res
                   (map (fun ip =>
                           let x := nth (fst ip) xs VUndef in
                           do ok <- validate' f (snd ip) x;
                           if ok then Ok []
                           else report f (path ++ ["[" +++ nat_to_string (fst ip) +++ "]"]) (snd ip) x)
                        (combine (seq_from 0 (List.length prefix)) prefix));
              match rest with
              | Some rr =>
                  do tl <- concat_res
                       (map (fun ix =>
                               do ok <- validate' f rr (snd ix);
                               if ok then Ok []
                               else report f (path ++ ["[" +++ nat_to_string (fst ix) +++ "]"]) rr (snd ix))
                            (combine (seq_from (List.length prefix) (List.length xs - List.length prefix))
                                     (skipn (List.length prefix) xs)));
                  Ok (pre ++ tl)
              | None => Ok pre
              end
          | _ => one "expected tuple"
          end
      | RAllOf rs => concat_res (map (fun m => report f path m v) rs)
      | RAnyOf rs =>
          do branches <- map_res (fun m => report f [] m v) rs;
          let depths := map (max_error_depth f) branches in
          let best := fold_left Nat.max depths 0 in
          let filtered :=
            if Nat.ltb 0 best
            then List.concat (map snd (filter (fun db => Nat.eqb (fst db) best) (combine depths branches)))
            else List.concat branches in
          build_union_error f path filtered v
      | RArray item =>
          match v with
          | VArr xs =>
              concat_res
                (map (fun ix =>
                        do ok <- validate' f item (snd ix);
                        if ok then Ok []
                        else report f (path ++ ["[" +++ nat_to_string (fst ix) +++ "]"]) item (snd ix))
                     (combine (seq_from 0 (List.length xs)) xs))
          | _ => one "expected array"
          end
      | RMap kr vr =>
          match v with
          | VMap kvs =>
              concat_res
                (map (fun kv =>
                        do js <- template_json f (fst kv);
                        do okk <- validate' f kr (fst kv);
                        do e1 <- (if okk then Ok [] else report f (path ++ ["key(" +++ js +++ ")"]) kr (fst kv));
                        do js2 <- template_json f (fst kv);
                        do okv <- validate' f vr (snd kv);
                        do e2 <- (if okv then Ok [] else report f (path ++ ["value(" +++ js2 +++ ")"]) vr (snd kv));
                        Ok (e1 ++ e2)) kvs)
          | _ => one "expected Map"
          end
      | RSet item =>
          match v with
          | VSet xs =>
              concat_res
                (map (fun x =>
                        do js <- template_json f x;
                        do ok <- validate' f item x;
                        if ok then Ok [] else report f (path ++ ["item(" +++ js +++ ")"]) item x) xs)
          | _ => one "expected Set"
          end
      | RDisc _ disc mapping _ =>
          if is_nullish v || negb (is_object_type v) then one "expected object" else
          let d := get v disc in
          if is_nullish d then one ("expected discriminator key " +++ quote disc) else
          do key <- to_key d;
          match lookup_plain mapping key with
          | LOwn m => report f path m v
          | LMissing =>
              Ok [ERegular ("expected one of " +++ concat_str ", " (map quote (keys mapping))) (path ++ [disc]) d]
          | LProtoFunction | LProtoObject => Throw ENotFunction
          end
      | ROptional t => report f path t v
      | RObject props indexed =>
          if negb (is_object_type v) || is_array v || match v with VNull => true | _ => false end
          then one "expected object" else
          let config_keys := keys props in
          do acc <- concat_res
                 (map (fun kp =>
                         do ok <- validate' f (snd kp) (get v (fst kp));
                         if ok then Ok [] else report f (path ++ [fst kp]) (snd kp) (get v (fst kp))) props);
          let extra := filter (fun k => negb (mem_str k config_keys)) (own_keys v) in
          match indexed with
          | _ :: _ =>
              do more <- concat_res
                   (map (fun k =>
                           concat_res
                             (map (fun p =>
                                     do key_ok <- validate' f (fst p) (VStr k);
                                     do value_ok <- validate' f (snd p) (get v k);
                                     do e1 <- (if key_ok then Ok [] else report f (path ++ [k]) (fst p) (VStr k));
                                     do e2 <- (if value_ok then Ok [] else report f (path ++ [k]) (snd p) (get v k));
                                     Ok (e1 ++ e2)) indexed)) extra);
              Ok (acc ++ more)
          | [] =>
              if strict then
                match extra with
                | [] => Ok acc
                | _ => Ok (map (fun k => ERegular "extra property" (path ++ [k]) (get v k)) extra)
                end
              else Ok acc
          end
      | RRef name =>
          match assoc name env with
          | Some t => report f path t v
          | None => Throw (EInternal "unknown named type")
          end
      | RMeta _ t => report f path t v
      end
    end.
End Report.

(* ---------- ParserFromRuntype ---------- *)
Inductive parsed := PSuccess (data : val) | PFailure (errors : list err).

Definition safe_parse (F : formats) (env : renv) (fuel : nat) (strict : bool) (order : key_order) (r : rt) (v : val)
  : res parsed :=
  do ok <- validate F env fuel strict r v;
  if ok then do d <- parse F env strict order fuel r v; Ok (PSuccess d)
  else do es <- report F env strict fuel [] r v; Ok (PFailure (firstn 10 es)).

(* ---------- err.ts ---------- *)
Definition pretty_print_value (fuel : nat) (v : val) : res string :=
  match v with
  | VStr s => Ok ("""" +++ s +++ """")
  | VNum n => Ok (num_to_string n)
  | VBool b => Ok (if b then "true" else "false")
  | VNull => Ok "null"
  | VArr _ => Ok "Array"
  | _ => if is_object_type v then Ok "Object" else template_json fuel v
  end.

Definition starts_with_bracket (s : string) : bool :=
  match s with String c _ => Ascii.eqb c "[" | _ => false end.
Definition join_with_dot (p : list string) : string :=
  match p with
  | [] => ""
  | x :: rest => fold_left (fun acc item => if starts_with_bracket item then acc +++ item else acc +++ "." +++ item) rest x
  end.
Definition print_path (parent p : list string) : string :=
  match (parent ++ p)%list with [] => "" | m => "(" +++ join_with_dot m +++ ")" end.
Definition join_filtered (l : list string) : string :=
  concat_str " " (filter (fun s => negb (String.eqb s "")) l).

Fixpoint print_errors_part (fuel : nat) (es : list err) (parent : list string) (show_received : bool)
  : res (list string) :=
  match fuel with
  | O => Throw EOutOfFuel
  | S f =>
      map_res (fun e =>
        match e with
        | ERegular m p r =>
            do pv <- (if show_received then do s <- pretty_print_value f r; Ok ("received: " +++ s) else Ok "");
            Ok (join_filtered [print_path parent p;
                               concat_str ", " (filter (fun s => negb (String.eqb s "")) [m; pv])])
        | EUnion p r inner =>
            do printed <- print_errors_part f inner [] false;
            let inner_msg :=
              if Nat.ltb 5 (List.length printed)
              then concat_str " OR " (firstn 5 printed) +++ " and more..."
              else concat_str " | " printed in
            do pv <- pretty_print_value f r;
            Ok (join_filtered [print_path parent p;
                               concat_str ", " ["Failed to decode one of (" +++ inner_msg +++ ")"; "received: " +++ pv]])
        end) es
  end.

Definition print_errors (fuel : nat) (es : list err) : res string :=
  do parts <- print_errors_part fuel es [] true;
  match parts with
  | [m] => Ok (join_filtered [m])
  | _ => Ok (concat_str " | " (map (fun im => join_filtered ["#" +++ nat_to_string (fst im); snd im])
                                   (combine (seq_from 0 (List.length parts)) parts)))
  end.

(* parse(): the data, or the documented failure carrying the rendered message *)
Inductive parse_outcome := POk (data : val) | PFail (message : string).
Definition parse_top (F : formats) (env : renv) (fuel : nat) (strict : bool) (order : key_order)
           (name : string) (r : rt) (v : val) : res parse_outcome :=
  do s <- safe_parse F env fuel strict order r v;
  match s with
  | PSuccess d => Ok (POk d)
  | PFailure es => do m <- print_errors fuel es; Ok (PFail ("Failed to parse " +++ name +++ " - " +++ m))
  end.

(* ---------- canonical text ---------- *)
Fixpoint show_err (fuel : nat) (e : err) : string :=
  match fuel with
  | O => "?"
  | S f =>
      match e with
      | ERegular m p r => "e(" +++ json_path p +++ ";" +++ quote m +++ ";" +++ show_val r +++ ")"
      | EUnion p r es => "U(" +++ json_path p +++ ";" +++ show_val r +++ ";[" +++ concat_str "," (map (show_err f) es) +++ "])"
      end
  end.
Definition show_parsed (p : parsed) : string :=
  match p with
  | PSuccess d => "ok:" +++ show_val d
  | PFailure es => "err:[" +++ concat_str "," (map (show_err 100) es) +++ "]"
  end.
Definition show_outcome (p : parse_outcome) : string :=
  match p with POk d => "ok:" +++ show_val d | PFail m => "!ParseFailure:" +++ m end.
