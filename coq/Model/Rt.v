(* Rt.v — the validator trees the JS runtime interprets (one constructor per class of codegen-v2.ts). *)
From Beff Require Export Model.JsValue.

(* ---------- template-literal patterns and the regular expressions emitted for them ---------- *)
Inductive tpl_item :=
| TplString | TplNumber | TplBoolean
| TplConst (s : string)
| TplOneOf (vs : list tpl_item).

Inductive re :=
| ReNull | ReEps
| ReChr (c : ascii)
| ReDot                 (* any character (the runtime compiles the pattern with the s flag) *)
| ReDigit
| ReSeq (a b : re) | ReAlt (a b : re) | ReStar (a : re).

Definition re_seq (a b : re) : re :=
  match a, b with
  | ReNull, _ | _, ReNull => ReNull
  | ReEps, _ => b
  | _, ReEps => a
  | _, _ => ReSeq a b
  end.
Definition re_alt (a b : re) : re :=
  match a, b with
  | ReNull, _ => b
  | _, ReNull => a
  | _, _ => ReAlt a b
  end.
Definition re_plus (a : re) : re := ReSeq a (ReStar a).
Definition re_opt (a : re) : re := ReAlt ReEps a.
Fixpoint re_lit (s : string) : re :=
  match s with EmptyString => ReEps | String c s' => re_seq (ReChr c) (re_lit s') end.

Fixpoint nullable (r : re) : bool :=
  match r with
  | ReNull => false | ReEps => true | ReChr _ => false | ReDot => false | ReDigit => false
  | ReSeq a b => nullable a && nullable b
  | ReAlt a b => nullable a || nullable b
  | ReStar _ => true
  end.
Definition is_line_terminator (c : ascii) : bool :=
  let n := nat_of_ascii c in Nat.eqb n 10 || Nat.eqb n 13.
Definition is_digit (c : ascii) : bool :=
  let n := nat_of_ascii c in Nat.leb 48 n && Nat.leb n 57.
Fixpoint deriv (c : ascii) (r : re) : re :=
  match r with
  | ReNull => ReNull | ReEps => ReNull
  | ReChr d => if Ascii.eqb c d then ReEps else ReNull
  | ReDot => ReEps
  | ReDigit => if is_digit c then ReEps else ReNull
  | ReSeq a b =>
      let l := re_seq (deriv c a) b in
      if nullable a then re_alt l (deriv c b) else l
  | ReAlt a b => re_alt (deriv c a) (deriv c b)
  | ReStar a => re_seq (deriv c a) (ReStar a)
  end.
(* the whole string is in the language *)
Fixpoint re_full (r : re) (s : string) : bool :=
  match s with EmptyString => nullable r | String c s' => re_full (deriv c r) s' end.
(* some prefix of the string is in the language *)
Fixpoint re_prefix (r : re) (s : string) : bool :=
  nullable r || match s with EmptyString => false | String c s' => re_prefix (deriv c r) s' end.
(* RegExp.prototype.test without anchors: some substring is in the language *)
Fixpoint re_search (r : re) (s : string) : bool :=
  re_prefix r s || match s with EmptyString => false | String _ s' => re_search r s' end.

Definition number_re : re :=
  ReSeq (re_plus ReDigit) (re_opt (ReSeq (ReChr ".") (re_plus ReDigit))).

(* Is the regex_expr of this item the empty string?  (TplLitTypeItem::regex_expr) *)
Definition tpl_item_source_empty (i : tpl_item) : bool :=
  match i with TplConst "" => true | _ => false end.

Definition opt_re (o : option re) : re := match o with None => ReEps | Some r => r end.
Fixpoint tpl_item_re (i : tpl_item) : re :=
  match i with
  | TplString => ReStar ReDot
  | TplNumber => number_re
  | TplBoolean => ReAlt (re_lit "true") (re_lit "false")
  | TplConst s => re_lit s
  | TplOneOf vs =>
      (* members whose expression is empty are filtered out of the alternation; they make the group optional *)
      let body := opt_re
      ((fix alts (l : list tpl_item) : option re :=
         match l with
         | [] => None
         | x :: l' =>
             if tpl_item_source_empty x then alts l'
             else match alts l' with
                  | None => Some (tpl_item_re x)
                  | Some r => Some (ReAlt (tpl_item_re x) r)
                  end
         end) vs) in
      if existsb tpl_item_source_empty vs then re_opt body else body
  end.

Fixpoint tpl_re (items : list tpl_item) : re :=
  match items with [] => ReEps | i :: is' => re_seq (tpl_item_re i) (tpl_re is') end.

(* ---------- the validator trees ---------- *)
Inductive tyname := TyString | TyNumber | TyBoolean.

Inductive rt :=
| RTypeof (t : tyname)
| RAny
| RNullish (description : string)
| RNever
| RConst (c : cst)
| RRegex (items : list tpl_item) (description : string)
| RDate
| RBigInt
| RTypedArray (ctor : string)
| RStringFmt (formats : list string)
| RNumberFmt (formats : list string)
| RAnyOfConsts (values : list cst)
| RTuple (prefix : list rt) (rest : option rt)
| RAllOf (schemas : list rt)
| RAnyOf (schemas : list rt)
| RArray (item : rt)
| RMap (k v : rt)
| RSet (item : rt)
| RDisc (schemas : list rt) (disc : string) (mapping : list (string * rt)) (schema_mapping : list (string * rt))
| ROptional (t : rt)
| RObject (props : list (string * rt)) (indexed : list (rt * rt))
| RRef (name : string)
| RMeta (description : string) (t : rt).   (* a node whose metadata.description is set *)

Definition renv := list (string * rt).

(* registered custom formats: external, total, pure (trusted base) *)
Record formats := {
  sfmt : string -> option (string -> bool);
  nfmt : string -> option (num -> bool)
}.
