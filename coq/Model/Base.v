(* Base.v — shared vocabulary of the executable models: results, strings, association lists. *)
From Coq Require Export List Bool Arith ZArith NArith String Ascii Lia.
Export ListNotations.
Open Scope string_scope.
Open Scope list_scope.
Infix "+++" := String.append (right associativity, at level 60).

(* ---------- results: "throws" is a value ---------- *)
Inductive exn :=
| ENotFunction          (* TypeError: v.validate is not a function *)
| EStringifyBigInt      (* TypeError: Do not know how to serialize a BigInt *)
| ECannotConvert        (* TypeError: Cannot convert object / a Symbol value to a primitive / string *)
| EInternal (msg : string)
| EUnreachable          (* NeverRuntype.parseAfterValidation *)
| EParseFailure         (* the documented failure of parse() *)
| ESchemaUnsupported (what : string)
| EOutOfFuel.

Inductive res (A : Type) := Ok (a : A) | Throw (e : exn).
Arguments Ok {A} a.
Arguments Throw {A} e.

Definition bind {A B} (x : res A) (f : A -> res B) : res B :=
  match x with Ok a => f a | Throw e => Throw e end.
Notation "'do' x <- e1 ; e2" := (bind e1 (fun x => e2)) (at level 200, x name, e1 at level 100, e2 at level 200).

Definition is_ok {A} (x : res A) : bool := match x with Ok _ => true | Throw _ => false end.

(* (the function argument is a parameter outside the fix so that nested recursive calls pass the guard) *)
(* JS loops that return false at the first failing element *)
Definition forall_res {A} (p : A -> res bool) : list A -> res bool :=
  fix go (xs : list A) : res bool :=
  match xs with
  | [] => Ok true
  | x :: xs' => match p x with
                | Ok true => go xs'
                | Ok false => Ok false
                | Throw e => Throw e
                end
  end.

(* JS loops that return true at the first succeeding element *)
Definition exists_res {A} (p : A -> res bool) : list A -> res bool :=
  fix go (xs : list A) : res bool :=
  match xs with
  | [] => Ok false
  | x :: xs' => match p x with
                | Ok true => Ok true
                | Ok false => go xs'
                | Throw e => Throw e
                end
  end.

Definition map_res {A B} (f : A -> res B) : list A -> res (list B) :=
  fix go (xs : list A) : res (list B) :=
  match xs with
  | [] => Ok []
  | x :: xs' => do y <- f x; do ys <- go xs'; Ok (y :: ys)
  end.

(* the prefix loop of TupleRuntype: element idx of xs (or the default) against the idx-th validator *)
Fixpoint prefix_res {A B} (p : A -> B -> res bool) (d : B) (xs : list B) (ps : list A) (idx : nat) : res bool :=
  match ps with
  | [] => Ok true
  | q :: ps' =>
      match p q (nth idx xs d) with
      | Ok true => prefix_res p d xs ps' (S idx)
      | other => other
      end
  end.

(* ---------- strings ---------- *)
Definition str_eqb := String.eqb.

(* code-unit (byte) lexicographic order: what JS sort() / < give on ASCII strings, and Rust's str Ord *)
Definition str_ltb (a b : string) : bool := String.ltb a b.
Definition str_leb (a b : string) : bool := String.leb a b.

Fixpoint mem_str (k : string) (l : list string) : bool :=
  match l with [] => false | x :: l' => if String.eqb k x then true else mem_str k l' end.

Fixpoint insert_sorted {A} (leb : A -> A -> bool) (x : A) (l : list A) : list A :=
  match l with
  | [] => [x]
  | y :: l' => if leb x y then x :: l else y :: insert_sorted leb x l'
  end.
Definition sort_by {A} (leb : A -> A -> bool) (l : list A) : list A :=
  fold_right (insert_sorted leb) [] l.
Definition sort_strings := sort_by str_leb.

Fixpoint concat_str (sep : string) (l : list string) : string :=
  match l with
  | [] => ""
  | [x] => x
  | x :: l' => x +++ sep +++ concat_str sep l'
  end.

(* decimal printing of N / Z *)
Fixpoint pos_digits_fuel (fuel : nat) (n : N) (acc : string) : string :=
  match fuel with
  | O => acc
  | S f =>
      let d := N.modulo n 10 in
      let q := N.div n 10 in
      let acc' := String (ascii_of_N (48 + d)) acc in
      if N.eqb q 0 then acc' else pos_digits_fuel f q acc'
  end.
Definition N_to_string (n : N) : string := pos_digits_fuel (S (N.to_nat (N.log2 n))) n "".
Definition Z_to_string (z : Z) : string :=
  match z with
  | Z0 => "0"
  | Zpos p => N_to_string (Npos p)
  | Zneg p => "-" +++ N_to_string (Npos p)
  end.
Definition nat_to_string (n : nat) : string := N_to_string (N.of_nat n).

(* ---------- association lists (JS objects as own-key tables, insertion order) ---------- *)
Fixpoint assoc {A} (k : string) (l : list (string * A)) : option A :=
  match l with
  | [] => None
  | (k', v) :: l' => if String.eqb k k' then Some v else assoc k l'
  end.
Definition keys {A} (l : list (string * A)) : list string := map fst l.

(* obj[k] = v on an own-key table: replace in place if present, else append *)
Fixpoint assoc_set {A} (k : string) (v : A) (l : list (string * A)) : list (string * A) :=
  match l with
  | [] => [(k, v)]
  | (k', v') :: l' => if String.eqb k k' then (k, v) :: l' else (k', v') :: assoc_set k v l'
  end.
Fixpoint assoc_remove {A} (k : string) (l : list (string * A)) : list (string * A) :=
  match l with
  | [] => []
  | (k', v') :: l' => if String.eqb k k' then assoc_remove k l' else (k', v') :: assoc_remove k l'
  end.

(* the members every plain object inherits from Object.prototype *)
Definition object_proto_functions : list string :=
  ["constructor"; "__defineGetter__"; "__defineSetter__"; "hasOwnProperty"; "__lookupGetter__";
   "__lookupSetter__"; "isPrototypeOf"; "propertyIsEnumerable"; "toString"; "valueOf"; "toLocaleString"].
Definition proto_key := "__proto__".
