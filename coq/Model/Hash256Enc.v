(* Hash256Enc.v — the byte stream written by the hash256() methods (codegen-v2.ts:647-2357, hash.ts:85-125),
   and the 32-bit hash() (hash.ts:1-48, codegen-v2.ts:637-2342). *)
From Beff Require Export Model.Rt Model.Sha256.

(* ---------- framing (the update methods of Hash256Writer) : each element is one updateBytes call ---------- *)
Definition str_bytes (s : string) : list byte := bytes_of_string s.       (* TextEncoder on ASCII *)
Definition w_utf8 (s : string) : list (list byte) :=
  [u32_bytes (N.of_nat (List.length (str_bytes s))); str_bytes s].
Definition w_tag (s : string) : list (list byte) := [byte_tag_source] :: w_utf8 s.
Definition w_string (s : string) : list (list byte) := [byte_string_source] :: w_utf8 s.
Definition w_number (n : num) : list (list byte) := [byte_number_source] :: w_utf8 (canonical_number n).
Definition w_nat (n : nat) : list (list byte) := w_number (NInt (Z.of_nat n)).
Definition w_bool (b : bool) : list (list byte) := [[if b then byte_true_source else byte_false_source]].
Definition w_null : list (list byte) := [[byte_null_source]].

Definition w_const (c : cst) : list (list byte) :=
  match c with
  | CNull => w_null
  | CStr s => w_tag "string" ++ w_string s
  | CNum n => w_tag "number" ++ w_number n
  | CBool b => w_tag "boolean" ++ w_bool b
  end.

(* constSortKey; compareConst is localeCompare, which on the modelled strings (lower-case ASCII letters,
   digits, the punctuation of number literals) coincides with code-unit order *)
Definition const_sort_key (c : cst) : string :=
  match c with
  | CNull => "null:"
  | CStr s => "string:" +++ s
  | CNum n => "number:" +++ num_to_string n
  | CBool b => "boolean:" +++ (if b then "true" else "false")
  end.

(* compareConst = String.prototype.localeCompare (ICU root collation), on the alphabet of the sort keys: punctuation
   ( _ - : . in that order) before digits before letters; letters compare without case first, lower case before upper
   case as a tie-break; a prefix sorts first.  Checked against Node on every run by the byte-stream comparison. *)
Definition coll_primary (c : ascii) : N :=
  let n := N_of_ascii c in
  if N.eqb n 95 then 1 else if N.eqb n 45 then 2 else if N.eqb n 58 then 3 else if N.eqb n 46 then 4
  else if N.leb 48 n && N.leb n 57 then 10 + (n - 48)
  else if N.leb 97 n && N.leb n 122 then 30 + (n - 97)
  else if N.leb 65 n && N.leb n 90 then 30 + (n - 65)
  else 100 + n.
Definition coll_upper (c : ascii) : N := let n := N_of_ascii c in if N.leb 65 n && N.leb n 90 then 1 else 0.
Fixpoint lex_cmp (a b : list N) : comparison :=
  match a, b with
  | [], [] => Eq
  | [], _ => Lt
  | _, [] => Gt
  | x :: a', y :: b' => match N.compare x y with Eq => lex_cmp a' b' | c => c end
  end.
Definition collate_leb (a b : string) : bool :=
  let la := list_ascii_of_string a in
  let lb := list_ascii_of_string b in
  match lex_cmp (map coll_primary la) (map coll_primary lb) with
  | Lt => true
  | Gt => false
  | Eq => match lex_cmp (map coll_upper la) (map coll_upper lb) with Gt => false | _ => true end
  end.

Definition is_optional (r : rt) : bool := match r with ROptional _ => true | _ => false end.
(* metadata is invisible to hash256, so is the RMeta node of the model; instanceof looks through it *)
Fixpoint strip_meta_top (r : rt) : rt := match r with RMeta _ t => strip_meta_top t | _ => r end.

(* state: cycle ids of the named types being hashed and the next id *)
Definition est := (list (string * nat) * nat)%type.

(* the loop over the sorted property names of an ObjectRuntype *)
Fixpoint enc_props (e : est -> rt -> res (list (list byte) * est)) (look : string -> option rt)
         (ks : list string) (st : est) : res (list (list byte) * est) :=
  match ks with
  | [] => Ok ([], st)
  | k :: ks' =>
      match look k with
      | Some m =>
          do a <- e st m;
          do b <- enc_props e look ks' (snd a);
          Ok (w_string k ++ w_bool (is_optional (strip_meta_top m)) ++ fst a ++ fst b, snd b)
      | None => Throw (EInternal "property key")
      end
  end.
(* the loop over the sorted keys of the discriminator mapping *)
Fixpoint enc_mapping (e : est -> rt -> res (list (list byte) * est)) (look : string -> option rt)
         (ks : list string) (st : est) : res (list (list byte) * est) :=
  match ks with
  | [] => Ok ([], st)
  | k :: ks' =>
      match look k with
      | Some m =>
          do a <- e st m;
          do b <- enc_mapping e look ks' (snd a);
          Ok (w_string k ++ fst a ++ fst b, snd b)
      | None => Throw (EInternal "mapping key")
      end
  end.

Section Enc.
  Variable env : renv.

  (* state: cycle ids of the named types being hashed (ctx.active, keyed by the target object = its name)
     and ctx.nextCycleId *)
  Fixpoint enc (fuel : nat) (st : est) (r : rt) {struct fuel} : res (list (list byte) * est) :=
    match fuel with
    | O => Throw EOutOfFuel
    | S f =>
      let seq (st : est) (rs : list rt) : res (list (list byte) * est) :=
        (fix go (l : list rt) (st : est) : res (list (list byte) * est) :=
           match l with
           | [] => Ok ([], st)
           | x :: l' =>
               do a <- enc f st x;
               do b <- go l' (snd a);
               Ok (fst a ++ fst b, snd b)
           end) rs st in
      match r with
      | RTypeof t => Ok (w_tag "typeof" ++ w_string (match t with TyString => "string" | TyNumber => "number" | TyBoolean => "boolean" end), st)
      | RAny => Ok (w_tag "any", st)
      | RNullish _ => Ok (w_tag "nullish", st)
      | RNever => Ok (w_tag "never", st)
      | RConst c =>
          Ok (w_tag "const" ++ match c with
                               | CNull => w_null
                               | _ => w_const c
                               end, st)
      | RRegex _ d => Ok (w_tag "regex" ++ w_string d, st)
      | RDate => Ok (w_tag "date", st)
      | RBigInt => Ok (w_tag "bigint", st)
      | RTypedArray c => Ok (w_tag "typedArray" ++ w_string c, st)
      | RStringFmt fs =>
          let sorted := sort_strings fs in
          Ok (w_tag "stringWithFormat" ++ w_nat (List.length sorted) ++ List.concat (map w_string sorted), st)
      | RNumberFmt fs =>
          let sorted := sort_strings fs in
          Ok (w_tag "numberWithFormat" ++ w_nat (List.length sorted) ++ List.concat (map w_string sorted), st)
      | RAnyOfConsts cs =>
          let sorted := sort_by (fun a b => collate_leb (const_sort_key a) (const_sort_key b)) cs in
          Ok (w_tag "anyOfConsts" ++ w_nat (List.length sorted) ++ List.concat (map w_const sorted), st)
      | RTuple prefix rest =>
          do p <- seq st prefix;
          match rest with
          | None => Ok (w_tag "tuple" ++ w_nat (List.length prefix) ++ fst p ++ w_tag "noRest", snd p)
          | Some rr =>
              do q <- enc f (snd p) rr;
              Ok (w_tag "tuple" ++ w_nat (List.length prefix) ++ fst p ++ w_tag "rest" ++ fst q, snd q)
          end
      | RAllOf rs => do p <- seq st rs; Ok (w_tag "allOf" ++ w_nat (List.length rs) ++ fst p, snd p)
      | RAnyOf rs => do p <- seq st rs; Ok (w_tag "anyOf" ++ w_nat (List.length rs) ++ fst p, snd p)
      | RArray t => do p <- enc f st t; Ok (w_tag "array" ++ fst p, snd p)
      | RMap k v => do p <- enc f st k; do q <- enc f (snd p) v; Ok (w_tag "map" ++ fst p ++ fst q, snd q)
      | RSet t => do p <- enc f st t; Ok (w_tag "set" ++ fst p, snd p)
      | RDisc ss disc mapping _ =>
          do p <- seq st ss;
          let keys_sorted := sort_strings (keys mapping) in
          do q <- enc_mapping (enc f) (fun k => assoc k mapping) keys_sorted (snd p);
          Ok (w_tag "anyOfDiscriminated" ++ w_string disc ++ w_nat (List.length ss) ++ fst p
              ++ w_nat (List.length keys_sorted) ++ fst q, snd q)
      | ROptional t => do p <- enc f st t; Ok (w_tag "optionalField" ++ fst p, snd p)
      | RObject props indexed =>
          let keys_sorted := sort_strings (keys props) in
          do p <- enc_props (enc f) (fun k => assoc k props) keys_sorted st;
          do q <- (fix go (ps : list (rt * rt)) (st : est) : res (list (list byte) * est) :=
                     match ps with
                     | [] => Ok ([], st)
                     | kv :: ps' =>
                         do a <- enc f st (fst kv);
                         do b <- enc f (snd a) (snd kv);
                         do c <- go ps' (snd b);
                         Ok (fst a ++ fst b ++ fst c, snd c)
                     end) indexed (snd p);
          Ok (w_tag "object" ++ w_nat (List.length keys_sorted) ++ fst p ++ w_nat (List.length indexed) ++ fst q, snd q)
      | RRef name =>
          match assoc name env with
          | None => Throw (EInternal "unknown named type")
          | Some target =>
              match assoc name (fst st) with
              | Some id => Ok (w_tag "cycleRef" ++ w_nat id, st)
              | None =>
                  let id := snd st in
                  do p <- enc f ((name, id) :: fst st, S id) target;
                  Ok (fst p, (assoc_remove name (fst (snd p)), snd (snd p)))
              end
          end
      | RMeta _ t => enc f st t
      end
    end.

  Definition hash256_writes (fuel : nat) (r : rt) : res (list (list byte)) :=
    do p <- enc fuel ([], 0) r; Ok (w_tag "beff-hash256-v1" ++ fst p).

  (* ParserFromRuntype.hash256(): the writes go through the streaming writer *)
  Definition hash256_hex (fuel : nat) (r : rt) : res string :=
    do ws <- hash256_writes fuel r;
    Ok (hex_words (digest_words K_source (fold_left (update_bytes K_source) ws (writer_init H0_source)))).
End Enc.

(* ---------- the 32-bit hash() ---------- *)
Definition to_int32 (z : Z) : Z := ((z + 2147483648) mod 4294967296 - 2147483648)%Z.
Definition hash_numbers (l : list Z) : Z :=
  fold_left (fun h v => to_int32 (h * Z.of_N hash_multiplier_source + v)%Z) l 0%Z.
Definition hash_string (s : string) : Z :=
  hash_numbers (map Z.of_N (bytes_of_string s)).
Definition seed (name : string) : Z :=
  match assoc name hash_seeds_source with Some s => hash_string s | None => 0%Z end.

(* value | 0 of a number constant *)
Fixpoint int_prefix (s : string) (acc : Z) : Z :=
  match s with
  | String c s' => if is_digit c then int_prefix s' (acc * 10 + Z.of_nat (nat_of_ascii c - 48))%Z else acc
  | EmptyString => acc
  end.
Definition num_trunc (n : num) : Z :=
  match n with
  | NInt z => z
  | NDec (String "-" s) => (- int_prefix s 0)%Z
  | NDec s => int_prefix s 0
  | _ => 0%Z
  end.
Definition cst_hash (c : cst) : Z :=
  match c with
  | CNull => seed "nullish"
  | CStr s => hash_string s
  | CNum n => hash_numbers [num_trunc n]
  | CBool b => hash_string (if b then "true" else "false")
  end.
Definition cst_to_string (c : cst) : string :=     (* String(v), the key of Array.prototype.sort() *)
  match c with
  | CNull => "null" | CStr s => s | CNum n => num_to_string n | CBool b => if b then "true" else "false"
  end.
Fixpoint lower (s : string) : string :=
  match s with
  | EmptyString => ""
  | String c s' => let n := nat_of_ascii c in
                   String (if Nat.leb 65 n && Nat.leb n 90 then ascii_of_nat (n + 32) else c) (lower s')
  end.
(* the comparator of hash(): by String(v), ties ("1" and 1) broken by typeof, so that the order the values were given in is
   invisible (since the fix of the member-order dependence of hash()) *)
Definition cst_typeof (c : cst) : string :=
  match c with CNull => "object" | CBool _ => "boolean" | CNum _ => "number" | CStr _ => "string" end.
Definition cst_sort_leb (a b : cst) : bool :=
  let x := cst_to_string a in
  let y := cst_to_string b in
  if String.eqb x y then str_leb (cst_typeof a) (cst_typeof b) else str_leb x y.

Section Hash32.
  Variable env : renv.
  Fixpoint hash32 (fuel : nat) (seen : list string) (r : rt) {struct fuel} : res Z :=
    match fuel with
    | O => Throw EOutOfFuel
    | S f =>
      let all (rs : list rt) := map_res (hash32 f seen) rs in
      match r with
      | RTypeof TyString => Ok (seed "string")
      | RTypeof TyNumber => Ok (seed "number")
      | RTypeof TyBoolean => Ok (seed "boolean")
      | RAny => Ok (seed "unknown")
      | RNullish _ => Ok (seed "nullish")
      | RNever => Ok (seed "undefined")
      | RConst c => Ok (cst_hash c)
      | RRegex _ d => Ok (hash_string d)
      | RDate => Ok (seed "date")
      | RBigInt => Ok (seed "bigint")
      | RTypedArray c => Ok (hash_string (lower c))
      | RStringFmt fs => Ok (hash_numbers (seed "stringWithFormat" :: map hash_string (sort_strings fs)))
      | RNumberFmt fs => Ok (hash_numbers (seed "numberWithFormat" :: map hash_string (sort_strings fs)))
      | RAnyOfConsts cs =>
          Ok (hash_numbers (seed "anyOfConsts"
                            :: map cst_hash (sort_by cst_sort_leb cs)))
      | RTuple prefix rest =>
          do ps <- all prefix;
          do rr <- match rest with Some x => hash32 f seen x | None => Ok 0%Z end;
          Ok (hash_numbers (seed "tuple" :: ps ++ [rr]))
      | RAllOf rs => do hs <- all rs; Ok (hash_numbers (seed "allOf" :: hs))
      | RAnyOf rs => do hs <- all rs; Ok (hash_numbers (seed "anyOf" :: hs))
      | RArray t => do h <- hash32 f seen t; Ok (hash_numbers [seed "array"; h])
      | RMap k v => do a <- hash32 f seen k; do b <- hash32 f seen v; Ok (hash_numbers [seed "map"; a; b])
      | RSet t => do h <- hash32 f seen t; Ok (hash_numbers [seed "set"; h])
      | RDisc ss _ _ _ => do hs <- all ss; Ok (hash_numbers (seed "anyOf" :: hs))
      | ROptional t => do h <- hash32 f seen t; Ok (hash_numbers [seed "optionalField"; h])
      | RObject props indexed =>
          do ps <- map_res (fun k => match assoc k props with
                                     | Some m => do h <- hash32 f seen m; Ok [hash_string k; h]
                                     | None => Throw (EInternal "property key")
                                     end) (sort_strings (keys props));
          do is <- map_res (fun kv => do a <- hash32 f seen (fst kv); do b <- hash32 f seen (snd kv); Ok [a; b]) indexed;
          Ok (hash_numbers (seed "object" :: List.concat ps ++ List.concat is))
      | RRef name =>
          match assoc name env with
          | None => Throw (EInternal "unknown named type")
          | Some target => if mem_str name seen then Ok (hash_string name) else hash32 f (name :: seen) target
          end
      | RMeta _ t => hash32 f seen t
      end
    end.
End Hash32.

Definition show_writes (ws : list (list byte)) : string :=
  concat_str "" (map (fun b => hex_digit (N.shiftr b 4) +++ hex_digit (N.land b 15)) (List.concat ws)).
