(* StrictSpec.v — the reference reading of "carries no undeclared key" (property C11), on validator trees. *)
From Beff Require Export Model.Validate.

(* keep the elements whose test succeeds *)
Fixpoint filter_res {A} (p : A -> res bool) (xs : list A) : res (list A) :=
  match xs with
  | [] => Ok []
  | x :: xs' => do ok <- p x; do rest <- filter_res p xs'; Ok (if ok then x :: rest else rest)
  end.

(* the members of an intersection, each judged with the keys its siblings declare *)
Fixpoint allof_res {A} (tk : A -> res (list string)) (ne : list string -> A -> res bool)
         (before after : list A) : res bool :=
  match after with
  | [] => Ok true
  | m :: after' =>
      do sib <- map_res tk (before ++ after');
      match ne (List.concat sib) m with
      | Ok true => allof_res tk ne (before ++ [m]) after'
      | other => other
      end
  end.

Section StrictSpec.
  Variable F : formats.
  Variable env : renv.

  Notation lax f := (validate F env f false).

  (* Keys a type declares at its top object level, relative to the value being judged:
     named properties, keys of the value admitted by an index signature, the members of an
     intersection, the union branches that accept the value. *)
  Fixpoint top_keys (fuel : nat) (r : rt) (v : val) {struct fuel} : res (list string) :=
    match fuel with
    | O => Throw EOutOfFuel
    | S f =>
      match r with
      | RObject props indexed =>
          do admitted <- filter_res (fun k => exists_res (fun p =>
                                           do a <- lax f (fst p) (VStr k);
                                           if negb a then Ok false else lax f (snd p) (get v k)) indexed)
                                    (own_keys v);
          Ok (keys props ++ admitted)
      | RAllOf rs =>
          do kss <- map_res (fun m => top_keys f m v) rs; Ok (List.concat kss)
      | RAnyOf rs =>
          do kss <- map_res (fun m => do ok <- lax f m v; if ok then top_keys f m v else Ok []) rs;
          Ok (List.concat kss)
      | RDisc _ disc mapping _ =>
          if negb (is_object_type v) || is_nullish v then Ok [] else
          do key <- to_key (get v disc);
          match lookup_plain mapping key with
          | LOwn m => top_keys f m v
          | _ => Ok []
          end
      | ROptional t => top_keys f t v
      | RRef name => match assoc name env with Some t => top_keys f t v | None => Ok [] end
      | RMeta _ t => top_keys f t v
      | _ => Ok []
      end
    end.

  (* no_extra allowed r v: at every object position of v (read through r) there is no own key beyond the
     declared ones; [allowed] are the keys declared by the sibling members of an enclosing intersection. *)
  Fixpoint no_extra (fuel : nat) (allowed : list string) (r : rt) (v : val) {struct fuel} : res bool :=
    match fuel with
    | O => Throw EOutOfFuel
    | S f =>
      let sspec r' v' := do l <- lax f r' v'; if negb l then Ok false else no_extra f [] r' v' in
      match r with
      | RTuple prefix rest =>
          match v with
          | VArr xs =>
              do ok <- prefix_res (no_extra f []) VUndef xs prefix 0;
              if negb ok then Ok false else
              match rest with
              | Some rr => forall_res (no_extra f [] rr) (skipn (List.length prefix) xs)
              | None => Ok true
              end
          | _ => Ok true
          end
      | RAllOf rs =>
          allof_res (fun s => top_keys f s v) (fun ks m => no_extra f (allowed ++ ks) m v) [] rs
      | RAnyOf rs =>
          exists_res (fun m => do ok <- lax f m v; if negb ok then Ok false else no_extra f allowed m v) rs
      | RArray item =>
          match v with VArr xs => forall_res (no_extra f [] item) xs | _ => Ok true end
      | RMap kr vr =>
          match v with
          | VMap kvs =>
              forall_res (fun kv =>
                            do a <- no_extra f [] kr (fst kv);
                            if negb a then Ok false else no_extra f [] vr (snd kv)) kvs
          | _ => Ok true
          end
      | RSet item =>
          match v with VSet xs => forall_res (no_extra f [] item) xs | _ => Ok true end
      | RDisc _ disc mapping _ =>
          if negb (is_object_type v) || is_nullish v then Ok true else
          let d := get v disc in
          if is_nullish d then Ok true else
          do key <- to_key d;
          match lookup_plain mapping key with
          | LOwn m => no_extra f allowed m v
          | LMissing => Ok true
          | LProtoFunction | LProtoObject => Throw ENotFunction
          end
      | ROptional t => if is_nullish v then Ok true else no_extra f allowed t v
      | RObject props indexed =>
          if is_object_type v && negb (is_array v) && negb (match v with VNull => true | _ => false end) then
            let config_keys := keys props in
            do ok <- forall_res (fun kp => no_extra f [] (snd kp) (get v (fst kp))) props;
            if negb ok then Ok false else
            let extra := filter (fun k => negb (mem_str k config_keys)) (own_keys v) in
            match indexed with
            | _ :: _ =>
                (* every other key must be admitted by an index signature whose value carries no extra key *)
                forall_res (fun k =>
                  exists_res (fun p =>
                    do a <- sspec (fst p) (VStr k);
                    if negb a then Ok false else sspec (snd p) (get v k)) indexed) extra
            | [] => Ok (forallb (fun k => mem_str k allowed) extra)
            end
          else Ok true
      | RRef name =>
          match assoc name env with
          | Some t => no_extra f allowed t v
          | None => Throw (EInternal "unknown named type")
          end
      | RMeta _ t => no_extra f allowed t v
      | _ => Ok true
      end
    end.

  (* the property, as a function: what strict mode should answer *)
  Definition strict_spec (fuel : nat) (r : rt) (v : val) : res bool :=
    do l <- lax fuel r v;
    if negb l then Ok false else no_extra fuel [] r v.
End StrictSpec.

(* The call site of the defect: an intersection that reaches the runtime with two or more members
   (named references are not merged by all_of), each judging the other's keys as extra. *)
Fixpoint c11_plain (r : rt) : bool :=
  match r with
  | RTuple prefix rest => forallb c11_plain prefix && match rest with Some x => c11_plain x | None => true end
  | RAllOf rs => Nat.leb (List.length rs) 1 && forallb c11_plain rs
  | RAnyOf rs => forallb c11_plain rs
  | RArray t | RSet t | ROptional t | RMeta _ t => c11_plain t
  | RMap k v => c11_plain k && c11_plain v
  | RDisc ss _ mp smp => forallb c11_plain ss && forallb (fun kp => c11_plain (snd kp)) mp
                         && forallb (fun kp => c11_plain (snd kp)) smp
  | RObject props indexed => forallb (fun kp => c11_plain (snd kp)) props
                             && forallb (fun p => c11_plain (fst p) && c11_plain (snd p)) indexed
  | _ => true
  end.
Definition c11_plain_env (env : renv) : bool := forallb (fun kp => c11_plain (snd kp)) env.
