(* ShowRt.v — validator trees as JSON text, in the syntax of the `dump` operation of harness/js/modrun.mjs. *)
From Beff Require Export Model.Printer.

Definition show_cst_json (c : cst) : string :=
  match c with
  | CNull => "null"
  | CBool b => if b then "true" else "false"
  | CNum NNegZero => "{""n"":""-0""}"
  | CNum n => "{""n"":" +++ quote (num_to_string n) +++ "}"
  | CStr s => quote s
  end.
Definition jarr (l : list string) : string := "[" +++ concat_str "," l +++ "]".

Fixpoint show_tpl_json (i : tpl_item) : string :=
  match i with
  | TplString => jarr [quote "string"] | TplNumber => jarr [quote "number"] | TplBoolean => jarr [quote "boolean"]
  | TplConst s => jarr [quote "const"; quote s]
  | TplOneOf vs => jarr [quote "oneof"; jarr (map show_tpl_json vs)]
  end.

Fixpoint show_rt (r : rt) : string :=
  match r with
  | RTypeof t => jarr [quote "Typeof"; quote (tyname_str t)]
  | RAny => jarr [quote "Any"]
  | RNullish d => jarr [quote "Nullish"; quote d]
  | RNever => jarr [quote "Never"]
  | RConst c => jarr [quote "Const"; show_cst_json c]
  | RRegex items d => jarr [quote "Regex"; jarr (map show_tpl_json items); quote d]
  | RDate => jarr [quote "Date"]
  | RBigInt => jarr [quote "BigInt"]
  | RTypedArray c => jarr [quote "TypedArray"; quote c]
  | RStringFmt fs => jarr [quote "StringFmt"; jarr (map quote fs)]
  | RNumberFmt fs => jarr [quote "NumberFmt"; jarr (map quote fs)]
  | RAnyOfConsts cs => jarr [quote "AnyOfConsts"; jarr (map show_cst_json cs)]
  | RTuple prefix rest => jarr [quote "Tuple"; jarr (map show_rt prefix); match rest with Some x => show_rt x | None => "null" end]
  | RAllOf rs => jarr [quote "AllOf"; jarr (map show_rt rs)]
  | RAnyOf rs => jarr [quote "AnyOf"; jarr (map show_rt rs)]
  | RArray t => jarr [quote "Array"; show_rt t]
  | RMap k v => jarr [quote "Map"; show_rt k; show_rt v]
  | RSet t => jarr [quote "Set"; show_rt t]
  | RDisc ss d m sm =>
      jarr [quote "Disc"; jarr (map show_rt ss); quote d;
            jarr (map (fun kv => jarr [quote (fst kv); show_rt (snd kv)]) m);
            jarr (map (fun kv => jarr [quote (fst kv); show_rt (snd kv)]) sm)]
  | ROptional t => jarr [quote "Optional"; show_rt t]
  | RObject props indexed =>
      jarr [quote "Object"; jarr (map (fun kv => jarr [quote (fst kv); show_rt (snd kv)]) props);
            jarr (map (fun kv => jarr [show_rt (fst kv); show_rt (snd kv)]) indexed)]
  | RRef n => jarr [quote "Ref"; quote n]
  | RMeta d t => jarr [quote "Meta"; quote d; show_rt t]
  end.

Definition show_env (e : renv) : string := jarr (map (fun kv => jarr [quote (fst kv); show_rt (snd kv)]) e).
