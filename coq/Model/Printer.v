(* Printer.v — print_runtype (print/printer.rs:840-1069): the compiler IR to the validator tree the runtime interprets,
   including the selection of AnyOfConstsRuntype and AnyOfDiscriminatedRuntype (printer.rs:462-790), extract_object_shape,
   maybe_named_ref and Runtype::any_of.  BTreeSet/BTreeMap iteration orders that only permute the members of a union,
   an intersection or a constant list are not modelled (the comparison with the emitted module is modulo these orders);
   the order in which candidate discriminators are tried is a parameter (`prefer`). *)
From Beff Require Export Model.Flatten Model.SemType.

Definition num_eqb (a b : num) : bool :=
  match a, b with
  | NInt x, NInt y => Z.eqb x y
  | NDec x, NDec y => String.eqb x y
  | NNaN, NNaN | NNegZero, NNegZero => true
  | NInf x, NInf y => Bool.eqb x y
  | _, _ => false
  end.
Definition irconst_eqb (a b : irconst) : bool :=
  match a, b with
  | ICBool x, ICBool y => Bool.eqb x y
  | ICNum x, ICNum y => num_eqb x y
  | _, _ => false
  end.

(* Runtype's PartialEq compares the kind only: descriptions are invisible to it *)
Fixpoint erase (t : ir) : ir :=
  match t with
  | IMetaIR _ t' => erase t'
  | IObject vs idx =>
      IObject (map (fun kv => (fst kv, (fst (snd kv), erase (snd (snd kv))))) vs)
              (match idx with Some (k, (r, v)) => Some (erase k, (r, erase v)) | None => None end)
  | IArray t' => IArray (erase t')
  | ITuple p r => ITuple (map erase p) (match r with Some x => Some (erase x) | None => None end)
  | IAnyOf vs => IAnyOf (map erase vs)
  | IAllOf vs => IAllOf (map erase vs)
  | IStNot t' => IStNot (erase t')
  | IMap k v => IMap (erase k) (erase v)
  | ISet t' => ISet (erase t')
  | _ => t
  end.

Fixpoint ir_eqb0 (a b : ir) {struct a} : bool :=
  match a, b with
  | INull, INull | IUndefined, IUndefined | IVoid, IVoid | IBoolean, IBoolean | IString, IString | INumber, INumber
  | IAny, IAny | IAnyArrayLike, IAnyArrayLike | INever, INever | IFunction, IFunction | IDate, IDate | IBigInt, IBigInt => true
  | IStringFmt f r, IStringFmt f' r' | INumberFmt f r, INumberFmt f' r' => String.eqb f f' && list_eqb String.eqb r r'
  | ITpl i, ITpl i' => list_eqb tpl_item_eqb i i'
  | IObject vs idx, IObject vs' idx' =>
      (fix go (l : list (string * (bool * ir))) (l' : list (string * (bool * ir))) : bool :=
         match l, l' with
         | [], [] => true
         | (k, (r, t)) :: l1, (k', (r', t')) :: l1' => String.eqb k k' && Bool.eqb r r' && ir_eqb0 t t' && go l1 l1'
         | _, _ => false
         end) vs vs' &&
      match idx, idx' with
      | None, None => true
      | Some (k, (r, v)), Some (k', (r', v')) => ir_eqb0 k k' && Bool.eqb r r' && ir_eqb0 v v'
      | _, _ => false
      end
  | IArray t, IArray t' | ISet t, ISet t' | IStNot t, IStNot t' => ir_eqb0 t t'
  | ITuple p r, ITuple p' r' =>
      (fix go (l l' : list ir) : bool :=
         match l, l' with [], [] => true | x :: l1, y :: l1' => ir_eqb0 x y && go l1 l1' | _, _ => false end) p p' &&
      match r, r' with None, None => true | Some x, Some y => ir_eqb0 x y | _, _ => false end
  | IRef n, IRef n' => String.eqb n n'
  | IAnyOf vs, IAnyOf vs' | IAllOf vs, IAllOf vs' =>
      (fix go (l l' : list ir) : bool :=
         match l, l' with [], [] => true | x :: l1, y :: l1' => ir_eqb0 x y && go l1 l1' | _, _ => false end) vs vs'
  | IConst c, IConst c' => irconst_eqb c c'
  | ITypedArray k, ITypedArray k' => String.eqb k k'
  | IMap k v, IMap k' v' => ir_eqb0 k k' && ir_eqb0 v v'
  | IMetaIR d t, IMetaIR d' t' => String.eqb d d' && ir_eqb0 t t'
  | _, _ => false
  end.
Definition ir_eqb (a b : ir) : bool := ir_eqb0 (erase a) (erase b).

Fixpoint dedupe_ir (l : list ir) : list ir :=
  match l with
  | [] => []
  | x :: l' => if existsb (ir_eqb x) l' then dedupe_ir l' else x :: dedupe_ir l'
  end.
Fixpoint dedupe_str (l : list string) : list string :=
  match l with
  | [] => []
  | x :: l' => if mem_str x l' then dedupe_str l' else x :: dedupe_str l'
  end.

Fixpoint ir_kind (t : ir) : ir := match t with IMetaIR _ t' => ir_kind t' | _ => t end.
Definition single_string_const (t : ir) : option string :=
  match ir_kind t with ITpl [TplConst s] => Some s | _ => None end.
Definition cst_of_irconst (c : irconst) : cst := match c with ICBool b => CBool b | ICNum n => CNum n end.
Definition const_of_ir (t : ir) : option cst :=
  match single_string_const t with
  | Some s => Some (CStr s)
  | None => match ir_kind t with IConst c => Some (cst_of_irconst c) | _ => None end
  end.
Fixpoint all_some {A} (l : list (option A)) : option (list A) :=
  match l with
  | [] => Some []
  | Some x :: l' => match all_some l' with Some r => Some (x :: r) | None => None end
  | None :: _ => None
  end.

Definition sort_fields {A} (l : list (string * A)) : list (string * A) := sort_by (fun a b => str_leb (fst a) (fst b)) l.
Definition opt_eqb (a b : bool * ir) : bool := Bool.eqb (fst a) (fst b) && ir_eqb (snd a) (snd b).
Fixpoint dedupe_opt (l : list (bool * ir)) : list (bool * ir) :=
  match l with
  | [] => []
  | x :: l' => if existsb (opt_eqb x) l' then dedupe_opt l' else x :: dedupe_opt l'
  end.

Section Printer.
  Variable env : ienv.                 (* named_schemas, in their order *)
  Variable prefer : list string.       (* candidate discriminators tried first *)

  (* maybe_named_ref: the first named type whose body is this type *)
  Definition maybe_named_ref (t : ir) : ir :=
    match find (fun kv => ir_eqb (snd kv) t) env with
    | Some kv => IRef (fst kv)
    | None => t
    end.

  (* string_const_union *)
  Definition string_const_union (fuel : nat) (t : ir) : res (option (list string)) :=
    do flat <- extract_union fuel env t; Ok (all_some (map single_string_const flat)).

  Definition merge_shapes (fuel : nat) (l r : bool * ir) : res (option (bool * ir)) :=
    if opt_eqb l r then Ok (Some l) else
    match l, r with
    | (true, lt), (true, rt') =>
        do a <- string_const_union fuel lt;
        do b <- string_const_union fuel rt';
        match a, b with
        | Some la, Some lb =>
            if subset_str la lb then Ok (Some (true, lt))
            else if subset_str lb la then Ok (Some (true, rt'))
            else Ok None
        | _, _ => Ok None
        end
    | _, _ => Ok None
    end.

  (* extract_object_shape: None = "not an object shape" *)
  Fixpoint object_shape (fuel : nat) (t : ir) {struct fuel} : res (option (list (string * (bool * ir)))) :=
    match fuel with
    | O => Throw EOutOfFuel
    | S f =>
      match ir_kind t with
      | IObject vs None => Ok (Some vs)
      | IRef n => match assoc n env with Some b => object_shape f b | None => Ok None end
      | IAllOf ms =>
          fold_left
            (fun (acc : res (option (list (string * (bool * ir))))) m =>
               do a <- acc;
               match a with
               | None => Ok None
               | Some acc0 =>
                   do e <- object_shape f m;
                   match e with
                   | None => Ok None
                   | Some ex =>
                       (* conflicting keys are merged, then the new keys are added *)
                       do merged <-
                          fold_left
                            (fun (r : res (option (list (string * (bool * ir))))) kv =>
                               do r0 <- r;
                               match r0 with
                               | None => Ok None
                               | Some cur =>
                                   match assoc (fst kv) cur with
                                   | Some existing =>
                                       if opt_eqb existing (snd kv) then Ok (Some cur)
                                       else do m' <- merge_shapes f existing (snd kv);
                                            match m' with
                                            | Some v => Ok (Some (assoc_set (fst kv) v cur))
                                            | None => Ok None
                                            end
                                   | None => Ok (Some cur)
                                   end
                               end) ex (Ok (Some acc0));
                       match merged with
                       | None => Ok None
                       | Some cur =>
                           Ok (Some (fold_left (fun c kv => match assoc (fst kv) c with Some _ => c | None => c ++ [kv] end) ex cur))
                       end
                   end
               end) ms (Ok (Some []))
      | _ => Ok None
      end
    end.

  (* the strings a discriminator property of a member can take *)
  Definition disc_strings (fuel : nat) (p : bool * ir) : res (list string) :=
    do flat <- extract_union fuel env (snd p);
    Ok (List.concat (map (fun t => match single_string_const t with Some s => [s] | None => [] end) flat)).

  (* is `d` a discriminator of these shapes?  Some strings = yes, with its sorted values *)
  Definition try_discriminator (fuel : nat) (shapes : list (list (string * (bool * ir)))) (d : string) : res (option (list string)) :=
    match all_some (map (assoc d) shapes) with
    | None => Ok None                                        (* not contained in all *)
    | Some vals =>
        let distinct := dedupe_opt vals in
        if Nat.leb (List.length distinct) 1 then Ok None      (* equal in all *)
        else if negb (forallb fst distinct) then Ok None      (* some member has it optional *)
        else
          do flats <- map_res (fun p => extract_union fuel env (snd p)) distinct;
          let flat := dedupe_ir (List.concat flats) in
          match all_some (map single_string_const flat) with
          | Some strs =>
              (* a value admitted by every member does not narrow the union: its case would be this union again *)
              do per_member <- map_res (disc_strings fuel) vals;
              if existsb (fun key => forallb (mem_str key) per_member) strs then Ok None
              else Ok (Some (sort_strings (dedupe_str strs)))
          | None => Ok None
          end
    end.

  Fixpoint first_discriminator (fuel : nat) (shapes : list (list (string * (bool * ir)))) (cands : list string)
    : res (option (string * list string)) :=
    match cands with
    | [] => Ok None
    | d :: rest =>
        do r <- try_discriminator fuel shapes d;
        match r with
        | Some strs => Ok (Some (d, strs))
        | None => first_discriminator fuel shapes rest
        end
    end.

  Definition opt_wrap (req : bool) (r : rt) : rt := if req then r else ROptional r.

  Fixpoint print (fuel : nat) (t : ir) {struct fuel} : res rt :=
    match fuel with
    | O => Throw EOutOfFuel
    | S f =>
      match t with
      | IMetaIR d t' => do r <- print f t'; Ok (RMeta d r)
      | INull => Ok (RNullish "null") | IUndefined => Ok (RNullish "undefined") | IVoid => Ok (RNullish "void")
      | IBoolean => Ok (RTypeof TyBoolean) | IString => Ok (RTypeof TyString) | INumber => Ok (RTypeof TyNumber)
      | IFunction => Throw (EInternal "function types are outside the modelled subset")
      | IAny => Ok RAny | INever => Ok RNever
      | IAnyArrayLike => Ok (RArray RAny)
      | IConst c => Ok (RConst (cst_of_irconst c))
      | IStringFmt first rest => Ok (RStringFmt (first :: rest))
      | INumberFmt first rest => Ok (RNumberFmt (first :: rest))
      | IDate => Ok RDate | IBigInt => Ok RBigInt
      | ITypedArray k => Ok (RTypedArray k)
      | ITpl [TplConst c] => Ok (RConst (CStr c))
      | ITpl items => Ok (RRegex items "")
      | IStNot _ => Throw EUnreachable
      | IArray t' => do r <- print f t'; Ok (RArray r)
      | IMap k v => do a <- print f k; do b <- print f v; Ok (RMap a b)
      | ISet t' => do r <- print f t'; Ok (RSet r)
      | IAllOf vs => do rs <- map_res (print f) vs; Ok (RAllOf rs)
      | ITuple prefix rest =>
          do ps <- map_res (print f) prefix;
          do r <- match rest with Some x => do y <- print f x; Ok (Some y) | None => Ok None end;
          Ok (RTuple ps r)
      | IObject vs idx =>
          do props <- map_res (fun kv => do r <- print f (snd (snd kv)); Ok (fst kv, opt_wrap (fst (snd kv)) r)) vs;
          do indexed <- match idx with
                        | Some (kt, (req, vt)) => do v <- print f vt; do k <- print f kt; Ok [(k, opt_wrap req v)]
                        | None => Ok []
                        end;
          Ok (RObject props indexed)
      | IRef n => Ok (RRef n)
      | IAnyOf vs =>
          match vs with
          | [] => Throw (EInternal "empty anyOf is not allowed")
          | _ =>
            do flats <- map_res (extract_union f env) vs;
            let flat := dedupe_ir (List.concat flats) in
            match all_some (map const_of_ir flat) with
            | Some cs => Ok (RAnyOfConsts cs)
            | None =>
                do shapes <- map_res (object_shape f) flat;
                match all_some shapes with
                | None => do rs <- map_res (print f) vs; Ok (RAnyOf rs)
                | Some object_vs =>
                    do d <- first_discriminator f object_vs (prefer ++ List.concat (map keys object_vs));
                    match d with
                    | None => do rs <- map_res (print f) vs; Ok (RAnyOf rs)
                    | Some (disc, strs) =>
                        do mapping <-
                           map_res (fun key =>
                                      do cases <- map_res (fun vs' =>
                                                             match assoc disc vs' with
                                                             | Some p => do ss <- disc_strings f p;
                                                                         Ok (if mem_str key ss then [IObject (sort_fields vs') None] else [])
                                                             | None => Ok []
                                                             end) object_vs;
                                      let cases := List.concat cases in
                                      let schema := match cases with
                                                    | [] => INever
                                                    | [c] => maybe_named_ref c
                                                    | _ => IAnyOf (dedupe_ir cases)
                                                    end in
                                      do r <- print f schema; Ok (key, r)) strs;
                        do members <- map_res (fun m => print f (maybe_named_ref m)) flat;
                        Ok (RDisc members disc mapping mapping)
                    end
                end
            end
          end
      end
    end.

  Definition print_env (fuel : nat) : res renv :=
    map_res (fun kv => do r <- print fuel (snd kv); Ok (fst kv, r)) env.
End Printer.
