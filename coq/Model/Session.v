(* Session.v — the watch-mode session of beff-wasm (packages/beff-wasm/src/lib.rs): the thread-local cache of parsed
   modules (BUNDLER.files), LazyFileManager::get_or_fetch_file, update_file_content_inner, and a rebuild.

   The compiler proper is a parameter: `parse` is parse_and_bind as a function of the names of the files that exist (it
   resolves the file's import specifiers against them), the file name and its text.  A module created during the session
   leaves the cached importers with the resolutions of the moment they were parsed: the theorems are therefore about
   histories that update existing files (what the watcher produces); creation is refuted in Props/C14.v and is a listed
   finding (import_resolution_frozen_in_cached_importer).  `extract` is
   beff_core::extract seen as a function of what the file manager answers, returning the result and the files it asked for.
   The cache is represented by the text each cached module was parsed from (what the hook `cached_sources` reports). *)
From Beff Require Export Model.Base.

Section Session.
  Variables M Out : Type.
  (* parse_and_bind: the names of the files that exist (import specifiers are resolved against them), the file, its text *)
  Variable parse : list string -> string -> string -> option M.
  Variable extract : (string -> option M) -> Out * list string.

  (* the cache remembers, per file, the text its module was parsed from and the file names that existed then *)
  Record sstate := mkS { disk : list (string * string); cache : list (string * (string * list string)) }.

  Definition names (dk : list (string * string)) : list string := keys dk.

  Definition read (dk : list (string * string)) (f : string) : option M :=
    match assoc f dk with Some c => parse (names dk) f c | None => None end.

  (* get_or_fetch_file: the cache first, else read + parse *)
  Definition fetch (st : sstate) (f : string) : option M :=
    match assoc f (cache st) with
    | Some (c, ns) => parse ns f c
    | None => read (disk st) f
    end.

  (* the watcher: the file changed on disk, its new text is handed to update_file_content *)
  Definition update (f c : string) (st : sstate) : sstate :=
    let dk := assoc_set f c (disk st) in
    mkS dk
        (match parse (names dk) f c with
         | Some _ => assoc_set f (c, names dk) (cache st)
         | None => assoc_remove f (cache st)
         end).

  (* the pinned tree before the repair: a text that does not parse left the old entry in place *)
  Definition update_keeping_stale (f c : string) (st : sstate) : sstate :=
    let dk := assoc_set f c (disk st) in
    mkS dk
        (match parse (names dk) f c with
         | Some _ => assoc_set f (c, names dk) (cache st)
         | None => cache st
         end).

  Definition cache_after_fetch (dk : list (string * string)) (ca : list (string * (string * list string))) (f : string)
    : list (string * (string * list string)) :=
    match assoc f ca with
    | Some _ => ca
    | None => match assoc f dk with
              | Some c => match parse (names dk) f c with Some _ => assoc_set f (c, names dk) ca | None => ca end
              | None => ca
              end
    end.

  Definition rebuild (st : sstate) : Out * sstate :=
    let r := extract (fetch st) in
    (fst r, mkS (disk st) (fold_left (cache_after_fetch (disk st)) (snd r) (cache st))).

  (* what a fresh process answers for these file contents *)
  Definition fresh_build (dk : list (string * string)) : Out := fst (extract (read dk)).

  Inductive sop := Update (f c : string) | Rebuild.

  (* the answers of the rebuilds of a history, each with the disk it was given for *)
  Fixpoint run (upd : string -> string -> sstate -> sstate) (ops : list sop) (st : sstate) : list (Out * list (string * string)) :=
    match ops with
    | [] => []
    | Update f c :: ops' => run upd ops' (upd f c st)
    | Rebuild :: ops' => let r := rebuild st in (fst r, disk st) :: run upd ops' (snd r)
    end.

  (* the invariant: every cached module was parsed from the text the file has now, among the files that exist now *)
  Definition coherent (st : sstate) : Prop :=
    forall f c ns, assoc f (cache st) = Some (c, ns) -> assoc f (disk st) = Some c /\ ns = names (disk st).

  (* a history of the kind the watcher produces: only files that already exist are updated *)
  Fixpoint updates_existing (ops : list sop) (ns : list string) : Prop :=
    match ops with
    | [] => True
    | Update f _ :: ops' => In f ns /\ updates_existing ops' ns
    | Rebuild :: ops' => updates_existing ops' ns
    end.
End Session.

(* ---------- conformance of an observed session (the hook reports the cache after every step) ---------- *)
Definition table_incl (a b : list (string * string)) : bool :=
  forallb (fun kv => match assoc (fst kv) b with Some c => String.eqb c (snd kv) | None => false end) a.
Definition table_eqb (a b : list (string * string)) : bool := table_incl a b && table_incl b a.

Inductive ostep :=
| OUpdate (f c : string) (parses : bool) (cache_after : list (string * string))
| ORebuild (cache_after : list (string * string)).

Definition coherent_b (dk ca : list (string * string)) : bool := table_incl ca dk.

(* one observed step against the model's step; returns the new (disk, cache) or the reason it does not conform *)
Definition conform_step (dk ca : list (string * string)) (s : ostep)
  : (list (string * string) * list (string * string)) + string :=
  match s with
  | OUpdate f c parses after =>
      let dk' := assoc_set f c dk in
      let expect := if parses then assoc_set f c ca else assoc_remove f ca in
      if negb (table_eqb after expect) then inr "update: the cache is not the old cache with this file's entry replaced (parsed) or removed (did not parse)"
      else if negb (coherent_b dk' after) then inr "update: a cached module was parsed from a text the file no longer has"
      else inl (dk', after)
  | ORebuild after =>
      if negb (table_incl ca after) then inr "rebuild: an entry of the cache was dropped or replaced"
      else if negb (coherent_b dk after) then inr "rebuild: a cached module was parsed from a text the file does not have"
      else inl (dk, after)
  end.

Fixpoint conform (n : nat) (dk ca : list (string * string)) (steps : list ostep) : string :=
  match steps with
  | [] => "conforms"
  | s :: rest =>
      match conform_step dk ca s with
      | inl (dk', ca') => conform (S n) dk' ca' rest
      | inr why => "step " +++ nat_to_string n +++ ": " +++ why
      end
  end.
