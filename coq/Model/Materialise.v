(* Materialise.v — SchemerContext::convert_to_schema_no_cache (subtyping/to_schema.rs:270-419): a semantic type back to an
   ordinary IR type, for the components that need no atom table (the tags in `all`, and the literal sets of booleans,
   numbers, strings, void/undefined and typed arrays).  Mapping, list, map and set components (DNF clauses over the atom
   tables, helper types for recursion) are not modelled here: materialise throws on them. *)
From Beff Require Export Model.SemSpec Model.Printer.

Definition any_of (l : list ir) : ir :=
  match l with
  | [] => INever
  | [x] => x
  | _ => IAnyOf l
  end.

Definition maybe_not (t : ir) (add_not : bool) : ir := if add_not then IStNot t else t.

Definition tag_ir (t : stag) : list ir :=
  match t with
  | TgNull => [INull] | TgBoolean => [IBoolean] | TgNumber => [INumber] | TgString => [IString]
  | TgOptionalProp => [IUndefined]
  | TgMapping => [IObject [] (Some (IAnyOf [INumber; IString], (true, IAny)))]       (* Runtype::any_object() *)
  | TgList => [IAnyArrayLike]
  | TgBigInt => [IBigInt] | TgDate => [IDate]
  | TgVoidUndefined => [IUndefined]
  | TgTypedArray => map (fun k => ITypedArray (typed_kind_name k)) all_typed
  | TgMap => [IMap IAny IAny]
  | TgSet => [ISet IAny]
  end.

Definition numval_ir (allowed : bool) (v : numval) : ir :=
  match v with
  | NLit z => maybe_not (IConst (ICNum (NInt z))) (negb allowed)
  | NFormat f args => maybe_not (INumberFmt f args) (negb allowed)
  end.
Definition strval_ir (allowed : bool) (v : strval) : ir :=
  match v with
  | SFormat f args => maybe_not (IStringFmt f args) (negb allowed)
  | STpl items => maybe_not (ITpl items) (negb allowed)        (* a one-item constant template is the string constant *)
  end.

Definition proper_ir (p : proper) : res (list ir) :=
  match p with
  | PBoolean b => Ok [IConst (ICBool b)]
  | PNumber allowed vs => Ok (map (numval_ir allowed) vs)
  | PString allowed vs => Ok (map (strval_ir allowed) vs)
  | PVoidUndefined allowed vs => Ok (map (fun v => maybe_not (match v with VVoid => IVoid | VUndefined => IUndefined end) (negb allowed)) vs)
  | PTypedArray allowed vs => Ok (map (fun k => maybe_not (ITypedArray (typed_kind_name k)) (negb allowed)) vs)
  | PMapping _ | PList _ | PMap _ | PSet _ => Throw (EInternal "structural component: not modelled")
  end.

Definition tags_of (t : semtype) : list ir :=
  List.concat (map (fun g => if has_bit (st_all t) (stag_code g) then tag_ir g else []) all_stags).

Definition materialise (t : semtype) : res ir :=
  if N.eqb (st_all t) 0 && match st_data t with [] => true | _ => false end then Ok INever else
  do ds <- map_res proper_ir (st_data t);
  Ok (any_of (tags_of t ++ List.concat ds)).

(* ---------- IR types as JSON, in the syntax of the harness ---------- *)
Definition jlist (l : list string) : string := "[" +++ concat_str "," l +++ "]".
Fixpoint show_tplj (i : tpl_item) : string :=
  match i with
  | TplString => jlist [quote "string"] | TplNumber => jlist [quote "number"] | TplBoolean => jlist [quote "boolean"]
  | TplConst s => jlist [quote "const"; quote s]
  | TplOneOf vs => jlist [quote "oneof"; jlist (map show_tplj vs)]
  end.
Fixpoint show_ir (t : ir) : string :=
  match t with
  | INull => jlist [quote "Null"] | IUndefined => jlist [quote "Undefined"] | IVoid => jlist [quote "Void"]
  | IBoolean => jlist [quote "Boolean"] | IString => jlist [quote "String"] | INumber => jlist [quote "Number"]
  | IAny => jlist [quote "Any"] | IAnyArrayLike => jlist [quote "AnyArrayLike"] | INever => jlist [quote "Never"]
  | IFunction => jlist [quote "Function"] | IDate => jlist [quote "Date"] | IBigInt => jlist [quote "BigInt"]
  | IStringFmt f r => jlist [quote "StringFmt"; quote f; jlist (map quote r)]
  | INumberFmt f r => jlist [quote "NumberFmt"; quote f; jlist (map quote r)]
  | ITpl items => jlist [quote "Tpl"; jlist (map show_tplj items)]
  | IObject vs idx =>
      jlist [quote "Object";
             jlist (map (fun kv : string * (bool * ir) => jlist [quote (fst kv); jlist [if fst (snd kv) then "true" else "false"; show_ir (snd (snd kv))]]) vs);
             match idx with
             | Some (k, (r, v)) => jlist [show_ir k; jlist [if r then "true" else "false"; show_ir v]]
             | None => "null"
             end]
  | IArray t' => jlist [quote "Array"; show_ir t']
  | ITuple p r => jlist [quote "Tuple"; jlist (map show_ir p); match r with Some x => show_ir x | None => "null" end]
  | IRef n => jlist [quote "Ref"; quote n]
  | IAnyOf vs => jlist [quote "AnyOf"; jlist (map show_ir vs)]
  | IAllOf vs => jlist [quote "AllOf"; jlist (map show_ir vs)]
  | IConst (ICBool b) => jlist [quote "Const"; if b then "true" else "false"]
  | IConst (ICNum n) => jlist [quote "Const"; "{""n"":" +++ num_to_string n +++ "}"]
  | IStNot t' => jlist [quote "StNot"; show_ir t']
  | ITypedArray k => jlist [quote "TypedArray"; quote k]
  | IMap k v => jlist [quote "Map"; show_ir k; show_ir v]
  | ISet t' => jlist [quote "Set"; show_ir t']
  | IMetaIR d t' => jlist [quote "Meta"; quote d; show_ir t']
  end.
Definition show_ir_res (r : res ir) : string := show_res show_ir r.
