(* Bdd.v — three-way decision diagrams of the semantic engine (subtyping/bdd.rs:51-295, dnf.rs:56-119). *)
From Beff Require Export Model.Base.

Inductive akind := AMapping | AList | AMap | ASet.
Definition akind_code (k : akind) : N :=
  match k with AMapping => 0 | AList => 1 | AMap => 2 | ASet => 3 end%N.
Record atom := mkAtom { ak : akind; ai : N }.

Definition atom_eqb (a b : atom) : bool := N.eqb (akind_code (ak a)) (akind_code (ak b)) && N.eqb (ai a) (ai b).
(* derived Ord: variant first, then index *)
Definition atom_cmp (a b : atom) : comparison :=
  match N.compare (akind_code (ak a)) (akind_code (ak b)) with
  | Eq => N.compare (ai a) (ai b)
  | c => c
  end.

Inductive bdd := BTrue | BFalse | BNode (a : atom) (l m r : bdd).

Fixpoint bdd_eqb (x y : bdd) : bool :=
  match x, y with
  | BTrue, BTrue | BFalse, BFalse => true
  | BNode a l m r, BNode a' l' m' r' => atom_eqb a a' && bdd_eqb l l' && bdd_eqb m m' && bdd_eqb r r'
  | _, _ => false
  end.

Definition from_atom (a : atom) : bdd := BNode a BTrue BFalse BFalse.

(* The operations recurse on *results* of each other, so they take fuel; None = out of fuel. *)
Section Ops.
  Definition obind {A B} (x : option A) (f : A -> option B) : option B :=
    match x with Some a => f a | None => None end.
  Notation "'dO' x <- e1 ; e2" := (obind e1 (fun x => e2)) (at level 200, x name, e1 at level 100, e2 at level 200).

  Fixpoint union (fuel : nat) (b1 b2 : bdd) {struct fuel} : option bdd :=
    match fuel with
    | O => None
    | S f =>
      let from_node (a : atom) (l m r : bdd) : option bdd :=
        match m with
        | BTrue => Some BTrue
        | _ => if bdd_eqb l r then union f l m else Some (BNode a l m r)
        end in
      if bdd_eqb b1 b2 then Some b1 else
      match b1, b2 with
      | BTrue, _ => Some BTrue
      | BFalse, _ => Some b2
      | _, BTrue => Some BTrue
      | _, BFalse => Some b1
      | BNode a1 l1 m1 r1, BNode a2 l2 m2 r2 =>
          match atom_cmp a1 a2 with
          | Lt => dO m <- union f m1 b2; from_node a1 l1 m r1
          | Gt => dO m <- union f b1 m2; from_node a2 l2 m r2
          | Eq => dO l <- union f l1 l2; dO m <- union f m1 m2; dO r <- union f r1 r2; from_node a1 l m r
          end
      end
    end.

  Definition from_node (fuel : nat) (a : atom) (l m r : bdd) : option bdd :=
    match m with
    | BTrue => Some BTrue
    | _ => if bdd_eqb l r then union fuel l m else Some (BNode a l m r)
    end.

  Fixpoint intersect (fuel : nat) (b1 b2 : bdd) {struct fuel} : option bdd :=
    match fuel with
    | O => None
    | S f =>
      if bdd_eqb b1 b2 then Some b1 else
      match b1, b2 with
      | BTrue, _ => Some b2
      | BFalse, _ => Some BFalse
      | _, BTrue => Some b1
      | _, BFalse => Some BFalse
      | BNode a1 l1 m1 r1, BNode a2 l2 m2 r2 =>
          match atom_cmp a1 a2 with
          | Lt => dO l <- intersect f l1 b2; dO m <- intersect f m1 b2; dO r <- intersect f r1 b2; from_node f a1 l m r
          | Gt => dO l <- intersect f b1 l2; dO m <- intersect f b1 m2; dO r <- intersect f b1 r2; from_node f a2 l m r
          | Eq =>
              dO x1 <- union f l1 m1; dO x2 <- union f l2 m2; dO l <- intersect f x1 x2;
              dO y1 <- union f r1 m1; dO y2 <- union f r2 m2; dO r <- intersect f y1 y2;
              from_node f a1 l BFalse r
          end
      end
    end.

  Fixpoint complement (fuel : nat) (b : bdd) {struct fuel} : option bdd :=
    match fuel with
    | O => None
    | S f =>
      match b with
      | BTrue => Some BFalse
      | BFalse => Some BTrue
      | BNode a l m r =>
          if bdd_eqb r BFalse then
            dO lm <- union f l m; dO x <- complement f lm; dO y <- complement f m; from_node f a BFalse x y
          else if bdd_eqb l BFalse then
            dO x <- complement f m; dO rm <- union f r m; dO y <- complement f rm; from_node f a x y BFalse
          else if bdd_eqb m BFalse then
            dO x <- complement f l; dO lr <- union f l r; dO y <- complement f lr; dO z <- complement f r;
            from_node f a x y z
          else
            dO lm <- union f l m; dO x <- complement f lm; dO rm <- union f r m; dO z <- complement f rm;
            from_node f a x BFalse z
      end
    end.

  Fixpoint diff (fuel : nat) (b1 b2 : bdd) {struct fuel} : option bdd :=
    match fuel with
    | O => None
    | S f =>
      if bdd_eqb b1 b2 then Some BFalse else
      match b1, b2 with
      | _, BTrue => Some BFalse
      | _, BFalse => Some b1
      | BTrue, _ => complement f b2
      | BFalse, _ => Some BFalse
      | BNode a1 l1 m1 r1, BNode a2 l2 m2 r2 =>
          match atom_cmp a1 a2 with
          | Lt =>
              dO x <- union f l1 m1; dO l <- diff f x b2; dO y <- union f r1 m1; dO r <- diff f y b2;
              from_node f a1 l BFalse r
          | Gt =>
              dO x <- union f l2 m2; dO l <- diff f b1 x; dO y <- union f r2 m2; dO r <- diff f b1 y;
              from_node f a2 l BFalse r
          | Eq =>
              dO x1 <- union f l1 m1; dO x2 <- union f l2 m2; dO l <- diff f x1 x2;
              dO y1 <- union f r1 m1; dO y2 <- union f r2 m2; dO r <- diff f y1 y2;
              from_node f a1 l BFalse r
          end
      end
    end.
End Ops.

Fixpoint bdd_size (b : bdd) : nat :=
  match b with BNode _ l m r => S (bdd_size l + bdd_size m + bdd_size r) | _ => 1 end.

(* ---------- meaning ---------- *)
Fixpoint eval (rho : atom -> bool) (b : bdd) : bool :=
  match b with
  | BTrue => true
  | BFalse => false
  | BNode a l m r => (rho a && eval rho l) || eval rho m || (negb (rho a) && eval rho r)
  end.

(* ---------- disjunctive normal form (dnf.rs) ---------- *)
Definition conj := (list atom * list atom)%type.
Definition dnf := list conj.

(* bdd_to_dnf_recursive: middle, then left with the atom positive, then right with the atom negative *)
Fixpoint to_dnf (pos neg : list atom) (b : bdd) : dnf :=
  match b with
  | BTrue => [(pos, neg)]
  | BFalse => []
  | BNode a l m r => to_dnf pos neg m ++ to_dnf (pos ++ [a]) neg l ++ to_dnf pos (neg ++ [a]) r
  end.
Definition bdd_to_dnf (b : bdd) : dnf := to_dnf [] [] b.

Definition eval_conj (rho : atom -> bool) (c : conj) : bool :=
  forallb rho (fst c) && forallb (fun a => negb (rho a)) (snd c).
Definition eval_dnf (rho : atom -> bool) (d : dnf) : bool := existsb (eval_conj rho) d.

Definition dnf_to_bdd (fuel : nat) (d : dnf) : option bdd :=
  fold_left (fun acc c =>
               obind acc (fun b =>
               obind (fold_left (fun cb a => obind cb (fun x => intersect fuel x (from_atom a))) (fst c) (Some BTrue)) (fun cb1 =>
               obind (fold_left (fun cb a => obind cb (fun x => obind (complement fuel (from_atom a)) (fun na => intersect fuel x na)))
                                (snd c) (Some cb1)) (fun cb2 =>
               union fuel b cb2)))) d (Some BFalse).

(* ---------- canonical text ---------- *)
Definition show_atom (a : atom) : string :=
  match ak a with AMapping => "M" | AList => "L" | AMap => "P" | ASet => "S" end +++ N_to_string (ai a).
Fixpoint show_bdd (b : bdd) : string :=
  match b with
  | BTrue => "T" | BFalse => "F"
  | BNode a l m r => "(" +++ show_atom a +++ " " +++ show_bdd l +++ " " +++ show_bdd m +++ " " +++ show_bdd r +++ ")"
  end.
Definition show_obdd (o : option bdd) : string := match o with Some b => show_bdd b | None => "!OutOfFuel" end.
Definition show_dnf (d : dnf) : string :=
  concat_str ";" (map (fun c => concat_str "," (map show_atom (fst c)) +++ "|" +++ concat_str "," (map show_atom (snd c))) d).
