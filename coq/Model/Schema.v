(* Schema.v — schema() of every class, flat and contextual, and the SchemaPrintingContext
   (codegen-v2.ts:399-466, 507-515, 625-2072, 2308-2331; openapi-pp.ts). *)
From Beff Require Export Model.Hash256Enc Model.Validate.
From Beff Require Import Model.ShowRt.

Inductive json :=
| JNull | JBool (b : bool) | JNum (n : num) | JStr (s : string)
| JArr (xs : list json)
| JObj (fs : list (string * json)).       (* own keys in insertion order *)

Definition jobj_set (k : string) (v : json) (fs : list (string * json)) : list (string * json) := assoc_set k v fs.
Definition jget (j : json) (k : string) : option json := match j with JObj fs => assoc k fs | _ => None end.

Definition cst_json_val (c : cst) : json :=
  match c with CNull => JNull | CBool b => JBool b | CNum n => JNum n | CStr s => JStr s end.

(* annotateSchema: { ...schema, description } *)
Definition annotate (d : option string) (j : json) : json :=
  match d, j with
  | Some s, JObj fs => JObj (jobj_set "description" (JStr s) fs)
  | _, _ => j
  end.

(* ---------- structural equality up to key order (stableJsonSchemaDefinitionString) ---------- *)
Fixpoint json_stable (fuel : nat) (j : json) : string :=
  match fuel with
  | O => "?"
  | S f =>
      match j with
      | JNull => "null"
      | JBool b => if b then "true" else "false"
      | JNum n => canonical_number n
      | JStr s => quote s
      | JArr xs => "[" +++ concat_str "," (map (json_stable f) xs) +++ "]"
      | JObj fs =>
          "{" +++ concat_str "," (map (fun kv => quote (fst kv) +++ ":" +++ json_stable f (snd kv))
                                      (sort_by (fun a b => str_leb (fst a) (fst b)) fs)) +++ "}"
      end
  end.
Definition show_json (j : json) : string := json_stable 200 j.

(* ---------- openapi-pp.ts removeNullUnionBranch ---------- *)
Definition is_null_definition (j : json) : bool :=
  match jget j "type" with Some (JStr "null") => true | _ => false end.
Fixpoint remove_null_union_branch (fuel : nat) (def : json) : option json :=
  match fuel with
  | O => None
  | S f =>
      match def with
      | JObj fs =>
          let pick := match assoc "anyOf" fs with
                      | Some (JArr vs) => Some ("anyOf", vs)
                      | _ => match assoc "oneOf" fs with Some (JArr vs) => Some ("oneOf", vs) | _ => None end
                      end in
          match pick with
          | None => None
          | Some (key, variants) =>
              let non_null := filter (fun v => negb (is_null_definition v)) variants in
              if Nat.eqb (List.length non_null) (List.length variants) || Nat.eqb (List.length non_null) 0 then None
              else
                let normalized := map (fun v => match remove_null_union_branch f v with Some v' => v' | None => v end) non_null in
                match normalized with
                | [one] => Some one
                | _ => Some (JObj (jobj_set key (JArr normalized) fs))
                end
          end
      | _ => None
      end
  end.

(* ---------- tryMergeAllOfObjectSchemas ---------- *)
Definition is_mergeable_closed_object (j : json) : bool :=
  match j with
  | JObj fs =>
      match assoc "type" fs, assoc "additionalProperties" fs with
      | Some (JStr "object"), Some (JBool false) =>
          forallb (fun k => mem_str k mergeable_keys_source) (keys fs)
          && match assoc "properties" fs with Some (JObj _) | None => true | Some _ => false end
          && match assoc "required" fs with
             | None => true
             | Some (JArr rs) => forallb (fun r => match r with JStr _ => true | _ => false end) rs
             | Some _ => false
             end
      | _, _ => false
      end
  | _ => false
  end.
Definition try_merge_allof (schemas : list json) : option json :=
  let step (acc : option (list (string * json) * list string)) (s : json) :=
    match acc with
    | None => None
    | Some (props, req) =>
        if negb (is_mergeable_closed_object s) then None else
        let req' := fold_left (fun r x => match x with JStr k => if mem_str k r then r else r ++ [k] | _ => r end)
                              (match jget s "required" with Some (JArr rs) => rs | _ => [] end) req in
        let props' := fold_left (fun (p : option (list (string * json))) kv =>
                                   match p with
                                   | None => None
                                   | Some ps =>
                                       match assoc (fst kv) ps with
                                       | Some existing =>
                                           if String.eqb (show_json existing) (show_json (snd kv))
                                           then Some (assoc_set (fst kv) (snd kv) ps) else None
                                       | None =>
                                           (* `properties[key]` on a plain object finds Object.prototype members *)
                                           if mem_str (fst kv) object_proto_functions || String.eqb (fst kv) proto_key
                                           then None else Some (ps ++ [kv])
                                       end
                                   end)
                                (match jget s "properties" with Some (JObj ps) => ps | _ => [] end) (Some props) in
        match props' with Some p => Some (p, req') | None => None end
    end in
  match fold_left step schemas (Some ([], [])) with
  | None => None
  | Some (props, req) =>
      Some (JObj ([("type", JStr "object")]
                  ++ (match props with [] => [] | _ => [("properties", JObj props)] end)
                  ++ (match req with [] => [] | _ => [("required", JArr (map JStr req))] end)
                  ++ [("additionalProperties", JBool false)]))
  end.

(* ---------- the printing context ---------- *)
Record pctx := {
  collected : list (string * json);
  in_progress : list string;
}.
Record pconf := {
  ref_template : string;
  container_key : option string;
  overrides : list (string * rt);
}.

(* String.prototype.replace("{name}", name): the first occurrence only *)
Fixpoint prefix_of (p s : string) : option string :=
  match p, s with
  | EmptyString, _ => Some s
  | String a p', String b s' => if Ascii.eqb a b then prefix_of p' s' else None
  | _, _ => None
  end.
Fixpoint replace_first (pat rep s : string) : string :=
  match prefix_of pat s with
  | Some rest => rep +++ rest
  | None => match s with EmptyString => "" | String c s' => String c (replace_first pat rep s') end
  end.
Definition get_ref (cf : pconf) (name : string) : string := replace_first "{name}" name (ref_template cf).

(* `name in collectedDefinitions`; the table is prototype-less (Object.create(null)) since 24e8d3f, so only stored names are found *)
Definition has_definition (c : pctx) (name : string) : bool :=
  mem_str name (keys (collected c)).
Definition is_in_progress (c : pctx) (name : string) : bool := mem_str name (in_progress c).
Definition mark_in_progress (c : pctx) (name : string) : pctx :=
  {| collected := collected c; in_progress := if mem_str name (in_progress c) then in_progress c else in_progress c ++ [name] |}.
Definition store_definition (c : pctx) (name : string) (j : json) : pctx :=
  {| collected := assoc_set name j (collected c); in_progress := filter (fun n => negb (String.eqb n name)) (in_progress c) |}.
Definition export_definitions (cf : pconf) (c : pctx) : json :=
  match container_key cf with
  | None => JObj (collected c)
  | Some k => JObj [(k, JObj (collected c))]
  end.

(* sanitizeComponentNamePart on ASCII *)
Definition is_alnum (c : ascii) : bool :=
  let n := nat_of_ascii c in
  (Nat.leb 48 n && Nat.leb n 57) || (Nat.leb 65 n && Nat.leb n 90) || (Nat.leb 97 n && Nat.leb n 122).
Definition upper (c : ascii) : ascii :=
  let n := nat_of_ascii c in if Nat.leb 97 n && Nat.leb n 122 then ascii_of_nat (n - 32) else c.
Fixpoint sanitize_go (s : string) (start : bool) : string :=
  match s with
  | EmptyString => ""
  | String c s' => if is_alnum c then String (if start then upper c else c) (sanitize_go s' false) else sanitize_go s' true
  end.
Definition sanitize_part (s : string) : string :=
  match sanitize_go s true with "" => "Variant" | r => r end.
Definition synthetic_ref_name (disc key : string) (union_hash : Z) : string :=
  "Discriminated" +++ sanitize_part disc +++ sanitize_part key +++ Z_to_string (Z.abs union_hash).

Inductive mode := Flat | Contextual.

Definition typeof_cst (c : cst) : string :=
  match c with CNull => "object" | CBool _ => "boolean" | CNum _ => "number" | CStr _ => "string" end.

Definition is_ref_node (r : rt) : option string := match strip_meta_top r with RRef n => Some n | _ => None end.

(* ---------- getSchemaVariantRefs: one definition per variant ----------
   A variant listed under several keys is stored once, under the label of its first key; two keys that would give the same component
   name part get different labels ("a-b", "a_b 2").  The emitted module shares one object between the keys of one variant; the model
   reads "the same object" as "the same tree". *)
Definition same_rt (a b : rt) : bool := String.eqb (show_rt a) (show_rt b).
Fixpoint fresh_label (fuel : nat) (key : string) (n : nat) (used : list string) : string :=
  let label := match n with O => key | _ => key +++ " " +++ Z_to_string (Z.of_nat (S n)) end in
  match fuel with
  | O => label
  | S f => if mem_str (sanitize_part label) used then fresh_label f key (S n) used else label
  end.
(* for every key: the label its definition is named after *)
Definition variant_labels (smapping : list (string * rt)) : list (string * rt * string) :=
  let step (acc : list (string * rt * string) * list string) (kv : string * rt) :=
    let '(done, used) := acc in
    match find (fun e => same_rt (snd (fst e)) (snd kv)) done with
    | Some e => (done ++ [(fst kv, snd kv, snd e)], used)
    | None =>
        let label := fresh_label (List.length used) (fst kv) 0 used in
        (done ++ [(fst kv, snd kv, label)], used ++ [sanitize_part label])
    end in
  fst (fold_left step smapping ([], [])).
Fixpoint dedupe_first (l : list string) (seen : list string) : list string :=
  match l with
  | [] => []
  | x :: l' => if mem_str x seen then dedupe_first l' seen else x :: dedupe_first l' (x :: seen)
  end.

Section Schema.
  Variable F : formats.       (* only the names matter here: no registered format carries a jsonSchemaFormat *)
  Variable env : renv.
  Variable cf : pconf.
  Variable md : mode.

  Definition unsupported {A} (what : string) : res A := Throw (ESchemaUnsupported what).

  (* thread the printing context through a list *)
  Definition smap {A B} (f : pctx -> A -> res (B * pctx)) : pctx -> list A -> res (list B * pctx) :=
    fix go (c : pctx) (l : list A) : res (list B * pctx) :=
      match l with
      | [] => Ok ([], c)
      | x :: l' => do a <- f c x; do b <- go (snd a) l'; Ok (fst a :: fst b, snd b)
      end.

  Fixpoint schema (fuel : nat) (seen : list string) (desc : option string) (c : pctx) (r : rt) {struct fuel}
    : res (json * pctx) :=
    match fuel with
    | O => Throw EOutOfFuel
    | S f =>
      let ann (j : json) := annotate desc j in
      let sub c' r' := schema f seen None c' r' in
      match r with
      | RMeta d t => schema f seen (Some d) c t
      | RTypeof t => Ok (ann (JObj [("type", JStr (tyname_str t))]), c)
      | RAny => Ok (ann (JObj []), c)
      | RNullish _ => Ok (ann (JObj [("type", JStr "null")]), c)
      | RNever => Ok (ann (JObj [("anyOf", JArr [])]), c)
      | RConst k =>
          match md, k with
          | Contextual, CNull => Ok (ann (JObj [("const", JNull)]), c)
          | Contextual, _ => Ok (ann (JObj [("type", JStr (typeof_cst k)); ("enum", JArr [cst_json_val k])]), c)
          | Flat, _ => Ok (ann (JObj [("const", cst_json_val k)]), c)
          end
      | RRegex _ d => Ok (ann (JObj [("type", JStr "string"); ("pattern", JStr d)]), c)
      | RDate => unsupported "Date"
      | RBigInt => unsupported "BigInt"
      | RTypedArray k => unsupported k
      | RMap _ _ => unsupported "Map"
      | RSet _ => unsupported "Set"
      | RStringFmt fs => Ok (ann (JObj [("type", JStr "string"); ("format", JStr (concat_str " and " fs))]), c)
      | RNumberFmt fs => Ok (ann (JObj [("type", JStr "number"); ("format", JStr (concat_str " and " fs))]), c)
      | RAnyOfConsts vs =>
          let single :=
            match vs with
            | [] => None
            | v0 :: _ => if forallb (fun v => String.eqb (typeof_cst v) (typeof_cst v0)) vs
                            && negb (String.eqb (typeof_cst v0) "object")
                         then Some (typeof_cst v0) else None
            end in
          match single with
          | Some tp => Ok (ann (JObj [("type", JStr tp); ("enum", JArr (map cst_json_val vs))]), c)
          | None => Ok (ann (JObj [("enum", JArr (map cst_json_val vs))]), c)
          end
      | RTuple prefix rest =>
          do p <- smap sub c prefix;
          do q <- match rest with
                  | Some rr => do x <- sub (snd p) rr; Ok (fst x, snd x)
                  | None => Ok (JBool false, snd p)
                  end;
          Ok (ann (JObj [("type", JStr "array"); ("prefixItems", JArr (fst p)); ("items", fst q)]), snd q)
      | RAllOf rs =>
          do p <- smap sub c rs;
          match try_merge_allof (fst p) with
          | Some merged => Ok (ann merged, snd p)
          | None => Ok (ann (JObj [("allOf", JArr (fst p))]), snd p)
          end
      | RAnyOf rs => do p <- smap sub c rs; Ok (ann (JObj [("anyOf", JArr (fst p))]), snd p)
      | RArray t => do p <- sub c t; Ok (ann (JObj [("type", JStr "array"); ("items", fst p)]), snd p)
      | RDisc ss disc mapping smapping =>
          match md with
          | Flat =>
              do p <- smap sub c ss;
              Ok (ann (JObj [("type", JStr "object"); ("discriminator", JObj [("propertyName", JStr disc)]);
                             ("anyOf", JArr (fst p))]), snd p)
          | Contextual =>
              do uh <- hash32 env f [] r;
              let ensure (c0 : pctx) (name : string) (target : rt) : res pctx :=
                if has_definition c0 name || is_in_progress c0 name then Ok c0
                else let tgt := match assoc name (overrides cf) with Some o => o | None => target end in   (* since dc3325d *)
                     do b <- sub (mark_in_progress c0 name) tgt; Ok (store_definition (snd b) name (fst b)) in
              do refs <- smap (fun c0 (e : string * rt * string) =>
                                 let kv := fst e in
                                 match is_ref_node (snd kv) with
                                 | Some name =>
                                     match assoc name env with
                                     | Some target => do c1 <- ensure c0 name target; Ok ((fst kv, get_ref cf name), c1)
                                     | None => Throw (EInternal "unknown named type")
                                     end
                                 | None =>
                                     let syn := synthetic_ref_name disc (snd e) uh in
                                     do c1 <- ensure c0 syn (snd kv); Ok ((fst kv, get_ref cf syn), c1)
                                 end) c (variant_labels smapping);
              Ok (ann (JObj [("type", JStr "object");
                             ("discriminator", JObj [("propertyName", JStr disc);
                                                     ("mapping", JObj (fold_left (fun acc kr => jobj_set (fst kr) (JStr (snd kr)) acc)
                                                                                  (fst refs) []))]);
                             ("oneOf", JArr (map (fun r0 => JObj [("$ref", JStr r0)]) (dedupe_first (map snd (fst refs)) [])))]), snd refs)
          end
      | ROptional t =>
          do p <- sub c t; Ok (JObj [("anyOf", JArr [fst p; JObj [("type", JStr "null")]])], snd p)
      | RObject props indexed =>
          do p <- smap (fun c0 kp =>
                          do raw <- sub c0 (snd kp);
                          match remove_null_union_branch 50 (fst raw) with
                          | Some rw => Ok ((fst kp, rw, true), snd raw)
                          | None => Ok ((fst kp, fst raw, false), snd raw)
                          end) c props;
          let properties := fold_left (fun acc x => jobj_set (fst (fst x)) (snd (fst x)) acc) (fst p) [] in
          let required := map (fun x => JStr (fst (fst x))) (filter (fun x => negb (snd x)) (fst p)) in
          let base := [("type", JStr "object"); ("properties", JObj properties)]
                      ++ match required with [] => [] | _ => [("required", JArr required)] end in
          do q <- smap (fun c0 kv =>
                          do ks <- sub c0 (fst kv);
                          do vs <- sub (snd ks) (snd kv);
                          Ok (JObj [("type", JStr "object"); ("additionalProperties", fst vs); ("propertyNames", fst ks)], snd vs))
                       (snd p) indexed;
          match fst q with
          | [] => Ok (ann (JObj (base ++ [("additionalProperties", JBool false)])), snd q)
          | [one] =>
              match properties, indexed with
              | [], [(_, vr)] =>
                  match strip_meta_top vr with
                  | RNever => Ok (ann (JObj [("type", JStr "object"); ("additionalProperties", JBool false)]), snd q)
                  | RAny => Ok (ann (match one with
                                     | JObj fs => JObj (jobj_set "additionalProperties" (JBool true) fs)
                                     | _ => one end), snd q)
                  | _ => Ok (ann one, snd q)
                  end
              | _, _ => Ok (ann (JObj [("allOf", JArr (JObj base :: fst q))]), snd q)
              end
          | _ => Ok (ann (JObj [("allOf", JArr (JObj base :: fst q))]), snd q)
          end
      | RRef name =>
          match assoc name env with
          | None => Throw (EInternal "unknown named type")
          | Some target =>
              match md with
              | Contextual =>
                  do c1 <- (if negb (has_definition c name) && negb (is_in_progress c name) then
                              let tgt := match assoc name (overrides cf) with Some o => o | None => target end in
                              do b <- sub (mark_in_progress c name) tgt;
                              Ok (store_definition (snd b) name (fst b))
                            else Ok c);
                  Ok (ann (JObj [("$ref", JStr (get_ref cf name))]), c1)
              | Flat =>
                  if mem_str name seen then Ok (ann (JObj []), c)
                  else do p <- schema f (name :: seen) None c target; Ok (ann (fst p), snd p)
              end
          end
      end
    end.
End Schema.

Definition empty_ctx : pctx := {| collected := []; in_progress := [] |}.
Definition default_conf : pconf :=
  {| ref_template := "#/components/schemas/{name}"; container_key := None; overrides := [] |}.
