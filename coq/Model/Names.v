(* Names.v — how named types become JavaScript identifiers (lib.rs:251-323: to_valid_ts_identifier,
   min_file_path_that_differs, TypeAddress::ts_identifier). *)
From Beff Require Export Model.Base.

Record address := mkAddr { afile : string; aname : string }.
Definition address_eqb (a b : address) : bool := String.eqb (afile a) (afile b) && String.eqb (aname a) (aname b).

Definition ident_char (c : ascii) : ascii :=
  let n := nat_of_ascii c in
  if (Nat.leb 48 n && Nat.leb n 57) || (Nat.leb 65 n && Nat.leb n 90) || (Nat.leb 97 n && Nat.leb n 122) || Nat.eqb n 95
  then c else "_"%char.
Fixpoint to_valid_ts_identifier (s : string) : string :=
  match s with EmptyString => "" | String c s' => String (ident_char c) (to_valid_ts_identifier s') end.

(* split on '/' *)
Fixpoint split_path_go (s : string) (cur : string) : list string :=
  match s with
  | EmptyString => [cur]
  | String c s' => if Ascii.eqb c "/" then cur :: split_path_go s' "" else split_path_go s' (cur +++ String c "")
  end.
Definition split_path (s : string) : list string := split_path_go s "".

Fixpoint common_prefix_len (a b : list string) : nat :=
  match a, b with
  | x :: a', y :: b' => if String.eqb x y then S (common_prefix_len a' b') else 0
  | _, _ => 0
  end.
Definition min_file_path_that_differs (this : string) (others : list string) : string :=
  let tp := split_path this in
  let idx := fold_left (fun m o => Nat.min m (common_prefix_len tp (split_path o))) others (List.length tp) in
  concat_str "/" (skipn idx tp).

Definition ts_identifier (self : address) (all_names : list address) : string :=
  let same := filter (fun a => negb (address_eqb a self) && String.eqb (aname a) (aname self)) all_names in
  match same with
  | [] => aname self
  | _ => to_valid_ts_identifier (min_file_path_that_differs (afile self) (map afile same)) +++ "__" +++ aname self
  end.
