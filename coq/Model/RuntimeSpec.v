(* RuntimeSpec.v — executable reference predicates for C03 and C12 (the "spec side" evaluated on the
   implementation's own outputs, and used in the theorems of Props/C03.v, Props/C12.v). *)
From Beff Require Export Model.Report.

Definition val_eqb (a b : val) : bool := String.eqb (show_val a) (show_val b).

(* ---------- C12: an error points into the input ---------- *)
(* the values a path segment may address inside v *)
Definition step_candidates (fuel : nat) (v : val) (seg : string) : list val :=
  let by_key := if is_object_type v && negb (is_nullish v) then [get v seg] else [] in
  match v with
  | VArr xs =>
      map (fun i => nth i xs VUndef)
          (filter (fun i => String.eqb seg ("[" +++ nat_to_string i +++ "]")) (seq_from 0 (List.length xs + 8)))
      ++ by_key
  | VMap kvs =>
      List.concat (map (fun kv =>
                     match template_json fuel (fst kv) with
                     | Ok js => (if String.eqb seg ("key(" +++ js +++ ")") then [fst kv] else [])
                                ++ (if String.eqb seg ("value(" +++ js +++ ")") then [snd kv] else [])
                     | Throw _ => []
                     end) kvs) ++ by_key
  | VSet xs =>
      List.concat (map (fun x =>
                     match template_json fuel x with
                     | Ok js => if String.eqb seg ("item(" +++ js +++ ")") then [x] else []
                     | Throw _ => []
                     end) xs) ++ by_key
  | _ => by_key
  end.

Fixpoint resolve (fuel : nat) (v : val) (path : list string) : list val :=
  match path with
  | [] => [v]
  | seg :: path' => List.concat (map (fun w => resolve fuel w path') (step_candidates fuel v seg))
  end.

Fixpoint points_into (fuel : nat) (v : val) (e : err) : bool :=
  match fuel with
  | O => false
  | S f =>
      match e with
      | ERegular _ p r => existsb (val_eqb r) (resolve f v p)
      | EUnion p r es => existsb (fun w => val_eqb r w && forallb (points_into f w) es) (resolve f v p)
      end
  end.

Definition errors_ok (fuel : nat) (v : val) (es : list err) : bool :=
  Nat.leb 1 (List.length es) && Nat.leb (List.length es) 10 && forallb (points_into fuel v) es.

(* ---------- C03: the parsed data is a projection of the input ---------- *)
Fixpoint is_projection (fuel : nat) (d v : val) : bool :=
  match fuel with
  | O => false
  | S f =>
      match v, d with
      | VArr xs, VArr ys =>
          forallb (fun iy => is_projection f (snd iy) (nth (fst iy) xs VUndef))
                  (combine (seq_from 0 (List.length ys)) ys)
      | VObj _, VObj _ | VDate _, VObj _ | VRegExp, VObj _ | VMap _, VObj _ | VSet _, VObj _ | VTyped _ _, VObj _ =>
          (* an object position: a fresh plain object whose own keys are own keys of the input
             (an ObjectRuntype accepts any non-array object and projects its declared keys) *)
          forallb (fun k => has_own v k && is_projection f (get d k) (get v k)) (own_keys d)
          && negb (mem_str proto_mark (match d with VObj fs => keys fs | _ => [] end))
      | VMap kvs, VMap kvs' =>
          Nat.eqb (List.length kvs) (List.length kvs')
          && forallb (fun p => is_projection f (fst (snd p)) (fst (fst p)) && is_projection f (snd (snd p)) (snd (fst p)))
                     (combine kvs kvs')
      | VSet xs, VSet ys =>
          Nat.eqb (List.length xs) (List.length ys)
          && forallb (fun p => is_projection f (snd p) (fst p)) (combine xs ys)
      | VArr _, _ | VObj _, _ | VMap _, _ | VSet _, _ => false
      | _, _ => val_eqb d v
      end
  end.

(* equality up to the order of own keys *)
Fixpoint sort_keys (fuel : nat) (v : val) : val :=
  match fuel with
  | O => v
  | S f =>
      match v with
      | VArr xs => VArr (map (sort_keys f) xs)
      | VObj fs => VObj (sort_by (fun a b => str_leb (fst a) (fst b)) (map (fun kv => (fst kv, sort_keys f (snd kv))) fs))
      | VMap kvs => VMap (map (fun kv => (sort_keys f (fst kv), sort_keys f (snd kv))) kvs)
      | VSet xs => VSet (map (sort_keys f) xs)
      | _ => v
      end
  end.
Definition same_up_to_key_order (a b : val) : bool := val_eqb (sort_keys 100 a) (sort_keys 100 b).
