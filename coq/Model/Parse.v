(* Parse.v — parseAfterValidation of every class, the vendored deepmerge, and ParserFromRuntype.{safeParse,parse}
   (codegen-v2.ts:34-231, 631-2170, 2396-2450). *)
From Beff Require Export Model.Validate.

(* ---------- object construction as the runtime performs it ---------- *)

(* acc[k] = v  on an object created by `{}`: the key __proto__ hits the inherited setter *)
Definition obj_assign (acc : list (string * val)) (k : string) (v : val) : list (string * val) :=
  if String.eqb k proto_key then
    match v with
    | VUndef | VBool _ | VNum _ | VStr _ | VBig _ | VSym => acc
    | _ => (proto_mark, v) :: assoc_remove proto_mark acc
    end
  else assoc_set k v acc.

(* { ...acc, ...src }: own enumerable keys of src are *defined* (no setter involved) *)
Definition obj_spread (acc : list (string * val)) (src : val) : list (string * val) :=
  fold_left (fun a k => assoc_set k (get src k) a) (own_keys src) acc.

(* k in o, for an object-typed o *)
Definition in_op (o : val) (k : string) : bool :=
  has_own o k || mem_str k object_proto_functions || String.eqb k proto_key.

(* ---------- deepmerge (codegen-v2.ts:34-231) ---------- *)
Definition is_not_prototype_key (k : string) : bool :=
  negb (String.eqb k "constructor" || String.eqb k "prototype" || String.eqb k proto_key).
(* an object whose prototype was replaced by a Date / RegExp / typed array (obj_assign of the key __proto__) is `instanceof` that class *)
Definition inherits_builtin (v : val) : bool :=
  match v with
  | VObj fs => match assoc proto_mark fs with Some (VDate _) | Some VRegExp | Some (VTyped _ _) => true | _ => false end
  | _ => false
  end.
Definition is_mergeable_object (v : val) : bool :=
  match v with
  | VArr _ | VObj _ | VMap _ | VSet _ => negb (inherits_builtin v)
  | _ => false        (* primitives, null, functions, RegExp, Date, typed arrays *)
  end.
Definition is_primitive (v : val) : bool := negb (is_object_type v) || match v with VNull => true | _ => false end.
Definition is_primitive_or_builtin (v : val) : bool :=
  is_primitive v || match v with VRegExp | VDate _ | VTyped _ _ => true | _ => false end || inherits_builtin v.

Fixpoint clone (fuel : nat) (v : val) : res val :=
  match fuel with
  | O => Throw EOutOfFuel
  | S f =>
      match v with
      | VArr xs => do ys <- map_res (clone f) xs; Ok (VArr ys)
      | VObj _ | VMap _ | VSet _ =>
          if inherits_builtin v then Ok v else
          do fs <- (fix go (ks : list string) (acc : list (string * val)) : res (list (string * val)) :=
                      match ks with
                      | [] => Ok acc
                      | k :: ks' =>
                          if is_not_prototype_key k then
                            do c <- clone f (get v k); go ks' (obj_assign acc k c)
                          else go ks' acc
                      end) (own_keys v) [];
          Ok (VObj fs)
      | _ => Ok v
      end
  end.

Fixpoint seq_from (i n : nat) : list nat := match n with O => [] | S n' => i :: seq_from (S i) n' end.

Fixpoint deepmerge (fuel : nat) (target source : val) : res val :=
  match fuel with
  | O => Throw EOutOfFuel
  | S f =>
      if is_primitive source then Ok source
      else if is_primitive_or_builtin target then clone f source
      else match target, source with
           | VArr ts, VArr ss =>
               let il := Nat.max (List.length ts) (List.length ss) in
               do ys <- map_res (fun i =>
                          if Nat.ltb i (List.length ss)
                          then deepmerge f (nth i ts VUndef) (nth i ss VUndef)
                          else clone f (nth i ts VUndef)) (seq_from 0 il);
               Ok (VArr ys)
           | VArr _, _ | _, VArr _ => clone f source
           | _, _ =>
               let tkeys := own_keys target in
               let skeys := own_keys source in
               do acc1 <- (fix go (ks : list string) (acc : list (string * val)) : res (list (string * val)) :=
                             match ks with
                             | [] => Ok acc
                             | k :: ks' =>
                                 if is_not_prototype_key k && negb (mem_str k skeys) then
                                   do c <- clone f (get target k); go ks' (obj_assign acc k c)
                                 else go ks' acc
                             end) tkeys [];
               do acc2 <- (fix go (ks : list string) (acc : list (string * val)) : res (list (string * val)) :=
                             match ks with
                             | [] => Ok acc
                             | k :: ks' =>
                                 if negb (is_not_prototype_key k) then go ks' acc
                                 else if in_op target k then
                                   if mem_str k tkeys then
                                     do m <- deepmerge f (get target k) (get source k); go ks' (obj_assign acc k m)
                                   else go ks' acc
                                 else do c <- clone f (get source k); go ks' (obj_assign acc k c)
                             end) skeys acc1;
               Ok (VObj acc2)
           end
  end.

Definition deepmerge_all (fuel : nat) (items : list val) : res val :=
  match items with
  | [] => Ok (VObj [])
  | [a] => clone fuel a
  | [a; b] => deepmerge fuel a b
  | _ => (fix go (l : list val) (acc : val) : res val :=
            match l with
            | [] => Ok acc
            | x :: l' => do m <- deepmerge fuel acc x; go l' m
            end) items VUndef
  end.

Inductive key_order := OrderInput | OrderSorted.

Section Parse.
  Variable F : formats.
  Variable env : renv.
  Variable strict : bool.
  Variable order : key_order.

  Notation validate' f := (validate F env f strict).

  Definition key_of_parsed (v : val) : res string :=
    match v with VStr s => Ok s | _ => do k <- to_key v; Ok (match k with Some s => s | None => "<symbol>" end) end.

  Fixpoint parse (fuel : nat) (r : rt) (v : val) {struct fuel} : res val :=
    match fuel with
    | O => Throw EOutOfFuel
    | S f =>
      match r with
      | RNever => Throw EUnreachable
      | RTuple prefix rest =>
          do pre <- map_res (fun ip => parse f (snd ip) (get_idx v (fst ip)))
                            (combine (seq_from 0 (List.length prefix)) prefix);
          match rest with
          | Some rr =>
              match v with
              | VArr xs => do tl <- map_res (parse f rr) (skipn (List.length prefix) xs); Ok (VArr (pre ++ tl))
              | _ => Ok (VArr pre)
              end
          | None => Ok (VArr pre)
          end
      | RAllOf rs =>
          do acc <- (fix go (l : list rt) (acc : list (string * val)) : res (list (string * val)) :=
                       match l with
                       | [] => Ok acc
                       | m :: l' =>
                           do p <- parse f m v;
                           if negb (is_object_type p) then Throw (EInternal "AllOfParser: Expected object")
                           else go l' (obj_spread acc p)
                       end) rs [];
          Ok (VObj acc)
      | RAnyOf rs =>
          do items <- (fix go (l : list rt) : res (list val) :=
                         match l with
                         | [] => Ok []
                         | m :: l' =>
                             do ok <- validate' f m v;
                             if ok then do p <- parse f m v; do rest <- go l'; Ok (p :: rest)
                             else go l'
                         end) rs;
          deepmerge_all f items
      | RArray item =>
          match v with VArr xs => do ys <- map_res (parse f item) xs; Ok (VArr ys) | _ => Throw ENotFunction end
      | RMap kr vr =>
          match v with
          | VMap kvs =>
              do out <- map_res (fun kv => do a <- parse f kr (fst kv); do b <- parse f vr (snd kv); Ok (a, b)) kvs;
              Ok (VMap out)
          | _ => Throw ENotFunction
          end
      | RSet item =>
          match v with VSet xs => do ys <- map_res (parse f item) xs; Ok (VSet ys) | _ => Throw ENotFunction end
      | RDisc _ disc mapping _ =>
          let d := get v disc in
          do key <- to_key d;
          match lookup_plain mapping key with
          | LOwn m =>
              do p <- parse f m v;
              Ok (VObj (assoc_set disc d (obj_spread [] p)))
          | LMissing => Throw (EInternal "Missing parser for discriminator")
          | LProtoFunction | LProtoObject => Throw ENotFunction
          end
      | ROptional t => if is_nullish v then Ok v else parse f t v
      | RObject props indexed =>
          let input_keys := own_keys v in
          let index_step (k : string) (acc : list (string * val)) : res (list (string * val)) :=
            (fix go (ps : list (rt * rt)) (acc : list (string * val)) : res (list (string * val)) :=
               match ps with
               | [] => Ok acc
               | p :: ps' =>
                   do a <- validate' f (fst p) (VStr k);
                   do b <- (if a then validate' f (snd p) (get v k) else Ok false);
                   if b then
                     do item <- parse f (snd p) (get v k);
                     do kp <- parse f (fst p) (VStr k);
                     do ks <- key_of_parsed kp;
                     go ps' (obj_assign acc ks item)
                   else go ps' acc
               end) indexed acc in
          match order with
          | OrderInput =>
              do acc <- (fix go (ks : list string) (acc : list (string * val)) : res (list (string * val)) :=
                           match ks with
                           | [] => Ok acc
                           | k :: ks' =>
                               match assoc k props with
                               | Some p => do x <- parse f p (get v k); go ks' (obj_assign acc k x)
                               | None => do acc' <- index_step k acc; go ks' acc'
                               end
                           end) input_keys [];
              Ok (VObj acc)
          | OrderSorted =>
              do acc <- (fix go (ks : list string) (acc : list (string * val)) : res (list (string * val)) :=
                           match ks with
                           | [] => Ok acc
                           | k :: ks' =>
                               if has_own v k then
                                 match assoc k props with
                                 | Some p => do x <- parse f p (get v k); go ks' (obj_assign acc k x)
                                 | None => go ks' acc
                                 end
                               else go ks' acc
                           end) (sort_strings (keys props)) [];
              match indexed with
              | [] => Ok (VObj acc)
              | _ :: _ =>
                  let extra := sort_strings
                                 (filter (fun k => negb (mem_str k (keys props) || mem_str k object_proto_functions
                                                         || String.eqb k proto_key)) input_keys) in
                  do acc2 <- (fix go (ks : list string) (acc : list (string * val)) : res (list (string * val)) :=
                                match ks with
                                | [] => Ok acc
                                | k :: ks' => do acc' <- index_step k acc; go ks' acc'
                                end) extra acc;
                  Ok (VObj acc2)
              end
          end
      | RRef name =>
          match assoc name env with
          | Some t => parse f t v
          | None => Throw (EInternal "unknown named type")
          end
      | RMeta _ t => parse f t v
      | _ => Ok v
      end
    end.
End Parse.
