(* PointsSpec.v — what "an error points into the input" means (C12), as relations; the executable version used by the
   search is points_into in RuntimeSpec.v. *)
From Beff Require Export Model.Report.

(* one path segment: a property of an existing object (present or missing), an array position (present or missing),
   a key / value of a Map, a member of a Set *)
Inductive Step (v : val) : string -> val -> Prop :=
| StepKey seg : is_object_type v = true -> is_nullish v = false -> Step v seg (get v seg)
| StepIdx xs i : v = VArr xs -> Step v ("[" +++ nat_to_string i +++ "]") (nth i xs VUndef)
| StepMapKey kvs k x fuel js : v = VMap kvs -> In (k, x) kvs -> template_json fuel k = Ok js -> Step v ("key(" +++ js +++ ")") k
| StepMapValue kvs k x fuel js : v = VMap kvs -> In (k, x) kvs -> template_json fuel k = Ok js -> Step v ("value(" +++ js +++ ")") x
| StepSetItem xs x fuel js : v = VSet xs -> In x xs -> template_json fuel x = Ok js -> Step v ("item(" +++ js +++ ")") x.

Inductive Resolves : val -> list string -> val -> Prop :=
| ResNil v : Resolves v [] v
| ResCons v seg w p u : Step v seg w -> Resolves w p u -> Resolves v (seg :: p) u.

(* the path of an error addresses a position of v and `received` is the value found there; the members of a union error
   point into the received value *)
Inductive Points : val -> err -> Prop :=
| PointsRegular v m p r : Resolves v p r -> Points v (ERegular m p r)
| PointsUnion v p r es : Resolves v p r -> Forall (Points r) es -> Points v (EUnion p r es).

(* where this is proved: every tree except objects whose index signature has a key type that can reject a key
   (listed finding index_key_received: such an error carries the key, not the value at the path) *)
Fixpoint c12_points (r : rt) : bool :=
  match r with
  | RTuple prefix rest => forallb c12_points prefix && match rest with Some x => c12_points x | None => true end
  | RAllOf rs | RAnyOf rs => forallb c12_points rs
  | RArray t | RSet t | ROptional t | RMeta _ t => c12_points t
  | RMap k v => c12_points k && c12_points v
  | RDisc ss _ mp smp => forallb (fun kp => c12_points (snd kp)) mp
  | RObject props indexed =>
      forallb (fun kp => c12_points (snd kp)) props
      && forallb (fun q => match fst q with RTypeof TyString => true | _ => false end && c12_points (snd q)) indexed
  | _ => true
  end.
Definition c12_points_env (env : renv) : bool := forallb (fun kp => c12_points (snd kp)) env.
