(* Flatten.v — extract_union (print/printer.rs:431-447, also frontend/mod.rs): flattening a union through nested unions
   and named references.  The Rust function recurses without a visited set. *)
From Beff Require Export Model.Ir.

Fixpoint concat_res_l {A} (l : list (res (list A))) : res (list A) :=
  match l with
  | [] => Ok []
  | x :: l' => do a <- x; do b <- concat_res_l l'; Ok (a ++ b)
  end.

Fixpoint extract_union (fuel : nat) (env : ienv) (t : ir) {struct fuel} : res (list ir) :=
  match fuel with
  | O => Throw EOutOfFuel                      (* the Rust recursion would still be running *)
  | S f =>
      match t with
      | IAnyOf vs => concat_res_l (map (extract_union f env) vs)
      | IRef n => match assoc n env with
                  | Some s => extract_union f env s
                  | None => Throw (EInternal "everything should be resolved by now")
                  end
      | INever => Ok []
      | IMetaIR _ t' => extract_union f env t'
      | _ => Ok [t]
      end
  end.
