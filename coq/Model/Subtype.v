(* Subtype.v — SemTypeOps::is_empty / is_subtype / is_same_type (subtyping/semtype.rs:112-262).
   Emptiness of the structural components (list_is_empty, dnf_mapping_is_empty: recursive procedures over the atom tables with
   memoised co-inductive cuts) is a parameter of the model; the basic components are never empty (subtype.rs:359-371). *)
From Beff Require Export Model.SemSpec.

Section Subtype.
  Variable struct_empty : proper -> res bool.

  Definition proper_is_empty (p : proper) : res bool :=
    match p with
    | PBoolean _ | PNumber _ _ | PString _ _ | PVoidUndefined _ _ | PTypedArray _ _ => Ok false
    | PMapping _ | PList _ | PMap _ | PSet _ => struct_empty p
    end.

  Definition sem_is_empty (t : semtype) : res bool :=
    if negb (N.eqb (st_all t) 0) then Ok false else forall_res proper_is_empty (st_data t).

  Definition sem_is_subtype (a b : semtype) : res bool := do d <- sem_diff a b; sem_is_empty d.

  (* Ok(self.is_subtype(t2)? && t2.is_subtype(self)?) *)
  Definition sem_is_same (a b : semtype) : res bool :=
    do x <- sem_is_subtype a b; if x then sem_is_subtype b a else Ok false.
End Subtype.

Definition no_struct (_ : proper) : res bool := Throw (EInternal "structural component").
Definition show_res_bool (r : res bool) : string := show_res show_bool r.
