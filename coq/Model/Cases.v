(* Cases.v — concrete instances used when the models are *run* (correspondence), never in theorems. *)
From Beff Require Export Model.Validate Model.Parse Model.Report Model.Hash256Enc Model.Bdd Model.SemType Model.Schema Model.Describe Model.Session Model.ShowRt Model.Subtype Model.Materialise.

Fixpoint str_len (s : string) : nat := match s with EmptyString => 0 | String _ s' => S (str_len s') end.

(* the custom formats the Node driver registers (harness/js/driver.mjs) *)
Definition F0 : formats := {|
  sfmt := fun name =>
    if String.eqb name "nonempty" then Some (fun s => negb (String.eqb s ""))
    else if String.eqb name "short" then Some (fun s => Nat.leb (str_len s) 3)
    else None;
  nfmt := fun name =>
    if String.eqb name "nonneg" then
      Some (fun n => match n with
                     | NInt z => Z.leb 0 z | NNegZero => true | NInf neg => negb neg | NNaN => false
                     | NDec s => match s with String "-" _ => false | _ => true end
                     end)
    else if String.eqb name "even" then
      Some (fun n => match n with NInt z => Z.eqb (Z.modulo z 2) 0 | NNegZero => true | _ => false end)
    else None
|}.

Definition FUEL : nat := 300.

Definition run_validate (env : renv) (strict : bool) (r : rt) (v : val) : string :=
  show_res show_bool (validate F0 env FUEL strict r v).

Definition run_safe_parse (env : renv) (strict : bool) (order : key_order) (r : rt) (v : val) : string :=
  show_res show_parsed (safe_parse F0 env FUEL strict order r v).
Definition run_parse (env : renv) (strict : bool) (order : key_order) (r : rt) (v : val) : string :=
  show_res show_outcome (parse_top F0 env FUEL strict order "T" r v).

(* spec-side evaluations on outputs of the implementation (parsed back from the driver's text) *)
Definition spec_revalidate (env : renv) (strict : bool) (r : rt) (d : val) : string :=
  show_res show_bool (validate F0 env FUEL strict r d).
Definition run_print_errors (es : list err) : string :=
  show_res (fun s => s) (print_errors FUEL es).

Definition run_hash256 (env : renv) (r : rt) : string :=
  match hash256_writes env FUEL r with
  | Ok ws => show_writes ws +++ "|" +++ hex_words (digest_words K_source (fold_left (update_bytes K_source) ws (writer_init H0_source)))
  | Throw e => show_exn e
  end.
Definition run_hash32 (env : renv) (r : rt) : string :=
  show_res Z_to_string (hash32 env FUEL [] r).
Definition run_describe (env : renv) (name : string) (hide : bool) (r : rt) : string :=
  show_res (fun s => s) (describe_top env FUEL name hide r).
(* ---------- the printer and the meaning of the IR (C01) ---------- *)
Definition PFUEL : nat := 60.
Definition run_print (env : ienv) (prefer : list string) (t : ir) : string :=
  show_res show_rt (print env prefer PFUEL t).
Definition run_print_env (env : ienv) (prefer : list string) : string :=
  show_res show_env (print_env env prefer PFUEL).
Definition run_rmember (env : ienv) (t : ir) (v : val) : string :=
  show_res show_bool (rmember F0 env FUEL t v).
(* what a theorem 'validate (print t) = rmember t' would say, evaluated on one case *)
Definition run_printed_validate (env : ienv) (prefer : list string) (t : ir) (v : val) : string :=
  match print_env env prefer PFUEL, print env prefer PFUEL t with
  | Ok renv', Ok r => show_res show_bool (validate F0 renv' FUEL false r v)
  | Throw e, _ | _, Throw e => show_exn e
  end.
Definition run_writer (writes : list (list N)) : string :=
  writer_hex writes +++ "|" +++ sha256_hex (List.concat writes).

(* ---------- decision diagrams ---------- *)
Definition BFUEL : nat := 400.
(* all truth assignments over a list of atoms *)
Fixpoint assignments (atoms : list atom) : list (atom -> bool) :=
  match atoms with
  | [] => [fun _ => false]
  | a :: rest => List.concat (map (fun rho => [rho; fun x => if atom_eqb x a then true else rho x]) (assignments rest))
  end.
Definition truth_table (atoms : list atom) (b : bdd) : string :=
  concat_str "" (map (fun rho => show_bool (eval rho b)) (assignments atoms)).
Definition truth_table_dnf (atoms : list atom) (d : dnf) : string :=
  concat_str "" (map (fun rho => show_bool (eval_dnf rho d)) (assignments atoms)).

(* ---------- schemas ---------- *)
Definition run_schema_flat (env : renv) (r : rt) : string :=
  match schema env default_conf Flat FUEL [] None empty_ctx r with
  | Ok p => show_json (fst p)
  | Throw e => show_exn e
  end.
(* a history of schemaWithContext calls on one context; stops being meaningful after the first throw *)
Definition run_ctxseq (env : renv) (cf : pconf) (rts : list rt) (calls : list nat) : string :=
  let step (acc : list string * option pctx) (i : nat) :=
    match snd acc with
    | None => (fst acc ++ ["<after-throw>"], None)
    | Some c =>
        match schema env cf Contextual FUEL [] None c (nth i rts RAny) with
        | Ok p => (fst acc ++ [show_json (fst p)], Some (snd p))
        | Throw e => (fst acc ++ [show_exn e], None)
        end
    end in
  let r := fold_left step calls ([], Some empty_ctx) in
  concat_str " ;; " (fst r) +++ " ==> " +++
  match snd r with Some c => show_json (export_definitions cf c) | None => "<after-throw>" end.
