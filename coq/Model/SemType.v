(* SemType.v — allowed/excluded literal sets, proper subtypes and ComplexSemType with its four operations
   (subtyping/subtype.rs:245-634, semtype.rs:23-254). *)
From Beff Require Export Model.Bdd Model.Rt Model.Generated.

(* ---------- tags ---------- *)
Inductive stag := TgBoolean | TgNumber | TgString | TgNull | TgMapping | TgOptionalProp | TgList | TgBigInt
                | TgDate | TgVoidUndefined | TgTypedArray | TgMap | TgSet.
Definition stag_name (t : stag) : string :=
  match t with
  | TgBoolean => "Boolean" | TgNumber => "Number" | TgString => "String" | TgNull => "Null" | TgMapping => "Mapping"
  | TgOptionalProp => "OptionalProp" | TgList => "List" | TgBigInt => "BigInt" | TgDate => "Date"
  | TgVoidUndefined => "VoidUndefined" | TgTypedArray => "TypedArray" | TgMap => "Map" | TgSet => "Set"
  end.
(* bit position: `Boolean = 1 << 1` ... `Set = 1 << 13` *)
Definition stag_shift (t : stag) : N :=
  match t with
  | TgBoolean => 1 | TgNumber => 2 | TgString => 3 | TgNull => 4 | TgMapping => 5 | TgOptionalProp => 6 | TgList => 7
  | TgBigInt => 8 | TgDate => 9 | TgVoidUndefined => 10 | TgTypedArray => 11 | TgMap => 12 | TgSet => 13
  end%N.
Definition stag_code (t : stag) : N := N.shiftl 1 (stag_shift t).
Definition all_stags : list stag :=
  [TgBoolean; TgNumber; TgString; TgNull; TgMapping; TgOptionalProp; TgList; TgBigInt; TgDate; TgVoidUndefined;
   TgTypedArray; TgMap; TgSet].
Definition VAL : N := fold_left (fun acc t => N.lor acc (stag_code t)) all_stags 0%N.
Definition stag_eqb (a b : stag) : bool := N.eqb (stag_shift a) (stag_shift b).

(* ---------- literal-or-format values ---------- *)
Inductive numval := NLit (z : Z) | NFormat (name : string) (args : list string).
Inductive strval := SFormat (name : string) (args : list string) | STpl (items : list tpl_item).
Inductive vuval := VVoid | VUndefined.

Definition subset_str (a b : list string) : bool := forallb (fun x => mem_str x b) a.
(* CustomFormat::is_subtype: {f2} ∪ args2 ⊆ {f1} ∪ args1 *)
Definition format_is_sub (f1 : string) (a1 : list string) (f2 : string) (a2 : list string) : bool :=
  subset_str (f2 :: a2) (f1 :: a1).

Definition list_eqb {A} (eqb : A -> A -> bool) : list A -> list A -> bool :=
  fix go (l1 l2 : list A) : bool :=
  match l1, l2 with
  | [], [] => true
  | x :: l1', y :: l2' => eqb x y && go l1' l2'
  | _, _ => false
  end.
Fixpoint tpl_item_eqb (a b : tpl_item) : bool :=
  match a, b with
  | TplString, TplString | TplNumber, TplNumber | TplBoolean, TplBoolean => true
  | TplConst x, TplConst y => String.eqb x y
  | TplOneOf xs, TplOneOf ys => list_eqb tpl_item_eqb xs ys
  | _, _ => false
  end.

Definition numval_eqb (a b : numval) : bool :=
  match a, b with
  | NLit x, NLit y => Z.eqb x y
  | NFormat f a1, NFormat g a2 => String.eqb f g && list_eqb String.eqb a1 a2
  | _, _ => false
  end.
Definition strval_eqb (a b : strval) : bool :=
  match a, b with
  | SFormat f a1, SFormat g a2 => String.eqb f g && list_eqb String.eqb a1 a2
  | STpl x, STpl y => list_eqb tpl_item_eqb x y
  | _, _ => false
  end.
Definition vuval_eqb (a b : vuval) : bool :=
  match a, b with VVoid, VVoid | VUndefined, VUndefined => true | _, _ => false end.
Definition typed_kind_eqb (a b : typed_kind) : bool := String.eqb (typed_kind_name a) (typed_kind_name b).

(* the SubtypeCheck implementations *)
Definition numval_is_sub (a b : numval) : res bool :=
  match a, b with
  | NFormat f a1, NFormat g a2 => Ok (format_is_sub f a1 g a2)
  | _, _ => Ok (numval_eqb a b)
  end.
Definition strval_is_sub (a b : strval) : res bool :=
  match a, b with
  | SFormat f a1, SFormat g a2 => Ok (format_is_sub f a1 g a2)
  | STpl [x], STpl [y] => Ok (tpl_item_eqb x y)
  | STpl _, STpl _ => Throw (EInternal "only single-item TplLitType subtype checks are supported")
  | _, _ => Ok (strval_eqb a b)
  end.
Definition vuval_is_sub (a b : vuval) : res bool :=
  match a, b with VUndefined, VVoid => Ok true | _, _ => Ok (vuval_eqb a b) end.
Definition typed_is_sub (a b : typed_kind) : res bool := Ok (typed_kind_eqb a b).

(* some total orders for `acc.sort()` (results are compared up to order) *)
Definition numval_leb (a b : numval) : bool :=
  match a, b with
  | NLit x, NLit y => Z.leb x y
  | NLit _, NFormat _ _ => true
  | NFormat _ _, NLit _ => false
  | NFormat f _, NFormat g _ => str_leb f g
  end.
Definition strval_key (a : strval) : string :=
  match a with
  | SFormat f args => "0" +++ f +++ concat_str "," args
  | STpl [TplConst s] => "1" +++ s
  | STpl _ => "2"
  end.
Definition strval_leb (a b : strval) : bool := str_leb (strval_key a) (strval_key b).
Definition vuval_leb (a b : vuval) : bool := match a, b with VUndefined, VVoid => false | _, _ => true end.
Definition typed_leb (a b : typed_kind) : bool := str_leb (typed_kind_name a) (typed_kind_name b).

(* ---------- sub_vec_union / intersect / diff ---------- *)
Section SubVec.
  Context {K : Type}.
  Variable is_sub : K -> K -> res bool.
  Variable eqb : K -> K -> bool.
  Variable leb : K -> K -> bool.

  (* inner loop of sub_vec_union's first pass: Some y = push y and continue 'outer *)
  Fixpoint union_scan (x : K) (v2 : list K) : res (option K) :=
    match v2 with
    | [] => Ok None
    | y :: v2' =>
        do a <- is_sub x y;
        if a then Ok (Some y) else
        do b <- is_sub y x;
        if b then Ok (Some x) else union_scan x v2'
    end.
  Fixpoint related_to_any (y : K) (v1 : list K) : res bool :=
    match v1 with
    | [] => Ok false
    | x :: v1' =>
        do a <- is_sub y x;
        if a then Ok true else
        do b <- is_sub x y;
        if b then Ok true else related_to_any y v1'
    end.
  Definition sub_vec_union (v1 v2 : list K) : res (list K) :=
    do first <- map_res (fun x => do r <- union_scan x v2; Ok (match r with Some y => y | None => x end)) v1;
    do second <- (fix go (l : list K) : res (list K) :=
                    match l with
                    | [] => Ok []
                    | y :: l' => do rel <- related_to_any y v1; do rest <- go l'; Ok (if rel then rest else y :: rest)
                    end) v2;
    Ok (sort_by leb (first ++ second)).

  Fixpoint intersect_row (x : K) (v2 : list K) : res (list K) :=
    match v2 with
    | [] => Ok []
    | y :: v2' =>
        do rest <- intersect_row x v2';
        if eqb x y then Ok (x :: rest) else
        do a <- is_sub x y;
        if a then Ok (x :: rest) else
        do b <- is_sub y x;
        if b then Ok (y :: rest) else Ok rest
    end.
  (* one step of the "keep only the most specific items" pass *)
  Fixpoint dedup_scan (item : K) (existing : list K) : res (bool * list K) :=   (* (should_add, survivors) *)
    match existing with
    | [] => Ok (true, [])
    | e :: ex' =>
        if eqb item e then Ok (false, existing) else
        do a <- is_sub item e;
        if a then do r <- dedup_scan item ex'; Ok (fst r, snd r)          (* e is removed *)
        else
          do b <- is_sub e item;
          if b then Ok (false, existing)
          else do r <- dedup_scan item ex'; Ok (fst r, e :: snd r)
    end.
  Definition sub_vec_intersect (v1 v2 : list K) : res (list K) :=
    do rows <- map_res (fun x => intersect_row x v2) v1;
    do ded <- fold_left (fun acc item =>
                           do l <- acc;
                           do r <- dedup_scan item l;
                           Ok (if fst r then snd r ++ [item] else snd r)) (List.concat rows) (Ok []);
    Ok (sort_by leb ded).

  Fixpoint sub_of_any (x : K) (v2 : list K) : res bool :=
    match v2 with
    | [] => Ok false
    | y :: v2' => do a <- is_sub x y; if a then Ok true else sub_of_any x v2'
    end.
  Definition sub_vec_diff (v1 v2 : list K) : res (list K) :=
    do kept <- (fix go (l : list K) : res (list K) :=
                  match l with
                  | [] => Ok []
                  | x :: l' => do s <- sub_of_any x v2; do rest <- go l'; Ok (if s then rest else x :: rest)
                  end) v1;
    Ok (sort_by leb kept).
End SubVec.

(* ---------- proper subtypes ---------- *)
Inductive proper :=
| PBoolean (b : bool)
| PNumber (allowed : bool) (values : list numval)
| PString (allowed : bool) (values : list strval)
| PMapping (b : bdd)
| PList (b : bdd)
| PVoidUndefined (allowed : bool) (values : list vuval)
| PTypedArray (allowed : bool) (values : list typed_kind)
| PMap (b : bdd)
| PSet (b : bdd).
Inductive subtype := SFalse (t : stag) | STrue (t : stag) | SProper (p : proper).

Definition proper_tag (p : proper) : stag :=
  match p with
  | PBoolean _ => TgBoolean | PNumber _ _ => TgNumber | PString _ _ => TgString | PMapping _ => TgMapping
  | PList _ => TgList | PVoidUndefined _ _ => TgVoidUndefined | PTypedArray _ _ => TgTypedArray
  | PMap _ => TgMap | PSet _ => TgSet
  end.
Definition proper_code (p : proper) : N := stag_code (proper_tag p).

(* SubType::number_subtype and friends: an empty list is the bottom / top of the tag *)
Definition lit_subtype {K} (mk : bool -> list K -> proper) (t : stag) (allowed : bool) (values : list K) : subtype :=
  match values with
  | [] => if allowed then SFalse t else STrue t
  | _ => SProper (mk allowed values)
  end.

Definition FUEL_BDD : nat := 400.

(* the allowed/excluded flag algebra shared by Number, String, TypedArray, VoidUndefined *)
Section Flags.
  Context {K : Type}.
  Variable is_sub : K -> K -> res bool.
  Variable eqb leb : K -> K -> bool.
  Variable mk : bool -> list K -> proper.
  Variable t : stag.
  Definition lits_intersect (a1 : bool) (v1 : list K) (a2 : bool) (v2 : list K) : res subtype :=
    match a1, a2 with
    | true, true => do v <- sub_vec_intersect is_sub eqb leb v1 v2; Ok (lit_subtype mk t true v)
    | false, false => do v <- sub_vec_union is_sub leb v1 v2; Ok (lit_subtype mk t false v)
    | true, false => do v <- sub_vec_diff is_sub leb v1 v2; Ok (lit_subtype mk t true v)
    | false, true => do v <- sub_vec_diff is_sub leb v2 v1; Ok (lit_subtype mk t true v)
    end.
  Definition lits_union (a1 : bool) (v1 : list K) (a2 : bool) (v2 : list K) : res subtype :=
    match a1, a2 with
    | true, true => do v <- sub_vec_union is_sub leb v1 v2; Ok (lit_subtype mk t true v)
    | false, false => do v <- sub_vec_intersect is_sub eqb leb v1 v2; Ok (lit_subtype mk t false v)
    | true, false => do v <- sub_vec_diff is_sub leb v2 v1; Ok (lit_subtype mk t false v)
    | false, true => do v <- sub_vec_diff is_sub leb v1 v2; Ok (lit_subtype mk t false v)
    end.
End Flags.

Definition bdd_res (o : option bdd) : res bdd := match o with Some b => Ok b | None => Throw EOutOfFuel end.

Definition proper_complement (p : proper) : res proper :=
  match p with
  | PBoolean b => Ok (PBoolean (negb b))
  | PNumber a v => Ok (PNumber (negb a) v)
  | PString a v => Ok (PString (negb a) v)
  | PVoidUndefined a v => Ok (PVoidUndefined (negb a) v)
  | PTypedArray a v => Ok (PTypedArray (negb a) v)
  | PMapping b => do c <- bdd_res (complement FUEL_BDD b); Ok (PMapping c)
  | PList b => do c <- bdd_res (complement FUEL_BDD b); Ok (PList c)
  | PMap b => do c <- bdd_res (complement FUEL_BDD b); Ok (PMap c)
  | PSet b => do c <- bdd_res (complement FUEL_BDD b); Ok (PSet c)
  end.

Definition proper_intersect (p1 p2 : proper) : res subtype :=
  match p1, p2 with
  | PBoolean b1, PBoolean b2 => Ok (if Bool.eqb b1 b2 then SProper p1 else SFalse TgBoolean)
  | PVoidUndefined a1 v1, PVoidUndefined a2 v2 => lits_intersect vuval_is_sub vuval_eqb vuval_leb PVoidUndefined TgVoidUndefined a1 v1 a2 v2
  | PNumber a1 v1, PNumber a2 v2 => lits_intersect numval_is_sub numval_eqb numval_leb PNumber TgNumber a1 v1 a2 v2
  | PString a1 v1, PString a2 v2 => lits_intersect strval_is_sub strval_eqb strval_leb PString TgString a1 v1 a2 v2
  | PTypedArray a1 v1, PTypedArray a2 v2 => lits_intersect typed_is_sub typed_kind_eqb typed_leb PTypedArray TgTypedArray a1 v1 a2 v2
  | PMapping b1, PMapping b2 => do b <- bdd_res (intersect FUEL_BDD b1 b2); Ok (SProper (PMapping b))
  | PList b1, PList b2 => do b <- bdd_res (intersect FUEL_BDD b1 b2); Ok (SProper (PList b))
  | PMap b1, PMap b2 => do b <- bdd_res (intersect FUEL_BDD b1 b2); Ok (SProper (PMap b))
  | PSet b1, PSet b2 => do b <- bdd_res (intersect FUEL_BDD b1 b2); Ok (SProper (PSet b))
  | _, _ => Throw EUnreachable
  end.

Definition proper_union (p1 p2 : proper) : res subtype :=
  match p1, p2 with
  | PBoolean b1, PBoolean b2 => Ok (if Bool.eqb b1 b2 then SProper p1 else STrue TgBoolean)
  | PVoidUndefined a1 v1, PVoidUndefined a2 v2 => lits_union vuval_is_sub vuval_eqb vuval_leb PVoidUndefined TgVoidUndefined a1 v1 a2 v2
  | PNumber a1 v1, PNumber a2 v2 => lits_union numval_is_sub numval_eqb numval_leb PNumber TgNumber a1 v1 a2 v2
  | PString a1 v1, PString a2 v2 => lits_union strval_is_sub strval_eqb strval_leb PString TgString a1 v1 a2 v2
  | PTypedArray a1 v1, PTypedArray a2 v2 => lits_union typed_is_sub typed_kind_eqb typed_leb PTypedArray TgTypedArray a1 v1 a2 v2
  | PMapping b1, PMapping b2 => do b <- bdd_res (union FUEL_BDD b1 b2); Ok (SProper (PMapping b))
  | PList b1, PList b2 => do b <- bdd_res (union FUEL_BDD b1 b2); Ok (SProper (PList b))
  | PMap b1, PMap b2 => do b <- bdd_res (union FUEL_BDD b1 b2); Ok (SProper (PMap b))
  | PSet b1, PSet b2 => do b <- bdd_res (union FUEL_BDD b1 b2); Ok (SProper (PSet b))
  | _, _ => Throw EUnreachable
  end.

Definition proper_diff (p1 p2 : proper) : res subtype :=
  match p1, p2 with
  | PBoolean b1, PBoolean b2 => Ok (if Bool.eqb b1 b2 then SFalse TgBoolean else SProper p1)
  | PMapping b1, PMapping b2 => do b <- bdd_res (diff FUEL_BDD b1 b2); Ok (SProper (PMapping b))
  | PList b1, PList b2 => do b <- bdd_res (diff FUEL_BDD b1 b2); Ok (SProper (PList b))
  | PMap b1, PMap b2 => do b <- bdd_res (diff FUEL_BDD b1 b2); Ok (SProper (PMap b))
  | PSet b1, PSet b2 => do b <- bdd_res (diff FUEL_BDD b1 b2); Ok (SProper (PSet b))
  | _, _ => do c <- proper_complement p2; proper_intersect p1 c
  end.

(* ---------- ComplexSemType ---------- *)
Record semtype := mkSem { st_all : N; st_data : list proper }.

Definition some_bits (l : list proper) : N := fold_left (fun acc p => N.lor acc (proper_code p)) l 0%N.
Definition has_bit (bits code : N) : bool := negb (N.eqb (N.land bits code) 0).

(* SubTypePairIterator: merge the two sorted vectors by tag code, keeping the tags selected by `bits` *)
Fixpoint pair_iter (bits : N) (l1 : list proper) : list proper -> list (option proper * option proper) :=
  fix inner (l2 : list proper) : list (option proper * option proper) :=
    match l1, l2 with
    | [], [] => []
    | [], d2 :: l2' =>
        if has_bit bits (proper_code d2) then (None, Some d2) :: inner l2' else inner l2'
    | d1 :: l1', [] =>
        if has_bit bits (proper_code d1) then (Some d1, None) :: pair_iter bits l1' [] else pair_iter bits l1' []
    | d1 :: l1', d2 :: l2' =>
        let c1 := proper_code d1 in
        let c2 := proper_code d2 in
        match N.compare c1 c2 with
        | Eq => if has_bit bits c1 then (Some d1, Some d2) :: pair_iter bits l1' l2' else pair_iter bits l1' l2'
        | Lt => if has_bit bits c1 then (Some d1, None) :: pair_iter bits l1' l2 else pair_iter bits l1' l2
        | Gt => if has_bit bits c2 then (None, Some d2) :: inner l2' else inner l2'
        end
    end.

Definition not_bits (x : N) : N := N.lxor x (N.ones 32).     (* !x on u32 *)

Definition sem_collect (pairs : list (option proper * option proper))
           (f : option proper * option proper -> res (option subtype)) (all0 : N) (add_true : bool) : res semtype :=
  do r <- fold_left (fun acc pr =>
                       do st <- acc;
                       do o <- f pr;
                       match o with
                       | Some (STrue t) => Ok (if add_true then (N.lor (fst st) (stag_code t), snd st) else st)
                       | Some (SProper p) => Ok (fst st, snd st ++ [p])
                       | _ => Ok st
                       end) pairs (Ok (all0, []));
  Ok (mkSem (fst r) (snd r)).

Definition sem_intersect (t1 t2 : semtype) : res semtype :=
  let all := N.land (st_all t1) (st_all t2) in
  let some := N.land (N.lor (some_bits (st_data t1)) (st_all t1)) (N.lor (some_bits (st_data t2)) (st_all t2)) in
  let some := N.land some (not_bits all) in
  if N.eqb some 0 then Ok (mkSem all []) else
  sem_collect (pair_iter some (st_data t1) (st_data t2))
              (fun pr => match pr with
                         | (Some d1, None) => Ok (Some (SProper d1))
                         | (None, Some d2) => Ok (Some (SProper d2))
                         | (Some d1, Some d2) => do s <- proper_intersect d1 d2; Ok (Some s)
                         | _ => Ok None
                         end) all false.

Definition sem_union (t1 t2 : semtype) : res semtype :=
  let all := N.lor (st_all t1) (st_all t2) in
  let some := N.land (N.lor (some_bits (st_data t1)) (some_bits (st_data t2))) (not_bits all) in
  if N.eqb some 0 then Ok (mkSem all []) else
  sem_collect (pair_iter some (st_data t1) (st_data t2))
              (fun pr => match pr with
                         | (Some d1, None) => Ok (Some (SProper d1))
                         | (None, Some d2) => Ok (Some (SProper d2))
                         | (Some d1, Some d2) => do s <- proper_union d1 d2; Ok (Some s)
                         | _ => Ok None
                         end) all true.

Definition sem_diff (t1 t2 : semtype) : res semtype :=
  let all := N.land (st_all t1) (not_bits (N.lor (st_all t2) (some_bits (st_data t2)))) in
  let some := N.land (N.lor (st_all t1) (some_bits (st_data t1))) (not_bits (st_all t2)) in
  let some := N.land some (not_bits all) in
  if N.eqb some 0 then Ok (mkSem all []) else
  sem_collect (pair_iter some (st_data t1) (st_data t2))
              (fun pr => match pr with
                         | (None, Some d2) => do c <- proper_complement d2; Ok (Some (SProper c))
                         | (Some d1, None) => Ok (Some (SProper d1))
                         | (Some d1, Some d2) => do s <- proper_diff d1 d2; Ok (Some s)
                         | _ => Ok None
                         end) all true.

Definition sem_complement (t : semtype) : res semtype := sem_diff (mkSem VAL []) t.

(* ---------- canonical text ---------- *)
Definition show_numval (v : numval) : string :=
  match v with NLit z => "#" +++ Z_to_string z | NFormat f a => "fmt:" +++ f +++ "<" +++ concat_str "," a +++ ">" end.
Fixpoint show_tpl_item (i : tpl_item) : string :=
  match i with
  | TplString => "${string}" | TplNumber => "${number}" | TplBoolean => "${boolean}"
  | TplConst s => quote s
  | TplOneOf vs => "(" +++ concat_str "|" (map show_tpl_item vs) +++ ")"
  end.
Definition show_strval (v : strval) : string :=
  match v with
  | SFormat f a => "fmt:" +++ f +++ "<" +++ concat_str "," a +++ ">"
  | STpl items => "tpl:" +++ concat_str "" (map show_tpl_item items)
  end.
Definition show_flag (a : bool) : string := if a then "+" else "-".
Definition show_proper (p : proper) : string :=
  match p with
  | PBoolean b => "Boolean(" +++ show_bool b +++ ")"
  | PNumber a v => "Number" +++ show_flag a +++ "{" +++ concat_str "," (sort_strings (map show_numval v)) +++ "}"
  | PString a v => "String" +++ show_flag a +++ "{" +++ concat_str "," (sort_strings (map show_strval v)) +++ "}"
  | PMapping b => "Mapping" +++ show_bdd b
  | PList b => "List" +++ show_bdd b
  | PVoidUndefined a v => "VoidUndefined" +++ show_flag a +++ "{" +++
                          concat_str "," (sort_strings (map (fun x => match x with VVoid => "Void" | VUndefined => "Undefined" end) v)) +++ "}"
  | PTypedArray a v => "TypedArray" +++ show_flag a +++ "{" +++ concat_str "," (sort_strings (map typed_kind_name v)) +++ "}"
  | PMap b => "Map" +++ show_bdd b
  | PSet b => "Set" +++ show_bdd b
  end.
Definition show_semtype (t : semtype) : string :=
  N_to_string (st_all t) +++ "[" +++ concat_str ";" (map show_proper (st_data t)) +++ "]".
Definition show_sem_res (r : res semtype) : string :=
  match r with Ok t => show_semtype t | Throw (EInternal m) => "!Bail" | Throw e => show_exn e end.
