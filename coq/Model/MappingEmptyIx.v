(* MappingEmptyIx.v — the object clause decider of mapping.rs including index signatures whose key type is `string`
   (get_value_exact / get_value_open with make_optional, get_index_value_*, get_effective_index_value, step 5 of
   check_mapping_empty with the extra key of fix ed39a94, intersect_mapping with two index signatures).  Index signatures over
   finite or template-literal key sets and the Map variant make the model throw.  The index-free part of this file repeats
   Model/MappingEmpty.v, about which the theorems of Proofs/MappingSound.v are stated; this version exists to tie the rest of
   check_mapping_empty to the engine. *)
From Beff Require Export Model.MappingEmpty.

Record xatom := mkXatom { xa_fields : list (string * semtype); xa_index : option (semtype * semtype) }.   (* index: key type, value type *)
Definition xtable := list (N * xatom).

Fixpoint lookup_xatom (i : N) (tbl : xtable) : option xatom :=
  match tbl with
  | [] => None
  | (j, a) :: tbl' => if N.eqb i j then Some a else lookup_xatom i tbl'
  end.

Definition is_all_strings (t : semtype) : bool :=
  N.eqb (st_all t) (stag_code TgString) && match st_data t with [] => true | _ => false end.
Definition key_unsupported {A} : res A := Throw (EInternal "index signature over a finite or template key set: outside the modelled part of mapping.rs").

(* the index signature, if its key type is `string` *)
Definition string_index (a : xatom) : res (option semtype) :=
  match xa_index a with
  | None => Ok None
  | Some (k, v) => if is_all_strings k then Ok (Some v) else key_unsupported
  end.

Definition make_optional (t : semtype) : res semtype := sem_union t sem_optional_prop.

Section XLevel.
  Variable is_empty : semtype -> res bool.

  Definition x_get_exact (a : xatom) (k : string) : res semtype :=
    match assoc k (xa_fields a) with
    | Some v => Ok v
    | None => do ix <- string_index a; match ix with Some v => make_optional v | None => Ok sem_optional_prop end
    end.
  Definition x_get_open (a : xatom) (k : string) : res semtype :=
    match assoc k (xa_fields a) with
    | Some v => Ok v
    | None => do ix <- string_index a; match ix with Some v => make_optional v | None => Ok sem_unknown end
    end.

  (* intersect_mapping *)
  Definition x_intersect (m1 m2 : xatom) : res (option xatom) :=
    do fs <- (fix go (ks : list string) (acc : list (string * semtype)) : res (option (list (string * semtype))) :=
                match ks with
                | [] => Ok (Some acc)
                | k :: ks' =>
                    do t <- sem_intersect (get_open (xa_fields m1) k) (get_open (xa_fields m2) k);
                    if is_never t then Ok None else go ks' (acc ++ [(k, t)])
                end) (all_keys (xa_fields m1) (xa_fields m2)) [];
    match fs with
    | None => Ok None
    | Some fields =>
        do i1 <- string_index m1;
        do i2 <- string_index m2;
        do ix <- match i1, i2 with
                 | Some v1, Some v2 => do v <- sem_intersect v1 v2; Ok (Some (sem_string, v))
                 | Some v, None | None, Some v => Ok (Some (sem_string, v))
                 | None, None => Ok None
                 end;
        Ok (Some (mkXatom fields ix))
    end.

  Fixpoint x_meet (acc : xatom) (ps : list xatom) : res (option xatom) :=
    match ps with
    | [] => Ok (Some acc)
    | a :: ps' => do o <- x_intersect acc a; match o with None => Ok None | Some acc' => x_meet acc' ps' end
    end.

  (* the first "\0extra<n>" that neither the positive nor a remaining negative declares *)
  Definition extra_key (n : nat) : string := String (ascii_of_nat 0) ("extra" +++ Z_to_string (Z.of_nat n)).
  Fixpoint fresh_extra (fuel n : nat) (pos : xatom) (rest : list xatom) : string :=
    let c := extra_key n in
    match fuel with
    | O => c
    | S f => if mem_str c (keys (xa_fields pos)) || existsb (fun a => mem_str c (keys (xa_fields a))) rest
             then fresh_extra f (S n) pos rest else c
    end.

  Fixpoint x_check (negs : list xatom) (pos : xatom) : res bool :=
    do some_empty <- exists_res (fun kv => is_empty (snd kv)) (xa_fields pos);
    if some_empty then Ok true else
    match negs with
    | [] => Ok false
    | neg :: rest =>
        do covered <- forall_res (fun k =>
                                    do vp <- x_get_exact pos k;
                                    do vn <- x_get_open neg k;
                                    do diff <- sem_diff vp vn;
                                    do e <- is_empty diff;
                                    if e then Ok true else x_check rest (mkXatom (field_insert k diff (xa_fields pos)) (xa_index pos)))
                                 (all_keys (xa_fields pos) (xa_fields neg));
        if negb covered then Ok false else
        (* step 5: the index dimension *)
        do ip <- string_index pos;
        do inn <- string_index neg;
        let vp_idx := match ip with Some v => v | None => sem_optional_prop end in
        (* pos_key (never or string) overlaps neg_key (string): the negative's index value, made optional, applies *)
        do free <- minus_keys (match ip with Some _ => sem_string | None => sem_never end)
                              (keys (xa_fields pos) ++ keys (xa_fields neg));
        do sub <- (do s <- sem_intersect free sem_string; do disjoint <- is_empty s; Ok (negb disjoint));
        do vn_idx <- (if sub then make_optional (match inn with Some v => v | None => sem_unknown end) else Ok sem_unknown);
        do d <- sem_diff vp_idx vn_idx;
        do e <- is_empty d;
        if e then Ok true else
        match ip with
        | Some _ =>
            let k := fresh_extra (S (List.length (xa_fields pos) + List.length rest)) 0 pos rest in
            x_check rest (mkXatom (field_insert k d (xa_fields pos)) (xa_index pos))
        | None => indexed_unsupported
        end
    end.

  Definition x_clause_is_empty (pos neg : list xatom) : res bool :=
    do o <- x_meet (mkXatom [] None) pos;
    match o with
    | None => Ok true
    | Some merged => x_check neg merged
    end.
End XLevel.

Section XEmpty.
  Variable ltbl : ltable.
  Variable xtbl : xtable.
  Variable other_empty : proper -> res bool.

  Definition xatoms_of (l : list atom) : res (list xatom) :=
    map_res (fun a => match ak a with
                      | AMapping => match lookup_xatom (ai a) xtbl with Some xa => Ok xa | None => Throw (EInternal "mapping atom") end
                      | _ => Throw (EInternal "not a mapping atom")
                      end) l.

  Fixpoint xstruct_is_empty (fuel : nat) (p : proper) {struct fuel} : res bool :=
    match fuel with
    | O => Throw EOutOfFuel
    | S f =>
        let elem_empty := sem_is_empty (xstruct_is_empty f) in
        match p with
        | PList b =>
            bdd_every (fun pos neg => do ps <- latoms_of ltbl pos; do ns <- latoms_of ltbl neg;
                                      list_formula_is_empty elem_empty ps ns) b [] []
        | PMapping b =>
            dnf_is_empty (fun pos neg => do ps <- xatoms_of pos; do ns <- xatoms_of neg;
                                         x_clause_is_empty elem_empty ps ns) (bdd_to_dnf b)
        | _ => other_empty p
        end
    end.

  Definition sem_is_empty_x (fuel : nat) (t : semtype) : res bool := sem_is_empty (xstruct_is_empty fuel) t.
  Definition sem_is_subtype_x (fuel : nat) (a b : semtype) : res bool := do d <- sem_diff a b; sem_is_empty_x fuel d.
End XEmpty.
