(* Describe.v — describe(): collectDescribeRefs, BaseRefRuntype.describe, describeTypeExpr of every class,
   ParserFromRuntype.describe (codegen-v2.ts:517-611, 2273-2307, 2468-2488 and the per-class methods). *)
From Beff Require Export Model.Report Model.Hash256Enc.

Definition tdesc := (string * option string)%type.      (* typeExpr, docText *)

(* describeChildren() *)
Definition describe_children (r : rt) : list rt :=
  match r with
  | RTuple prefix rest => prefix ++ match rest with Some x => [x] | None => [] end
  | RAllOf rs | RAnyOf rs => rs
  | RDisc ss _ _ _ => ss
  | RArray t | RSet t | ROptional t => [t]
  | RMap k v => [k; v]
  | RObject props indexed => map snd props ++ List.concat (map (fun kv => [fst kv; snd kv]) indexed)
  | _ => []
  end.

Definition nl : string := String (ascii_of_nat 10) "".
(* ctx.refCounts and ctx.definitions are prototype-less tables (Object.create(null)): only own names are found in them *)
Definition count_of (n : string) (counts : list (string * nat)) : nat := match assoc n counts with Some c => c | None => 0 end.

(* a stateful map: left to right, threading the state *)
Definition map_st {A B S} (f : S -> A -> res (B * S)) : list A -> S -> res (list B * S) :=
  fix go (l : list A) (st : S) : res (list B * S) :=
    match l with
    | [] => Ok ([], st)
    | x :: l' => do a <- f st x; do b <- go l' (snd a); Ok (fst a :: fst b, snd b)
    end.

(* describePropertyKey: /^[A-Za-z_$][A-Za-z0-9_$]*$/.test(key) ? key : JSON.stringify(key) *)
Definition ident_start (c : ascii) : bool :=
  let n := nat_of_ascii c in
  (Nat.leb 65 n && Nat.leb n 90) || (Nat.leb 97 n && Nat.leb n 122) || Nat.eqb n 95 || Nat.eqb n 36.
Definition ident_part (c : ascii) : bool := ident_start c || is_digit c.
Fixpoint all_chars (p : ascii -> bool) (s : string) : bool :=
  match s with EmptyString => true | String c s' => p c && all_chars p s' end.
Definition describe_property_key (k : string) : string :=
  match k with
  | String c s' => if ident_start c && all_chars ident_part s' then k else quote k
  | EmptyString => quote k
  end.

Section Describe.
  Variable env : renv.

  (* collectDescribeRefs: reference counts; a named target is entered once *)
  Fixpoint collect (fuel : nat) (st : list (string * nat) * list string) (r : rt) {struct fuel}
    : res (list (string * nat) * list string) :=
    match fuel with
    | O => Throw EOutOfFuel
    | S f =>
      match strip_meta_top r with
      | RRef name =>
          let counts := assoc_set name (S (count_of name (fst st))) (fst st) in
          if mem_str name (snd st) then Ok (counts, snd st)
          else match assoc name env with
               | Some target => collect f (counts, name :: snd st) target
               | None => Throw (EInternal "unknown named type")
               end
      | r' => fold_left (fun acc c => do s <- acc; collect f s c) (describe_children r') (Ok st)
      end
    end.

  (* description.replace(/\*\//g, "* /") *)
  Fixpoint sanitize_doc (s : string) : string :=
    match s with
    | String "*" (String "/" s') => "* /" +++ sanitize_doc s'
    | String c s' => String c (sanitize_doc s')
    | EmptyString => EmptyString
    end.
  Fixpoint split_lines_acc (s : string) (cur : string) : list string :=
    match s with
    | EmptyString => [cur]
    | String c s' => if Nat.eqb (nat_of_ascii c) 10 then cur :: split_lines_acc s' "" else split_lines_acc s' (cur +++ String c "")
    end.
  Definition jsdoc_description (d : string) : string :=
    match split_lines_acc (sanitize_doc d) "" with
    | [l] => "/** " +++ l +++ " */"
    | ls => concat_str nl (["/**"] ++ map (fun l => " * " +++ l) ls ++ [" */"])
    end.

  Definition render_member (m : option string * string) : string :=
    match fst m with
    | None => snd m +++ ";"
    | Some d => jsdoc_description d +++ nl +++ snd m +++ ";"
    end.

  Definition format_expr (kind : string) (fs : list string) : string :=
    match fs with
    | [] => "!no formats"
    | first :: rest =>
        fold_left (fun acc r => kind +++ "FormatExtends<" +++ acc +++ ", " +++ quote r +++ ">") rest
                  (kind +++ "Format<" +++ quote first +++ ">")
    end.

  (* state: definitions (insertion order) and the active set *)
  Definition dst := (list (string * tdesc) * list string)%type.

  Fixpoint describe (fuel : nat) (counts : list (string * nat)) (md : option string) (st : dst) (r : rt) {struct fuel}
    : res (tdesc * dst) :=
    match fuel with
    | O => Throw EOutOfFuel
    | S f =>
      let expr (st : dst) (r' : rt) : res (string * dst) := do p <- describe f counts None st r'; Ok (fst (fst p), snd p) in
      let exprs (st : dst) (l : list rt) : res (list string * dst) := map_st expr l st in
      let base (e : string) (st : dst) : res (tdesc * dst) := Ok ((e, md), st) in
      match r with
      | RMeta d t => describe f counts (Some d) st t
      | RTypeof t => base (tyname_str t) st
      | RAny => base "any" st
      | RNullish d => base d st
      | RNever => base "never" st
      | RConst c => base (cst_json c) st
      | RRegex _ d => base d st
      | RDate => base "Date" st
      | RBigInt => base "bigint" st
      | RTypedArray c => base c st
      | RStringFmt fs => base (format_expr "String" fs) st
      | RNumberFmt fs => base (format_expr "Number" fs) st
      | RAnyOfConsts cs => base ("(" +++ concat_str " | " (map cst_json cs) +++ ")") st
      | RTuple prefix rest =>
          do p <- exprs st prefix;
          do q <- match rest with
                  | Some x => do e <- expr (snd p) x; Ok (Some ("...Array<" +++ fst e +++ ">"), snd e)
                  | None => Ok (None, snd p)
                  end;
          let parts := filter (fun s => negb (String.eqb s "")) ([concat_str ", " (fst p)] ++ match fst q with Some s => [s] | None => [] end) in
          base ("[" +++ concat_str ", " parts +++ "]") (snd q)
      | RAllOf rs => do p <- exprs st rs; base ("(" +++ concat_str " & " (fst p) +++ ")") (snd p)
      | RAnyOf rs => do p <- exprs st rs; base ("(" +++ concat_str " | " (fst p) +++ ")") (snd p)
      | RDisc ss _ _ _ => do p <- exprs st ss; base ("(" +++ concat_str " | " (fst p) +++ ")") (snd p)
      | RArray t => do e <- expr st t; base ("Array<" +++ fst e +++ ">") (snd e)
      | RMap k v => do a <- expr st k; do b <- expr (snd a) v; base ("Map<" +++ fst a +++ ", " +++ fst b +++ ">") (snd b)
      | RSet t => do e <- expr st t; base ("Set<" +++ fst e +++ ">") (snd e)
      | ROptional t => describe f counts None st t          (* OptionalFieldRuntype.describe = this.t.describe(ctx) *)
      | RObject props indexed =>
          let member (st : dst) (key : string) (value : rt) : res ((option string * string) * dst) :=
            do d <- describe f counts None st value;
            Ok ((snd (fst d), key +++ (if is_optional value then "?" else "") +++ ": " +++ fst (fst d)), snd d) in
          do ps <- map_st (fun st k => match assoc k props with
                                       | Some v => member st (describe_property_key k) v
                                       | None => Throw (EInternal "property key")
                                       end) (sort_strings (keys props)) st;
          do is <- map_st (fun st (kv : rt * rt) =>
                             do ke <- expr st (fst kv);
                             member (snd ke) ("[K in " +++ fst ke +++ "]") (snd kv)) indexed (snd ps);
          let members := fst ps ++ fst is in
          if existsb (fun m => match fst m with Some _ => true | None => false end) members then
            match members with
            | [] => base "{}" (snd is)
            | _ => base ("{" +++ nl +++ concat_str nl (map render_member members) +++ nl +++ "}") (snd is)
            end
          else base ("{ " +++ concat_str ", " (map snd members) +++ " }") (snd is)
      | RRef name =>
          match assoc name env with
          | None => Throw (EInternal "unknown named type")
          | Some target =>
              if Nat.ltb 1 (count_of name counts) then
                if mem_str name (snd st) then Ok ((name, md), st)
                else match assoc name (fst st) with
                     | Some _ => Ok ((name, md), st)
                     | None =>
                         do d <- describe f counts None (fst st, name :: snd st) target;
                         let defs := assoc_set name (fst d) (fst (snd d)) in
                         Ok ((name, md), (defs, filter (fun n => negb (String.eqb n name)) (snd (snd d))))
                     end
              else
                do d <- describe f counts None st target;
                match md with
                | None => Ok (fst d, snd d)
                | Some _ => Ok ((fst (fst d), md), snd d)
                end
          end
      end
    end.

  Definition render_type_alias (name : string) (d : tdesc) : string :=
    let decl := "type " +++ name +++ " = " +++ fst d +++ ";" in
    match snd d with None => decl | Some doc => jsdoc_description doc +++ nl +++ decl end.

  (* ParserFromRuntype.describe() *)
  Definition describe_top (fuel : nat) (name : string) (hide : bool) (r : rt) : res string :=
    do c <- collect fuel ([], []) r;
    do d <- describe fuel (fst c) None ([], []) r;
    let defs := fst (snd d) in
    let deps := concat_str (nl +++ nl)
                  (map (fun k => match assoc k defs with Some td => render_type_alias k td | None => "" end)
                       (sort_strings (keys defs))) in
    let out := if hide then match snd (fst d) with None => fst (fst d) | Some doc => jsdoc_description doc +++ nl +++ fst (fst d) end
               else render_type_alias ("Codec" +++ name) (fst d) in
    Ok (concat_str (nl +++ nl) (filter (fun s => negb (String.eqb s "")) [deps; out])).
End Describe.
