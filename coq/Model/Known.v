(* Known.v — executable descriptions of the call sites of the recorded findings (known-findings.jsonl).
   Each predicate describes a *class* (a shape of validator tree / value), never one input. *)
From Beff Require Export Model.Report.

(* generic "some node satisfies p" over validator trees *)
Fixpoint rt_any (p : rt -> bool) (r : rt) : bool :=
  p r ||
  match r with
  | RTuple prefix rest => existsb (rt_any p) prefix || match rest with Some x => rt_any p x | None => false end
  | RAllOf rs | RAnyOf rs => existsb (rt_any p) rs
  | RArray t | RSet t | ROptional t | RMeta _ t => rt_any p t
  | RMap k v => rt_any p k || rt_any p v
  | RDisc ss _ mp smp => existsb (rt_any p) ss || existsb (fun kp => rt_any p (snd kp)) mp
                         || existsb (fun kp => rt_any p (snd kp)) smp
  | RObject props indexed => existsb (fun kp => rt_any p (snd kp)) props
                             || existsb (fun q => rt_any p (fst q) || rt_any p (snd q)) indexed
  | _ => false
  end.
Definition env_any (p : rt -> bool) (env : renv) : bool := existsb (fun kp => rt_any p (snd kp)) env.

Fixpoint val_any (p : val -> bool) (v : val) : bool :=
  p v ||
  match v with
  | VArr xs | VSet xs => existsb (val_any p) xs
  | VObj fs => existsb (fun kv => val_any p (snd kv)) fs
  | VMap kvs => existsb (fun kv => val_any p (fst kv) || val_any p (snd kv)) kvs
  | _ => false
  end.

Definition is_disc (r : rt) : bool := match r with RDisc _ _ _ _ => true | _ => false end.
Definition is_ref (r : rt) : bool := match r with RRef _ => true | _ => false end.

(* every reference is bound *)
Definition refs_closed (env : renv) (r : rt) : bool :=
  negb (rt_any (fun x => match x with RRef n => match assoc n env with Some _ => false | None => true end
                                   | _ => false end) r).
Definition env_closed (env : renv) : bool := forallb (fun kp => refs_closed env (snd kp)) env.

(* C03 (no stray exceptions from validate): the known call site is discriminator dispatch through a plain
   object map; trees without it, with every reference bound, never throw. *)
Fixpoint nodisc_closed (env : renv) (r : rt) : bool :=
  match r with
  | RDisc _ _ _ _ => false
  | RRef n => match assoc n env with Some _ => true | None => false end
  | RTuple prefix rest => forallb (nodisc_closed env) prefix
                          && match rest with Some x => nodisc_closed env x | None => true end
  | RAllOf rs | RAnyOf rs => forallb (nodisc_closed env) rs
  | RArray t | RSet t | ROptional t | RMeta _ t => nodisc_closed env t
  | RMap k v => nodisc_closed env k && nodisc_closed env v
  | RObject props indexed => forallb (fun kp => nodisc_closed env (snd kp)) props
                             && forallb (fun q => nodisc_closed env (fst q) && nodisc_closed env (snd q)) indexed
  | _ => true
  end.
Definition nodisc_closed_env (env : renv) : bool := forallb (fun kp => nodisc_closed env (snd kp)) env.

(* C12 (at least one error): the known call sites are a tuple without rest element given surplus items
   (TupleRuntype.reportDecodeError knows nothing about them) and an intersection with no members. *)
Fixpoint c12_plain (r : rt) : bool :=
  match r with
  | RTuple prefix rest => forallb c12_plain prefix && match rest with Some x => c12_plain x | None => false end
  | RAllOf rs => negb (match rs with [] => true | _ => false end) && forallb c12_plain rs
  | RAnyOf rs => forallb c12_plain rs
  | RArray t | RSet t | ROptional t | RMeta _ t => c12_plain t
  | RMap k v => c12_plain k && c12_plain v
  | RDisc ss _ mp smp => forallb c12_plain ss && forallb (fun kp => c12_plain (snd kp)) mp
  | RObject props indexed => forallb (fun kp => c12_plain (snd kp)) props
                             && forallb (fun q => c12_plain (fst q) && c12_plain (snd q)) indexed
  | _ => true
  end.
Definition c12_plain_env (env : renv) : bool := forallb (fun kp => c12_plain (snd kp)) env.
