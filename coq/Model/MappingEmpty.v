(* MappingEmpty.v — emptiness of one clause of the mapping component of a semantic type (subtyping/mapping.rs:
   intersect_mapping, non_empty_map_literals_intersection, get_value_exact / get_value_open, check_mapping_empty,
   mapping_is_empty_impl; dnf.rs: bdd_to_dnf) for object atoms WITHOUT an index signature and without the memo table
   (i.e. for object types that are not recursive: the memo only cuts cycles).  An atom with an index signature makes the
   model throw: that part of mapping.rs (finite / template key sets, get_effective_index_value with a proper key type,
   the Map variant) is not modelled. *)
From Beff Require Export Model.ListEmpty.

Record matom := mkMatom { ma_fields : list (string * semtype); ma_indexed : bool }.   (* vs in key order (BTreeMap) *)
Definition mtable := list (N * matom).

Fixpoint lookup_matom (i : N) (tbl : mtable) : option matom :=
  match tbl with
  | [] => None
  | (j, a) :: tbl' => if N.eqb i j then Some a else lookup_matom i tbl'
  end.

Definition sem_optional_prop : semtype := mkSem (stag_code TgOptionalProp) [].
Definition sem_string : semtype := mkSem (stag_code TgString) [].

Fixpoint dedupe_keys (l : list string) : list string :=
  match l with
  | [] => []
  | x :: l' => if mem_str x l' then dedupe_keys l' else x :: dedupe_keys l'
  end.
(* the keys of two BTreeMaps in one BTreeSet: sorted, without repetition *)
Definition all_keys (a b : list (string * semtype)) : list string := sort_strings (dedupe_keys (keys a ++ keys b)).

(* BTreeMap::insert: replace in place or insert at the sorted position *)
Fixpoint field_insert (k : string) (v : semtype) (fs : list (string * semtype)) : list (string * semtype) :=
  match fs with
  | [] => [(k, v)]
  | (k', v') :: fs' =>
      if String.eqb k k' then (k, v) :: fs'
      else if str_leb k k' then (k, v) :: fs
      else (k', v') :: field_insert k v fs'
  end.

Definition get_exact (fs : list (string * semtype)) (k : string) : semtype :=
  match assoc k fs with Some v => v | None => sem_optional_prop end.
Definition get_open (fs : list (string * semtype)) (k : string) : semtype :=
  match assoc k fs with Some v => v | None => sem_unknown end.

Definition indexed_unsupported {A} : res A := Throw (EInternal "index signature: outside the modelled part of mapping.rs").

(* get_effective_index_value: the key type minus the declared keys, one difference per key *)
Definition sem_str_const (k : string) : semtype := mkSem 0 [PString true [STpl [TplConst k]]].
Fixpoint minus_keys (t : semtype) (ks : list string) : res semtype :=
  match ks with
  | [] => Ok t
  | k :: ks' => do d <- sem_diff t (sem_str_const k); minus_keys d ks'
  end.

Section MLevel.
  (* emptiness of field types (one level down) *)
  Variable is_empty : semtype -> res bool.

  (* intersect_mapping on index-free atoms: None = some field of the intersection is literally `never` *)
  Definition intersect_fields (m1 m2 : list (string * semtype)) : res (option (list (string * semtype))) :=
    (fix go (ks : list string) (acc : list (string * semtype)) : res (option (list (string * semtype))) :=
       match ks with
       | [] => Ok (Some acc)
       | k :: ks' =>
           do t <- sem_intersect (get_open m1 k) (get_open m2 k);
           if is_never t then Ok None else go ks' (acc ++ [(k, t)])
       end) (all_keys m1 m2) [].

  (* non_empty_map_literals_intersection: fold from the empty atom *)
  Fixpoint meet_fields (acc : list (string * semtype)) (ps : list matom) : res (option (list (string * semtype))) :=
    match ps with
    | [] => Ok (Some acc)
    | a :: ps' =>
        if ma_indexed a then indexed_unsupported else
        do o <- intersect_fields acc (ma_fields a);
        match o with None => Ok None | Some acc' => meet_fields acc' ps' end
    end.

  (* step 5 of check_mapping_empty for an index-free positive against an index-free negative:
     the keys the positive may carry beyond the declared ones are pos_key = never minus the declared keys of both sides;
     neg_key = string: the key types do not overlap, so the negative imposes no constraint (unknown), and the positive's index
     value is optional_prop; the differences and the intersection are computed and tested like the code does *)
  Definition index_dimension_is_covered (declared : list string) : res bool :=
    do free <- minus_keys sem_never declared;
    do s <- sem_intersect free sem_string;
    do disjoint <- is_empty s;
    do vn <- (if negb disjoint then sem_union sem_unknown sem_optional_prop else Ok sem_unknown);
    do d <- sem_diff sem_optional_prop vn;
    is_empty d.

  (* check_mapping_empty: true = pos \ (neg_1 | ... | neg_n) is empty *)
  Fixpoint check_mapping_empty (negs : list (list (string * semtype))) (pos : list (string * semtype)) : res bool :=
    do some_empty <- exists_res (fun kv => is_empty (snd kv)) pos;
    if some_empty then Ok true else
    match negs with
    | [] => Ok false
    | neg :: rest =>
        do covered <- forall_res (fun k =>
                                    do diff <- sem_diff (get_exact pos k) (get_open neg k);
                                    do e <- is_empty diff;
                                    if e then Ok true else check_mapping_empty rest (field_insert k diff pos))
                                 (all_keys pos neg);
        if negb covered then Ok false else
        do idx <- index_dimension_is_covered (keys pos ++ keys neg);
        if idx then Ok true else indexed_unsupported
    end.

  (* one conjunction of the DNF *)
  Definition mapping_clause_is_empty (pos neg : list matom) : res bool :=
    do o <- meet_fields [] pos;
    match o with
    | None => Ok true
    | Some merged =>
        if existsb ma_indexed neg then indexed_unsupported else
        check_mapping_empty (map ma_fields neg) merged
    end.
End MLevel.

Section MappingEmpty.
  Variable ltbl : ltable.
  Variable mtbl : mtable.
  Variable other_empty : proper -> res bool.      (* Map, Set: not modelled here *)

  Definition matoms_of (l : list atom) : res (list matom) :=
    map_res (fun a => match ak a with
                      | AMapping => match lookup_matom (ai a) mtbl with Some ma => Ok ma | None => Throw (EInternal "mapping atom") end
                      | _ => Throw (EInternal "not a mapping atom")
                      end) l.

  (* mapping_is_empty_impl: every conjunction is evaluated, the answer is their conjunction *)
  Definition dnf_is_empty (clause : list atom -> list atom -> res bool) (d : dnf) : res bool :=
    do rs <- map_res (fun c => clause (fst c) (snd c)) d;
    Ok (forallb (fun b => b) rs).

  (* lists and objects, mutually nested; no memo (non-recursive types) *)
  Fixpoint struct_is_empty (fuel : nat) (p : proper) {struct fuel} : res bool :=
    match fuel with
    | O => Throw EOutOfFuel
    | S f =>
        let elem_empty := sem_is_empty (struct_is_empty f) in
        match p with
        | PList b =>
            bdd_every (fun pos neg => do ps <- latoms_of ltbl pos; do ns <- latoms_of ltbl neg;
                                           list_formula_is_empty elem_empty ps ns) b [] []
        | PMapping b =>
            dnf_is_empty (fun pos neg => do ps <- matoms_of pos; do ns <- matoms_of neg;
                                         mapping_clause_is_empty elem_empty ps ns) (bdd_to_dnf b)
        | _ => other_empty p
        end
    end.

  Definition sem_is_empty_s (fuel : nat) (t : semtype) : res bool := sem_is_empty (struct_is_empty fuel) t.
  Definition sem_is_subtype_s (fuel : nat) (a b : semtype) : res bool := do d <- sem_diff a b; sem_is_empty_s fuel d.
End MappingEmpty.
