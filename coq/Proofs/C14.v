(* Proofs/C14.v — a coherent cache makes a rebuild answer what a fresh process answers; update and rebuild keep it coherent. *)
From Beff Require Import Model.Session.

Lemma assoc_set_same {A} k (v : A) l : assoc k (assoc_set k v l) = Some v.
Proof.
  induction l as [|[k' v'] l IH]; cbn; [rewrite String.eqb_refl; reflexivity|].
  destruct (String.eqb k k') eqn:E; cbn; [rewrite String.eqb_refl; reflexivity|rewrite E; exact IH].
Qed.
Lemma assoc_set_other {A} k k2 (v : A) l : k2 <> k -> assoc k2 (assoc_set k v l) = assoc k2 l.
Proof.
  intros Hne. induction l as [|[k' v'] l IH]; cbn.
  - apply String.eqb_neq in Hne. rewrite Hne. reflexivity.
  - destruct (String.eqb k k') eqn:E; cbn.
    + apply String.eqb_eq in E. subst k'. apply String.eqb_neq in Hne. rewrite Hne. reflexivity.
    + destruct (String.eqb k2 k'); [reflexivity|exact IH].
Qed.
Lemma assoc_remove_same {A} k (l : list (string * A)) : assoc k (assoc_remove k l) = None.
Proof.
  induction l as [|[k' v'] l IH]; cbn; [reflexivity|].
  destruct (String.eqb k k') eqn:E; cbn; [exact IH|rewrite E; exact IH].
Qed.
Lemma assoc_remove_other {A} k k2 (l : list (string * A)) : k2 <> k -> assoc k2 (assoc_remove k l) = assoc k2 l.
Proof.
  intros Hne. induction l as [|[k' v'] l IH]; cbn; [reflexivity|].
  destruct (String.eqb k k') eqn:E; cbn.
  - apply String.eqb_eq in E. subst k'. apply String.eqb_neq in Hne. rewrite Hne. exact IH.
  - destruct (String.eqb k2 k'); [reflexivity|exact IH].
Qed.

Lemma keys_assoc_set_existing {A} k (v : A) l : In k (keys l) -> keys (assoc_set k v l) = keys l.
Proof.
  unfold keys. induction l as [|[k' v'] l IH]; cbn; [tauto|].
  destruct (String.eqb k k') eqn:E; cbn.
  - apply String.eqb_eq in E. subst. reflexivity.
  - intros [H|H]; [apply String.eqb_neq in E; congruence|]. rewrite IH; auto.
Qed.

Section Proofs.
  Variables M Out : Type.
  Variable parse : list string -> string -> string -> option M.
  Variable extract : (string -> option M) -> Out * list string.
  (* the extraction sees the file manager only through the answers it gets *)
  Hypothesis extract_ext : forall g h, (forall f, g f = h f) -> fst (extract g) = fst (extract h).

  Notation coherent := (Model.Session.coherent).

  Lemma fetch_coherent st : coherent st -> forall f, fetch M parse st f = read M parse (disk st) f.
  Proof.
    intros Hc f. unfold fetch, read.
    destruct (assoc f (cache st)) as [[c ns]|] eqn:E; [|reflexivity].
    destruct (Hc f c ns E) as [Hd ->]. rewrite Hd. reflexivity.
  Qed.

  Lemma rebuild_is_fresh st : coherent st -> fst (rebuild M Out parse extract st) = fresh_build M Out parse extract (disk st).
  Proof. intros Hc. unfold rebuild, fresh_build. cbn. apply extract_ext. apply fetch_coherent. exact Hc. Qed.

  (* updating a file that exists keeps the set of names, hence every other cached resolution *)
  Lemma update_coherent f c st : In f (names (disk st)) -> coherent st -> coherent (update M parse f c st).
  Proof.
    intros Hin Hc g d ns. unfold update; cbn [disk cache].
    assert (Hn : names (assoc_set f c (disk st)) = names (disk st)) by (apply keys_assoc_set_existing; exact Hin).
    rewrite Hn.
    destruct (string_dec g f) as [->|Hne].
    - rewrite assoc_set_same. destruct (parse (names (disk st)) f c).
      + rewrite assoc_set_same. intros H; inversion H; subst. auto.
      + rewrite assoc_remove_same. discriminate.
    - rewrite (assoc_set_other f g c (disk st) Hne). destruct (parse (names (disk st)) f c).
      + rewrite (assoc_set_other f g _ (cache st) Hne). apply Hc.
      + rewrite (assoc_remove_other f g (cache st) Hne). apply Hc.
  Qed.
  Lemma update_names f c st : In f (names (disk st)) -> names (disk (update M parse f c st)) = names (disk st).
  Proof. intros Hin. unfold update; cbn [disk]. apply keys_assoc_set_existing. exact Hin. Qed.

  Lemma cache_after_fetch_coherent dk ca f :
    (forall g d ns, assoc g ca = Some (d, ns) -> assoc g dk = Some d /\ ns = names dk) ->
    forall g d ns, assoc g (cache_after_fetch M parse dk ca f) = Some (d, ns) -> assoc g dk = Some d /\ ns = names dk.
  Proof.
    intros Hc g d ns. unfold cache_after_fetch.
    destruct (assoc f ca); [apply Hc|].
    destruct (assoc f dk) as [c|] eqn:Ed; [|apply Hc].
    destruct (parse (names dk) f c); [|apply Hc].
    destruct (string_dec g f) as [->|Hne].
    - rewrite assoc_set_same. intros H; inversion H; subst. auto.
    - rewrite (assoc_set_other f g _ ca Hne). apply Hc.
  Qed.

  Lemma rebuild_coherent st : coherent st -> coherent (snd (rebuild M Out parse extract st)).
  Proof.
    intros Hc. unfold rebuild; cbn. unfold Model.Session.coherent; cbn.
    generalize (snd (extract (fetch M parse st))). intros fs.
    assert (G : forall ca, (forall g d ns, assoc g ca = Some (d, ns) -> assoc g (disk st) = Some d /\ ns = names (disk st)) ->
                           forall g d ns, assoc g (fold_left (cache_after_fetch M parse (disk st)) fs ca) = Some (d, ns) ->
                                          assoc g (disk st) = Some d /\ ns = names (disk st)).
    { induction fs as [|f fs IH]; cbn; intros ca Hca; [exact Hca|].
      apply IH. apply cache_after_fetch_coherent. exact Hca. }
    apply G. exact Hc.
  Qed.
  Lemma rebuild_disk st : disk (snd (rebuild M Out parse extract st)) = disk st.
  Proof. reflexivity. Qed.

  Theorem run_is_fresh ops : forall st, coherent st -> updates_existing ops (names (disk st)) ->
    Forall (fun od => fst od = fresh_build M Out parse extract (snd od)) (run M Out parse extract (update M parse) ops st).
  Proof.
    induction ops as [|[f c|] ops IH]; intros st Hc Hu; cbn.
    - constructor.
    - destruct Hu as [Hin Hu]. apply IH; [apply update_coherent; assumption|]. rewrite update_names; assumption.
    - constructor; [cbn; apply rebuild_is_fresh; exact Hc|]. apply IH; [apply rebuild_coherent; exact Hc|]. exact Hu.
  Qed.
End Proofs.
