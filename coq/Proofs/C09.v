(* Proofs/C09.v — same-named types of different files: when are their identifiers distinct? *)
From Beff Require Import Model.Names.

Lemma length_append a b : String.length (a +++ b) = String.length a + String.length b.
Proof. induction a as [|x a IH]; cbn; [reflexivity|]. rewrite IH. reflexivity. Qed.

Lemma append_inj_r a b c : a +++ b = a +++ c -> b = c.
Proof. induction a as [|x a IH]; cbn; [auto|]. intros [= H]. auto. Qed.

Lemma append_inj_l_same_len a a' b : String.length a = String.length a' -> a +++ b = a' +++ b -> a = a'.
Proof.
  revert a'. induction a as [|x a IH]; intros [|y a']; cbn; try discriminate; [reflexivity|].
  intros [= Hl] [= -> H]. f_equal. apply IH; assumption.
Qed.

(* two different addresses with the same name, both in conflict, get different identifiers as soon as the sanitised
   distinguishing path suffixes differ *)
Theorem ts_identifier_distinct a b all :
  In a all -> In b all -> aname a = aname b -> afile a <> afile b ->
  let sa := to_valid_ts_identifier (min_file_path_that_differs (afile a)
                (map afile (filter (fun x => negb (address_eqb x a) && String.eqb (aname x) (aname a)) all))) in
  let sb := to_valid_ts_identifier (min_file_path_that_differs (afile b)
                (map afile (filter (fun x => negb (address_eqb x b) && String.eqb (aname x) (aname b)) all))) in
  sa <> sb -> ts_identifier a all <> ts_identifier b all.
Proof.
  intros Ha Hb Hn Hf sa sb Hs. unfold ts_identifier.
  assert (Fa : exists x l, filter (fun x => negb (address_eqb x a) && String.eqb (aname x) (aname a)) all = x :: l).
  { assert (In b (filter (fun x => negb (address_eqb x a) && String.eqb (aname x) (aname a)) all)).
    { apply filter_In. split; [exact Hb|]. unfold address_eqb. rewrite <- Hn, String.eqb_refl, andb_true_r.
      destruct (String.eqb (afile b) (afile a)) eqn:E; [apply String.eqb_eq in E; congruence|reflexivity]. }
    match goal with H : In _ ?l |- _ => destruct l; [destruct H|eauto] end. }
  assert (Fb : exists x l, filter (fun x => negb (address_eqb x b) && String.eqb (aname x) (aname b)) all = x :: l).
  { assert (In a (filter (fun x => negb (address_eqb x b) && String.eqb (aname x) (aname b)) all)).
    { apply filter_In. split; [exact Ha|]. unfold address_eqb. rewrite Hn, String.eqb_refl, andb_true_r.
      destruct (String.eqb (afile a) (afile b)) eqn:E; [apply String.eqb_eq in E; congruence|reflexivity]. }
    match goal with H : In _ ?l |- _ => destruct l; [destruct H|eauto] end. }
  destruct Fa as [xa [la Ea]], Fb as [xb [lb Eb]].
  fold sa sb. unfold sa, sb in *. rewrite Ea, Eb in *. rewrite Hn.
  intros H. apply Hs.
  (* both identifiers end in "__" ++ name: the prefixes are equal *)
  set (pa := to_valid_ts_identifier (min_file_path_that_differs (afile a) (map afile (xa :: la)))) in *.
  set (pb := to_valid_ts_identifier (min_file_path_that_differs (afile b) (map afile (xb :: lb)))) in *.
  assert (G : forall p q s, p +++ s = q +++ s -> p = q).
  { clear. intros p q s. revert q. induction p as [|x p IH]; intros q Hq.
    - destruct q as [|y q]; [reflexivity|]. exfalso.
      assert (String.length s = String.length (String y q +++ s)) by (rewrite <- Hq; reflexivity).
      cbn in H. rewrite length_append in H. lia.
    - destruct q as [|y q].
      + exfalso. assert (String.length (String x p +++ s) = String.length s) by (rewrite Hq; reflexivity).
        cbn in H. rewrite length_append in H. lia.
      + cbn in Hq. injection Hq as -> Hq. f_equal. apply IH; exact Hq. }
  apply (G pa pb ("__" +++ aname b)). exact H.
Qed.
