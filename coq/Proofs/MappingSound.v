(* MappingSound.v — soundness and completeness of check_mapping_empty / mapping_clause_is_empty (Model/MappingEmpty.v) for
   object atoms without index signature.  A record value is a total function from keys to element values; a key the record
   does not have is mapped to a value of the `optional_prop` type.  A field list is read in two ways, as the code does:
     exact fs r : every key has a value of its declared type, an undeclared key is absent         (positive side)
     open  fs r : every declared key has a value of its declared type                              (negative side)
   The element level (membership of element values, operations on element types, emptiness of element types) is abstract
   here and instantiated for the basic types at the end. *)
From Beff Require Import Model.MappingEmpty Proofs.ResLemmas Proofs.SortLemmas.
Require Import Sorting.Sorted Permutation.

(* ================================================================ field lists *)
Definition sle (a b : string) : Prop := str_leb a b = true.
Definition wf_keys (ks : list string) : Prop := StronglySorted sle ks /\ NoDup ks.
Definition wf_fields (fs : list (string * semtype)) : Prop := wf_keys (keys fs).

Lemma assoc_field_insert k v fs k0 :
  assoc k0 (field_insert k v fs) = if String.eqb k0 k then Some v else assoc k0 fs.
Proof.
  induction fs as [|[k' v'] fs IH]; cbn [field_insert assoc].
  - destruct (String.eqb k0 k); reflexivity.
  - destruct (String.eqb k k') eqn:E.
    + apply String.eqb_eq in E. subst k'. cbn [assoc]. destruct (String.eqb k0 k); reflexivity.
    + destruct (str_leb k k'); cbn [assoc].
      * destruct (String.eqb k0 k); reflexivity.
      * destruct (String.eqb k0 k') eqn:E0.
        -- apply String.eqb_eq in E0. subst k0. rewrite String.eqb_sym, E. reflexivity.
        -- exact IH.
Qed.

Lemma keys_field_insert k v fs x : In x (keys (field_insert k v fs)) -> x = k \/ In x (keys fs).
Proof.
  induction fs as [|[k' v'] fs IH]; cbn [field_insert keys map fst In].
  - intros [<-|[]]; auto.
  - destruct (String.eqb k k') eqn:E.
    + apply String.eqb_eq in E. subst k'. cbn. intros [<-|H]; auto.
    + destruct (str_leb k k'); cbn.
      * intros [<-|[<-|H]]; auto.
      * intros [<-|H]; auto. destruct (IH H); auto.
Qed.

Lemma field_insert_wf k v fs : wf_fields fs -> wf_fields (field_insert k v fs).
Proof.
  unfold wf_fields, wf_keys. induction fs as [|[k' v'] fs IH]; cbn [field_insert keys map fst].
  - intros _. split; [repeat constructor|repeat constructor; intros []].
  - intros [Hs Hn]. inversion Hs as [|? ? Hs' Hall]; subst. inversion Hn as [|? ? Hnotin Hn']; subst.
    rewrite Forall_forall in Hall.
    destruct (String.eqb k k') eqn:E.
    + apply String.eqb_eq in E. subst k'. cbn. split; [constructor; [exact Hs'|rewrite Forall_forall; exact Hall]|constructor; assumption].
    + destruct (str_leb k k') eqn:L; cbn.
      * split.
        -- constructor; [constructor; [exact Hs'|rewrite Forall_forall; exact Hall]|].
           constructor; [exact L|]. rewrite Forall_forall. intros x Hx. eapply str_leb_trans; [exact L|apply Hall; exact Hx].
        -- constructor; [|constructor; assumption].
           intros [->|Hx]; [rewrite String.eqb_refl in E; discriminate|].
           assert (k' = k) by (apply str_leb_antisym; [apply Hall; exact Hx|exact L]). subst k'.
           rewrite String.eqb_refl in E; discriminate.
      * destruct (IH (Logic.conj Hs' Hn')) as [Hs2 Hn2]. apply str_leb_total in L.
        split.
        -- constructor; [exact Hs2|]. rewrite Forall_forall. intros x Hx. apply keys_field_insert in Hx.
           destruct Hx as [->|Hx]; [exact L|apply Hall; exact Hx].
        -- constructor; [|exact Hn2]. intros Hx. apply keys_field_insert in Hx.
           destruct Hx as [->|Hx]; [rewrite String.eqb_refl in E; discriminate|contradiction].
Qed.

Lemma in_assoc_nodup {A} k (t : A) fs : NoDup (keys fs) -> In (k, t) fs -> assoc k fs = Some t.
Proof.
  induction fs as [|[k' v'] fs IH]; cbn [keys map fst assoc]; intros Hn; [intros []|].
  inversion Hn as [|? ? Hnotin Hn']; subst. intros [E|Hin].
  - injection E as -> ->. rewrite String.eqb_refl. reflexivity.
  - destruct (String.eqb k k') eqn:E; [|apply IH; assumption].
    apply String.eqb_eq in E. subst k'. exfalso. apply Hnotin. apply in_map_iff. exists (k, t). auto.
Qed.

Lemma assoc_in_keys {A} k (fs : list (string * A)) t : assoc k fs = Some t -> In k (keys fs).
Proof. intros H. apply assoc_In in H. apply in_map_iff. exists (k, t). auto. Qed.

Lemma in_dedupe_keys x l : In x (dedupe_keys l) <-> In x l.
Proof.
  induction l as [|y l IH]; cbn [dedupe_keys]; [tauto|].
  destruct (mem_str y l) eqn:E.
  - rewrite IH. cbn [In]. split; [auto|]. intros [<-|H]; [|exact H].
    clear IH. induction l as [|z l IHl]; cbn in E; [discriminate|].
    destruct (String.eqb y z) eqn:Ez; [apply String.eqb_eq in Ez; left; auto|right; auto].
  - cbn. rewrite IH. tauto.
Qed.
Lemma nodup_dedupe_keys l : NoDup (dedupe_keys l).
Proof.
  induction l as [|y l IH]; cbn [dedupe_keys]; [constructor|].
  destruct (mem_str y l) eqn:E; [exact IH|]. constructor; [|exact IH].
  rewrite in_dedupe_keys. intros Hin. clear IH. induction l as [|z l IHl]; [destruct Hin|].
  cbn in E. destruct (String.eqb y z) eqn:Ez; [discriminate|]. destruct Hin as [->|Hin]; [rewrite String.eqb_refl in Ez; discriminate|auto].
Qed.

Lemma in_all_keys a b k : In k (all_keys a b) <-> In k (keys a) \/ In k (keys b).
Proof.
  unfold all_keys. split.
  - intros H. apply (Permutation_in k (Permutation_sym (sort_perm str_leb _))) in H.
    apply (proj1 (in_dedupe_keys _ _)) in H. apply in_app_or in H. exact H.
  - intros H. apply (Permutation_in k (sort_perm str_leb _)). apply (proj2 (in_dedupe_keys _ _)). apply in_or_app. exact H.
Qed.
Lemma all_keys_wf a b : wf_keys (all_keys a b).
Proof.
  unfold all_keys, wf_keys. split.
  - apply (sort_sorted str_leb); [exact str_leb_total|exact str_leb_trans].
  - eapply Permutation_NoDup; [apply sort_perm|apply nodup_dedupe_keys].
Qed.

(* ================================================================ the loops *)
Lemma exists_res_true_inv {A} (p : A -> res bool) xs :
  exists_res p xs = Ok true -> exists x, In x xs /\ p x = Ok true.
Proof.
  induction xs as [|y ys IH]; cbn; [discriminate|].
  destruct (p y) as [[|]|e] eqn:E; try discriminate.
  - intros _. exists y. auto.
  - intros H. destruct (IH H) as [x [Hx Hp]]. exists x. auto.
Qed.
Lemma exists_res_false_inv {A} (p : A -> res bool) xs :
  exists_res p xs = Ok false -> forall x, In x xs -> p x = Ok false.
Proof.
  induction xs as [|y ys IH]; cbn; intros H x Hin; [contradiction|].
  destruct (p y) as [[|]|e] eqn:E; try discriminate. destruct Hin as [->|Hin]; auto.
Qed.
Lemma forall_res_false_inv {A} (p : A -> res bool) xs :
  forall_res p xs = Ok false -> exists x, In x xs /\ p x = Ok false.
Proof.
  induction xs as [|y ys IH]; cbn; [discriminate|].
  destruct (p y) as [[|]|e] eqn:E; try discriminate.
  - intros H. destruct (IH H) as [x [Hx Hp]]. exists x. auto.
  - intros _. exists y. auto.
Qed.

Section MapLevel.
  Variable V : Type.
  Variable vm : V -> semtype -> bool.
  Variable good : semtype -> Prop.
  Variable is_empty : semtype -> res bool.
  Hypothesis good_never : good sem_never.
  Hypothesis good_unknown : good sem_unknown.
  Hypothesis good_optional : good sem_optional_prop.
  Hypothesis vm_never : forall v, vm v sem_never = false.
  Hypothesis vm_unknown : forall v, vm v sem_unknown = true.
  Hypothesis diff_ok : forall a b d, good a -> good b -> sem_diff a b = Ok d -> good d /\ forall v, vm v d = vm v a && negb (vm v b).
  Hypothesis inter_ok : forall a b d, good a -> good b -> sem_intersect a b = Ok d -> good d /\ forall v, vm v d = vm v a && vm v b.
  Hypothesis empty_sound : forall t, good t -> is_empty t = Ok true -> forall v, vm v t = false.
  Hypothesis empty_complete : forall t, good t -> is_empty t = Ok false -> exists v, vm v t = true.
  (* a record may lack a key *)
  Variable vabs : V.
  Hypothesis vabs_absent : vm vabs sem_optional_prop = true.

  Definition record := string -> V.
  Definition exact (fs : list (string * semtype)) (r : record) : Prop := forall k, vm (r k) (get_exact fs k) = true.
  Definition open (fs : list (string * semtype)) (r : record) : Prop := forall k t, assoc k fs = Some t -> vm (r k) t = true.
  Definition good_fields (fs : list (string * semtype)) : Prop := forall k t, In (k, t) fs -> good t.

  Lemma good_get_exact fs k : good_fields fs -> good (get_exact fs k).
  Proof. intros H. unfold get_exact. destruct (assoc k fs) eqn:E; [eapply H; apply assoc_In; exact E|exact good_optional]. Qed.
  Lemma good_get_open fs k : good_fields fs -> good (get_open fs k).
  Proof. intros H. unfold get_open. destruct (assoc k fs) eqn:E; [eapply H; apply assoc_In; exact E|exact good_unknown]. Qed.

  Lemma good_field_insert k v fs : good v -> good_fields fs -> good_fields (field_insert k v fs).
  Proof.
    intros Hv Hfs k0 t Hin. induction fs as [|[k' v'] fs IH]; cbn [field_insert] in Hin.
    - destruct Hin as [E|[]]. injection E as _ <-. exact Hv.
    - assert (Hfs' : good_fields fs) by (intros a b Hab; eapply Hfs; right; exact Hab).
      destruct (String.eqb k k').
      + destruct Hin as [E|Hin]; [injection E as _ <-; exact Hv|eapply Hfs; right; exact Hin].
      + destruct (str_leb k k').
        * destruct Hin as [E|Hin]; [injection E as _ <-; exact Hv|eapply Hfs; exact Hin].
        * destruct Hin as [E|Hin]; [eapply Hfs; left; exact E|apply IH; assumption].
  Qed.

  Lemma get_exact_insert k v fs k0 :
    get_exact (field_insert k v fs) k0 = if String.eqb k0 k then v else get_exact fs k0.
  Proof. unfold get_exact. rewrite assoc_field_insert. destruct (String.eqb k0 k); reflexivity. Qed.

  (* whether a record is an open member is decidable *)
  Definition openb (fs : list (string * semtype)) (r : record) : bool := forallb (fun kt => vm (r (fst kt)) (snd kt)) fs.
  Lemma openb_true fs r : openb fs r = true -> open fs r.
  Proof.
    unfold openb. rewrite forallb_forall. intros H k t Hk. apply assoc_In in Hk. apply (H (k, t) Hk).
  Qed.
  Lemma openb_false fs r : NoDup (keys fs) -> openb fs r = false -> exists k t, assoc k fs = Some t /\ vm (r k) t = false.
  Proof.
    intros Hn H. unfold openb in H.
    assert (Hex : existsb (fun kt => negb (vm (r (fst kt)) (snd kt))) fs = true).
    { clear Hn. induction fs as [|x fs IH]; cbn in *; [discriminate|].
      destruct (vm (r (fst x)) (snd x)); cbn in *; [apply IH; exact H|reflexivity]. }
    apply existsb_exists in Hex. destruct Hex as [[k t] [Hin Hv]]. cbn in Hv.
    exists k, t. split; [apply in_assoc_nodup; assumption|]. destruct (vm (r k) t); [discriminate|reflexivity].
  Qed.

  (* ---------- soundness: "empty" means every exact record of pos is an open record of some negative ---------- *)
  Lemma some_field_empty_no_record pos r :
    NoDup (keys pos) -> good_fields pos ->
    exists_res (fun kv => is_empty (snd kv)) pos = Ok true -> exact pos r -> False.
  Proof.
    intros Hn Hg H Hr. apply exists_res_true_inv in H. destruct H as [[k t] [Hin He]]. cbn in He.
    specialize (Hr k). unfold get_exact in Hr. rewrite (in_assoc_nodup k t pos Hn Hin) in Hr.
    rewrite (empty_sound t (Hg k t Hin) He (r k)) in Hr. discriminate.
  Qed.

  Theorem check_sound : forall negs pos,
    wf_fields pos -> good_fields pos -> Forall (fun n => NoDup (keys n) /\ good_fields n) negs ->
    check_mapping_empty is_empty negs pos = Ok true ->
    forall r, exact pos r -> exists n, In n negs /\ open n r.
  Proof.
    induction negs as [|neg rest IH]; intros pos Hwf Hg Hnegs H r Hr; cbn [check_mapping_empty] in H.
    - destruct (exists_res _ pos) as [[|]|e] eqn:Es; cbn [bind] in H; try discriminate.
      exfalso. eapply some_field_empty_no_record; eauto. apply Hwf.
    - destruct (exists_res _ pos) as [[|]|e] eqn:Es; cbn [bind] in H; try discriminate.
      { exfalso. eapply some_field_empty_no_record; eauto. apply Hwf. }
      inversion Hnegs as [|? ? [Hnn Hgn] Hrest]; subst.
      destruct (openb neg r) eqn:Eo.
      { exists neg. split; [left; reflexivity|apply openb_true; exact Eo]. }
      destruct (openb_false neg r Hnn Eo) as [k [t [Hk Hv]]].
      destruct (forall_res _ (all_keys pos neg)) as [[|]|e] eqn:Ef; cbn [bind negb] in H; try discriminate.
      assert (Hin : In k (all_keys pos neg)) by (apply in_all_keys; right; eapply assoc_in_keys; exact Hk).
      pose proof (forall_res_true_inv _ _ Ef k Hin) as Hb. cbn beta in Hb.
      destruct (sem_diff (get_exact pos k) (get_open neg k)) as [diff|e] eqn:Ed; cbn [bind] in Hb; [|discriminate].
      assert (Hgo : good (get_open neg k)) by (apply good_get_open; exact Hgn).
      destruct (diff_ok _ _ _ (good_get_exact pos k Hg) Hgo Ed) as [Hgd Hvd].
      assert (Hrk : vm (r k) diff = true).
      { rewrite Hvd, (Hr k). unfold get_open. rewrite Hk, Hv. reflexivity. }
      destruct (is_empty diff) as [[|]|e] eqn:Ee; cbn [bind] in Hb; try discriminate.
      { rewrite (empty_sound diff Hgd Ee (r k)) in Hrk. discriminate. }
      destruct (IH (field_insert k diff pos) (field_insert_wf _ _ _ Hwf) (good_field_insert _ _ _ Hgd Hg) Hrest Hb r) as [n [Hn Ho]].
      { intros k0. rewrite get_exact_insert. destruct (String.eqb k0 k) eqn:E0; [apply String.eqb_eq in E0; subst k0; exact Hrk|apply Hr]. }
      exists n. split; [right; exact Hn|exact Ho].
  Qed.

  (* ---------- completeness: "not empty" comes with a record ---------- *)
  Lemma fields_inhabited pos :
    (forall k t, In (k, t) pos -> exists v, vm v t = true) -> exists r, exact pos r.
  Proof.
    induction pos as [|[k t] pos IH]; intros H.
    - exists (fun _ => vabs). intros k. exact vabs_absent.
    - destruct (IH (fun k0 t0 Hin => H k0 t0 (or_intror Hin))) as [r Hr].
      destruct (H k t (or_introl eq_refl)) as [v Hv].
      exists (fun k0 => if String.eqb k0 k then v else r k0). intros k0. unfold get_exact. cbn [assoc].
      destruct (String.eqb k0 k) eqn:E; [exact Hv|apply Hr].
  Qed.

  Definition not_open (fs : list (string * semtype)) (r : record) : Prop :=
    exists k t, assoc k fs = Some t /\ vm (r k) t = false.

  Theorem check_complete : forall negs pos,
    good_fields pos -> Forall good_fields negs ->
    check_mapping_empty is_empty negs pos = Ok false ->
    exists r, exact pos r /\ forall n, In n negs -> not_open n r.
  Proof.
    induction negs as [|neg rest IH]; intros pos Hg Hnegs H; cbn [check_mapping_empty] in H.
    - destruct (exists_res _ pos) as [[|]|e] eqn:Es; cbn [bind] in H; try discriminate.
      destruct (fields_inhabited pos) as [r Hr].
      { intros k t Hin. pose proof (exists_res_false_inv _ _ Es (k, t) Hin) as He. cbn in He.
        apply (empty_complete t (Hg k t Hin) He). }
      exists r. split; [exact Hr|intros n []].
    - destruct (exists_res _ pos) as [[|]|e] eqn:Es; cbn [bind] in H; try discriminate.
      inversion Hnegs as [|? ? Hgn Hrest]; subst.
      destruct (forall_res _ (all_keys pos neg)) as [[|]|e] eqn:Ef; cbn [bind negb] in H; try discriminate.
      { (* every key dimension is covered: the answer is never "not empty" *)
        destruct (index_dimension_is_covered is_empty _) as [[|]|e]; cbn [bind] in H; discriminate. }
      apply forall_res_false_inv in Ef. destruct Ef as [k [Hin Hb]]. cbn beta in Hb.
      destruct (sem_diff (get_exact pos k) (get_open neg k)) as [diff|e] eqn:Ed; cbn [bind] in Hb; [|discriminate].
      assert (Hgo : good (get_open neg k)) by (apply good_get_open; exact Hgn).
      destruct (diff_ok _ _ _ (good_get_exact pos k Hg) Hgo Ed) as [Hgd Hvd].
      destruct (is_empty diff) as [[|]|e] eqn:Ee; cbn [bind] in Hb; try discriminate.
      destruct (IH (field_insert k diff pos) (good_field_insert _ _ _ Hgd Hg) Hrest Hb) as [r [Hr Hn]].
      pose proof (Hr k) as Hrk. rewrite get_exact_insert, String.eqb_refl, Hvd in Hrk. apply andb_prop in Hrk as [Hk1 Hk2].
      exists r. split.
      + intros k0. pose proof (Hr k0) as H0. rewrite get_exact_insert in H0.
        destruct (String.eqb k0 k) eqn:E0; [apply String.eqb_eq in E0; subst k0; exact Hk1|exact H0].
      + intros n [E|Hin']; [subst n|apply Hn; exact Hin'].
        unfold get_open in Hk2. destruct (assoc k neg) as [t|] eqn:Ek.
        * exists k, t. split; [exact Ek|]. destruct (vm (r k) t); [discriminate|reflexivity].
        * rewrite vm_unknown in Hk2. discriminate.
  Qed.

  (* ---------- several positive atoms: intersect_mapping reads every atom openly and closes the result ---------- *)
  Definition declared (k : string) (ps : list (list (string * semtype))) : bool := existsb (fun p => mem_str k (keys p)) ps.
  (* the reading of a conjunction of positive field lists: an open member of each, and no key that none of them declares *)
  Definition pos_reading (ps : list (list (string * semtype))) (r : record) : Prop :=
    (forall p, In p ps -> open p r) /\ (forall k, declared k ps = false -> vm (r k) sem_optional_prop = true).
  (* acc stands for the atoms ps: pointwise, key by key *)
  Definition stands_for (acc : list (string * semtype)) (ps : list (list (string * semtype))) : Prop :=
    forall k v, vm v (get_exact acc k) = true <->
                (if declared k ps then forall p t, In p ps -> assoc k p = Some t -> vm v t = true else vm v sem_optional_prop = true).

  Lemma mem_keys_iff {A} k (l : list (string * A)) : mem_str k (keys l) = true <-> exists t, assoc k l = Some t.
  Proof.
    induction l as [|[k' v'] l IH]; cbn; [split; [discriminate|intros [t H]; discriminate]|].
    destruct (String.eqb k k'); [split; eauto|exact IH].
  Qed.
  Lemma mem_keys_none {A} k (l : list (string * A)) : mem_str k (keys l) = false <-> assoc k l = None.
  Proof.
    induction l as [|[k' v'] l IH]; cbn; [tauto|].
    destruct (String.eqb k k'); [split; discriminate|exact IH].
  Qed.

  Lemma stands_for_reading acc ps r : stands_for acc ps -> (exact acc r <-> pos_reading ps r).
  Proof.
    intros H. split.
    - intros He. split.
      + intros p Hp k t Hk. pose proof (proj1 (H k (r k)) (He k)) as Hd.
        assert (D : declared k ps = true).
        { unfold declared. apply existsb_exists. exists p. split; [exact Hp|]. apply mem_keys_iff. eauto. }
        rewrite D in Hd. eapply Hd; eauto.
      + intros k D. pose proof (proj1 (H k (r k)) (He k)) as Hd. rewrite D in Hd. exact Hd.
    - intros [Ho Ha] k. apply (H k (r k)). destruct (declared k ps) eqn:D.
      + intros p t Hp Hk. eapply Ho; eauto.
      + apply Ha. exact D.
  Qed.

  Lemma stands_for_nil : stands_for [] [].
  Proof. intros k v. cbn. tauto. Qed.

  (* the inner loop of intersect_fields *)
  Lemma is_never_eq' t : is_never t = true -> t = sem_never.
  Proof.
    destruct t as [a d]. unfold is_never. cbn. intros H. apply andb_prop in H as [Ha Hd]. apply N.eqb_eq in Ha. subst a.
    destruct d; [reflexivity|discriminate].
  Qed.

  Lemma intersect_go m1 m2 : good_fields m1 -> good_fields m2 -> forall ks acc o,
    (fix go (ks : list string) (acc : list (string * semtype)) : res (option (list (string * semtype))) :=
       match ks with
       | [] => Ok (Some acc)
       | k :: ks' =>
           do t <- sem_intersect (get_open m1 k) (get_open m2 k);
           if is_never t then Ok None else go ks' (acc ++ [(k, t)])
       end) ks acc = Ok o ->
    match o with
    | Some out => exists added, out = acc ++ added /\ keys added = ks /\
                                good_fields added /\
                                forall k t, In (k, t) added -> forall v, vm v t = vm v (get_open m1 k) && vm v (get_open m2 k)
    | None => exists k, In k ks /\ forall v, vm v (get_open m1 k) && vm v (get_open m2 k) = false
    end.
  Proof.
    intros G1 G2. induction ks as [|k ks IH]; intros acc o.
    - intros [= <-]. exists []. rewrite app_nil_r. repeat split; auto; intros ? ? [].
    - destruct (sem_intersect (get_open m1 k) (get_open m2 k)) as [t|e] eqn:Ei; cbn [bind]; [|discriminate].
      destruct (inter_ok _ _ _ (good_get_open m1 k G1) (good_get_open m2 k G2) Ei) as [Gt Hvt].
      destruct (is_never t) eqn:En.
      + intros [= <-]. exists k. split; [left; reflexivity|]. intros v. rewrite <- Hvt.
        apply is_never_eq' in En. subst t. apply vm_never.
      + intros H. specialize (IH _ _ H). destruct o as [out|].
        * destruct IH as [added [-> [Hk [Hg Hv]]]]. exists ((k, t) :: added). rewrite <- app_assoc. cbn [app].
          split; [reflexivity|split; [cbn; f_equal; exact Hk|split]].
          -- intros k0 t0 [E|Hin]; [injection E as _ <-; exact Gt|eapply Hg; exact Hin].
          -- intros k0 t0 [E|Hin]; [injection E as <- <-; exact Hvt|eapply Hv; exact Hin].
        * destruct IH as [k0 [Hin Hv]]. exists k0. split; [right; exact Hin|exact Hv].
  Qed.

  Definition keys_agree (acc : list (string * semtype)) (ps : list (list (string * semtype))) : Prop :=
    forall k, mem_str k (keys acc) = declared k ps.

  Lemma declared_app k ps a : declared k (ps ++ [a]) = declared k ps || mem_str k (keys a).
  Proof. unfold declared. rewrite existsb_app. cbn. rewrite orb_false_r. reflexivity. Qed.

  Lemma mem_str_In k l : mem_str k l = true <-> In k l.
  Proof.
    induction l as [|x l IH]; cbn; [split; [discriminate|intros []]|].
    destruct (String.eqb k x) eqn:E.
    - apply String.eqb_eq in E. subst. split; auto.
    - rewrite IH. split; [auto|]. intros [->|H]; [rewrite String.eqb_refl in E; discriminate|exact H].
  Qed.

  Lemma intersect_step acc a ps :
    stands_for acc ps -> keys_agree acc ps -> good_fields acc -> good_fields a ->
    forall o, intersect_fields acc a = Ok o ->
    match o with
    | Some m => stands_for m (ps ++ [a]) /\ keys_agree m (ps ++ [a]) /\ good_fields m /\ wf_fields m
    | None => forall r, (forall p, In p (ps ++ [a]) -> open p r) -> False
    end.
  Proof.
    intros Hs Hk Ga Gb o H. unfold intersect_fields in H.
    pose proof (intersect_go acc a Ga Gb _ _ _ H) as Hgo. destruct o as [m|].
    - destruct Hgo as [added [-> [Hkeys [Hg Hv]]]]. cbn [app].
      assert (Hwf : wf_fields added) by (unfold wf_fields; rewrite Hkeys; apply all_keys_wf).
      assert (Hassoc : forall k, In k (all_keys acc a) -> exists t, assoc k added = Some t /\
                                   forall v, vm v t = vm v (get_open acc k) && vm v (get_open a k)).
      { intros k Hin. rewrite <- Hkeys in Hin. apply in_map_iff in Hin. destruct Hin as [[k0 t] [E Hin]]. cbn in E. subst k0.
        exists t. split; [apply in_assoc_nodup; [apply Hwf|exact Hin]|eapply Hv; exact Hin]. }
      assert (Hnone : forall k, ~ In k (all_keys acc a) -> assoc k added = None).
      { intros k Hn. apply mem_keys_none. destruct (mem_str k (keys added)) eqn:E; [|reflexivity].
        apply mem_str_In in E. rewrite Hkeys in E. contradiction. }
      assert (Hka : keys_agree added (ps ++ [a])).
      { intros k. rewrite declared_app, <- Hk.
        destruct (mem_str k (keys added)) eqn:E.
        - apply mem_str_In in E. rewrite Hkeys in E. apply in_all_keys in E.
          destruct E as [E|E]; apply mem_str_In in E; rewrite E; [reflexivity|symmetry; apply orb_true_r].
        - destruct (mem_str k (keys acc)) eqn:E1; [|destruct (mem_str k (keys a)) eqn:E2; [|reflexivity]].
          + apply mem_str_In in E1. assert (In k (keys added)) by (rewrite Hkeys; apply in_all_keys; left; exact E1).
            apply mem_str_In in H0. congruence.
          + apply mem_str_In in E2. assert (In k (keys added)) by (rewrite Hkeys; apply in_all_keys; right; exact E2).
            apply mem_str_In in H0. congruence. }
      split; [|split; [exact Hka|split; [exact Hg|exact Hwf]]].
      intros k v. rewrite declared_app.
      destruct (mem_str k (keys acc)) eqn:Eacc; destruct (mem_str k (keys a)) eqn:Ea.
      + (* declared on both sides *)
        assert (Hin : In k (all_keys acc a)) by (apply in_all_keys; left; apply mem_str_In; exact Eacc).
        destruct (Hassoc k Hin) as [t [Ht Hvt]]. unfold get_exact at 1. rewrite Ht, Hvt.
        apply mem_keys_iff in Eacc as [ta Hta]. apply mem_keys_iff in Ea as [tb Htb].
        pose proof (Hs k v) as Hsk. rewrite <- Hk in Hsk. rewrite (proj2 (mem_keys_iff k acc) (ex_intro _ ta Hta)) in Hsk.
        rewrite <- Hk, (proj2 (mem_keys_iff k acc) (ex_intro _ ta Hta)). cbn [orb].
        unfold get_open. rewrite Hta, Htb. unfold get_exact in Hsk. rewrite Hta in Hsk.
        rewrite andb_true_iff, Hsk. split.
        * intros [H1 H2] p t0 Hp Hp0. apply in_app_or in Hp. destruct Hp as [Hp|[<-|[]]]; [eapply H1; eauto|congruence].
        * intros H0. split; [intros p t0 Hp Hp0; eapply H0; [apply in_or_app; left; exact Hp|exact Hp0]|].
          eapply H0; [apply in_or_app; right; left; reflexivity|exact Htb].
      + (* declared before, not by a *)
        assert (Hin : In k (all_keys acc a)) by (apply in_all_keys; left; apply mem_str_In; exact Eacc).
        destruct (Hassoc k Hin) as [t [Ht Hvt]]. unfold get_exact at 1. rewrite Ht, Hvt.
        apply mem_keys_iff in Eacc as [ta Hta]. apply mem_keys_none in Ea.
        pose proof (Hs k v) as Hsk. rewrite <- Hk in Hsk. rewrite (proj2 (mem_keys_iff k acc) (ex_intro _ ta Hta)) in Hsk.
        rewrite <- Hk, (proj2 (mem_keys_iff k acc) (ex_intro _ ta Hta)). cbn [orb].
        unfold get_open. rewrite Hta, Ea, vm_unknown, andb_true_r. unfold get_exact in Hsk. rewrite Hta in Hsk. rewrite Hsk. split.
        * intros H1 p t0 Hp Hp0. apply in_app_or in Hp. destruct Hp as [Hp|[<-|[]]]; [eapply H1; eauto|congruence].
        * intros H0 p t0 Hp Hp0. eapply H0; [apply in_or_app; left; exact Hp|exact Hp0].
      + (* declared by a only *)
        assert (Hin : In k (all_keys acc a)) by (apply in_all_keys; right; apply mem_str_In; exact Ea).
        destruct (Hassoc k Hin) as [t [Ht Hvt]]. unfold get_exact at 1. rewrite Ht, Hvt.
        apply mem_keys_none in Eacc. apply mem_keys_iff in Ea as [tb Htb].
        assert (Hd : declared k ps = false) by (rewrite <- Hk; apply mem_keys_none; exact Eacc).
        rewrite Hd. cbn [orb].
        unfold get_open. rewrite Eacc, Htb, vm_unknown. cbn [andb]. split.
        * intros H1 p t0 Hp Hp0. apply in_app_or in Hp. destruct Hp as [Hp|[<-|[]]]; [|congruence].
          exfalso. assert (declared k ps = true); [|congruence].
          unfold declared. apply existsb_exists. exists p. split; [exact Hp|]. apply mem_keys_iff. eauto.
        * intros H0. eapply H0; [apply in_or_app; right; left; reflexivity|exact Htb].
      + (* declared by nobody *)
        assert (Hn : ~ In k (all_keys acc a)).
        { intros Hin. apply in_all_keys in Hin. destruct Hin as [Hin|Hin]; apply mem_str_In in Hin; congruence. }
        unfold get_exact at 1. rewrite (Hnone k Hn).
        assert (Hd : declared k ps = false) by (rewrite <- Hk; exact Eacc). rewrite Hd. cbn [orb]. tauto.
    - destruct Hgo as [k [Hin Hv]]. intros r Ho.
      specialize (Hv (r k)). apply andb_false_iff in Hv. apply in_all_keys in Hin.
      assert (H1 : vm (r k) (get_open acc k) = true).
      { unfold get_open. destruct (assoc k acc) as [ta|] eqn:Hta; [|apply vm_unknown].
        pose proof (Hs k (r k)) as Hsk. unfold get_exact in Hsk. rewrite Hta in Hsk.
        rewrite <- Hk, (proj2 (mem_keys_iff k acc) (ex_intro _ ta Hta)) in Hsk. apply Hsk.
        intros p t0 Hp Hp0. eapply (Ho p); [apply in_or_app; left; exact Hp|exact Hp0]. }
      assert (H2 : vm (r k) (get_open a k) = true).
      { unfold get_open. destruct (assoc k a) as [tb|] eqn:Htb; [|apply vm_unknown].
        eapply (Ho a); [apply in_or_app; right; left; reflexivity|exact Htb]. }
      destruct Hv; congruence.
  Qed.

  Definition good_atom (a : matom) : Prop := good_fields (ma_fields a).

  Lemma meet_fields_spec : forall ps acc qs o,
    stands_for acc qs -> keys_agree acc qs -> good_fields acc -> Forall good_atom ps ->
    meet_fields acc ps = Ok o ->
    match o with
    | Some m => stands_for m (qs ++ map ma_fields ps) /\ good_fields m /\ (ps <> [] -> wf_fields m)
    | None => forall r, ~ pos_reading (qs ++ map ma_fields ps) r
    end.
  Proof.
    induction ps as [|a ps IH]; intros acc qs o Hs Hk Ga Gps; cbn [meet_fields map].
    - intros [= <-]. rewrite app_nil_r. split; [exact Hs|split; [exact Ga|intros H; contradiction]].
    - inversion Gps as [|? ? Gat Gps']; subst.
      destruct (ma_indexed a); [discriminate|].
      destruct (intersect_fields acc (ma_fields a)) as [o1|e] eqn:Ei; cbn [bind]; [|discriminate].
      pose proof (intersect_step acc (ma_fields a) qs Hs Hk Ga Gat o1 Ei) as Hstep.
      destruct o1 as [m1|].
      + destruct Hstep as [Hs1 [Hk1 [Gm1 Wm1]]]. intros H. specialize (IH m1 (qs ++ [ma_fields a]) o Hs1 Hk1 Gm1 Gps' H).
        replace (qs ++ ma_fields a :: map ma_fields ps) with ((qs ++ [ma_fields a]) ++ map ma_fields ps) by (rewrite <- app_assoc; reflexivity).
        destruct o as [m|]; [|exact IH]. destruct IH as [A [B C]]. split; [exact A|split; [exact B|]].
        intros _. destruct ps as [|b ps']; [|apply C; discriminate].
        cbn [meet_fields] in H. injection H as <-. exact Wm1.
      + intros [= <-]. intros r [Ho Habs].
        apply (Hstep r). intros p Hp. apply Ho. apply in_app_or in Hp. apply in_or_app.
        destruct Hp as [Hp|[<-|[]]]; [left; exact Hp|right; left; reflexivity].
  Qed.


  (* ---------- one conjunction of the DNF ---------- *)
  Lemma stands_keys_nil : keys_agree [] [].
  Proof. intros k. reflexivity. Qed.
  Lemma wf_fields_nil : wf_fields [].
  Proof. split; constructor. Qed.

  Lemma clause_merged pos o :
    Forall good_atom pos -> meet_fields [] pos = Ok o ->
    match o with
    | Some m => good_fields m /\ wf_fields m /\ forall r, exact m r <-> pos_reading (map ma_fields pos) r
    | None => forall r, ~ pos_reading (map ma_fields pos) r
    end.
  Proof.
    intros Gp H.
    pose proof (meet_fields_spec pos [] [] o stands_for_nil stands_keys_nil (fun k t (Hin : In (k, t) []) => match Hin with end) Gp H) as Hspec.
    cbn [app] in Hspec. destruct o as [m|]; [|exact Hspec].
    destruct Hspec as [A [B C]]. split; [exact B|split].
    - destruct pos as [|a pos']; [cbn in H; injection H as <-; exact wf_fields_nil|apply C; discriminate].
    - intros r. apply stands_for_reading. exact A.
  Qed.

  Theorem clause_sound pos neg :
    Forall good_atom pos -> Forall (fun n => NoDup (keys (ma_fields n)) /\ good_atom n) neg ->
    mapping_clause_is_empty is_empty pos neg = Ok true ->
    forall r, pos_reading (map ma_fields pos) r -> exists n, In n neg /\ open (ma_fields n) r.
  Proof.
    intros Gp Gn H r Hr. unfold mapping_clause_is_empty in H.
    destruct (meet_fields [] pos) as [o|e] eqn:Em; cbn [bind] in H; [|discriminate].
    pose proof (clause_merged pos o Gp Em) as Hm. destruct o as [m|]; [|exfalso; eapply Hm; exact Hr].
    destruct Hm as [Gm [Wm Hiff]].
    destruct (existsb ma_indexed neg); [discriminate|].
    destruct (check_sound (map ma_fields neg) m Wm Gm) with (r := r) as [n [Hn Ho]]; [|exact H|apply Hiff; exact Hr|].
    - rewrite Forall_map. exact Gn.
    - apply in_map_iff in Hn. destruct Hn as [a [<- Ha]]. exists a. auto.
  Qed.

  Theorem clause_complete pos neg :
    Forall good_atom pos -> Forall good_atom neg ->
    mapping_clause_is_empty is_empty pos neg = Ok false ->
    exists r, pos_reading (map ma_fields pos) r /\ forall n, In n neg -> not_open (ma_fields n) r.
  Proof.
    intros Gp Gn H. unfold mapping_clause_is_empty in H.
    destruct (meet_fields [] pos) as [o|e] eqn:Em; cbn [bind] in H; [|discriminate].
    pose proof (clause_merged pos o Gp Em) as Hm. destruct o as [m|]; [|discriminate].
    destruct Hm as [Gm [Wm Hiff]].
    destruct (existsb ma_indexed neg); [discriminate|].
    destruct (check_complete (map ma_fields neg) m Gm) as [r [Hr Hn]]; [rewrite Forall_map; exact Gn|exact H|].
    exists r. split; [apply Hiff; exact Hr|]. intros n Hin. apply Hn. apply in_map. exact Hin.
  Qed.
End MapLevel.

(* ================================================================ the element level instantiated with the basic types *)
From Beff Require Import Proofs.SemOps Proofs.SemWf.

Section Basic.
  (* field types: well-formed, no structural component (null, booleans, numbers, strings, their literals, unions, differences,
     the absent-property marker) *)
  Definition bgood (t : semtype) : Prop :=
    wf2 t = true /\ (forall q, In q (st_data t) -> basic_proper q = true) /\ N.land (st_all t) VAL = st_all t.
  Definition BV := { pt : point | valid_point pt = true }.
  Definition bvm (v : BV) (t : semtype) : bool := mem t (proj1_sig v).
  Definition bempty : semtype -> res bool := sem_is_empty no_struct.

  Lemma bgood_const a : N.land a VAL = a -> bgood (mkSem a []).
  Proof. intros H. split; [reflexivity|split; [intros q []|exact H]]. Qed.

  Lemma b_diff_ok a b d : bgood a -> bgood b -> sem_diff a b = Ok d -> bgood d /\ forall v, bvm v d = bvm v a && negb (bvm v b).
  Proof.
    intros [Wa [Ba Va]] [Wb [Bb Vb]] Hd. split.
    - split; [exact (wf2_diff a b d Wa Wb Hd)|split].
      + intros q Hq. destruct (sem_diff_data a b d Wa Wb Hd q Hq) as [_ H]. apply H; assumption.
      + eapply sem_diff_all_in_val; eauto.
    - intros [pt Hv]. unfold bvm. cbn [proj1_sig]. apply sem_diff_mem; auto.
  Qed.

  Lemma b_empty_sound t : bgood t -> bempty t = Ok true -> forall v, bvm v t = false.
  Proof.
    intros _ He [pt Hv]. unfold bvm. cbn [proj1_sig].
    apply (empty_no_member no_struct (fun _ => True)) with (t := t); [|exact He|].
    - intros p u rho H. destruct p; discriminate H.
    - split; [exact Hv|]. destruct pt; exact I.
  Qed.

  Lemma b_empty_complete t : bgood t -> bempty t = Ok false -> exists v, bvm v t = true.
  Proof.
    intros [W [B Hval]] Hs. unfold bempty, sem_is_empty in Hs.
    assert (Hpt : exists pt, valid_point pt = true /\ mem t pt = true).
    { destruct (N.eqb (st_all t) 0) eqn:Ea; cbn [negb] in Hs.
      - destruct (st_data t) as [|p ps] eqn:Edata; [cbn in Hs; discriminate Hs|].
        destruct (wf2_parts t W) as [_ F].
        assert (Hin : In p (st_data t)) by (rewrite Edata; left; reflexivity).
        destruct (basic_inhabited p (F p Hin) (B p (or_introl eq_refl))) as (pt & Hv & Hm).
        exists pt. split; [exact Hv|]. unfold mem. rewrite Edata. cbn [existsb]. rewrite Hm. rewrite orb_true_r. reflexivity.
      - apply N.eqb_neq in Ea. destruct (nonzero_in_val_has_tag _ Ea Hval) as [g Hg].
        destruct (tag_point_ok g) as [Hv Ht]. exists (tag_point g). split; [exact Hv|]. unfold mem. rewrite Ht, Hg. reflexivity. }
    destruct Hpt as (pt & Hv & Hm). exists (exist _ pt Hv). exact Hm.
  Qed.

  Definition babs : BV := exist _ (PtUnit TgOptionalProp) eq_refl.

  Definition brecord := string -> BV.
  Definition bexact := exact BV bvm.
  Definition bopen := open BV bvm.
  Definition bgood_fields := good_fields bgood.

  Lemma b_vm_unknown v : bvm v sem_unknown = true.
  Proof. destruct v as [pt Hv]. unfold bvm, mem, sem_unknown. cbn [proj1_sig st_all st_data existsb]. rewrite val_has_every_tag. reflexivity. Qed.

  Theorem flat_object_check_sound negs pos :
    wf_fields pos -> bgood_fields pos -> Forall (fun n => NoDup (keys n) /\ bgood_fields n) negs ->
    check_mapping_empty bempty negs pos = Ok true ->
    forall r : brecord, bexact pos r -> exists n, In n negs /\ bopen n r.
  Proof.
    apply (check_sound BV bvm bgood bempty).
    - apply bgood_const. reflexivity.
    - apply bgood_const. reflexivity.
    - exact b_diff_ok.
    - exact b_empty_sound.
  Qed.

  Theorem flat_object_check_complete negs pos :
    bgood_fields pos -> Forall bgood_fields negs ->
    check_mapping_empty bempty negs pos = Ok false ->
    exists r : brecord, bexact pos r /\ forall n, In n negs -> not_open BV bvm n r.
  Proof.
    apply (check_complete BV bvm bgood bempty) with (vabs := babs).
    - apply bgood_const. reflexivity.
    - apply bgood_const. reflexivity.
    - exact b_vm_unknown.
    - exact b_diff_ok.
    - exact b_empty_complete.
    - reflexivity.
  Qed.

  (* intersection keeps the basic fragment *)
  Lemma sem_intersect_data t1 t2 t :
    wf2 t1 = true -> wf2 t2 = true -> sem_intersect t1 t2 = Ok t ->
    (forall q, In q (st_data t1) -> basic_proper q = true) -> (forall q, In q (st_data t2) -> basic_proper q = true) ->
    forall p, In p (st_data t) -> basic_proper p = true.
  Proof.
    intros W1 W2 Hd B1 B2 p Hp.
    destruct (wf2_parts t1 W1) as [I1 F1]. destruct (wf2_parts t2 W2) as [I2 F2].
    destruct (sem_intersect_is_collect t1 t2 t Hd) as [[_ ->]|[_ Hc]]; [contradiction|].
    unfold sem_collect in Hc.
    match type of Hc with (do r <- fold_left _ ?ps (Ok (?a0, [])); _) = _ =>
      change (fold_left _ ps (Ok (a0, []))) with (fold_left (collect_step f_inter false) ps (Ok (a0, []))) in Hc;
      destruct (fold_left (collect_step f_inter false) ps (Ok (a0, []))) as [[a d]|e] eqn:E; cbn [bind] in Hc; [|discriminate Hc]
    end.
    inversion Hc; subst t. cbn [st_data snd] in Hp.
    destruct (collect_data_origin _ _ _ _ _ _ _ E p Hp) as [[]|([o1 o2] & Hin & Hf)].
    destruct (pair_iter_in _ _ _ _ _ Hin) as (A & B & C).
    destruct o1 as [d1|], o2 as [d2|]; cbn [f_inter] in Hf.
    - destruct (proper_intersect d1 d2) as [s|e] eqn:Es; cbn [bind] in Hf; [|discriminate Hf]. inversion Hf; subst s.
      pose proof (code_eq_tag _ _ (C d1 d2 eq_refl eq_refl)) as Ht.
      destruct (proper_intersect_spec d1 d2 _ (F1 d1 (A d1 eq_refl)) (F2 d2 (B d2 eq_refl)) Ht Es) as [[Tp Fp] _].
      rewrite (basic_tag_inv p d1 Tp). apply B1. apply A. reflexivity.
    - inversion Hf; subst p. apply B1. apply A. reflexivity.
    - inversion Hf; subst p. apply B2. apply B. reflexivity.
    - discriminate Hf.
  Qed.
  Lemma sem_intersect_all_in_val t1 t2 t :
    sem_intersect t1 t2 = Ok t -> N.land (st_all t1) VAL = st_all t1 -> N.land (st_all t) VAL = st_all t.
  Proof.
    intros Hd Hv. destruct (sem_intersect_is_collect t1 t2 t Hd) as [[_ ->]|[_ Hc]]; cbn [st_all]; [apply land_sub_val; exact Hv|].
    unfold sem_collect in Hc.
    match type of Hc with (do r <- fold_left _ ?ps (Ok (?a0, [])); _) = _ =>
      change (fold_left _ ps (Ok (a0, []))) with (fold_left (collect_step f_inter false) ps (Ok (a0, []))) in Hc;
      destruct (fold_left (collect_step f_inter false) ps (Ok (a0, []))) as [[a d]|e] eqn:E; cbn [bind] in Hc; [|discriminate Hc]
    end.
    inversion Hc; subst t. cbn [st_all fst]. eapply collect_all_in_val; [exact E|]. apply land_sub_val. exact Hv.
  Qed.

  Lemma b_inter_ok a b d : bgood a -> bgood b -> sem_intersect a b = Ok d -> bgood d /\ forall v, bvm v d = bvm v a && bvm v b.
  Proof.
    intros [Wa [Ba Va]] [Wb [Bb Vb]] Hd. split.
    - split; [exact (wf2_intersect a b d Wa Wb Hd)|split].
      + intros q Hq. exact (sem_intersect_data a b d Wa Wb Hd Ba Bb q Hq).
      + exact (sem_intersect_all_in_val a b d Hd Va).
    - intros [pt Hv]. unfold bvm. cbn [proj1_sig]. apply sem_intersect_mem; auto.
  Qed.

  Lemma b_vm_never v : bvm v sem_never = false.
  Proof. destruct v as [pt Hv]. unfold bvm, mem, sem_never. cbn [proj1_sig st_all st_data existsb]. rewrite has_bit_0. reflexivity. Qed.

  Definition bgood_atom := good_atom bgood.
  Definition bpos_reading := pos_reading BV bvm.

  Theorem flat_object_clause_sound pos neg :
    Forall bgood_atom pos -> Forall (fun n => NoDup (keys (ma_fields n)) /\ bgood_atom n) neg ->
    mapping_clause_is_empty bempty pos neg = Ok true ->
    forall r : brecord, bpos_reading (map ma_fields pos) r -> exists n, In n neg /\ bopen (ma_fields n) r.
  Proof.
    apply (clause_sound BV bvm bgood bempty) with (vabs := babs);
      first [ apply bgood_const; reflexivity | exact b_vm_never | exact b_vm_unknown | exact b_diff_ok | exact b_inter_ok
            | exact b_empty_sound | exact b_empty_complete | reflexivity ].
  Qed.

  Theorem flat_object_clause_complete pos neg :
    Forall bgood_atom pos -> Forall bgood_atom neg ->
    mapping_clause_is_empty bempty pos neg = Ok false ->
    exists r : brecord, bpos_reading (map ma_fields pos) r /\ forall n, In n neg -> not_open BV bvm (ma_fields n) r.
  Proof.
    apply (clause_complete BV bvm bgood bempty) with (vabs := babs);
      first [ apply bgood_const; reflexivity | exact b_vm_never | exact b_vm_unknown | exact b_diff_ok | exact b_inter_ok
            | exact b_empty_sound | exact b_empty_complete | reflexivity ].
  Qed.
End Basic.
