(* C02Sound.v — soundness of the flat schema on a fragment: a document valid against schema() is accepted by validate(),
   also in strict mode (so it carries no undeclared key). *)
From Beff Require Import Model.JsonSchema Proofs.ResLemmas.

(* ---------- the fragment ---------- *)
Definition safe_key (k : string) : bool := negb (mem_str k object_proto_functions) && negb (String.eqb k proto_key).
Fixpoint nodup_str (l : list string) : bool :=
  match l with [] => true | x :: l' => negb (mem_str x l') && nodup_str l' end.

Section Frag.
  Variable env : renv.
  Fixpoint sfrag (fuel : nat) (seen : list string) (r : rt) {struct fuel} : bool :=
    match fuel with
    | O => false
    | S f =>
        match r with
        | RMeta _ t => sfrag f seen t
        | RTypeof _ | RAny | RNullish _ | RConst _ | RAnyOfConsts _ => true
        | RAnyOf rs => forallb (sfrag f seen) rs
        | RArray t => sfrag f seen t
        | ROptional t => sfrag f seen t
        | RObject props indexed =>
            match indexed with
            | [] => nodup_str (keys props) && forallb safe_key (keys props) && forallb (fun kp => sfrag f seen (snd kp)) props
            | [(kr, vr)] => match props with [] => sfrag f seen kr && sfrag f seen vr | _ => false end    (* Record<K, V> *)
            | _ => false
            end
        | RRef name =>
            negb (mem_str name seen) && match assoc name env with Some t => sfrag f (name :: seen) t | None => false end
        | _ => false
        end
    end.
End Frag.

(* ---------- small facts ---------- *)
Lemma assoc_set_other {A} k k' (v : A) l : String.eqb k k' = false -> assoc k (assoc_set k' v l) = assoc k l.
Proof.
  intros Hk. induction l as [|[k0 v0] l IH]; cbn [assoc_set assoc].
  - rewrite Hk. reflexivity.
  - destruct (String.eqb k' k0) eqn:E; cbn [assoc].
    + apply String.eqb_eq in E. subst k0. rewrite Hk. reflexivity.
    + rewrite IH. reflexivity.
Qed.

Lemma exists_res_false_inv {A} (p : A -> res bool) l : exists_res p l = Ok false -> forall x, In x l -> p x = Ok false.
Proof.
  induction l as [|y l IH]; cbn [exists_res]; intros H x Hx; [contradiction|].
  destruct (p y) as [[|]|e] eqn:E; try discriminate.
  destruct Hx as [<-|Hx]; [exact E|apply IH; assumption].
Qed.

Lemma exists_res_accepts {A} (p : A -> res bool) l x b :
  In x l -> (forall b', p x = Ok b' -> b' = true) -> exists_res p l = Ok b -> b = true.
Proof.
  intros Hx Hp H. destruct b; [reflexivity|]. pose proof (exists_res_false_inv p l H x Hx) as E. apply Hp in E. discriminate.
Qed.

Lemma forall_res_all {A} (p : A -> res bool) l b :
  (forall x, In x l -> forall b', p x = Ok b' -> b' = true) -> forall_res p l = Ok b -> b = true.
Proof.
  induction l as [|y l IH]; cbn [forall_res]; intros Hp H; [inversion H; reflexivity|].
  destruct (p y) as [[|]|e] eqn:E; try discriminate.
  - apply IH; [intros x Hx; apply Hp; right; exact Hx|exact H].
  - apply (Hp y (or_introl eq_refl)) in E. discriminate.
Qed.

(* ---------- val_to_json ---------- *)
Definition fields_rel (fz : nat) (fs : list (string * val)) (fields : list (string * json)) : Prop :=
  Forall2 (fun kx kd => fst kx = fst kd /\ val_to_json fz (snd kx) = Some (snd kd)) fs fields.

Lemma val_to_json_inv fz v d : val_to_json fz v = Some d ->
  match d with
  | JNull => v = VNull
  | JBool b => v = VBool b
  | JNum n => v = VNum n /\ (exists z, n = NInt z) \/ v = VNum n /\ (exists s, n = NDec s)
  | JStr s => v = VStr s
  | JArr ds => exists xs, v = VArr xs /\ Forall2 (fun x d' => val_to_json (pred fz) x = Some d') xs ds
  | JObj fields => exists fs, v = VObj fs /\ fields_rel (pred fz) fs fields
  end.
Proof.
  destruct fz as [|f]; [discriminate|]. cbn [val_to_json pred].
  destruct v as [| |b|n|s|z| | |ms| |xs|fs|kvs|xs|k xs]; try discriminate.
  - intros H; inversion H; reflexivity.
  - intros H; inversion H; reflexivity.
  - destruct n; try discriminate; intros H; inversion H; [left|right]; split; eauto.
  - intros H; inversion H; reflexivity.
  - match goal with |- option_map JArr ?G = _ -> _ => set (go := G) end.
    assert (Hgo : forall l ds, (fix go (l : list val) : option (list json) :=
             match l with
             | [] => Some []
             | x :: l' => match val_to_json f x, go l' with Some a, Some b => Some (a :: b) | _, _ => None end
             end) l = Some ds -> Forall2 (fun x d' => val_to_json f x = Some d') l ds).
    { induction l as [|x l IH]; intros ds H; [inversion H; constructor|].
      destruct (val_to_json f x) eqn:Ex; [|discriminate].
      match type of H with match ?G with _ => _ end = _ => destruct G eqn:El; [|discriminate] end.
      inversion H; subst. constructor; [exact Ex|apply IH; reflexivity]. }
    subst go. match goal with |- option_map JArr ?G = _ -> _ => destruct G as [ds'|] eqn:E end; cbn [option_map]; [|discriminate].
    intros H; inversion H; subst. exists xs. split; [reflexivity|apply Hgo; exact E].
  - assert (Hgo : forall l fields, (fix go (l : list (string * val)) : option (list (string * json)) :=
             match l with
             | [] => Some []
             | (k, x) :: l' => match val_to_json f x, go l' with Some a, Some b => Some ((k, a) :: b) | _, _ => None end
             end) l = Some fields -> fields_rel f l fields).
    { induction l as [|[k x] l IH]; intros fields H; [inversion H; constructor|].
      destruct (val_to_json f x) eqn:Ex; [|discriminate].
      match type of H with match ?G with _ => _ end = _ => destruct G eqn:El; [|discriminate] end.
      inversion H; subst. constructor; [split; [reflexivity|exact Ex]|apply IH; reflexivity]. }
    match goal with |- option_map JObj ?G = _ -> _ => destruct G as [fields'|] eqn:E end; cbn [option_map]; [|discriminate].
    intros H; inversion H; subst. exists fs. split; [reflexivity|apply Hgo; exact E].
Qed.

(* ---------- annotations do not matter ---------- *)
Definition R0 : string -> option json := fun _ => None.

Lemma jget_annotate desc j k : String.eqb k "description" = false -> jget (annotate desc j) k = jget j k.
Proof.
  intros Hk. destruct desc as [s|]; [|reflexivity]. destruct j; try reflexivity.
  cbn [annotate jget]. unfold jobj_set. apply assoc_set_other. exact Hk.
Qed.

Lemma js_valid_annotate fj desc j d : js_valid R0 fj (annotate desc j) d = js_valid R0 fj j d.
Proof.
  destruct desc as [s|]; [|reflexivity]. destruct j; try reflexivity.
  destruct fj as [|f]; [reflexivity|]. cbn [annotate]. unfold jobj_set. cbn [js_valid].
  rewrite !assoc_set_other by reflexivity. reflexivity.
Qed.

Lemma is_null_definition_annotate desc j : is_null_definition (annotate desc j) = is_null_definition j.
Proof. unfold is_null_definition. rewrite jget_annotate by reflexivity. reflexivity. Qed.

(* ---------- "nice": a schema whose anyOf nodes carry nothing else (so that dropping null branches is sound) ---------- *)
Definition anyof_key (k : string) : bool := String.eqb k "anyOf" || String.eqb k "description".
Fixpoint nice (fuel : nat) (j : json) : bool :=
  match fuel with
  | O => true
  | S f =>
      match j with
      | JObj fs =>
          match assoc "oneOf" fs with
          | Some _ => false
          | None =>
              match assoc "anyOf" fs with
              | Some (JArr vs) => forallb anyof_key (keys fs) && forallb (nice f) vs
              | _ => true
              end
          end
      | _ => true
      end
  end.

Lemma keys_assoc_set_forallb {A} (p : string -> bool) k (v : A) l :
  p k = true -> forallb p (keys l) = true -> forallb p (keys (assoc_set k v l)) = true.
Proof.
  intros Hk. induction l as [|[k0 v0] l IH]; cbn [assoc_set keys map forallb fst]; intros H.
  - rewrite Hk. reflexivity.
  - apply andb_prop in H as [H0 H1]. destruct (String.eqb k k0); cbn [keys map forallb fst].
    + rewrite Hk. exact H1.
    + rewrite H0. apply IH. exact H1.
Qed.

Lemma nice_annotate n desc j : nice n j = true -> nice n (annotate desc j) = true.
Proof.
  destruct desc as [s|]; [|auto]. destruct j; auto. destruct n as [|n]; [auto|].
  cbn [annotate nice]. unfold jobj_set. rewrite !assoc_set_other by reflexivity.
  destruct (assoc "oneOf" fs); [auto|]. destruct (assoc "anyOf" fs) as [[| | | |vs|]|]; auto.
  intros H. apply andb_prop in H as [H0 H1]. rewrite H1, andb_true_r. apply keys_assoc_set_forallb; [reflexivity|exact H0].
Qed.

(* what js_valid looks at in a nice anyOf node *)
Lemma js_valid_anyof_node f fs vs d :
  assoc "anyOf" fs = Some (JArr vs) -> forallb anyof_key (keys fs) = true ->
  js_valid R0 (S f) (JObj fs) d = existsb (fun s' => js_valid R0 f s' d) vs.
Proof.
  intros Ha Hk.
  assert (Hno : forall k, anyof_key k = false -> assoc k fs = None).
  { intros k Hf. clear Ha. induction fs as [|[k0 v0] fs IH]; [reflexivity|]. cbn [keys map forallb fst] in Hk.
    apply andb_prop in Hk as [H0 H1]. cbn [assoc]. destruct (String.eqb k k0) eqn:E; [|apply IH; exact H1].
    apply String.eqb_eq in E. subst k0. congruence. }
  cbn [js_valid]. rewrite Ha.
  rewrite (Hno "$ref"), (Hno "type"), (Hno "const"), (Hno "enum"), (Hno "oneOf"), (Hno "allOf"),
          (Hno "properties"), (Hno "required"), (Hno "additionalProperties"), (Hno "propertyNames"),
          (Hno "prefixItems"), (Hno "items") by reflexivity.
  cbn [andb]. rewrite !andb_true_r.
  destruct d; cbn [forallb combine skipn List.length andb assoc]; rewrite ?andb_true_r; try reflexivity.
  assert (Ht : forallb (fun _ : string * json => true) fs0 = true) by (clear; induction fs0; cbn; auto).
  rewrite Ht, ?andb_true_r. reflexivity.
Qed.

Lemma assoc_set_same {A} k (v : A) l : assoc k (assoc_set k v l) = Some v.
Proof.
  induction l as [|[k0 v0] l IH]; cbn [assoc_set assoc]; [rewrite String.eqb_refl; reflexivity|].
  destruct (String.eqb k k0) eqn:E; cbn [assoc]; [rewrite String.eqb_refl; reflexivity|rewrite E; exact IH].
Qed.

Lemma filter_shorter {A} (p : A -> bool) l :
  Nat.eqb (List.length (filter p l)) (List.length l) = false -> existsb (fun x => negb (p x)) l = true.
Proof.
  induction l as [|x l IH]; cbn [filter List.length existsb]; [discriminate|].
  destruct (p x) eqn:E; cbn [negb orb List.length]; [exact IH|reflexivity].
Qed.

(* shape of a node the rewriting applies to *)
Lemma rnub_shape n raw rw : remove_null_union_branch n raw = Some rw -> nice n raw = true ->
  exists m fs vs, n = S m /\ raw = JObj fs /\ assoc "anyOf" fs = Some (JArr vs) /\ forallb anyof_key (keys fs) = true /\
                  forallb (nice m) vs = true /\ existsb is_null_definition vs = true /\
                  let non_null := filter (fun v => negb (is_null_definition v)) vs in
                  let normalized := map (fun v => match remove_null_union_branch m v with Some v' => v' | None => v end) non_null in
                  rw = match normalized with [one] => one | _ => JObj (jobj_set "anyOf" (JArr normalized) fs) end.
Proof.
  destruct n as [|m]; [discriminate|]. cbn [remove_null_union_branch nice]. destruct raw as [| | | | |fs]; try discriminate.
  destruct (assoc "oneOf" fs) eqn:Eo; [discriminate|].
  destruct (assoc "anyOf" fs) as [[| | | |vs|]|] eqn:Ea; try discriminate.
  intros H Hn. apply andb_prop in Hn as [Hk Hv].
  destruct (Nat.eqb (List.length (filter (fun v => negb (is_null_definition v)) vs)) (List.length vs)) eqn:E1; [discriminate|].
  cbn [orb] in H.
  destruct (Nat.eqb (List.length (filter (fun v => negb (is_null_definition v)) vs)) 0) eqn:E2; [discriminate|].
  exists m, fs, vs. repeat split; auto.
  - apply filter_shorter in E1. rewrite <- E1. clear. induction vs as [|v vs IH]; cbn; [reflexivity|].
    rewrite Bool.negb_involutive, IH. reflexivity.
  - cbv zeta.
    destruct (map (fun v => match remove_null_union_branch m v with Some v' => v' | None => v end)
                  (filter (fun v => negb (is_null_definition v)) vs)) as [|one [|two rest]]; inversion H; reflexivity.
Qed.

Lemma rnub_sound : forall n raw rw, remove_null_union_branch n raw = Some rw -> nice n raw = true ->
  forall f d, js_valid R0 f rw d = true -> exists f', js_valid R0 f' raw d = true.
Proof.
  induction n as [|m IH]; intros raw rw H Hn f d Hv; [discriminate|].
  destruct (rnub_shape _ _ _ H Hn) as (m' & fs & vs & Em & -> & Ea & Hk & Hnv & _ & Hrw). inversion Em; subst m'. clear Em.
  cbv zeta in Hrw.
  set (g := fun v => match remove_null_union_branch m v with Some v' => v' | None => v end) in *.
  set (non_null := filter (fun v => negb (is_null_definition v)) vs) in *.
  assert (Sub : forall v, In v non_null -> In v vs) by (intros v Hin; apply filter_In in Hin; tauto).
  assert (N : forall v, In v non_null -> forall f0, js_valid R0 f0 (g v) d = true -> exists f', js_valid R0 f' v d = true).
  { intros v Hin f0 Hg. unfold g in Hg. destruct (remove_null_union_branch m v) as [v'|] eqn:Ev; [|exists f0; exact Hg].
    apply (IH v v' Ev) with (f := f0); [|exact Hg]. rewrite forallb_forall in Hnv. apply Hnv, Sub, Hin. }
  assert (Up : forall v f', In v vs -> js_valid R0 f' v d = true -> js_valid R0 (S f') (JObj fs) d = true).
  { intros v f' Hin Hvv. rewrite (js_valid_anyof_node f' fs vs d Ea Hk). apply existsb_exists. exists v. split; assumption. }
  destruct (map g non_null) as [|one [|two rest]] eqn:En.
  - (* no variant left: the rewritten node has an empty anyOf *)
    subst rw. destruct f as [|f0]; [discriminate|].
    rewrite (js_valid_anyof_node f0 _ [] d) in Hv; [discriminate|apply assoc_set_same|apply keys_assoc_set_forallb; [reflexivity|exact Hk]].
  - subst rw. destruct non_null as [|v1 [|v2 rest]] eqn:Enn; cbn [map] in En; try discriminate. inversion En; subst one.
    destruct (N v1 (or_introl eq_refl) f Hv) as [f' Hf']. exists (S f'). apply (Up v1); [apply Sub; left; reflexivity|exact Hf'].
  - subst rw. destruct f as [|f0]; [discriminate|].
    rewrite (js_valid_anyof_node f0 _ (one :: two :: rest) d) in Hv;
      [|apply assoc_set_same|apply keys_assoc_set_forallb; [reflexivity|exact Hk]].
    apply existsb_exists in Hv as [w [Hw Hwv]]. rewrite <- En in Hw. apply in_map_iff in Hw as [v [<- Hvin]].
    destruct (N v Hvin f0 Hwv) as [f' Hf']. exists (S f'). apply (Up v); [apply Sub; exact Hvin|exact Hf'].
Qed.

(* ---------- threading the printing context ---------- *)
Lemma smap_inv {A B} (f : pctx -> A -> res (B * pctx)) : forall l c bs c',
  smap f c l = Ok (bs, c') -> Forall2 (fun a b => exists c1 c2, f c1 a = Ok (b, c2)) l bs.
Proof.
  induction l as [|x l IH]; intros c bs c' H; cbn [smap] in H.
  - inversion H; constructor.
  - destruct (f c x) as [[b c1]|e] eqn:E; cbn [bind] in H; [|discriminate]. cbn [snd fst] in H.
    destruct (smap f c1 l) as [[bs' c2]|e] eqn:E2; cbn [bind] in H; [|discriminate]. inversion H; subst.
    constructor; [exists c, c1; exact E|eapply IH; exact E2].
Qed.

(* ---------- what is proved about a (validator, schema) pair ---------- *)
Section Good.
  Variable F : formats.
  Variable env : renv.

  Definition has_null_branch (j : json) : Prop :=
    is_null_definition j = true \/ exists vs, jget j "anyOf" = Some (JArr vs) /\ existsb is_null_definition vs = true.
  Definition accepts_undefined (r : rt) : Prop := forall fv strict b, validate F env fv strict r VUndef = Ok b -> b = true.

  Definition good (r : rt) (j : json) : Prop :=
    (forall fj fz fv strict v d b,
        val_to_json fz v = Some d -> js_valid R0 fj j d = true -> validate F env fv strict r v = Ok b -> b = true)
    /\ (forall n, nice n j = true)
    /\ (has_null_branch j -> accepts_undefined r).

  Lemma good_annotate desc r j : good r j -> good r (annotate desc j).
  Proof.
    intros (G1 & G2 & G3). split; [|split].
    - intros fj fz fv strict v d b Hz Hj. rewrite js_valid_annotate in Hj. eapply G1; eassumption.
    - intros n. apply nice_annotate, G2.
    - intros Hn. apply G3. unfold has_null_branch in *. rewrite is_null_definition_annotate in Hn.
      rewrite jget_annotate in Hn by reflexivity. exact Hn.
  Qed.

  Lemma good_meta s t j : good t j -> good (RMeta s t) j.
  Proof.
    intros (G1 & G2 & G3). split; [|split]; [|exact G2|].
    - intros fj fz fv strict v d b Hz Hj Hv. destruct fv as [|fv]; [discriminate|]. cbn [validate] in Hv. eapply G1; eassumption.
    - intros Hn fv strict b Hv. destruct fv as [|fv]; [discriminate|]. cbn [validate] in Hv. eapply G3; eassumption.
  Qed.

  Lemma good_ref name t j : assoc name env = Some t -> good t j -> good (RRef name) j.
  Proof.
    intros Ha (G1 & G2 & G3). split; [|split]; [|exact G2|].
    - intros fj fz fv strict v d b Hz Hj Hv. destruct fv as [|fv]; [discriminate|]. cbn [validate] in Hv. rewrite Ha in Hv.
      eapply G1; eassumption.
    - intros Hn fv strict b Hv. destruct fv as [|fv]; [discriminate|]. cbn [validate] in Hv. rewrite Ha in Hv. eapply G3; eassumption.
  Qed.

  Ltac no_null_branch :=
    let H := fresh in let vs := fresh in
    intros [H|[vs [H _]]]; [try (vm_compute in H; discriminate H)|try (vm_compute in H; discriminate H)].

  Lemma good_typeof t : good (RTypeof t) (JObj [("type", JStr (tyname_str t))]).
  Proof.
    split; [|split].
    - intros fj fz fv strict v d b Hz Hj Hv. destruct fj as [|fj]; [discriminate|]. destruct fv as [|fv]; [discriminate|].
      cbn [validate] in Hv. inversion Hv. apply val_to_json_inv in Hz.
      destruct t, d; vm_compute in Hj; try discriminate Hj; try (subst v; reflexivity);
        destruct Hz as [[-> _]|[-> _]]; reflexivity.
    - intros [|n]; [reflexivity|]. destruct t; reflexivity.
    - destruct t; no_null_branch.
  Qed.

  Lemma good_any : good RAny (JObj []).
  Proof.
    split; [|split].
    - intros fj fz fv strict v d b Hz Hj Hv. destruct fv as [|fv]; [discriminate|]. inversion Hv; reflexivity.
    - intros [|n]; reflexivity.
    - no_null_branch.
  Qed.

  Lemma good_nullish s : good (RNullish s) (JObj [("type", JStr "null")]).
  Proof.
    split; [|split].
    - intros fj fz fv strict v d b Hz Hj Hv. destruct fj as [|fj]; [discriminate|]. destruct fv as [|fv]; [discriminate|].
      cbn [validate] in Hv. inversion Hv. apply val_to_json_inv in Hz.
      destruct d; vm_compute in Hj; try discriminate Hj. subst v. reflexivity.
    - intros [|n]; reflexivity.
    - intros _ fv strict b Hv. destruct fv as [|fv]; [discriminate|]. inversion Hv; reflexivity.
  Qed.

  (* a constant of the schema equals the document: the validator's comparison succeeds *)
  Lemma const_match fz v d c : val_to_json fz v = Some d -> json_eqb (cst_json_val c) d = true ->
    (c = CNull /\ v = VNull) \/ (cst_strict_eqb c v = true /\ cst_same_value_zero c v = true /\ c <> CNull).
  Proof.
    intros Hz He. apply val_to_json_inv in Hz.
    destruct c as [|cb|cn|cs], d as [|db|dn|ds|dl|df]; cbn [cst_json_val json_eqb] in He; try discriminate He.
    - left. auto.
    - subst v. right. cbn. repeat split; [exact He|exact He|discriminate].
    - right. destruct Hz as [[-> [z ->]]|[-> [s ->]]]; cbn [cst_strict_eqb cst_same_value_zero];
        (repeat split; [exact He| |discriminate]); destruct cn; cbn in He |- *; try discriminate He; exact He.
    - subst v. right. cbn. repeat split; [exact He|exact He|discriminate].
  Qed.

  Lemma good_const c : good (RConst c) (JObj [("const", cst_json_val c)]).
  Proof.
    split; [|split].
    - intros fj fz fv strict v d b Hz Hj Hv. destruct fj as [|fj]; [discriminate|]. destruct fv as [|fv]; [discriminate|].
      assert (He : json_eqb (cst_json_val c) d = true).
      { cbn [js_valid assoc String.eqb Ascii.eqb Bool.eqb] in Hj. cbn in Hj. repeat (apply andb_prop in Hj as [Hj _]). exact Hj. }
      destruct (const_match _ _ _ _ Hz He) as [[-> ->]|(H1 & _ & Hn)].
      + cbn [validate] in Hv. inversion Hv; reflexivity.
      + destruct c; [congruence| | |]; cbn [validate] in Hv; inversion Hv; exact H1.
    - intros [|n]; reflexivity.
    - no_null_branch.
  Qed.
End Good.

(* ---------- list helpers ---------- *)
Lemma Forall2_in_l {A B} (R : A -> B -> Prop) l l' a : Forall2 R l l' -> In a l -> exists b, In b l' /\ R a b.
Proof.
  induction 1 as [|x y l l' Hxy _ IH]; intros Hin; [contradiction|].
  destruct Hin as [<-|Hin]; [exists y; split; [left; reflexivity|exact Hxy]|].
  destruct (IH Hin) as [b [Hb Hr]]. exists b. split; [right; exact Hb|exact Hr].
Qed.
Lemma Forall2_in_r {A B} (R : A -> B -> Prop) l l' b : Forall2 R l l' -> In b l' -> exists a, In a l /\ R a b.
Proof.
  induction 1 as [|x y l l' Hxy _ IH]; intros Hin; [contradiction|].
  destruct Hin as [<-|Hin]; [exists x; split; [left; reflexivity|exact Hxy]|].
  destruct (IH Hin) as [a [Ha Hr]]. exists a. split; [right; exact Ha|exact Hr].
Qed.
Lemma mem_str_In k l : mem_str k l = true <-> In k l.
Proof.
  induction l as [|x l IH]; cbn [mem_str In]; [split; [discriminate|contradiction]|].
  destruct (String.eqb k x) eqn:E.
  - apply String.eqb_eq in E. subst. split; auto.
  - rewrite IH. split; [auto|]. intros [->|H]; [rewrite String.eqb_refl in E; discriminate|exact H].
Qed.
Lemma assoc_nodup_in {A} k (v : A) l : nodup_str (keys l) = true -> In (k, v) l -> assoc k l = Some v.
Proof.
  induction l as [|[k0 v0] l IH]; cbn [keys map fst nodup_str assoc]; intros Hn Hin; [contradiction|].
  apply andb_prop in Hn as [H0 H1]. destruct Hin as [E|Hin].
  - inversion E; subst. rewrite String.eqb_refl. reflexivity.
  - destruct (String.eqb k k0) eqn:E; [|apply IH; assumption].
    apply String.eqb_eq in E. subst k0. exfalso. apply Bool.negb_true_iff in H0.
    assert (In k (keys l)) by (apply in_map_iff; exists (k, v); auto). apply mem_str_In in H. unfold keys in *. congruence.
Qed.
Lemma assoc_keys {A} k (l : list (string * A)) : mem_str k (keys l) = true -> exists v, assoc k l = Some v.
Proof.
  induction l as [|[k0 v0] l IH]; cbn [keys map fst mem_str assoc]; [discriminate|].
  destruct (String.eqb k k0); [eauto|exact IH].
Qed.
Lemma assoc_none_keys {A} k (l : list (string * A)) : assoc k l = None -> mem_str k (keys l) = false.
Proof.
  intros H. destruct (mem_str k (keys l)) eqn:E; [|reflexivity]. destruct (assoc_keys k l E) as [v Hv]. congruence.
Qed.
Lemma filter_nil {A} (p : A -> bool) l : (forall x, In x l -> p x = false) -> filter p l = [].
Proof.
  induction l as [|x l IH]; intros H; [reflexivity|]. cbn [filter]. rewrite (H x (or_introl eq_refl)).
  apply IH. intros y Hy. apply H. right. exact Hy.
Qed.
Lemma assoc_set_fresh {A} k (v : A) l : mem_str k (keys l) = false -> assoc_set k v l = l ++ [(k, v)].
Proof.
  induction l as [|[k0 v0] l IH]; cbn [keys map fst mem_str assoc_set app]; intros H; [reflexivity|].
  destruct (String.eqb k k0); [discriminate|]. rewrite IH by exact H. reflexivity.
Qed.
Lemma mem_str_app k l1 l2 : mem_str k (l1 ++ l2) = mem_str k l1 || mem_str k l2.
Proof. induction l1 as [|x l1 IH]; cbn [app mem_str orb]; [reflexivity|]. destruct (String.eqb k x); [reflexivity|exact IH]. Qed.

Lemma fold_jobj_set {X} (kf : X -> string) (vf : X -> json) (xs : list X) : forall acc,
  nodup_str (map kf xs) = true -> (forall x, In x xs -> mem_str (kf x) (keys acc) = false) ->
  fold_left (fun acc x => jobj_set (kf x) (vf x) acc) xs acc = acc ++ map (fun x => (kf x, vf x)) xs.
Proof.
  induction xs as [|x xs IH]; intros acc Hn Hd; cbn [fold_left map]; [rewrite app_nil_r; reflexivity|].
  cbn [map nodup_str] in Hn. apply andb_prop in Hn as [H0 H1]. unfold jobj_set at 2.
  rewrite assoc_set_fresh by (apply Hd; left; reflexivity).
  rewrite IH; [rewrite <- app_assoc; reflexivity|exact H1|].
  intros y Hy. unfold keys. rewrite map_app, mem_str_app. fold (keys acc). rewrite (Hd y (or_intror Hy)). cbn [map fst mem_str orb].
  destruct (String.eqb (kf y) (kf x)) eqn:E; [|reflexivity]. apply String.eqb_eq in E.
  apply Bool.negb_true_iff in H0. assert (In (kf x) (map kf xs)) by (rewrite <- E; apply in_map; exact Hy).
  apply mem_str_In in H. congruence.
Qed.

Lemma fields_assoc fz fs fields k xv : fields_rel fz fs fields -> assoc k fs = Some xv ->
  exists xd, assoc k fields = Some xd /\ val_to_json fz xv = Some xd.
Proof.
  induction 1 as [|[k1 x1] [k2 d2] fs fields [Hk Hx] _ IH]; cbn [assoc]; [discriminate|]. cbn [fst snd] in *. subst k2.
  destruct (String.eqb k k1); [intros H; inversion H; subst; eauto|exact IH].
Qed.
Lemma fields_keys fz fs fields : fields_rel fz fs fields -> keys fs = keys fields.
Proof. induction 1 as [|[k1 x1] [k2 d2] fs fields [Hk Hx] _ IH]; cbn [keys map fst] in *; [reflexivity|]. f_equal; assumption. Qed.

Lemma js_valid_false fj d : js_valid R0 fj (JBool false) d = false.
Proof. destruct fj; reflexivity. Qed.

(* ---------- the closed object node ---------- *)
Definition closed_node (properties : list (string * json)) (required : list json) : json :=
  JObj (([("type", JStr "object"); ("properties", JObj properties)]
          ++ match required with [] => [] | _ => [("required", JArr required)] end) ++ [("additionalProperties", JBool false)]).

Lemma js_valid_closed f properties required d : js_valid R0 (S f) (closed_node properties required) d = true ->
  exists fields, d = JObj fields /\
    forallb (fun kv => match assoc (fst kv) properties with Some ps => js_valid R0 f ps (snd kv) | None => true end) fields = true /\
    forallb (fun r => match r with JStr k => mem_str k (keys fields) | _ => true end) required = true /\
    forallb (fun kv => mem_str (fst kv) (keys properties)) fields = true.
Proof.
  unfold closed_node. intros H.
  assert (Hadd : forall fields, forallb (fun kv : string * json => mem_str (fst kv) (keys properties) || js_valid R0 f (JBool false) (snd kv)) fields
                                = forallb (fun kv => mem_str (fst kv) (keys properties)) fields).
  { induction fields as [|kv l IH]; cbn [forallb]; [reflexivity|]. rewrite js_valid_false, orb_false_r, IH. reflexivity. }
  destruct required as [|r0 rq]; cbn [app] in H;
    cbn [js_valid assoc String.eqb Ascii.eqb Bool.eqb] in H; cbn [json_type_is] in H;
    destruct d; try discriminate H; cbn [andb String.eqb Ascii.eqb Bool.eqb] in H; try discriminate H;
    rewrite ?andb_true_r, Hadd in H; exists fs.
  all: repeat match goal with H0 : _ && _ = true |- _ => apply andb_prop in H0; destruct H0 end; repeat split; auto.
Qed.

Section Composite.
  Variable F : formats.
  Variable env : renv.
  Notation good := (good F env).

  Lemma good_anyof rs subs : Forall2 good rs subs -> good (RAnyOf rs) (JObj [("anyOf", JArr subs)]).
  Proof.
    intros HF. split; [|split].
    - intros fj fz fv strict v d b Hz Hj Hv. destruct fj as [|fj]; [discriminate|]. destruct fv as [|fv]; [discriminate|].
      rewrite (js_valid_anyof_node fj [("anyOf", JArr subs)] subs d eq_refl eq_refl) in Hj. apply existsb_exists in Hj as [s [Hs Hsv]].
      destruct (Forall2_in_r _ _ _ _ HF Hs) as [m [Hm (G1 & _ & _)]]. cbn [validate] in Hv.
      eapply (exists_res_accepts _ _ m b Hm); [|exact Hv]. intros b' Hb'. cbv beta in Hb'. eapply G1; eassumption.
    - intros [|n]; [reflexivity|]. cbn [nice assoc String.eqb Ascii.eqb Bool.eqb keys map fst forallb anyof_key orb andb].
      apply forallb_forall. intros s Hs. destruct (Forall2_in_r _ _ _ _ HF Hs) as [m [_ (_ & G2 & _)]]. apply G2.
    - intros [Hn|[vs [Hg Hn]]]; [vm_compute in Hn; discriminate Hn|].
      cbn [jget assoc String.eqb Ascii.eqb Bool.eqb] in Hg. inversion Hg; subst vs. apply existsb_exists in Hn as [s [Hs Hsn]].
      destruct (Forall2_in_r _ _ _ _ HF Hs) as [m [Hm (_ & _ & G3)]]. intros fv strict b Hv.
      destruct fv as [|fv]; [discriminate|]. cbn [validate] in Hv.
      eapply (exists_res_accepts _ _ m b Hm); [|exact Hv]. intros b' Hb'. cbv beta in Hb'. eapply (G3 (or_introl Hsn)); eassumption.
  Qed.

  Lemma good_optional t s : good t s -> good (ROptional t) (JObj [("anyOf", JArr [s; JObj [("type", JStr "null")]])]).
  Proof.
    intros (G1 & G2 & G3). split; [|split].
    - intros fj fz fv strict v d b Hz Hj Hv. destruct fj as [|fj]; [discriminate|]. destruct fv as [|fv]; [discriminate|].
      rewrite (js_valid_anyof_node fj [("anyOf", JArr [s; JObj [("type", JStr "null")]])] _ d eq_refl eq_refl) in Hj. cbn [existsb] in Hj. cbn [validate] in Hv.
      destruct (is_nullish v) eqn:En; [inversion Hv; reflexivity|].
      apply orb_prop in Hj as [Hj|Hj]; [eapply G1; eassumption|]. rewrite orb_false_r in Hj.
      destruct (good_nullish F env "") as (N1 & _ & _). destruct fj as [|fj]; [discriminate|].
      assert (Ht : validate F env 1 strict (RNullish "") v = Ok (is_nullish v)) by reflexivity.
      rewrite (N1 _ _ _ _ _ _ _ Hz Hj Ht) in En. discriminate.
    - intros [|n]; [reflexivity|]. cbn [nice assoc String.eqb Ascii.eqb Bool.eqb keys map fst forallb anyof_key orb andb].
      rewrite G2. destruct n; reflexivity.
    - intros _ fv strict b Hv. destruct fv as [|fv]; [discriminate|]. cbn [validate is_nullish] in Hv. inversion Hv; reflexivity.
  Qed.

  Lemma good_array t s : good t s -> good (RArray t) (JObj [("type", JStr "array"); ("items", s)]).
  Proof.
    intros (G1 & G2 & G3). split; [|split].
    - intros fj fz fv strict v d b Hz Hj Hv. destruct fj as [|fj]; [discriminate|]. destruct fv as [|fv]; [discriminate|].
      cbn [js_valid assoc String.eqb Ascii.eqb Bool.eqb] in Hj. cbn [json_type_is] in Hj.
      destruct d; cbn [andb String.eqb Ascii.eqb Bool.eqb] in Hj; try discriminate Hj.
      cbn [combine forallb List.length skipn andb] in Hj. rewrite ?andb_true_r in Hj.
      apply val_to_json_inv in Hz as [ys [-> HF]]. cbn [validate] in Hv.
      apply (forall_res_all _ _ _ (fun y Hy b' Hb' =>
               let '(ex_intro _ d' (conj Hd Hyd)) := Forall2_in_l _ _ _ _ HF Hy in
               G1 _ _ _ _ _ _ _ Hyd (proj1 (forallb_forall _ _) Hj d' Hd) Hb') Hv).
    - intros [|n]; reflexivity.
    - intros [Hn|[vs [Hg _]]]; [vm_compute in Hn; discriminate Hn|vm_compute in Hg; discriminate Hg].
  Qed.
End Composite.

Section Composite2.
  Variable F : formats.
  Variable env : renv.
  Notation good := (good F env).

  Definition consts_node (vs : list cst) : json :=
    let single :=
      match vs with
      | [] => None
      | v0 :: _ => if forallb (fun v => String.eqb (typeof_cst v) (typeof_cst v0)) vs
                      && negb (String.eqb (typeof_cst v0) "object")
                   then Some (typeof_cst v0) else None
      end in
    match single with
    | Some tp => JObj [("type", JStr tp); ("enum", JArr (map cst_json_val vs))]
    | None => JObj [("enum", JArr (map cst_json_val vs))]
    end.

  Lemma good_consts vs : good (RAnyOfConsts vs) (consts_node vs).
  Proof.
    split; [|split].
    - intros fj fz fv strict v d b Hz Hj Hv. destruct fj as [|fj]; [discriminate|]. destruct fv as [|fv]; [discriminate|].
      assert (He : existsb (fun c => json_eqb c d) (map cst_json_val vs) = true).
      { unfold consts_node in Hj.
        destruct (match vs with [] => None | v0 :: _ => if forallb (fun v => String.eqb (typeof_cst v) (typeof_cst v0)) vs
                      && negb (String.eqb (typeof_cst v0) "object") then Some (typeof_cst v0) else None end) as [tp|];
          cbn [js_valid assoc String.eqb Ascii.eqb Bool.eqb] in Hj;
          repeat match goal with H0 : _ && _ = true |- _ => apply andb_prop in H0; destruct H0 end; assumption. }
      apply existsb_exists in He as [cj [Hc Hcd]]. apply in_map_iff in Hc as [c [<- Hc]].
      cbn [validate] in Hv. inversion Hv. destruct (const_match _ _ _ _ Hz Hcd) as [[-> ->]|(_ & H2 & _)].
      + cbn [is_nullish andb]. replace (existsb (fun c => match c with CNull => true | _ => false end) vs) with true; [reflexivity|].
        symmetry. apply existsb_exists. exists CNull. auto.
      + apply orb_true_intro. right. apply existsb_exists. exists c. auto.
    - intros [|n]; [reflexivity|]. unfold consts_node.
      destruct (match vs with [] => None | v0 :: _ => if forallb (fun v => String.eqb (typeof_cst v) (typeof_cst v0)) vs
                      && negb (String.eqb (typeof_cst v0) "object") then Some (typeof_cst v0) else None end); reflexivity.
    - unfold consts_node. destruct vs as [|v0 vs']; [intros [Hn|[ws [Hg _]]]; [vm_compute in Hn; discriminate Hn|vm_compute in Hg; discriminate Hg]|].
      destruct (forallb (fun v => String.eqb (typeof_cst v) (typeof_cst v0)) (v0 :: vs') && negb (String.eqb (typeof_cst v0) "object")).
      + intros [Hn|[ws [Hg _]]]; [destruct v0; vm_compute in Hn; discriminate Hn|cbn in Hg; discriminate Hg].
      + intros [Hn|[ws [Hg _]]]; [vm_compute in Hn; discriminate Hn|cbn in Hg; discriminate Hg].
  Qed.

  (* ---- closed objects ---- *)
  Definition prop_rel (kp : string * rt) (x : string * json * bool) : Prop :=
    fst (fst x) = fst kp /\
    exists raw, good (snd kp) raw /\
                ((snd x = false /\ snd (fst x) = raw) \/ (snd x = true /\ remove_null_union_branch 50 raw = Some (snd (fst x)))).

  Lemma good_object props xs :
    nodup_str (keys props) = true -> forallb safe_key (keys props) = true -> Forall2 prop_rel props xs ->
    good (RObject props [])
         (closed_node (fold_left (fun acc x => jobj_set (fst (fst x)) (snd (fst x)) acc) xs [])
                      (map (fun x : string * json * bool => JStr (fst (fst x))) (filter (fun x => negb (snd x)) xs))).
  Proof.
    intros Hnd Hsafe HF.
    assert (Hkeys : map (fun x : string * json * bool => fst (fst x)) xs = keys props).
    { clear -HF. induction HF as [|kp x l l' [Hk _] _ IH]; cbn [map keys]; [reflexivity|]. rewrite Hk. f_equal. exact IH. }
    rewrite (fold_jobj_set (fun x : string * json * bool => fst (fst x)) (fun x => snd (fst x)) xs [])
      by (rewrite ?Hkeys; auto). cbn [app].
    set (properties := map (fun x : string * json * bool => (fst (fst x), snd (fst x))) xs).
    assert (Hpk : keys properties = keys props).
    { unfold properties, keys. rewrite map_map. cbn [fst]. exact Hkeys. }
    split; [|split].
    - intros fj fz fv strict v d b Hz Hj Hv. destruct fj as [|fj]; [discriminate|]. destruct fv as [|fv]; [discriminate|].
      apply js_valid_closed in Hj as (fields & -> & Hprops & Hreq & Hadd).
      apply val_to_json_inv in Hz as (fs & -> & Hrel).
      pose proof (fields_keys _ _ _ Hrel) as Hfk.
      cbn [validate is_object_type typeof jstype_eqb is_array negb andb] in Hv.
      destruct (forall_res (fun kp => validate F env fv strict (snd kp) (get (VObj fs) (fst kp))) props) as [ok|e] eqn:Ef;
        cbn [bind] in Hv; [|discriminate].
      assert (Hok : ok = true).
      { refine (forall_res_all _ _ _ _ Ef). intros kp Hkp b' Hb'.
        destruct (Forall2_in_l _ _ _ _ HF Hkp) as (x & Hx & Hkx & raw & (G1 & G2 & G3) & Hcase).
        cbv beta in Hb'. unfold get in Hb'.
        assert (Hps : assoc (fst kp) properties = Some (snd (fst x))).
        { apply assoc_nodup_in; [rewrite Hpk; exact Hnd|]. unfold properties. apply in_map_iff. exists x. rewrite Hkx. auto. }
        destruct (assoc (fst kp) fs) as [xv|] eqn:Ea.
        - destruct (fields_assoc _ _ _ _ _ Hrel Ea) as (xd & Hxd & Hzx).
          pose proof (proj1 (forallb_forall _ _) Hprops _ (assoc_In _ _ _ Hxd)) as Hp. cbn [fst snd] in Hp. rewrite Hps in Hp.
          destruct Hcase as [[_ Eraw]|[_ Eraw]].
          + rewrite Eraw in Hp. eapply G1; eassumption.
          + destruct (rnub_sound _ _ _ Eraw (G2 50) _ _ Hp) as [f' Hf']. eapply G1; eassumption.
        - assert (Hs : safe_key (fst kp) = true).
          { rewrite forallb_forall in Hsafe. apply Hsafe. apply in_map. exact Hkp. }
          unfold safe_key in Hs. apply andb_prop in Hs as [Hs1 Hs2]. apply Bool.negb_true_iff in Hs1, Hs2. rewrite Hs1, Hs2 in Hb'.
          destruct Hcase as [[Eflag _]|[_ Eraw]].
          + exfalso. assert (Hin : In (JStr (fst kp)) (map (fun x : string * json * bool => JStr (fst (fst x))) (filter (fun x => negb (snd x)) xs))).
            { apply in_map_iff. exists x. rewrite Hkx. split; [reflexivity|]. apply filter_In. rewrite Eflag. auto. }
            pose proof (proj1 (forallb_forall _ _) Hreq _ Hin) as Hm. cbv beta iota in Hm. rewrite <- Hfk in Hm.
            rewrite (assoc_none_keys _ _ Ea) in Hm. discriminate.
          + destruct (rnub_shape _ _ _ Eraw (G2 50)) as (m & rfs & vs & _ & -> & Ha & _ & _ & Hnull & _).
            eapply (G3 (or_intror (ex_intro _ vs (conj Ha Hnull)))); eassumption. }
      subst ok. cbn [negb] in Hv.
      assert (Hex : filter (fun k => negb (mem_str k (keys props))) (own_keys (VObj fs)) = []).
      { apply filter_nil. intros k Hk. cbn [own_keys] in Hk. apply filter_In in Hk as [Hk _]. rewrite Hfk in Hk.
        apply in_map_iff in Hk as [[k' xd] [<- Hin]]. pose proof (proj1 (forallb_forall _ _) Hadd _ Hin) as Hm.
        cbn [fst] in Hm |- *. rewrite Hpk in Hm. rewrite Hm. reflexivity. }
      rewrite Hex in Hv. destruct strict; inversion Hv; reflexivity.
    - intros [|n]; [reflexivity|]. unfold closed_node.
      destruct (map (fun x : string * json * bool => JStr (fst (fst x))) (filter (fun x => negb (snd x)) xs)); reflexivity.
    - unfold closed_node.
      destruct (map (fun x : string * json * bool => JStr (fst (fst x))) (filter (fun x => negb (snd x)) xs));
        (intros [Hn|[ws [Hg _]]]; [vm_compute in Hn; discriminate Hn|vm_compute in Hg; discriminate Hg]).
  Qed.
End Composite2.

(* ---------- records: one index signature, no declared property ---------- *)
Section Record.
  Variable F : formats.
  Variable env : renv.
  Notation good := (good F env).

  Lemma any_accepts r : strip_meta_top r = RAny -> forall fv strict v b, validate F env fv strict r v = Ok b -> b = true.
  Proof.
    induction r; cbn [strip_meta_top]; try discriminate; intros E fv strict v b Hv; (destruct fv as [|fv]; [discriminate|]); cbn [validate] in Hv.
    - inversion Hv; reflexivity.
    - eapply IHr; eassumption.
  Qed.

  Lemma good_any_true r : strip_meta_top r = RAny -> good r (JBool true).
  Proof.
    intros E. split; [|split].
    - intros fj fz fv strict v d b _ _ Hv. eapply any_accepts; eassumption.
    - intros [|n]; reflexivity.
    - intros _ fv strict b Hv. eapply any_accepts; eassumption.
  Qed.

  Lemma never_not_in_fragment f seen r : sfrag env f seen r = true -> strip_meta_top r <> RNever.
  Proof.
    revert r. induction f as [|f IH]; intros r H; [discriminate|].
    destruct r; cbn [sfrag] in H; cbn [strip_meta_top]; try discriminate. apply IH. exact H.
  Qed.

  Lemma good_record kr vr ks vs : good kr ks -> good vr vs ->
    good (RObject [] [(kr, vr)]) (JObj [("type", JStr "object"); ("additionalProperties", vs); ("propertyNames", ks)]).
  Proof.
    intros (K1 & _ & _) (V1 & _ & _). split; [|split].
    - intros fj fz fv strict v d b Hz Hj Hv. destruct fj as [|fj]; [discriminate|]. destruct fv as [|fv]; [discriminate|].
      cbn [js_valid assoc String.eqb Ascii.eqb Bool.eqb] in Hj. cbn [json_type_is] in Hj.
      destruct d; cbn [andb String.eqb Ascii.eqb Bool.eqb] in Hj; try discriminate Hj.
      cbn [keys map mem_str orb assoc] in Hj.
      repeat match goal with H0 : _ && _ = true |- _ => apply andb_prop in H0; destruct H0 end.
      match goal with H0 : forallb (fun kv => js_valid R0 fj vs (snd kv)) fs = true |- _ => rename H0 into Hadd end.
      match goal with H0 : forallb (fun kv => js_valid R0 fj ks (JStr (fst kv))) fs = true |- _ => rename H0 into Hpn end.
      apply val_to_json_inv in Hz as (ofs & -> & Hrel). pose proof (fields_keys _ _ _ Hrel) as Hfk.
      cbn [validate is_object_type typeof jstype_eqb is_array negb andb forall_res bind keys map mem_str] in Hv.
      refine (forall_res_all _ _ _ _ Hv). intros k Hk b' Hb'. cbv beta in Hb'.
      apply filter_In in Hk as [Hk _]. cbn [own_keys] in Hk. apply filter_In in Hk as [Hk _].
      destruct (assoc_keys k ofs (proj2 (mem_str_In _ _) Hk)) as [xv Hxv].
      destruct (fields_assoc _ _ _ _ _ Hrel Hxv) as (xd & Hxd & Hzx). pose proof (assoc_In _ _ _ Hxd) as Hin.
      pose proof (proj1 (forallb_forall _ _) Hadd _ Hin) as Ha. pose proof (proj1 (forallb_forall _ _) Hpn _ Hin) as Hp.
      cbn [fst snd] in Ha, Hp. cbn [exists_res fst snd] in Hb'.
      destruct (validate F env fv strict kr (VStr k)) as [a|e] eqn:Ek; cbn [bind] in Hb'; [|discriminate].
      assert (Hz1 : val_to_json 1 (VStr k) = Some (JStr k)) by reflexivity.
      rewrite (K1 _ _ _ _ _ _ _ Hz1 Hp Ek) in Hb'. cbn [negb] in Hb'. unfold get in Hb'. rewrite Hxv in Hb'.
      destruct (validate F env fv strict vr xv) as [[|]|e] eqn:Ev; try discriminate; [inversion Hb'; reflexivity|].
      pose proof (V1 _ _ _ _ _ _ _ Hzx Ha Ev). discriminate.
    - intros [|n]; reflexivity.
    - intros [Hn|[ws [Hg _]]]; [vm_compute in Hn; discriminate Hn|vm_compute in Hg; discriminate Hg].
  Qed.
End Record.

(* ---------- the flat printer on the fragment ---------- *)
Section Main.
  Variable F : formats.
  Variable env : renv.
  Variable cf : pconf.
  Notation good := (good F env).

  Lemma sfrag_forall2 f seen rs :
    forallb (sfrag env f seen) rs = true ->
    (forall seen desc c r j c', sfrag env f seen r = true -> schema env cf Flat f seen desc c r = Ok (j, c') -> good r j) ->
    forall c subs c', smap (fun c' r' => schema env cf Flat f seen None c' r') c rs = Ok (subs, c') -> Forall2 good rs subs.
  Proof.
    intros Hall IH c subs c' Hs. apply smap_inv in Hs.
    induction Hs as [|r s rs subs (c1 & c2 & Hrs) _ IH2]; [constructor|].
    cbn [forallb] in Hall. apply andb_prop in Hall as [H0 H1]. constructor; [eapply IH; eassumption|apply IH2; exact H1].
  Qed.

  Opaque validate js_valid nice remove_null_union_branch annotate.
  Theorem schema_flat_good : forall fs seen desc c r j c',
    sfrag env fs seen r = true -> schema env cf Flat fs seen desc c r = Ok (j, c') -> good r j.
  Proof.
    induction fs as [|f IH]; intros seen desc c r j c' Hfrag Hs; [discriminate|].
    destruct r; cbn [sfrag] in Hfrag; try discriminate Hfrag; cbn [schema] in Hs.
    - (* RTypeof *) inversion Hs; subst. apply good_annotate, good_typeof.
    - (* RAny *) inversion Hs; subst. apply good_annotate, good_any.
    - (* RNullish *) inversion Hs; subst. apply good_annotate, good_nullish.
    - (* RConst *) destruct c0; inversion Hs; subst; apply good_annotate, good_const.
    - (* RAnyOfConsts *)
      assert (E : j = annotate desc (consts_node values)).
      { unfold consts_node. destruct values as [|v0 vs]; [inversion Hs; reflexivity|].
        destruct (forallb (fun v => String.eqb (typeof_cst v) (typeof_cst v0)) (v0 :: vs) && negb (String.eqb (typeof_cst v0) "object"));
          inversion Hs; reflexivity. }
      subst j. apply good_annotate, good_consts.
    - (* RAnyOf *)
      destruct (smap (fun c' r' => schema env cf Flat f seen None c' r') c schemas) as [[subs c1]|e] eqn:Es; cbn [bind] in Hs; [|discriminate].
      inversion Hs; subst. apply good_annotate, good_anyof. eapply sfrag_forall2; eauto.
    - (* RArray *)
      destruct (schema env cf Flat f seen None c r) as [[s c1]|e] eqn:Es; cbn [bind] in Hs; [|discriminate].
      inversion Hs; subst. apply good_annotate, good_array. eapply IH; eassumption.
    - (* ROptional *)
      destruct (schema env cf Flat f seen None c r) as [[s c1]|e] eqn:Es; cbn [bind] in Hs; [|discriminate].
      inversion Hs; subst. apply good_optional. eapply IH; eassumption.
    - (* RObject *)
      destruct indexed as [|[kr vr] [|i1 irest]]; [| |discriminate Hfrag].
      + apply andb_prop in Hfrag as [Hfrag Hall]. apply andb_prop in Hfrag as [Hnd Hsafe].
        match type of Hs with (do p <- ?X; _) = _ => destruct X as [[xs c1]|e] eqn:Es end; cbn [bind] in Hs; [|discriminate].
        cbn [smap bind fst snd] in Hs. inversion Hs; subst. apply good_annotate.
        apply good_object; [exact Hnd|exact Hsafe|].
        apply smap_inv in Es. clear -Es Hall IH.
        induction Es as [|kp x props xs (c1 & c2 & Hx) _ IH2]; [constructor|].
        cbn [forallb] in Hall. apply andb_prop in Hall as [H0 H1]. constructor; [|apply IH2; exact H1].
        destruct (schema env cf Flat f seen None c1 (snd kp)) as [[raw c3]|e] eqn:Er; cbn [bind] in Hx; [|discriminate].
        cbn [fst snd] in Hx. unfold prop_rel.
        destruct (remove_null_union_branch 50 raw) as [rw|] eqn:En; inversion Hx; subst; cbn [fst snd];
          (split; [reflexivity|]); exists raw; (split; [eapply IH; eassumption|]); auto.
      + destruct props as [|p0 props]; [|discriminate Hfrag]. apply andb_prop in Hfrag as [Hk Hvr].
        cbn [smap bind fst snd fold_left map filter app] in Hs.
        destruct (schema env cf Flat f seen None c kr) as [[ks c1]|e] eqn:Eks; cbn [bind fst snd] in Hs; [|discriminate].
        destruct (schema env cf Flat f seen None c1 vr) as [[vs c2]|e] eqn:Evs; cbn [bind fst snd] in Hs; [|discriminate].
        pose proof (IH _ _ _ _ _ _ Hk Eks) as Gk. pose proof (IH _ _ _ _ _ _ Hvr Evs) as Gv.
        pose proof (never_not_in_fragment env _ _ _ Hvr) as Hnn.
        destruct (strip_meta_top vr) eqn:Est; try congruence; inversion Hs; subst; apply good_annotate;
          try (apply good_record; assumption).
        cbn [jobj_set assoc_set String.eqb Ascii.eqb Bool.eqb].
        apply good_record; [assumption|apply good_any_true; exact Est].
    - (* RRef *)
      apply andb_prop in Hfrag as [Hseen Ht]. apply Bool.negb_true_iff in Hseen.
      destruct (assoc name env) as [t|] eqn:Ea; [|discriminate]. rewrite Hseen in Hs.
      destruct (schema env cf Flat f (name :: seen) None c t) as [[s c1]|e] eqn:Es; cbn [bind] in Hs; [|discriminate].
      inversion Hs; subst. apply good_annotate. apply (good_ref F env name t _ Ea). eapply IH; eassumption.
    - (* RMeta *)
      apply good_meta. eapply IH; eassumption.
  Qed.

  (* the statement used in Props/C02.v *)
  Theorem flat_schema_sound_on_fragment : forall fs r j c' fj fz fv strict v d b,
    sfrag env fs [] r = true ->
    schema env cf Flat fs [] None empty_ctx r = Ok (j, c') ->
    val_to_json fz v = Some d -> js_valid R0 fj j d = true ->
    validate F env fv strict r v = Ok b -> b = true.
  Proof.
    intros fs r j c' fj fz fv strict v d b Hfrag Hs. destruct (schema_flat_good _ _ _ _ _ _ _ Hfrag Hs) as (G1 & _ & _). apply G1.
  Qed.
End Main.
