(* Proofs/C03.v — validate / safeParse / parse agree; validate never throws outside the known call site. *)
From Beff Require Import Model.Known Proofs.ResLemmas.

Section C03.
  Variable F : formats.
  Variable env : renv.

  (* ---------- agreement of the three entry points (all trees, all values) ---------- *)
  Lemma safe_parse_success f strict order r v d :
    safe_parse F env f strict order r v = Ok (PSuccess d) ->
    validate F env f strict r v = Ok true /\ parse F env strict order f r v = Ok d.
  Proof.
    unfold safe_parse. destruct (validate F env f strict r v) as [[|]|e]; cbn [bind]; try discriminate.
    - destruct (parse F env strict order f r v); cbn [bind]; [intros [= <-]; auto|discriminate].
    - destruct (report F env strict f [] r v); cbn [bind]; discriminate.
  Qed.

  Lemma safe_parse_failure f strict order r v es :
    safe_parse F env f strict order r v = Ok (PFailure es) ->
    validate F env f strict r v = Ok false /\ List.length es <= 10 /\
    exists all, report F env strict f [] r v = Ok all /\ es = firstn 10 all.
  Proof.
    unfold safe_parse. destruct (validate F env f strict r v) as [[|]|e]; cbn [bind]; try discriminate.
    - destruct (parse F env strict order f r v); cbn [bind]; discriminate.
    - destruct (report F env strict f [] r v) as [all|e]; cbn [bind]; [|discriminate].
      intros H. assert (Hes : es = firstn 10 all) by congruence. subst es.
      split; [reflexivity|]. split; [apply firstn_le_length|]. eauto.
  Qed.

  Lemma validate_true_safe_parse f strict order r v d :
    validate F env f strict r v = Ok true -> parse F env strict order f r v = Ok d ->
    safe_parse F env f strict order r v = Ok (PSuccess d).
  Proof. unfold safe_parse. intros -> ->. reflexivity. Qed.

  Lemma parse_top_ok f strict order name r v d :
    parse_top F env f strict order name r v = Ok (POk d) <->
    safe_parse F env f strict order r v = Ok (PSuccess d).
  Proof.
    unfold parse_top. destruct (safe_parse F env f strict order r v) as [[d'|es]|e]; cbn [bind].
    - split; intros [= <-]; reflexivity.
    - destruct (print_errors f es); cbn [bind]; split; discriminate.
    - split; discriminate.
  Qed.

  Lemma parse_top_fail f strict order name r v m :
    parse_top F env f strict order name r v = Ok (PFail m) ->
    validate F env f strict r v = Ok false.
  Proof.
    unfold parse_top. destruct (safe_parse F env f strict order r v) as [[d'|es]|e] eqn:E; cbn [bind]; try discriminate.
    intros _. apply safe_parse_failure in E. tauto.
  Qed.

  (* ---------- validate never throws, outside the known call site ---------- *)
  Hypothesis Henv : nodisc_closed_env env = true.

  Lemma env_nodisc name t : assoc name env = Some t -> nodisc_closed env t = true.
  Proof.
    intros H. apply assoc_In in H. unfold nodisc_closed_env in Henv.
    rewrite forallb_forall in Henv. apply (Henv _ H).
  Qed.

  Lemma validate_total : forall f strict r v e,
      nodisc_closed env r = true -> validate F env f strict r v = Throw e -> e = EOutOfFuel.
  Proof.
    induction f as [|f IH]; intros strict r v e; [cbn; intros _ [= <-]; reflexivity|].
    destruct r as [t| |d| |c|items d| | |ctor|fs|fs|cs|prefix rest|rs|rs|item|r1 r2|item|ss disc mapping smap|t|props indexed|name|d t];
      cbn [validate nodisc_closed]; try (intros _; discriminate).
    - destruct c; intros _; discriminate.
    - (* RTuple *)
      intros Hp. apply andb_prop in Hp as [Hpre Hrest]. rewrite forallb_forall in Hpre.
      destruct v; try discriminate.
      destruct (prefix_res (validate F env f strict) VUndef xs prefix 0) as [[|]|e'] eqn:P; cbn [bind negb];
        try discriminate.
      + destruct rest as [rr|]; [|discriminate].
        intros H. apply forall_res_throw in H as [x [_ Hx]]. eapply IH; eauto.
      + intros [= <-]. apply prefix_res_throw in P as [a [b [Ha Hb]]]. eapply IH; eauto.
    - (* RAllOf *)
      intros Hp H. rewrite forallb_forall in Hp. apply forall_res_throw in H as [m [Hm Hx]].
      destruct (is_object_type v); cbn [negb] in Hx; [|discriminate]. eapply IH; eauto.
    - (* RAnyOf *)
      intros Hp H. rewrite forallb_forall in Hp. apply exists_res_throw in H as [m [Hm Hx]]. eapply IH; eauto.
    - (* RArray *)
      intros Hp. destruct v; try discriminate.
      intros H. apply forall_res_throw in H as [x [_ Hx]]. eapply IH; eauto.
    - (* RMap *)
      intros Hp. apply andb_prop in Hp as [Hk Hv]. destruct v; try discriminate.
      intros H. apply forall_res_throw in H as [[a b] [_ Hx]]. cbn [fst snd] in Hx.
      destruct (validate F env f strict r1 a) as [[|]|e'] eqn:E1; cbn [bind negb] in Hx; try discriminate.
      + eapply (IH strict r2 b); eauto.
      + injection Hx as <-. eapply (IH strict r1 a); eauto.
    - (* RSet *)
      intros Hp. destruct v; try discriminate.
      intros H. apply forall_res_throw in H as [x [_ Hx]]. eapply IH; eauto.
    - (* RDisc *) intros Hp; discriminate Hp.
    - (* ROptional *)
      intros Hp. destruct (is_nullish v); [discriminate|]. apply IH; assumption.
    - (* RObject *)
      intros Hp. apply andb_prop in Hp as [Hprops Hidx]. rewrite forallb_forall in Hprops, Hidx.
      destruct (is_object_type v && negb (is_array v) && negb match v with VNull => true | _ => false end);
        [|discriminate].
      destruct (forall_res (fun kp => validate F env f strict (snd kp) (get v (fst kp))) props) as [[|]|e'] eqn:P;
        cbn [bind negb]; try discriminate.
      + destruct indexed as [|ix indexed']; [destruct strict; discriminate|].
        intros H. apply forall_res_throw in H as [k [_ Hk]].
        apply exists_res_throw in Hk as [[kr vr] [Hin Hx]]. cbn [fst snd] in Hx.
        specialize (Hidx _ Hin). cbn [fst snd] in Hidx. apply andb_prop in Hidx as [Hkr Hvr].
        destruct (validate F env f strict kr (VStr k)) as [[|]|e'] eqn:E1; cbn [bind negb] in Hx; try discriminate.
        * eapply (IH strict vr); eauto.
        * injection Hx as <-. eapply (IH strict kr); eauto.
      + intros [= <-]. apply forall_res_throw in P as [kp [Hin Hx]]. eapply IH; eauto.
    - (* RRef *)
      destruct (assoc name env) as [t|] eqn:A; [|discriminate].
      intros _. apply IH. eapply env_nodisc; eauto.
    - (* RMeta *) apply IH.
  Qed.
End C03.
