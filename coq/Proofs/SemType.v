(* Proofs/SemType.v — literal sets, proper subtypes and semtypes: the four operations are exact set operations. *)
From Beff Require Import Model.SemSpec Proofs.Bdd Proofs.SortLemmas.
From Coq Require Import Sorting.Permutation.

(* ================================================================ literal vectors *)
Section SubVecEq.
  Context {K : Type}.
  Variable eqb : K -> K -> bool.
  Hypothesis eqb_spec : forall a b, eqb a b = true <-> a = b.
  Variable is_sub : K -> K -> res bool.
  Variable leb : K -> K -> bool.
  Variable lit : K -> bool.                  (* the elements on which is_subtype is plain equality *)
  Hypothesis is_sub_lit : forall a b, lit a = true -> lit b = true -> is_sub a b = Ok (eqb a b).

  Notation all_lit l := (forallb lit l = true).

  Lemma eqb_sym a b : eqb a b = eqb b a.
  Proof.
    destruct (eqb a b) eqn:E1, (eqb b a) eqn:E2; try reflexivity.
    - apply eqb_spec in E1. subst. assert (eqb b b = true) by (apply eqb_spec; reflexivity). congruence.
    - apply eqb_spec in E2. subst. assert (eqb a a = true) by (apply eqb_spec; reflexivity). congruence.
  Qed.

  Lemma existsb_eqb_In x l : existsb (eqb x) l = true <-> In x l.
  Proof.
    rewrite existsb_exists. split.
    - intros [y [Hy E]]. apply eqb_spec in E. subst. exact Hy.
    - intros H. exists x. split; [exact H|apply eqb_spec; reflexivity].
  Qed.

  Lemma In_sort x l : In x (sort_by leb l) <-> In x l.
  Proof.
    split; intros H.
    - eapply Permutation_in; [apply Permutation_sym, sort_perm|exact H].
    - eapply Permutation_in; [apply sort_perm|exact H].
  Qed.

  Lemma union_scan_lit x v2 : lit x = true -> all_lit v2 ->
    exists r, union_scan is_sub x v2 = Ok r /\ match r with Some y => y | None => x end = x.
  Proof.
    intros Hx. induction v2 as [|y v2 IH]; cbn [union_scan forallb]; intros Hl.
    - eexists; split; reflexivity.
    - apply andb_prop in Hl as [Hy Hl]. rewrite (is_sub_lit _ _ Hx Hy). cbn [bind].
      destruct (eqb x y) eqn:E.
      + eexists; split; [reflexivity|]. apply eqb_spec in E. auto.
      + rewrite (is_sub_lit _ _ Hy Hx). cbn [bind]. rewrite eqb_sym, E. apply IH; assumption.
  Qed.

  Lemma related_lit y v1 : lit y = true -> all_lit v1 -> related_to_any is_sub y v1 = Ok (existsb (eqb y) v1).
  Proof.
    intros Hy. induction v1 as [|x v1 IH]; cbn [related_to_any forallb existsb]; intros Hl; [reflexivity|].
    apply andb_prop in Hl as [Hx Hl]. rewrite (is_sub_lit _ _ Hy Hx). cbn [bind].
    destruct (eqb y x) eqn:E; [reflexivity|].
    rewrite (is_sub_lit _ _ Hx Hy). cbn [bind]. rewrite eqb_sym, E. cbn [orb]. apply IH; assumption.
  Qed.

  Theorem sub_vec_union_lit v1 v2 : all_lit v1 -> all_lit v2 ->
    exists v, sub_vec_union is_sub leb v1 v2 = Ok v /\ all_lit v /\ forall x, In x v <-> In x v1 \/ In x v2.
  Proof.
    intros H1 H2. unfold sub_vec_union.
    assert (F : map_res (fun x => do r <- union_scan is_sub x v2; Ok match r with Some y => y | None => x end) v1 = Ok v1).
    { clear -H1 H2 is_sub_lit eqb_spec. induction v1 as [|x v1 IH]; cbn [map_res forallb] in *; [reflexivity|].
      apply andb_prop in H1 as [Hx H1]. destruct (union_scan_lit x v2 Hx H2) as [r [-> Hr]]. cbn [bind].
      rewrite Hr, (IH H1). reflexivity. }
    rewrite F. cbn [bind].
    assert (G : (fix go (l : list K) : res (list K) :=
                   match l with
                   | [] => Ok []
                   | y :: l' => do rel <- related_to_any is_sub y v1; do rest <- go l'; Ok (if rel then rest else y :: rest)
                   end) v2 = Ok (filter (fun y => negb (existsb (eqb y) v1)) v2)).
    { clear F. induction v2 as [|y v2 IH]; cbn [forallb filter] in *; [reflexivity|].
      apply andb_prop in H2 as [Hy H2]. rewrite (related_lit y v1 Hy H1). cbn [bind]. rewrite (IH H2). cbn [bind].
      destruct (existsb (eqb y) v1); reflexivity. }
    rewrite G. cbn [bind]. eexists. split; [reflexivity|]. split.
    - rewrite forallb_forall in *. intros x Hx. apply (proj1 (In_sort _ _)) in Hx. apply in_app_or in Hx as [Hx|Hx]; [auto|].
      apply filter_In in Hx as [Hx _]. auto.
    - intros x. rewrite In_sort, in_app_iff, filter_In. split.
      + intros [H|[H _]]; auto.
      + intros [H|H]; [auto|]. destruct (existsb (eqb x) v1) eqn:E.
        * left. apply existsb_eqb_In. exact E.
        * right. split; [exact H|reflexivity].
  Qed.

  Lemma sub_of_any_lit x v2 : lit x = true -> all_lit v2 -> sub_of_any is_sub x v2 = Ok (existsb (eqb x) v2).
  Proof.
    intros Hx. induction v2 as [|y v2 IH]; cbn [sub_of_any forallb existsb]; intros Hl; [reflexivity|].
    apply andb_prop in Hl as [Hy Hl]. rewrite (is_sub_lit _ _ Hx Hy). cbn [bind].
    destruct (eqb x y); [reflexivity|]. apply IH; assumption.
  Qed.

  Theorem sub_vec_diff_lit v1 v2 : all_lit v1 -> all_lit v2 ->
    exists v, sub_vec_diff is_sub leb v1 v2 = Ok v /\ all_lit v /\ forall x, In x v <-> In x v1 /\ ~ In x v2.
  Proof.
    intros H1 H2. unfold sub_vec_diff.
    assert (G : (fix go (l : list K) : res (list K) :=
                   match l with
                   | [] => Ok []
                   | x :: l' => do s <- sub_of_any is_sub x v2; do rest <- go l'; Ok (if s then rest else x :: rest)
                   end) v1 = Ok (filter (fun x => negb (existsb (eqb x) v2)) v1)).
    { induction v1 as [|x v1 IH]; cbn [forallb filter] in *; [reflexivity|].
      apply andb_prop in H1 as [Hx H1]. rewrite (sub_of_any_lit x v2 Hx H2). cbn [bind]. rewrite (IH H1). cbn [bind].
      destruct (existsb (eqb x) v2); reflexivity. }
    rewrite G. cbn [bind]. eexists. split; [reflexivity|]. split.
    - rewrite forallb_forall in *. intros x Hx. apply (proj1 (In_sort _ _)) in Hx. apply filter_In in Hx as [Hx _]. auto.
    - intros x. rewrite In_sort, filter_In. split.
      + intros [H E]. split; [exact H|]. intros Hin. apply existsb_eqb_In in Hin. rewrite Hin in E. discriminate.
      + intros [H Hn]. split; [exact H|]. destruct (existsb (eqb x) v2) eqn:E; [|reflexivity].
        exfalso. apply Hn. apply existsb_eqb_In. exact E.
  Qed.

  Lemma intersect_row_lit x v2 : lit x = true -> all_lit v2 ->
    exists row, intersect_row is_sub eqb x v2 = Ok row /\ forall y, In y row <-> y = x /\ In x v2.
  Proof.
    intros Hx. induction v2 as [|y v2 IH]; cbn [intersect_row forallb]; intros Hl.
    - exists []. split; [reflexivity|]. intros z. cbn. tauto.
    - apply andb_prop in Hl as [Hy Hl]. destruct (IH Hl) as [row [-> Hrow]]. cbn [bind].
      destruct (eqb x y) eqn:E.
      + apply eqb_spec in E. subst y. eexists. split; [reflexivity|]. intros z. cbn [In]. rewrite Hrow. split.
        * intros [<-|[-> _]]; auto.
        * intros [-> _]. auto.
      + rewrite (is_sub_lit _ _ Hx Hy), E. cbn [bind]. rewrite (is_sub_lit _ _ Hy Hx), eqb_sym, E. cbn [bind].
        eexists. split; [reflexivity|]. intros z. rewrite Hrow. cbn [In]. split.
        * intros [-> H]. auto.
        * intros [-> [H|H]]; [subst; assert (eqb x x = true) by (apply eqb_spec; reflexivity); congruence|auto].
  Qed.

  Lemma dedup_scan_lit item ex : lit item = true -> all_lit ex ->
    dedup_scan is_sub eqb item ex = Ok (negb (existsb (eqb item) ex), ex).
  Proof.
    intros Hi. induction ex as [|e ex IH]; cbn [dedup_scan forallb existsb]; intros Hl; [reflexivity|].
    apply andb_prop in Hl as [He Hl]. destruct (eqb item e) eqn:E; [reflexivity|].
    rewrite (is_sub_lit _ _ Hi He), E. cbn [bind]. rewrite (is_sub_lit _ _ He Hi), eqb_sym, E. cbn [bind].
    rewrite (IH Hl). cbn [bind fst snd orb]. reflexivity.
  Qed.

  Theorem sub_vec_intersect_lit v1 v2 : all_lit v1 -> all_lit v2 ->
    exists v, sub_vec_intersect is_sub eqb leb v1 v2 = Ok v /\ all_lit v /\ forall x, In x v <-> In x v1 /\ In x v2.
  Proof.
    intros H1 H2. unfold sub_vec_intersect.
    assert (R : exists rows, map_res (fun x => intersect_row is_sub eqb x v2) v1 = Ok rows /\
                             forall y, In y (List.concat rows) <-> In y v1 /\ In y v2).
    { clear -H1 H2 is_sub_lit eqb_spec leb. induction v1 as [|x v1 IH]; cbn [map_res forallb] in *.
      - exists []. split; [reflexivity|]. cbn. tauto.
      - apply andb_prop in H1 as [Hx H1]. destruct (intersect_row_lit x v2 Hx H2) as [row [-> Hrow]]. cbn [bind].
        destruct (IH H1) as [rows [-> Hrows]]. cbn [bind]. eexists. split; [reflexivity|].
        intros y. cbn [List.concat In]. rewrite in_app_iff, Hrow, Hrows. split.
        + intros [[-> H]|[Ha Hb]]; auto.
        + intros [[<-|Ha] Hb]; auto. }
    destruct R as [rows [-> Hrows]]. cbn [bind].
    set (items := List.concat rows) in *.
    assert (Hitems : all_lit items).
    { rewrite forallb_forall in *. intros y Hy. apply Hrows in Hy as [Hy _]. auto. }
    assert (D : forall acc, all_lit acc ->
                exists ded, fold_left (fun acc item => do l <- acc; do r <- dedup_scan is_sub eqb item l;
                                                       Ok (if fst r then snd r ++ [item] else snd r)) items (Ok acc) = Ok ded
                            /\ all_lit ded /\ forall x, In x ded <-> In x acc \/ In x items).
    { clear Hrows. induction items as [|it items IH]; intros acc Hacc; cbn [fold_left forallb] in *.
      - exists acc. split; [reflexivity|]. split; [exact Hacc|]. intros x. cbn. tauto.
      - apply andb_prop in Hitems as [Hit Hitems]. cbn [bind]. rewrite (dedup_scan_lit it acc Hit Hacc). cbn [bind fst snd].
        destruct (existsb (eqb it) acc) eqn:E; cbn [negb].
        + destruct (IH Hitems acc Hacc) as [ded [-> [Hd Hin]]]. exists ded. split; [reflexivity|]. split; [exact Hd|].
          intros x. rewrite Hin. cbn [In]. split; [tauto|]. intros [H|[<-|H]]; auto.
          left. apply existsb_eqb_In. exact E.
        + assert (Hacc' : all_lit (acc ++ [it])) by (rewrite forallb_app; cbn; rewrite Hacc, Hit; reflexivity).
          destruct (IH Hitems _ Hacc') as [ded [-> [Hd Hin]]]. exists ded. split; [reflexivity|]. split; [exact Hd|].
          intros x. rewrite Hin, in_app_iff. cbn [In]. tauto. }
    destruct (D [] eq_refl) as [ded [-> [Hd Hin]]]. cbn [bind]. eexists. split; [reflexivity|]. split.
    - rewrite forallb_forall in *. intros x Hx. apply (proj1 (In_sort _ _)) in Hx. auto.
    - intros x. rewrite In_sort, Hin, Hrows. cbn [In]. tauto.
  Qed.
End SubVecEq.
