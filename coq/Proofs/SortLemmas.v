(* SortLemmas.v — sorting by a total order is insensitive to the order of the input. *)
From Beff Require Import Model.Base.
From Coq Require Import Sorting.Permutation Sorting.Sorted Structures.OrderedTypeEx.

Section Sort.
  Context {A : Type} (leb : A -> A -> bool).
  Hypothesis leb_total : forall a b, leb a b = false -> leb b a = true.
  Hypothesis leb_trans : forall a b c, leb a b = true -> leb b c = true -> leb a c = true.
  Hypothesis leb_antisym : forall a b, leb a b = true -> leb b a = true -> a = b.

  Definition le (a b : A) : Prop := leb a b = true.

  Lemma insert_perm x l : Permutation (x :: l) (insert_sorted leb x l).
  Proof.
    induction l as [|y l IH]; cbn; [reflexivity|].
    destruct (leb x y); [reflexivity|].
    rewrite perm_swap. constructor. exact IH.
  Qed.

  Lemma sort_perm l : Permutation l (sort_by leb l).
  Proof.
    induction l as [|x l IH]; cbn; [constructor|].
    rewrite <- insert_perm. constructor. exact IH.
  Qed.

  Lemma insert_sorted_sorted x l : StronglySorted le l -> StronglySorted le (insert_sorted leb x l).
  Proof.
    induction 1 as [|y l Hs IH Hall]; cbn.
    - constructor; constructor.
    - destruct (leb x y) eqn:E.
      + constructor; [constructor; assumption|].
        constructor; [exact E|].
        rewrite Forall_forall in *. intros z Hz. eapply leb_trans; [exact E|]. apply Hall; assumption.
      + constructor; [exact IH|].
        apply leb_total in E.
        rewrite Forall_forall in *. intros z Hz.
        apply (Permutation_in z (Permutation_sym (insert_perm x l))) in Hz.
        destruct Hz as [<-|Hz]; [exact E|apply Hall; assumption].
  Qed.

  Lemma sort_sorted l : StronglySorted le (sort_by leb l).
  Proof.
    induction l as [|x l IH]; cbn; [constructor|apply insert_sorted_sorted; exact IH].
  Qed.

  Lemma sorted_unique l l' :
    StronglySorted le l -> StronglySorted le l' -> Permutation l l' -> l = l'.
  Proof.
    intros Hl. revert l'. induction Hl as [|x l Hs IH Hall]; intros l' Hl' Hp.
    - apply Permutation_nil in Hp. congruence.
    - destruct Hl' as [|y l' Hs' Hall'].
      + apply Permutation_sym, Permutation_nil in Hp. discriminate.
      + rewrite Forall_forall in Hall, Hall'.
        assert (x = y).
        { assert (Hy : In y (x :: l)) by (apply (Permutation_in y (Permutation_sym Hp)); left; reflexivity).
          assert (Hx : In x (y :: l')) by (apply (Permutation_in x Hp); left; reflexivity).
          destruct Hy as [->|Hy]; [reflexivity|].
          destruct Hx as [->|Hx]; [reflexivity|].
          apply leb_antisym; [apply Hall; assumption|apply Hall'; assumption]. }
        subst y. f_equal. apply IH; [assumption|]. eapply Permutation_cons_inv; eauto.
  Qed.

  Theorem sort_by_perm l l' : Permutation l l' -> sort_by leb l = sort_by leb l'.
  Proof.
    intros Hp. apply sorted_unique; try apply sort_sorted.
    rewrite <- (sort_perm l), <- (sort_perm l'). exact Hp.
  Qed.
End Sort.

(* ---------- the string order ---------- *)
Lemma str_leb_total a b : str_leb a b = false -> str_leb b a = true.
Proof.
  unfold str_leb, String.leb. rewrite (String.compare_antisym b a).
  destruct (String.compare a b); cbn; congruence.
Qed.

Lemma str_leb_antisym a b : str_leb a b = true -> str_leb b a = true -> a = b.
Proof.
  unfold str_leb, String.leb. rewrite (String.compare_antisym b a).
  destruct (String.compare a b) eqn:E; cbn; try discriminate.
  intros _ _. apply String.compare_eq_iff. exact E.
Qed.

Lemma str_leb_trans a b c : str_leb a b = true -> str_leb b c = true -> str_leb a c = true.
Proof.
  unfold str_leb, String.leb.
  destruct (String.compare a b) eqn:E1; try discriminate; intros _;
    destruct (String.compare b c) eqn:E2; try discriminate; intros _.
  - apply String.compare_eq_iff in E1. subst. rewrite E2. reflexivity.
  - apply String.compare_eq_iff in E1. subst. rewrite E2. reflexivity.
  - apply String.compare_eq_iff in E2. subst. rewrite E1. reflexivity.
  - change String.compare with String_as_OT.cmp in *.
    apply String_as_OT.cmp_lt in E1. apply String_as_OT.cmp_lt in E2.
    pose proof (String_as_OT.lt_trans _ _ _ E1 E2) as H. apply String_as_OT.cmp_lt in H. rewrite H. reflexivity.
Qed.

Theorem sort_strings_perm l l' : Permutation l l' -> sort_strings l = sort_strings l'.
Proof.
  apply sort_by_perm; [exact str_leb_total|exact str_leb_trans|exact str_leb_antisym].
Qed.

(* ---------- association lists ---------- *)
Lemma assoc_perm {A} (l l' : list (string * A)) :
  Permutation l l' -> NoDup (keys l) -> forall k, assoc k l = assoc k l'.
Proof.
  induction 1 as [|[k0 v0] l l' Hp IH|[k1 v1] [k2 v2] l|l1 l2 l3 H12 IH12 H23 IH23]; intros Hnd k.
  - reflexivity.
  - cbn in *. inversion Hnd; subst. destruct (String.eqb k k0); [reflexivity|apply IH; assumption].
  - cbn in *. inversion Hnd as [|? ? Hnotin Hnd']; subst.
    destruct (String.eqb k k2) eqn:E2, (String.eqb k k1) eqn:E1; try reflexivity.
    apply String.eqb_eq in E1, E2. subst. exfalso. apply Hnotin. left; reflexivity.
  - rewrite IH12 by assumption. apply IH23.
    unfold keys in *. eapply Permutation_NoDup; [apply Permutation_map; exact H12|assumption].
Qed.

(* ---------- sorting records by a unique key ---------- *)
Section SortByKey.
  Context {A : Type}.
  Definition key_leb (a b : string * A) : bool := str_leb (fst a) (fst b).

  Lemma sorted_unique_in (leb : (string * A) -> (string * A) -> bool) l l' :
    (forall a b, In a l -> In b l -> leb a b = true -> leb b a = true -> a = b) ->
    StronglySorted (fun a b => leb a b = true) l -> StronglySorted (fun a b => leb a b = true) l' ->
    Permutation l l' -> l = l'.
  Proof.
    intros Hanti Hl. revert l' Hanti. induction Hl as [|x l Hs IH Hall]; intros l' Hanti Hl' Hp.
    - apply Permutation_nil in Hp. congruence.
    - destruct Hl' as [|y l' Hs' Hall'].
      + apply Permutation_sym, Permutation_nil in Hp. discriminate.
      + rewrite Forall_forall in Hall, Hall'.
        assert (x = y).
        { assert (Hy : In y (x :: l)) by (apply (Permutation_in y (Permutation_sym Hp)); left; reflexivity).
          assert (Hx : In x (y :: l')) by (apply (Permutation_in x Hp); left; reflexivity).
          destruct Hy as [->|Hy]; [reflexivity|].
          destruct Hx as [->|Hx]; [reflexivity|].
          apply Hanti; [left; reflexivity|right; exact Hy|apply Hall; assumption|apply Hall'; assumption]. }
        subst y. f_equal. apply IH; [|assumption|eapply Permutation_cons_inv; eauto].
        intros a b Ha Hb. apply Hanti; right; assumption.
  Qed.

  Lemma NoDup_keys_eq (l : list (string * A)) a b :
    NoDup (keys l) -> In a l -> In b l -> fst a = fst b -> a = b.
  Proof.
    induction l as [|[k v] l IH]; cbn; intros Hnd Ha Hb Hk; [contradiction|].
    inversion Hnd as [|? ? Hnotin Hnd']; subst.
    destruct Ha as [<-|Ha], Hb as [<-|Hb]; auto.
    - exfalso. apply Hnotin. cbn in Hk. rewrite Hk. apply in_map. exact Hb.
    - exfalso. apply Hnotin. cbn in Hk. rewrite <- Hk. apply in_map. exact Ha.
  Qed.

  Theorem sort_by_key_perm (l l' : list (string * A)) :
    Permutation l l' -> NoDup (keys l) -> sort_by key_leb l = sort_by key_leb l'.
  Proof.
    intros Hp Hnd.
    assert (Tot : forall a b : string * A, key_leb a b = false -> key_leb b a = true)
      by (intros a b; apply str_leb_total).
    assert (Tr : forall a b c : string * A, key_leb a b = true -> key_leb b c = true -> key_leb a c = true)
      by (intros a b c; apply str_leb_trans).
    apply (sorted_unique_in key_leb).
    - intros a b Ha Hb H1 H2.
      apply (Permutation_in a (Permutation_sym (sort_perm key_leb l))) in Ha.
      apply (Permutation_in b (Permutation_sym (sort_perm key_leb l))) in Hb.
      apply (NoDup_keys_eq l); auto. apply str_leb_antisym; assumption.
    - apply (sort_sorted key_leb Tot Tr).
    - apply (sort_sorted key_leb Tot Tr).
    - rewrite <- (sort_perm key_leb l), <- (sort_perm key_leb l'). exact Hp.
  Qed.
End SortByKey.
