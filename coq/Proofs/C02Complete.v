(* C02Complete.v — the converse of C02Sound.v on a fragment: a null-free JSON document (distinct keys) that the validator
   accepts with undeclared keys disallowed is valid against the flat schema. *)
From Beff Require Import Model.JsonSchema Proofs.ResLemmas Proofs.C02Sound Proofs.C02Mono.

(* documents: no null anywhere, keys of an object pairwise distinct *)
Fixpoint json_ok (d : json) : bool :=
  match d with
  | JNull => false
  | JArr xs => (fix go (l : list json) : bool := match l with [] => true | x :: l' => json_ok x && go l' end) xs
  | JObj fs => nodup_str (keys fs) && negb (mem_str proto_mark (keys fs))
               && (fix go (l : list (string * json)) : bool := match l with [] => true | (_, x) :: l' => json_ok x && go l' end) fs
  | _ => true
  end.
Lemma json_ok_arr xs : json_ok (JArr xs) = true -> forall x, In x xs -> json_ok x = true.
Proof.
  cbn [json_ok]. induction xs as [|y xs IH]; intros H x Hx; [contradiction|]. apply andb_prop in H as [H1 H2].
  destruct Hx as [<-|Hx]; [exact H1|apply IH; assumption].
Qed.
Lemma json_ok_obj fs : json_ok (JObj fs) = true ->
  nodup_str (keys fs) = true /\ mem_str proto_mark (keys fs) = false /\ forall k x, In (k, x) fs -> json_ok x = true.
Proof.
  cbn [json_ok]. intros H. apply andb_prop in H as [H H3]. apply andb_prop in H as [H1 H2]. apply Bool.negb_true_iff in H2.
  split; [exact H1|]. split; [exact H2|]. clear H1 H2. induction fs as [|[k0 x0] fs IH]; intros k x Hin; [contradiction|].
  apply andb_prop in H3 as [Ha Hb]. destruct Hin as [E|Hin]; [inversion E; subst; exact Ha|apply (IH Hb k x Hin)].
Qed.

Section Frag.
  Variable env : renv.

  (* never accepts undefined or null, and its schema has no null alternative to remove *)
  Fixpoint strict_ty (fuel : nat) (seen : list string) (r : rt) {struct fuel} : bool :=
    match fuel with
    | O => false
    | S f =>
        match r with
        | RMeta _ t => strict_ty f seen t
        | RTypeof _ => true
        | RConst c => match c with CNull => false | _ => true end
        | RAnyOfConsts cs => negb (existsb (fun c => match c with CNull => true | _ => false end) cs)
        | RArray _ | RObject _ _ => true
        | RAnyOf rs => forallb (strict_ty f seen) rs
        | RRef name => negb (mem_str name seen) && match assoc name env with Some t => strict_ty f (name :: seen) t | None => false end
        | _ => false
        end
    end.

  (* a property is a strict type, or an optional strict type (the fuel follows the printer: ROptional takes one level) *)
  Definition prop_ok (f : nat) (seen : list string) (p : rt) : bool :=
    match p with
    | ROptional t => match f with S f' => strict_ty f' seen t | O => false end
    | _ => strict_ty f seen p
    end.

  Fixpoint cfrag (fuel : nat) (seen : list string) (r : rt) {struct fuel} : bool :=
    match fuel with
    | O => false
    | S f =>
        match r with
        | RMeta _ t => cfrag f seen t
        | RTypeof _ | RAny | RNullish _ | RConst _ | RAnyOfConsts _ => true
        | RAnyOf rs => forallb (cfrag f seen) rs
        | RArray t | ROptional t => cfrag f seen t
        | RObject props indexed =>
            match indexed with
            | [] => forallb (fun kp => prop_ok f seen (snd kp) && cfrag f seen (snd kp)) props
            | [(kr, vr)] => cfrag f seen kr && cfrag f seen vr
            | _ => false
            end
        | RRef name => negb (mem_str name seen) && match assoc name env with Some t => cfrag f (name :: seen) t | None => false end
        | _ => false
        end
    end.
End Frag.

Section Strict.
  Variable F : formats.
  Variable env : renv.
  Variable cf : pconf.

  (* a strict type rejects undefined *)
  Lemma strict_rejects_undefined : forall f seen r, strict_ty env f seen r = true ->
    forall fv strict b, validate F env fv strict r VUndef = Ok b -> b = false.
  Proof.
    induction f as [|f IH]; intros seen r Hs fv strict b Hv; [discriminate|].
    destruct fv as [|fv]; [discriminate|].
    destruct r; cbn [strict_ty] in Hs; try discriminate Hs; cbn [validate] in Hv.
    - inversion Hv. destruct t; reflexivity.
    - destruct c; try discriminate Hs; inversion Hv; reflexivity.
    - inversion Hv. cbn [is_nullish andb]. apply Bool.negb_true_iff in Hs. rewrite Hs. cbn [orb].
      clear. induction values as [|c cs IHc]; [reflexivity|]. cbn [existsb]. rewrite IHc. destruct c as [| |[]|]; reflexivity.
    - (* RAnyOf *)
      destruct b; [|reflexivity]. exfalso.
      assert (G : forall rs, forallb (strict_ty env f seen) rs = true -> exists_res (fun m => validate F env fv strict m VUndef) rs = Ok true -> False).
      { induction rs as [|m rs IHr]; cbn [forallb exists_res]; intros Ha He; [discriminate|]. apply andb_prop in Ha as [H0 H1].
        destruct (validate F env fv strict m VUndef) as [[|]|e] eqn:Em; try discriminate.
        - pose proof (IH _ _ H0 _ _ _ Em). discriminate.
        - apply (IHr H1 He). }
      apply (G schemas Hs Hv).
    - inversion Hv; reflexivity.
    - inversion Hv; reflexivity.
    - apply andb_prop in Hs as [_ Hs]. destruct (assoc name env) as [t|]; [|discriminate]. eapply IH; eassumption.
    - eapply IH; eassumption.
  Qed.

  Lemma rnub_annotate_none n desc j : remove_null_union_branch n j = None -> remove_null_union_branch n (annotate desc j) = None.
  Proof.
    destruct desc as [d|]; [|auto]. destruct j as [| | | | |fs]; auto. destruct n as [|n]; [auto|].
    cbn [annotate remove_null_union_branch]. unfold jobj_set.
    rewrite (assoc_set_other "anyOf" "description"), (assoc_set_other "oneOf" "description") by reflexivity.
    destruct (match assoc "anyOf" fs with
              | Some (JArr vs) => Some ("anyOf", vs)
              | _ => match assoc "oneOf" fs with Some (JArr vs) => Some ("oneOf", vs) | _ => None end
              end) as [[key variants]|]; [|auto].
    destruct (Nat.eqb (List.length (filter (fun v => negb (is_null_definition v)) variants)) (List.length variants)
              || Nat.eqb (List.length (filter (fun v => negb (is_null_definition v)) variants)) 0); [auto|].
    destruct (map _ _) as [|one [|two rest]]; discriminate.
  Qed.

  Lemma filter_all {A} (p : A -> bool) l : (forall x, In x l -> p x = true) -> filter p l = l.
  Proof.
    induction l as [|x l IH]; intros H; [reflexivity|]. cbn [filter]. rewrite (H x (or_introl eq_refl)). f_equal. apply IH.
    intros y Hy. apply H. right. exact Hy.
  Qed.

  Definition no_null (j : json) : Prop := is_null_definition j = false /\ forall n, remove_null_union_branch n j = None.

  Lemma no_null_annotate desc j : no_null j -> no_null (annotate desc j).
  Proof. intros [H1 H2]. split; [rewrite is_null_definition_annotate; exact H1|intros n; apply rnub_annotate_none, H2]. Qed.

  Ltac leaf_no_null := split; [vm_compute; reflexivity|let k := fresh "k" in intros [|k]; reflexivity].

  (* the schema of a strict type has no null alternative *)
  Lemma strict_schema_no_null : forall f seen desc c r j c',
    strict_ty env f seen r = true -> sfrag env f seen r = true -> schema env cf Flat f seen desc c r = Ok (j, c') -> no_null j.
  Proof.
    induction f as [|f IH]; intros seen desc c r j c' Hst Hfrag Hs; [discriminate|].
    destruct r; cbn [strict_ty] in Hst; try discriminate Hst; cbn [sfrag] in Hfrag; cbn [schema] in Hs.
    - inversion Hs; subst. apply no_null_annotate. destruct t; leaf_no_null.
    - destruct c0; try discriminate Hst; inversion Hs; subst; apply no_null_annotate; leaf_no_null.
    - (* RAnyOfConsts *)
      destruct values as [|v0 vs]; [inversion Hs; subst; apply no_null_annotate; leaf_no_null|].
      destruct (forallb (fun v => String.eqb (typeof_cst v) (typeof_cst v0)) (v0 :: vs) && negb (String.eqb (typeof_cst v0) "object")) eqn:Esingle;
        inversion Hs; subst; apply no_null_annotate.
      + split; [|let k := fresh "k" in intros [|k]; reflexivity]. destruct v0; reflexivity.
      + leaf_no_null.
    - (* RAnyOf *)
      destruct (smap (fun c' r' => schema env cf Flat f seen None c' r') c schemas) as [[subs c1]|e] eqn:Es; cbn [bind] in Hs; [|discriminate].
      inversion Hs; subst. apply no_null_annotate. apply smap_inv in Es.
      assert (Hsubs : forall s, In s subs -> is_null_definition s = false).
      { intros s Hin. destruct (Forall2_in_r _ _ _ _ Es Hin) as (m & Hm & c1' & c2' & Hms).
        destruct (IH _ _ _ _ _ _ (proj1 (forallb_forall _ _) Hst m Hm) (proj1 (forallb_forall _ _) Hfrag m Hm) Hms) as [H1 _]. exact H1. }
      split; [reflexivity|]. intros [|k]; [reflexivity|]. cbn [remove_null_union_branch assoc String.eqb Ascii.eqb Bool.eqb].
      rewrite (filter_all _ subs) by (intros x Hx; rewrite (Hsubs x Hx); reflexivity). rewrite Nat.eqb_refl. reflexivity.
    - (* RArray *)
      destruct (schema env cf Flat f seen None c r) as [[s c1]|e]; cbn [bind] in Hs; [|discriminate].
      inversion Hs; subst. apply no_null_annotate. leaf_no_null.
    - (* RObject *)
      destruct indexed as [|[kr vr] [|i1 irest]]; [| |discriminate Hfrag].
      + match type of Hs with (do p <- ?X; _) = _ => destruct X as [[xs c1]|e] end; cbn [bind] in Hs; [|discriminate].
        cbn [smap bind fst snd] in Hs. inversion Hs; subst. apply no_null_annotate.
        match goal with |- context [match ?R with [] => [] | _ :: _ => _ end] => destruct R end; leaf_no_null.
      + destruct props as [|p0 props]; [|discriminate Hfrag].
        cbn [smap bind fst snd fold_left map filter app] in Hs.
        destruct (schema env cf Flat f seen None c kr) as [[ks c1]|e]; cbn [bind fst snd] in Hs; [|discriminate].
        destruct (schema env cf Flat f seen None c1 vr) as [[vs c2]|e]; cbn [bind fst snd] in Hs; [|discriminate].
        destruct (strip_meta_top vr); inversion Hs; subst; apply no_null_annotate; leaf_no_null.
    - (* RRef *)
      apply andb_prop in Hst as [_ Hst]. apply andb_prop in Hfrag as [Hseen Hfrag]. apply Bool.negb_true_iff in Hseen.
      destruct (assoc name env) as [t|] eqn:Ea; [|discriminate]. rewrite Hseen in Hs.
      destruct (schema env cf Flat f (name :: seen) None c t) as [[s c1]|e] eqn:Es; cbn [bind] in Hs; [|discriminate].
      inversion Hs; subst. apply no_null_annotate. eapply IH; eassumption.
    - (* RMeta *) eapply IH; eassumption.
  Qed.
End Strict.

(* ---------- helpers ---------- *)
Lemma exists_res_true_some {A} (p : A -> res bool) l : exists_res p l = Ok true -> exists x, In x l /\ p x = Ok true.
Proof.
  induction l as [|y l IH]; cbn [exists_res]; intros H; [discriminate|].
  destruct (p y) as [[|]|e] eqn:E; try discriminate.
  - exists y. split; [left; reflexivity|exact E].
  - destruct (IH H) as [x [Hx Hp]]. exists x. split; [right; exact Hx|exact Hp].
Qed.

Lemma common_fuel {A} (Q : nat -> A -> bool) (l : list A) :
  (forall f f' a, f <= f' -> Q f a = true -> Q f' a = true) ->
  (forall a, In a l -> exists f, Q f a = true) -> exists f, forallb (Q f) l = true.
Proof.
  intros Hm. induction l as [|a l IH]; intros H; [exists 0; reflexivity|].
  destruct (H a (or_introl eq_refl)) as [f1 H1]. destruct (IH (fun b Hb => H b (or_intror Hb))) as [f2 H2].
  exists (Nat.max f1 f2). cbn [forallb]. rewrite (Hm f1 _ a (Nat.le_max_l _ _) H1). cbn [andb].
  apply forallb_forall. intros b Hb. apply (Hm f2 _ b (Nat.le_max_r _ _)). exact (proj1 (forallb_forall _ _) H2 b Hb).
Qed.

Lemma forallb_true {A} (l : list A) : forallb (fun _ => true) l = true.
Proof. induction l; cbn; auto. Qed.

Lemma js_valid_empty f d : js_valid R0 (S f) (JObj []) d = true.
Proof.
  cbn [js_valid assoc]. cbn [andb]. destruct d; try reflexivity; cbn [combine forallb skipn List.length andb assoc]; rewrite ?forallb_true; reflexivity.
Qed.

Lemma json_not_nullish fz v d : val_to_json fz v = Some d -> json_ok d = true -> is_nullish v = false.
Proof.
  intros Hz Hok. apply val_to_json_inv in Hz. destruct d; try discriminate Hok; try (subst v; reflexivity).
  - destruct Hz as [[-> _]|[-> _]]; reflexivity.
  - destruct Hz as (ys & -> & _). reflexivity.
  - destruct Hz as (ofs & -> & _). reflexivity.
Qed.

(* the closed object node, introduction *)
Lemma js_valid_closed_intro f properties required fields :
  forallb (fun kv => match assoc (fst kv) properties with Some ps => js_valid R0 f ps (snd kv) | None => true end) fields = true ->
  forallb (fun r => match r with JStr k => mem_str k (keys fields) | _ => true end) required = true ->
  forallb (fun kv => mem_str (fst kv) (keys properties)) fields = true ->
  js_valid R0 (S f) (closed_node properties required) (JObj fields) = true.
Proof.
  intros H1 H2 H3. unfold closed_node.
  assert (Hadd : forallb (fun kv : string * json => mem_str (fst kv) (keys properties) || js_valid R0 f (JBool false) (snd kv)) fields = true).
  { revert H3. apply forallb_impl. intros kv _ H. rewrite H. reflexivity. }
  destruct required as [|r0 rq]; cbn [app]; cbn [js_valid assoc String.eqb Ascii.eqb Bool.eqb]; cbn [json_type_is String.eqb Ascii.eqb Bool.eqb andb];
    rewrite H1, Hadd, ?H2; reflexivity.
Qed.

Section Complete.
  Variable F : formats.
  Variable env : renv.
  Variable cf : pconf.

  Definition complete_for (r : rt) (j : json) : Prop :=
    forall v d fz fv, val_to_json fz v = Some d -> json_ok d = true -> validate F env fv true r v = Ok true ->
                      exists fj, js_valid R0 fj j d = true.
  Definition mono (j : json) : Prop := forall n, mono_ok n j = true.

  Lemma complete_annotate desc r j : complete_for r j -> complete_for r (annotate desc j).
  Proof. intros H v d fz fv Hz Hok Hv. destruct (H v d fz fv Hz Hok Hv) as [fj Hj]. exists fj. rewrite js_valid_annotate. exact Hj. Qed.
  Lemma complete_meta s r j : complete_for r j -> complete_for (RMeta s r) j.
  Proof. intros H v d fz fv Hz Hok Hv. destruct fv as [|fv]; [discriminate|]. cbn [validate] in Hv. eapply H; eassumption. Qed.
  Lemma complete_ref name t j : assoc name env = Some t -> complete_for t j -> complete_for (RRef name) j.
  Proof. intros Ha H v d fz fv Hz Hok Hv. destruct fv as [|fv]; [discriminate|]. cbn [validate] in Hv. rewrite Ha in Hv. eapply H; eassumption. Qed.

  Lemma complete_typeof t : complete_for (RTypeof t) (JObj [("type", JStr (tyname_str t))]).
  Proof.
    intros v d fz fv Hz Hok Hv. destruct fv as [|fv]; [discriminate|]. cbn [validate] in Hv. exists 1.
    apply val_to_json_inv in Hz.
    destruct t, d; try discriminate Hok;
      try (subst v; cbn in Hv; try discriminate Hv; vm_compute; reflexivity);
      try (destruct Hz as [[-> _]|[-> _]]; cbn in Hv; try discriminate Hv; vm_compute; reflexivity);
      try (destruct Hz as (ys & -> & _); cbn in Hv; discriminate Hv).
  Qed.

  Lemma complete_any : complete_for RAny (JObj []).
  Proof. intros v d fz fv _ _ _. exists 1. apply js_valid_empty. Qed.

  Lemma complete_nullish s j : complete_for (RNullish s) j.
  Proof.
    intros v d fz fv Hz Hok Hv. destruct fv as [|fv]; [discriminate|]. cbn [validate] in Hv. inversion Hv as [Hn].
    rewrite (json_not_nullish _ _ _ Hz Hok) in Hn. discriminate.
  Qed.

  Lemma strict_match c v d fz : val_to_json fz v = Some d -> cst_same_value_zero c v = true -> c <> CNull ->
    json_eqb (cst_json_val c) d = true /\ json_type_is (typeof_cst c) d = true.
  Proof.
    intros Hz Hs Hn. apply val_to_json_inv in Hz.
    destruct c as [|cb|cn|cs]; [congruence| | |]; destruct v; cbn [cst_same_value_zero cst_strict_eqb] in Hs; try discriminate Hs;
      destruct d; try discriminate Hz; try (destruct Hz as [[Hz _]|[Hz _]]; discriminate Hz);
      try (destruct Hz as (ys & Hz & _); discriminate Hz).
    - inversion Hz; subst. split; [exact Hs|reflexivity].
    - destruct Hz as [[Hz [z ->]]|[Hz [s ->]]]; inversion Hz; subst; (split; [|reflexivity]); cbn [cst_json_val json_eqb];
        destruct cn; cbn in Hs |- *; try discriminate Hs; exact Hs.
    - inversion Hz; subst. split; [exact Hs|reflexivity].
  Qed.

  Lemma js_valid_const cj d : json_eqb cj d = true -> match d with JArr _ | JObj _ => False | _ => True end ->
    js_valid R0 1 (JObj [("const", cj)]) d = true.
  Proof.
    intros He Hd. cbn [js_valid assoc String.eqb Ascii.eqb Bool.eqb]. rewrite He. destruct d; try reflexivity; contradiction.
  Qed.
  Lemma eqb_scalar c d : json_eqb (cst_json_val c) d = true -> match d with JArr _ | JObj _ => False | _ => True end.
  Proof. destruct c, d; cbn; try discriminate; auto. Qed.

  Lemma strict_svz c v : cst_strict_eqb c v = true -> cst_same_value_zero c v = true.
  Proof. destruct c, v; cbn; try discriminate; auto. destruct n, n0; cbn; auto. Qed.

  Lemma complete_const c : complete_for (RConst c) (JObj [("const", cst_json_val c)]).
  Proof.
    intros v d fz fv Hz Hok Hv. destruct fv as [|fv]; [discriminate|].
    assert (Hc : c = CNull \/ (c <> CNull /\ cst_strict_eqb c v = true)).
    { destruct c; [left; reflexivity| | |]; right; (split; [discriminate|]); cbn [validate] in Hv; inversion Hv; reflexivity. }
    destruct Hc as [->|[Hn Hm]].
    - cbn [validate] in Hv. inversion Hv as [Hm]. rewrite (json_not_nullish _ _ _ Hz Hok) in Hm. discriminate.
    - destruct (strict_match c v d fz Hz (strict_svz c v Hm) Hn) as [He _].
      exists 1. apply js_valid_const; [exact He|apply (eqb_scalar c d He)].
  Qed.

  Lemma complete_consts cs : complete_for (RAnyOfConsts cs) (consts_node cs).
  Proof.
    intros v d fz fv Hz Hok Hv. destruct fv as [|fv]; [discriminate|]. cbn [validate] in Hv. injection Hv as Hm.
    rewrite (json_not_nullish _ _ _ Hz Hok) in Hm. cbn [andb orb] in Hm.
    apply existsb_exists in Hm as [c [Hc Hcv]].
    assert (Hn : c <> CNull).
    { intros ->. destruct v; cbn in Hcv; try discriminate. apply val_to_json_inv in Hz. destruct d; try discriminate Hz; try discriminate Hok;
        try (destruct Hz as [[Hz _]|[Hz _]]; discriminate Hz); try (destruct Hz as (ys & Hz & _); discriminate Hz). }
    destruct (strict_match c v d fz Hz Hcv Hn) as [He Ht].
    assert (Hen : existsb (fun cj => json_eqb cj d) (map cst_json_val cs) = true).
    { apply existsb_exists. exists (cst_json_val c). split; [apply in_map; exact Hc|exact He]. }
    pose proof (eqb_scalar c d He) as Hsc.
    exists 1. unfold consts_node. destruct cs as [|v0 cs']; [contradiction|].
    destruct (forallb (fun v1 => String.eqb (typeof_cst v1) (typeof_cst v0)) (v0 :: cs') && negb (String.eqb (typeof_cst v0) "object")) eqn:Es.
    - apply andb_prop in Es as [Hall _]. pose proof (proj1 (forallb_forall _ _) Hall c Hc) as Hty. apply String.eqb_eq in Hty.
      cbn [js_valid assoc String.eqb Ascii.eqb Bool.eqb]. rewrite <- Hty, Ht, Hen. destruct d; try discriminate Hok; try reflexivity; exfalso; exact Hsc.
    - cbn [js_valid assoc String.eqb Ascii.eqb Bool.eqb]. rewrite Hen. destruct d; try discriminate Hok; try reflexivity; exfalso; exact Hsc.
  Qed.

  Lemma complete_anyof rs subs : Forall2 complete_for rs subs -> complete_for (RAnyOf rs) (JObj [("anyOf", JArr subs)]).
  Proof.
    intros HF v d fz fv Hz Hok Hv. destruct fv as [|fv]; [discriminate|]. cbn [validate] in Hv.
    destruct (exists_res_true_some _ _ Hv) as (m & Hm & Hmv). cbv beta in Hmv.
    destruct (Forall2_in_l _ _ _ _ HF Hm) as (s & Hs & Hc). destruct (Hc v d fz fv Hz Hok Hmv) as [fj Hj].
    exists (S fj). rewrite (js_valid_anyof_node fj [("anyOf", JArr subs)] subs d eq_refl eq_refl).
    apply existsb_exists. exists s. split; assumption.
  Qed.

  Lemma complete_optional t s : complete_for t s -> complete_for (ROptional t) (JObj [("anyOf", JArr [s; JObj [("type", JStr "null")]])]).
  Proof.
    intros Hc v d fz fv Hz Hok Hv. destruct fv as [|fv]; [discriminate|]. cbn [validate] in Hv.
    rewrite (json_not_nullish _ _ _ Hz Hok) in Hv. destruct (Hc v d fz fv Hz Hok Hv) as [fj Hj].
    exists (S fj). rewrite (js_valid_anyof_node fj [("anyOf", JArr [s; JObj [("type", JStr "null")]])] _ d eq_refl eq_refl).
    cbn [existsb]. rewrite Hj. reflexivity.
  Qed.

  Lemma complete_array t s : mono s -> complete_for t s -> complete_for (RArray t) (JObj [("type", JStr "array"); ("items", s)]).
  Proof.
    intros Hm Hc v d fz fv Hz Hok Hv. destruct fv as [|fv]; [discriminate|]. cbn [validate] in Hv.
    destruct v; try discriminate Hv. apply val_to_json_inv in Hz.
    destruct d; try discriminate Hz; try (destruct Hz as [[Hz _]|[Hz _]]; discriminate Hz); try (destruct Hz as (ys & Hz & _); discriminate Hz).
    destruct Hz as (ys & Hy & HF). inversion Hy; subst ys. clear Hy.
    destruct (common_fuel (fun f => js_valid R0 f s) xs0) as [fj Hj].
    - intros f f' a Hle. apply js_valid_mono_le; assumption.
    - intros xd Hxd. destruct (Forall2_in_r _ _ _ _ HF Hxd) as (x & Hx & Hzx).
      apply (Hc x xd _ fv Hzx (json_ok_arr _ Hok xd Hxd)). exact (forall_res_true_inv _ _ Hv x Hx).
    - exists (S fj). cbn [js_valid assoc String.eqb Ascii.eqb Bool.eqb]. cbn [json_type_is String.eqb Ascii.eqb Bool.eqb andb combine forallb List.length skipn].
      rewrite Hj. reflexivity.
  Qed.

  (* ---- closed objects ---- *)
  Definition prop_relc (kp : string * rt) (x : string * json * bool) : Prop :=
    fst (fst x) = fst kp /\ mono (snd (fst x)) /\
    ((snd x = false /\ (forall fv strict b, validate F env fv strict (snd kp) VUndef = Ok b -> b = false) /\ complete_for (snd kp) (snd (fst x)))
     \/ (snd x = true /\ exists t, snd kp = ROptional t /\ complete_for t (snd (fst x)))).

  Lemma fields_in fz fs fields k xd : fields_rel fz fs fields -> In (k, xd) fields -> exists xv, In (k, xv) fs /\ val_to_json fz xv = Some xd.
  Proof.
    induction 1 as [|[k1 x1] [k2 d2] fs fields [Hk Hx] _ IH]; intros Hin; [contradiction|]. cbn [fst snd] in *. subst k2.
    destruct Hin as [E|Hin]; [inversion E; subst; exists x1; split; [left; reflexivity|exact Hx]|].
    destruct (IH Hin) as (xv & Hxv & Hz). exists xv. split; [right; exact Hxv|exact Hz].
  Qed.

  Lemma complete_object props xs :
    nodup_str (keys props) = true -> forallb safe_key (keys props) = true -> Forall2 prop_relc props xs ->
    complete_for (RObject props [])
      (closed_node (map (fun x : string * json * bool => (fst (fst x), snd (fst x))) xs)
                   (map (fun x : string * json * bool => JStr (fst (fst x))) (filter (fun x => negb (snd x)) xs))).
  Proof.
    intros Hnd Hsafe HF v d fz fv Hz Hok Hv. destruct fv as [|fv]; [discriminate|].
    set (properties := map (fun x : string * json * bool => (fst (fst x), snd (fst x))) xs).
    assert (Hkeys : keys properties = keys props).
    { unfold properties, keys. rewrite map_map. cbn [fst]. clear -HF. induction HF as [|kp x l l' [Hk _] _ IH]; cbn [map]; [reflexivity|]. rewrite Hk. f_equal. exact IH. }
    (* the value is an object *)
    cbn [validate] in Hv.
    destruct (is_object_type v && negb (is_array v) && negb (match v with VNull => true | _ => false end)) eqn:Eobj; [|discriminate Hv].
    apply val_to_json_inv in Hz.
    destruct d as [| | | |ds|fields]; try discriminate Hok;
      try (subst v; discriminate Eobj); try (destruct Hz as [[-> _]|[-> _]]; discriminate Eobj);
      try (destruct Hz as (ys & -> & _); discriminate Eobj).
    destruct Hz as (fs & -> & Hrel). pose proof (fields_keys _ _ _ Hrel) as Hfk.
    destruct (json_ok_obj _ Hok) as (Hdn & Hpm & Hsub).
    destruct (forall_res (fun kp => validate F env fv true (snd kp) (get (VObj fs) (fst kp))) props) as [[|]|e] eqn:Ef; cbn [bind negb] in Hv; try discriminate.
    destruct (filter (fun k => negb (mem_str k (keys props))) (own_keys (VObj fs))) as [|k0 ks] eqn:Eextra; [|discriminate Hv].
    (* every key of the document is a declared one *)
    assert (Hdecl : forall k xd, In (k, xd) fields -> mem_str k (keys props) = true).
    { intros k xd Hin. destruct (mem_str k (keys props)) eqn:Em; [reflexivity|]. exfalso.
      assert (Hk : In k (own_keys (VObj fs))).
      { cbn [own_keys]. apply filter_In. split; [rewrite Hfk; apply in_map_iff; exists (k, xd); auto|].
        destruct (String.eqb k proto_mark) eqn:Ep; [|reflexivity]. apply String.eqb_eq in Ep. subst k.
        assert (In proto_mark (keys fields)) by (apply in_map_iff; exists (proto_mark, xd); auto). apply mem_str_In in H. congruence. }
      assert (In k (filter (fun k => negb (mem_str k (keys props))) (own_keys (VObj fs)))) by (apply filter_In; rewrite Em; auto).
      rewrite Eextra in H. contradiction. }
    (* each present field is valid against its property schema, at some fuel *)
    assert (Hfield : forall kv, In kv fields -> exists f, (fun f kv => match assoc (fst kv) properties with Some ps => js_valid R0 f ps (snd kv) | None => true end) f kv = true).
    { intros [k xd] Hin. cbn [fst snd]. destruct (fields_in _ _ _ _ _ Hrel Hin) as (xv & Hxv & Hzx).
      assert (Hget : get (VObj fs) k = xv).
      { cbn [get]. rewrite (assoc_nodup_in k xv fs); [reflexivity|rewrite Hfk; exact Hdn|exact Hxv]. }
      pose proof (Hdecl k xd Hin) as Hmem. apply mem_str_In in Hmem. apply in_map_iff in Hmem as [kp [Hkp Hin']].
      destruct (Forall2_in_l _ _ _ _ HF Hin') as (x & Hx & Hkx & Hmx & Hcase).
      assert (Hps : assoc k properties = Some (snd (fst x))).
      { apply assoc_nodup_in; [rewrite Hkeys; exact Hnd|]. unfold properties. apply in_map_iff. exists x. rewrite Hkx, Hkp. auto. }
      rewrite Hps. pose proof (forall_res_true_inv _ _ Ef kp Hin') as Hvk. cbv beta in Hvk. rewrite Hkp, Hget in Hvk.
      pose proof (Hsub k xd Hin) as Hokx.
      destruct Hcase as [(_ & _ & Hc)|(_ & t & Et & Hc)].
      - apply (Hc xv xd _ fv Hzx Hokx Hvk).
      - rewrite Et in Hvk. destruct fv as [|fv']; [discriminate|]. cbn [validate] in Hvk.
        rewrite (json_not_nullish _ _ _ Hzx Hokx) in Hvk. apply (Hc xv xd _ fv' Hzx Hokx Hvk). }
    destruct (common_fuel (fun f kv => match assoc (fst kv) properties with Some ps => js_valid R0 f ps (snd kv) | None => true end) fields) as [fj Hj].
    { intros f f' [k xd] Hle. cbn [fst snd]. destruct (assoc k properties) as [ps|] eqn:Ea; [|auto].
      apply js_valid_mono_le; [|exact Hle]. apply assoc_In in Ea. unfold properties in Ea. apply in_map_iff in Ea as [x [E Hx]]. inversion E; subst.
      destruct (Forall2_in_r _ _ _ _ HF Hx) as (kp & _ & _ & Hmx & _). exact Hmx. }
    { exact Hfield. }
    exists (S fj). apply js_valid_closed_intro; [exact Hj| |].
    - (* required keys are present *)
      apply forallb_forall. intros rj Hr. apply in_map_iff in Hr as [x [<- Hx]]. apply filter_In in Hx as [Hx Hflag].
      apply Bool.negb_true_iff in Hflag.
      destruct (Forall2_in_r _ _ _ _ HF Hx) as (kp & Hkp & Hkx & _ & Hcase). rewrite Hkx.
      destruct Hcase as [(_ & Hrej & _)|(Hf & _)]; [|congruence].
      destruct (mem_str (fst kp) (keys fields)) eqn:Em; [reflexivity|]. exfalso.
      pose proof (forall_res_true_inv _ _ Ef kp Hkp) as Hvk. cbv beta in Hvk. cbn [get] in Hvk.
      assert (Ha : assoc (fst kp) fs = None).
      { destruct (assoc (fst kp) fs) eqn:Ea; [|reflexivity]. apply assoc_In in Ea.
        assert (In (fst kp) (keys fs)) by (apply in_map_iff; exists (fst kp, v); auto). rewrite Hfk in H. apply mem_str_In in H. congruence. }
      rewrite Ha in Hvk.
      assert (Hs : safe_key (fst kp) = true) by (rewrite forallb_forall in Hsafe; apply Hsafe; apply in_map; exact Hkp).
      unfold safe_key in Hs. apply andb_prop in Hs as [Hs1 Hs2]. apply Bool.negb_true_iff in Hs1, Hs2. rewrite Hs1, Hs2 in Hvk.
      pose proof (Hrej _ _ _ Hvk). discriminate.
    - apply forallb_forall. intros [k xd] Hin. cbn [fst]. rewrite Hkeys. apply (Hdecl k xd Hin).
  Qed.

  (* ---- records ---- *)
  Lemma complete_record kr vr ks vs : mono ks -> mono vs -> complete_for kr ks -> complete_for vr vs ->
    complete_for (RObject [] [(kr, vr)]) (JObj [("type", JStr "object"); ("additionalProperties", vs); ("propertyNames", ks)]).
  Proof.
    intros Mk Mv Ck Cv v d fz fv Hz Hok Hv. destruct fv as [|fv]; [discriminate|]. cbn [validate] in Hv.
    destruct (is_object_type v && negb (is_array v) && negb (match v with VNull => true | _ => false end)) eqn:Eobj; [|discriminate Hv].
    apply val_to_json_inv in Hz.
    destruct d as [| | | |ds|fields]; try discriminate Hok;
      try (subst v; discriminate Eobj); try (destruct Hz as [[-> _]|[-> _]]; discriminate Eobj);
      try (destruct Hz as (ys & -> & _); discriminate Eobj).
    destruct Hz as (fs & -> & Hrel). pose proof (fields_keys _ _ _ Hrel) as Hfk.
    destruct (json_ok_obj _ Hok) as (Hdn & Hpm & Hsub).
    cbn [forall_res bind negb keys map mem_str] in Hv.
    assert (Hown : forall k xd, In (k, xd) fields -> In k (filter (fun k0 => negb false) (own_keys (VObj fs)))).
    { intros k xd Hin. apply filter_In. split; [|reflexivity]. cbn [own_keys]. apply filter_In.
      split; [rewrite Hfk; apply in_map_iff; exists (k, xd); auto|].
      destruct (String.eqb k proto_mark) eqn:Ep; [|reflexivity]. apply String.eqb_eq in Ep. subst k.
      assert (In proto_mark (keys fields)) by (apply in_map_iff; exists (proto_mark, xd); auto). apply mem_str_In in H. congruence. }
    assert (Hfield : forall kv, In kv fields -> exists f, (fun f kv => js_valid R0 f vs (snd kv) && js_valid R0 f ks (JStr (fst kv))) f kv = true).
    { intros [k xd] Hin. cbn [fst snd]. destruct (fields_in _ _ _ _ _ Hrel Hin) as (xv & Hxv & Hzx).
      pose proof (forall_res_true_inv _ _ Hv k (Hown k xd Hin)) as Hk. cbv beta in Hk. cbn [exists_res fst snd] in Hk.
      destruct (validate F env fv true kr (VStr k)) as [[|]|e] eqn:Ekv; cbn [bind negb] in Hk; try discriminate.
      assert (Hget : get (VObj fs) k = xv).
      { cbn [get]. rewrite (assoc_nodup_in k xv fs); [reflexivity|rewrite Hfk; exact Hdn|exact Hxv]. }
      rewrite Hget in Hk. destruct (validate F env fv true vr xv) as [[|]|e] eqn:Evv; try discriminate.
      destruct (Ck (VStr k) (JStr k) 1 fv eq_refl eq_refl Ekv) as [f1 H1].
      destruct (Cv xv xd _ fv Hzx (Hsub k xd Hin) Evv) as [f2 H2].
      exists (Nat.max f1 f2). rewrite (js_valid_mono_le vs xd Mv f2 _ (Nat.le_max_r _ _) H2), (js_valid_mono_le ks (JStr k) Mk f1 _ (Nat.le_max_l _ _) H1). reflexivity. }
    destruct (common_fuel (fun f kv => js_valid R0 f vs (snd kv) && js_valid R0 f ks (JStr (fst kv))) fields) as [fj Hj].
    { intros f f' [k xd] Hle H. cbn [fst snd] in *. apply andb_prop in H as [H1 H2].
      rewrite (js_valid_mono_le vs xd Mv f f' Hle H1), (js_valid_mono_le ks (JStr k) Mk f f' Hle H2). reflexivity. }
    { exact Hfield. }
    exists (S fj). cbn [js_valid assoc String.eqb Ascii.eqb Bool.eqb]. cbn [json_type_is String.eqb Ascii.eqb Bool.eqb andb keys map mem_str orb assoc].
    rewrite forallb_true. cbn [andb].
    assert (H1 : forallb (fun kv : string * json => js_valid R0 fj vs (snd kv)) fields = true).
    { revert Hj. apply forallb_impl. intros kv _ H. apply andb_prop in H as [H _]. exact H. }
    assert (H2 : forallb (fun kv : string * json => js_valid R0 fj ks (JStr (fst kv))) fields = true).
    { revert Hj. apply forallb_impl. intros kv _ H. apply andb_prop in H as [_ H]. exact H. }
    rewrite H1, H2. reflexivity.
  Qed.

  (* a record whose values are `any`: additionalProperties is true *)
  Lemma complete_any_true r : strip_meta_top r = RAny -> complete_for r (JBool true).
  Proof. intros _ v d fz fv _ _ _. exists 1. reflexivity. Qed.

  Lemma optional_rnub s n : no_null s ->
    remove_null_union_branch (S n) (JObj [("anyOf", JArr [s; JObj [("type", JStr "null")]])]) = Some s.
  Proof.
    intros [H1 H2]. cbn [remove_null_union_branch assoc String.eqb Ascii.eqb Bool.eqb filter]. rewrite H1. cbn [negb].
    change (is_null_definition (JObj [("type", JStr "null")])) with true. cbn [negb List.length Nat.eqb orb map]. rewrite H2. reflexivity.
  Qed.

  Opaque validate js_valid nice remove_null_union_branch annotate mono_ok.
  Theorem schema_flat_complete : forall fs seen desc c r j c',
    sfrag env fs seen r = true -> cfrag env fs seen r = true -> schema env cf Flat fs seen desc c r = Ok (j, c') -> complete_for r j.
  Proof.
    induction fs as [fs IH] using lt_wf_ind. intros seen desc c r j c' Hfrag Hc Hs.
    destruct fs as [|f]; [discriminate|].
    assert (IHf : forall seen desc c r j c', sfrag env f seen r = true -> cfrag env f seen r = true ->
                  schema env cf Flat f seen desc c r = Ok (j, c') -> complete_for r j) by (apply IH; lia).
    destruct r; cbn [sfrag] in Hfrag; try discriminate Hfrag; cbn [cfrag] in Hc; cbn [schema] in Hs.
    - inversion Hs; subst. apply complete_annotate, complete_typeof.
    - inversion Hs; subst. apply complete_annotate, complete_any.
    - inversion Hs; subst. apply complete_nullish.
    - destruct c0; inversion Hs; subst; apply complete_annotate, complete_const.
    - (* RAnyOfConsts *)
      assert (E : j = annotate desc (consts_node values)).
      { unfold consts_node. destruct values as [|v0 vs]; [inversion Hs; reflexivity|].
        destruct (forallb (fun v => String.eqb (typeof_cst v) (typeof_cst v0)) (v0 :: vs) && negb (String.eqb (typeof_cst v0) "object"));
          inversion Hs; reflexivity. }
      subst j. apply complete_annotate, complete_consts.
    - (* RAnyOf *)
      destruct (smap (fun c' r' => schema env cf Flat f seen None c' r') c schemas) as [[subs c1]|e] eqn:Es; cbn [bind] in Hs; [|discriminate].
      inversion Hs; subst. apply complete_annotate, complete_anyof. apply smap_inv in Es. clear -Es Hfrag Hc IHf.
      induction Es as [|m s ms subs (c1 & c2 & Hms) _ IH2]; [constructor|].
      cbn [forallb] in Hfrag, Hc. apply andb_prop in Hfrag as [F0 F1]. apply andb_prop in Hc as [C0 C1].
      constructor; [eapply IHf; eassumption|apply IH2; assumption].
    - (* RArray *)
      destruct (schema env cf Flat f seen None c r) as [[s c1]|e] eqn:Es; cbn [bind] in Hs; [|discriminate].
      inversion Hs; subst. apply complete_annotate, complete_array; [exact (schema_flat_mono env cf F _ _ _ _ _ _ _ Hfrag Es)|eapply IHf; eassumption].
    - (* ROptional *)
      destruct (schema env cf Flat f seen None c r) as [[s c1]|e] eqn:Es; cbn [bind] in Hs; [|discriminate].
      inversion Hs; subst. apply complete_optional. eapply IHf; eassumption.
    - (* RObject *)
      destruct indexed as [|[kr vr] [|i1 irest]]; [| |discriminate Hfrag].
      + apply andb_prop in Hfrag as [Hfrag Hall]. apply andb_prop in Hfrag as [Hnd Hsafe].
        match type of Hs with (do p <- ?X; _) = _ => destruct X as [[xs c1]|e] eqn:Es end; cbn [bind] in Hs; [|discriminate].
        cbn [smap bind fst snd] in Hs. inversion Hs; subst. apply complete_annotate.
        apply smap_inv in Es.
        assert (Hrel : Forall2 prop_relc props xs).
        { clear -Es Hall Hc IH IHf. induction Es as [|kp x props xs (c1 & c2 & Hx) _ IH2]; [constructor|].
          cbn [forallb] in Hall, Hc. apply andb_prop in Hall as [A0 A1]. apply andb_prop in Hc as [C0 C1]. apply andb_prop in C0 as [P0 C0].
          constructor; [|apply IH2; assumption].
          destruct (schema env cf Flat f seen None c1 (snd kp)) as [[raw c3]|e] eqn:Er; cbn [bind] in Hx; [|discriminate]. cbn [fst snd] in Hx.
          pose proof (schema_flat_mono env cf F _ _ _ _ _ _ _ A0 Er) as Mraw.
          destruct (snd kp) as [| | | | | | | | | | | | | | | | | | |t| | |] eqn:Ep; cbn [prop_ok] in P0;
            try (pose proof (strict_schema_no_null env cf _ _ _ _ _ _ _ P0 A0 Er) as [_ Hnn]; rewrite Hnn in Hx; inversion Hx; subst x;
                 unfold prop_relc; cbn [fst snd]; split; [reflexivity|]; split; [exact Mraw|]; left; split; [reflexivity|]; rewrite Ep;
                 split; [intros fv strict b Hv; eapply (strict_rejects_undefined F env); [exact P0|exact Hv]|eapply IHf; eassumption]).
          (* the optional property *)
          destruct f as [|f']; [discriminate P0|]. cbn [sfrag] in A0. cbn [cfrag] in C0. cbn [schema] in Er.
          destruct (schema env cf Flat f' seen None c1 t) as [[st c4]|e] eqn:Et; cbn [bind] in Er; [|discriminate]. inversion Er; subst raw c3.
          cbn [fst snd] in Hx.
          pose proof (strict_schema_no_null env cf _ _ _ _ _ _ _ P0 A0 Et) as Hnn.
          change 50 with (S 49) in Hx. rewrite (optional_rnub st 49 Hnn) in Hx. inversion Hx; subst x.
          unfold prop_relc. cbn [fst snd]. split; [reflexivity|]. split; [exact (schema_flat_mono env cf F _ _ _ _ _ _ _ A0 Et)|].
          right. split; [reflexivity|]. exists t. split; [exact Ep|]. apply (IH f' ltac:(lia) _ _ _ _ _ _ A0 C0 Et). }
        assert (Hkeys : map (fun x : string * json * bool => fst (fst x)) xs = keys props).
        { clear -Hrel. induction Hrel as [|kp x l l' [Hk _] _ IH2]; cbn [map keys]; [reflexivity|]. rewrite Hk. f_equal. exact IH2. }
        rewrite (fold_jobj_set (fun x : string * json * bool => fst (fst x)) (fun x => snd (fst x)) xs []) by (rewrite ?Hkeys; auto).
        cbn [app]. apply complete_object; assumption.
      + destruct props as [|p0 props]; [|discriminate Hfrag]. apply andb_prop in Hfrag as [Fk Fv]. apply andb_prop in Hc as [Ck Cv].
        cbn [smap bind fst snd fold_left map filter app] in Hs.
        destruct (schema env cf Flat f seen None c kr) as [[ks c1]|e] eqn:Eks; cbn [bind fst snd] in Hs; [|discriminate].
        destruct (schema env cf Flat f seen None c1 vr) as [[vs c2]|e] eqn:Evs; cbn [bind fst snd] in Hs; [|discriminate].
        pose proof (schema_flat_mono env cf F _ _ _ _ _ _ _ Fk Eks) as Mk. pose proof (schema_flat_mono env cf F _ _ _ _ _ _ _ Fv Evs) as Mv.
        pose proof (IHf _ _ _ _ _ _ Fk Ck Eks) as Gk. pose proof (IHf _ _ _ _ _ _ Fv Cv Evs) as Gv.
        pose proof (never_not_in_fragment env _ _ _ Fv) as Hnn.
        destruct (strip_meta_top vr) eqn:Est; try congruence; inversion Hs; subst; apply complete_annotate;
          try (apply complete_record; assumption).
        cbn [jobj_set assoc_set String.eqb Ascii.eqb Bool.eqb].
        apply complete_record; [assumption|intros k; destruct k; reflexivity|assumption|apply complete_any_true; exact Est].
    - (* RRef *)
      apply andb_prop in Hfrag as [Hseen Ht]. apply andb_prop in Hc as [_ Hct]. apply Bool.negb_true_iff in Hseen.
      destruct (assoc name env) as [t|] eqn:Ea; [|discriminate]. rewrite Hseen in Hs.
      destruct (schema env cf Flat f (name :: seen) None c t) as [[s c1]|e] eqn:Es; cbn [bind] in Hs; [|discriminate].
      inversion Hs; subst. apply complete_annotate. apply (complete_ref name t _ Ea). eapply IHf; eassumption.
    - (* RMeta *)
      apply complete_meta. eapply IHf; eassumption.
  Qed.
End Complete.
