(* Proofs/C04.v — the union-flattening recursion terminates exactly when the union-level reference graph is acyclic. *)
From Beff Require Import Model.Flatten.

Section Flatten.
  Variable env : ienv.

  (* a height function witnesses that no named type reaches itself through unions and references only *)
  Definition union_height (h : ir -> nat) : Prop :=
    (forall vs v, In v vs -> h v < h (IAnyOf vs)) /\
    (forall n s, assoc n env = Some s -> h s < h (IRef n)) /\
    (forall d t, h t < h (IMetaIR d t)).

  Lemma concat_res_l_not_oof {A} (l : list (res (list A))) :
    (forall x, In x l -> x <> Throw EOutOfFuel) -> concat_res_l l <> Throw EOutOfFuel.
  Proof.
    induction l as [|x l IH]; intros H; cbn; [discriminate|].
    assert (IH' : concat_res_l l <> Throw EOutOfFuel) by (apply IH; intros y Hy; apply H; right; exact Hy).
    destruct x as [a|e] eqn:E; cbn [bind].
    - destruct (concat_res_l l) as [b|e'] eqn:El; cbn [bind]; [discriminate|].
      intros [= ->]. apply IH'. reflexivity.
    - intros [= ->]. apply (H (Throw EOutOfFuel)); [left; reflexivity|reflexivity].
  Qed.

  Theorem extract_union_terminates h :
    union_height h -> forall f t, h t < f -> extract_union f env t <> Throw EOutOfFuel.
  Proof.
    intros [Hany [Href Hmeta]]. induction f as [|f IH]; intros t Hlt; [lia|].
    destruct t; cbn [extract_union]; try discriminate.
    - (* IRef *) destruct (assoc name env) as [s|] eqn:A; [|discriminate]. apply IH. pose proof (Href _ _ A). lia.
    - (* IAnyOf *) apply concat_res_l_not_oof. intros x Hx. apply in_map_iff in Hx as [v [<- Hv]].
      apply IH. pose proof (Hany _ _ Hv). lia.
    - (* IMetaIR *) apply IH. pose proof (Hmeta description t). lia.
  Qed.
End Flatten.

(* `type A = A | string`: the recursion never ends, whatever the fuel *)
Definition cyclic_env : ienv := [("A", IAnyOf [IRef "A"; IString])].
Lemma extract_union_cycle_diverges : forall f,
    extract_union f cyclic_env (IRef "A") = Throw EOutOfFuel /\
    extract_union f cyclic_env (IAnyOf [IRef "A"; IString]) = Throw EOutOfFuel.
Proof.
  induction f as [|f [IH1 IH2]]; [split; reflexivity|]. split.
  - cbn [extract_union cyclic_env assoc]. cbn. exact IH2.
  - cbn [extract_union map concat_res_l]. rewrite IH1. reflexivity.
Qed.
