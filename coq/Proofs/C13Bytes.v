(* Proofs/C13Bytes.v — the framing of Hash256Writer is a prefix code: a tag / string / number / boolean / null written in
   front of anything can be read back (strings shorter than 2^32 bytes, the width of the length prefix). *)
From Beff Require Import Model.Hash256Enc.
From Coq Require Import Lia.

Local Open Scope N_scope.

(* ---------- lists ---------- *)
Lemma app_eq_len {A} (a b x y : list A) : List.length a = List.length b -> a ++ x = b ++ y -> a = b /\ x = y.
Proof.
  revert b; induction a as [|h a IH]; intros [|h' b] Hl H; cbn in *; try discriminate.
  - split; [reflexivity|exact H].
  - injection H as -> H. injection Hl as Hl. destruct (IH b Hl H) as [-> ->]. split; reflexivity.
Qed.

(* ---------- the 4-byte length prefix ---------- *)
Lemma byte_at_spec x s : byte_at x s = (x / 2 ^ s) mod 256.
Proof.
  unfold byte_at. rewrite N.shiftr_div_pow2. change 255 with (N.ones 8). rewrite N.land_ones. reflexivity.
Qed.

Lemma u32_decompose z : z < 2 ^ 32 ->
  z = (z / 2 ^ 24) mod 256 * 2 ^ 24 + (z / 2 ^ 16) mod 256 * 2 ^ 16 + (z / 2 ^ 8) mod 256 * 2 ^ 8 + (z / 2 ^ 0) mod 256.
Proof.
  intros Hz.
  assert (P24 : 2 ^ 24 = 16777216) by reflexivity. assert (P16 : 2 ^ 16 = 65536) by reflexivity.
  assert (P8 : 2 ^ 8 = 256) by reflexivity. assert (P0 : 2 ^ 0 = 1) by reflexivity.
  assert (P32 : 2 ^ 32 = 4294967296) by reflexivity.
  rewrite P24, P16, P8, P0. rewrite P32 in Hz. rewrite N.div_1_r.
  pose proof (N.div_mod z 256 ltac:(lia)) as D0. pose proof (N.div_mod (z / 256) 256 ltac:(lia)) as D1.
  pose proof (N.div_mod (z / 256 / 256) 256 ltac:(lia)) as D2.
  rewrite !N.div_div in D1, D2 by lia. rewrite !N.div_div in D2 by lia.
  assert (M1 : 256 * 256 = 65536) by reflexivity. assert (M2 : 65536 * 256 = 16777216) by reflexivity.
  rewrite ?M1, ?M2 in D1, D2. rewrite ?M1, ?M2 in D2.
  assert (Hs : z / 16777216 < 256) by (apply N.div_lt_upper_bound; lia).
  rewrite (N.mod_small (z / 16777216) 256) by assumption.
  pose proof (N.mod_lt z 256 ltac:(lia)). pose proof (N.mod_lt (z / 256) 256 ltac:(lia)).
  pose proof (N.mod_lt (z / 65536) 256 ltac:(lia)).
  lia.
Qed.

Lemma u32_bytes_inj x y : x < 2 ^ 32 -> y < 2 ^ 32 -> u32_bytes x = u32_bytes y -> x = y.
Proof.
  intros Hx Hy H. unfold u32_bytes in H.
  assert (H3 : byte_at x 24 = byte_at y 24) by congruence. assert (H2 : byte_at x 16 = byte_at y 16) by congruence.
  assert (H1 : byte_at x 8 = byte_at y 8) by congruence. assert (H0 : byte_at x 0 = byte_at y 0) by congruence.
  rewrite !byte_at_spec in H3, H2, H1, H0.
  rewrite (u32_decompose x Hx), (u32_decompose y Hy). rewrite H3, H2, H1, H0. reflexivity.
Qed.

Lemma u32_bytes_length x : List.length (u32_bytes x) = 4%nat.
Proof. reflexivity. Qed.

(* ---------- strings as bytes ---------- *)
Lemma N_of_ascii_inj a b : N_of_ascii a = N_of_ascii b -> a = b.
Proof. intros H. rewrite <- (ascii_N_embedding a), <- (ascii_N_embedding b), H. reflexivity. Qed.

Lemma str_bytes_inj a b : str_bytes a = str_bytes b -> a = b.
Proof.
  unfold str_bytes. revert b; induction a as [|c a IH]; intros [|d b] H; cbn in H; try discriminate; [reflexivity|].
  injection H as Hc H. apply N_of_ascii_inj in Hc. subst d. rewrite (IH b H). reflexivity.
Qed.

Definition small (s : string) : bool := N.ltb (N.of_nat (List.length (str_bytes s))) (2 ^ 32).

Lemma utf8_inj a b x y : small a = true -> small b = true ->
  List.concat (w_utf8 a) ++ x = List.concat (w_utf8 b) ++ y -> a = b /\ x = y.
Proof.
  unfold small, w_utf8. intros Ha Hb H. apply N.ltb_lt in Ha, Hb. cbn [List.concat] in H.
  rewrite !app_nil_r, <- !app_assoc in H.
  apply app_eq_len in H; [|rewrite !u32_bytes_length; reflexivity]. destruct H as [Hl H].
  apply u32_bytes_inj in Hl; [|assumption|assumption].
  apply app_eq_len in H; [|lia]. destruct H as [Hs ->]. apply str_bytes_inj in Hs. split; [exact Hs|reflexivity].
Qed.

Lemma cons_app_inj {A} (t : A) l1 l2 x y : (t :: l1) ++ x = (t :: l2) ++ y -> l1 ++ x = l2 ++ y.
Proof. cbn. intros H. injection H as H. exact H. Qed.

Lemma framed_inj (t : N) a b x y : small a = true -> small b = true ->
  List.concat ([t] :: w_utf8 a) ++ x = List.concat ([t] :: w_utf8 b) ++ y -> a = b /\ x = y.
Proof.
  intros Ha Hb H. change (List.concat ([t] :: w_utf8 a)) with (t :: List.concat (w_utf8 a)) in H.
  change (List.concat ([t] :: w_utf8 b)) with (t :: List.concat (w_utf8 b)) in H.
  apply cons_app_inj in H. apply utf8_inj; assumption.
Qed.

Lemma tag_inj a b x y : small a = true -> small b = true ->
  List.concat (w_tag a) ++ x = List.concat (w_tag b) ++ y -> a = b /\ x = y.
Proof. apply framed_inj. Qed.
Lemma string_inj a b x y : small a = true -> small b = true ->
  List.concat (w_string a) ++ x = List.concat (w_string b) ++ y -> a = b /\ x = y.
Proof. apply framed_inj. Qed.

Lemma bool_inj a b x y : List.concat (w_bool a) ++ x = List.concat (w_bool b) ++ y -> a = b /\ x = y.
Proof. destruct a, b; cbn; intros H; try discriminate; injection H as ->; split; reflexivity. Qed.

(* ---------- decimal numbers ---------- *)
Definition digit_char (c : ascii) : bool := let n := N_of_ascii c in N.leb 48 n && N.leb n 57.
Fixpoint all_digits (s : string) : bool :=
  match s with EmptyString => true | String c s' => digit_char c && all_digits s' end.
Fixpoint parse_from (a : N) (s : string) : N :=
  match s with EmptyString => a | String c s' => parse_from (a * 10 + (N_of_ascii c - 48)) s' end.

Lemma digit_of_N d : d < 10 -> N_of_ascii (ascii_of_N (48 + d)) = 48 + d.
Proof. intros H. apply N_ascii_embedding. lia. Qed.

Lemma pos_digits_all f n acc : all_digits acc = true -> all_digits (pos_digits_fuel f n acc) = true.
Proof.
  revert n acc; induction f as [|f IH]; intros n acc H; cbn [pos_digits_fuel]; [exact H|].
  assert (Hd : all_digits (String (ascii_of_N (48 + n mod 10)) acc) = true).
  { cbn [all_digits]. rewrite H, Bool.andb_true_r. unfold digit_char.
    pose proof (N.mod_lt n 10 ltac:(discriminate)) as Hm. rewrite (digit_of_N _ Hm).
    revert Hm. generalize (n mod 10). intros d Hm.
    apply Bool.andb_true_iff; split; apply N.leb_le; lia. }
  destruct (N.eqb (n / 10) 0); [exact Hd|]. apply IH. exact Hd.
Qed.

Lemma pos_digits_parse f n acc : n < 2 ^ N.of_nat f -> parse_from 0 (pos_digits_fuel f n acc) = parse_from n acc.
Proof.
  revert n acc; induction f as [|f IH]; intros n acc H.
  - cbn in H. assert (n = 0) by lia. subst n. reflexivity.
  - cbn [pos_digits_fuel].
    pose proof (N.mod_lt n 10 ltac:(discriminate)) as Hm. pose proof (N.div_mod n 10 ltac:(discriminate)) as Hdm.
    rewrite Nat2N.inj_succ, N.pow_succ_r' in H.
    revert Hm Hdm. generalize (n mod 10) (n / 10). intros d q Hm Hdm.
    destruct (N.eqb_spec q 0) as [Hq|Hq].
    + cbn [parse_from]. rewrite (digit_of_N _ Hm). f_equal. lia.
    + rewrite IH.
      * cbn [parse_from]. rewrite (digit_of_N _ Hm). f_equal. lia.
      * lia.
Qed.

Lemma N_to_string_parse n : parse_from 0 (N_to_string n) = n.
Proof.
  unfold N_to_string. rewrite pos_digits_parse; [reflexivity|].
  rewrite Nat2N.inj_succ, N2Nat.id. destruct n as [|p]; [cbn; lia|]. apply N.log2_spec. lia.
Qed.
Lemma N_to_string_digits n : all_digits (N_to_string n) = true.
Proof. apply pos_digits_all. reflexivity. Qed.
Lemma N_to_string_inj a b : N_to_string a = N_to_string b -> a = b.
Proof. intros H. rewrite <- (N_to_string_parse a), <- (N_to_string_parse b), H. reflexivity. Qed.

(* an optional minus sign in front of digits *)
Definition int_like (s : string) : bool :=
  match s with String "-" r => all_digits r | _ => all_digits s end.

Lemma Z_to_string_int_like z : int_like (Z_to_string z) = true.
Proof.
  destruct z as [|p|p]; [reflexivity| |].
  - cbn [Z_to_string]. pose proof (N_to_string_digits (Npos p)) as H.
    unfold int_like. destruct (N_to_string (N.pos p)) as [|c s]; [reflexivity|].
    destruct c as [[] [] [] [] [] [] [] []]; try exact H. cbn in H. discriminate.
  - cbn [Z_to_string]. cbn. apply N_to_string_digits.
Qed.

Lemma Z_to_string_inj a b : Z_to_string a = Z_to_string b -> a = b.
Proof.
  destruct a as [|p|p], b as [|q|q]; cbn [Z_to_string]; intros H; try reflexivity.
  - change "0"%string with (N_to_string 0) in H. apply N_to_string_inj in H. discriminate.
  - exfalso. pose proof (N_to_string_digits (Npos q)) as Hd. cbn in H. discriminate.
  - change "0"%string with (N_to_string 0) in H. apply N_to_string_inj in H. discriminate.
  - apply N_to_string_inj in H. injection H as ->. reflexivity.
  - exfalso. pose proof (N_to_string_digits (Npos p)) as Hd. rewrite H in Hd. cbn in Hd. discriminate.
  - exfalso. cbn in H. discriminate.
  - exfalso. pose proof (N_to_string_digits (Npos q)) as Hd. rewrite <- H in Hd. cbn in Hd. discriminate.
  - cbn in H. injection H as H. apply N_to_string_inj in H. injection H as ->. reflexivity.
Qed.
