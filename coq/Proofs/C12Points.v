(* C12Points.v — every error reportDecodeError produces points into the input (outside index signatures with key types). *)
From Beff Require Import Model.PointsSpec Proofs.ResLemmas Proofs.C12.

Lemma prepend_nil e : prepend_path [] e = e.
Proof. destruct e; reflexivity. Qed.
Lemma prepend_app a b e : prepend_path (a ++ b) e = prepend_path a (prepend_path b e).
Proof. destruct e; cbn [prepend_path]; rewrite app_assoc; reflexivity. Qed.

Lemma points_step v seg w e : Step v seg w -> Points w e -> Points v (prepend_path [seg] e).
Proof.
  intros Hs Hp. inversion Hp; subst; cbn [prepend_path app].
  - constructor. econstructor; eassumption.
  - constructor; [econstructor; eassumption|assumption].
Qed.

(* the shape of the statement: every error is the prefix path prepended to an error that points into v *)
Definition rel (path : list string) (v : val) (e : err) : Prop := exists e', e = prepend_path path e' /\ Points v e'.

Lemma rel_step path seg v w e : Step v seg w -> rel (path ++ [seg]) w e -> rel path v e.
Proof.
  intros Hs (e' & -> & Hp). exists (prepend_path [seg] e'). split; [apply prepend_app|apply points_step with w; assumption].
Qed.

Lemma concat_res_in {A} (l : list (res (list A))) es a :
  concat_res l = Ok es -> In a es -> exists xs, In (Ok xs) l /\ In a xs.
Proof.
  revert es. induction l as [|x l IH]; cbn [concat_res]; intros es H Hin; [inversion H; subst; contradiction|].
  destruct x as [b|e]; cbn [bind] in H; [|discriminate].
  destruct (concat_res l) as [c|e]; cbn [bind] in H; [|discriminate]. injection H as <-.
  apply in_app_or in Hin as [Hin|Hin]; [exists b; split; [left; reflexivity|exact Hin]|].
  destruct (IH c eq_refl Hin) as [xs [H1 H2]]. exists xs. split; [right; exact H1|exact H2].
Qed.

Lemma map_res_in {A B} (f : A -> res B) l bs b : map_res f l = Ok bs -> In b bs -> exists a, In a l /\ f a = Ok b.
Proof.
  revert bs. induction l as [|x l IH]; cbn [map_res]; intros bs H Hin; [inversion H; subst; contradiction|].
  destruct (f x) as [y|e] eqn:E; cbn [bind] in H; [|discriminate].
  destruct (map_res f l) as [ys|e]; cbn [bind] in H; [|discriminate]. injection H as <-.
  destruct Hin as [Hb|Hin]; [subst; exists x; split; [left; reflexivity|exact E]|].
  destruct (IH ys eq_refl Hin) as [a [H1 H2]]. exists a. split; [right; exact H1|exact H2].
Qed.

Lemma combine_seq_nth {A} (d : A) xs : forall k i x, In (i, x) (combine (seq_from k (List.length xs)) xs) -> k <= i /\ nth (i - k) xs d = x.
Proof.
  induction xs as [|y ys IH]; cbn [List.length seq_from combine]; intros k i x Hin; [contradiction|].
  destruct Hin as [E|Hin].
  - inversion E; subst. split; [lia|]. replace (i - i) with 0 by lia. reflexivity.
  - destruct (IH _ _ _ Hin) as [Hle Hn]. split; [lia|]. replace (i - k) with (S (i - S k)) by lia. exact Hn.
Qed.

Lemma dedupe_subset fuel es d : deduplicate_errors fuel es = Ok d -> forall e, In e d -> In e es.
Proof.
  unfold deduplicate_errors. destruct (map_res (fun e => do k <- json_err fuel e; Ok (k, e)) es) as [keyed|x] eqn:E; cbn [bind]; [|discriminate].
  intros H e Hin. inversion H; subst. clear H.
  assert (Hk : forall ke, In ke keyed -> In (snd ke) es).
  { intros ke Hke. destruct (map_res_in _ _ _ _ E Hke) as [a [Ha Hf]]. destruct (json_err fuel a); cbn [bind] in Hf; [|discriminate].
    inversion Hf; subst. exact Ha. }
  clear E. revert Hk Hin. generalize (@nil string). induction keyed as [|[k0 e0] l IH]; intros seen Hk Hin; [contradiction|].
  destruct (mem_str k0 seen).
  - apply (IH seen (fun ke H => Hk ke (or_intror H)) Hin).
  - destruct Hin as [<-|Hin]; [apply (Hk (k0, e0)); left; reflexivity|apply (IH _ (fun ke H => Hk ke (or_intror H)) Hin)].
Qed.

Lemma nth_skipn_add {A} (d : A) n : forall xs k, nth k (skipn n xs) d = nth (n + k) xs d.
Proof. induction n as [|n IH]; intros xs k; [reflexivity|]. destruct xs as [|x xs]; [destruct k; reflexivity|]. cbn [skipn plus nth]. apply IH. Qed.

Lemma in_combine_snd {A B} (l : list A) (l' : list B) a b : In (a, b) (combine l l') -> In b l'.
Proof. apply in_combine_r. Qed.

Section Points.
  Variable F : formats.
  Variable env : renv.
  Variable strict : bool.
  Hypothesis Henv : c12_points_env env = true.

  Lemma one_rel path v m : Forall (rel path v) [ERegular m path v].
  Proof.
    constructor; [|constructor]. exists (ERegular m [] v). split; [cbn [prepend_path]; rewrite app_nil_r; reflexivity|].
    constructor. constructor.
  Qed.

  Lemma guarded_rel f path (r : rt) (x : val) seg v es :
    (forall path' es', report F env strict f path' r x = Ok es' -> Forall (rel path' x) es') ->
    Step v seg x ->
    (do ok <- validate F env f strict r x; if ok then Ok [] else report F env strict f (path ++ [seg]) r x) = Ok es ->
    Forall (rel path v) es.
  Proof.
    intros IH Hs H. destruct (validate F env f strict r x) as [[|]|e]; cbn [bind] in H; try discriminate.
    - inversion H; constructor.
    - apply Forall_forall. intros e He. apply (rel_step path seg v x e Hs).
      exact (proj1 (Forall_forall _ _) (IH _ _ H) e He).
  Qed.

  Theorem report_points : forall f path r v es,
    c12_points r = true -> report F env strict f path r v = Ok es -> Forall (rel path v) es.
  Proof.
    induction f as [|f IH]; intros path r v es Hfr H; [discriminate|].
    destruct r; cbn [report] in H; cbn [c12_points] in Hfr;
      try (inversion H; subst; apply one_rel).
    - (* RTuple *)
      destruct v; try (inversion H; subst; apply one_rel).
      apply andb_prop in Hfr as [Hpre Hrest].
      match type of H with (do pre <- ?X; _) = _ => destruct X as [pre|e] eqn:Epre end; cbn [bind] in H; [|discriminate].
      assert (Hp : Forall (rel path (VArr xs)) pre).
      { apply Forall_forall. intros e He. destruct (concat_res_in _ _ _ Epre He) as [ys [Hys Hey]].
        apply in_map_iff in Hys as [[i p] [Hg Hip]]. cbn [fst snd] in Hg.
        assert (Hcp : c12_points p = true) by (rewrite forallb_forall in Hpre; apply Hpre; eapply in_combine_r; exact Hip).
        refine (proj1 (Forall_forall _ _) (guarded_rel f path p (nth i xs VUndef) _ (VArr xs) ys _ _ Hg) e Hey).
        - intros path' es' Hr. eapply IH; [|exact Hr]; assumption.
        - apply (StepIdx (VArr xs) xs i eq_refl). }
      destruct rest as [rr|]; [|inversion H; subst; exact Hp].
      match type of H with (do tl <- ?X; _) = _ => destruct X as [tl|e] eqn:Etl end; cbn [bind] in H; [|discriminate].
      inversion H; subst. apply Forall_app. split; [exact Hp|].
      apply Forall_forall. intros e He. destruct (concat_res_in _ _ _ Etl He) as [ys [Hys Hey]].
      apply in_map_iff in Hys as [[i x] [Hg Hix]]. cbn [fst snd] in Hg.
      rewrite <- skipn_length in Hix. destruct (combine_seq_nth VUndef _ _ _ _ Hix) as [Hle Hn].
      rewrite nth_skipn_add in Hn. replace (List.length prefix + (i - List.length prefix)) with i in Hn by lia. subst x.
      refine (proj1 (Forall_forall _ _) (guarded_rel f path rr (nth i xs VUndef) _ (VArr xs) ys _ _ Hg) e Hey).
      + intros path' es' Hr. eapply IH; [|exact Hr]; assumption.
      + apply (StepIdx (VArr xs) xs i eq_refl).
    - (* RAllOf *)
      apply Forall_forall. intros e He. destruct (concat_res_in _ _ _ H He) as [ys [Hys Hey]].
      apply in_map_iff in Hys as [m [Hg Hm]]. rewrite forallb_forall in Hfr.
      exact (proj1 (Forall_forall _ _) (IH _ _ _ _ (Hfr m Hm) Hg) e Hey).
    - (* RAnyOf *)
      destruct (map_res (fun m => report F env strict f [] m v) schemas) as [branches|e] eqn:Eb; cbn [bind] in H; [|discriminate].
      unfold build_union_error in H.
      match type of H with (do d <- deduplicate_errors f ?X; _) = _ => set (filtered := X) in * end.
      assert (Hfil : forall e, In e filtered -> Points v e).
      { assert (Hbr : forall b, In b branches -> forall e, In e b -> Points v e).
        { intros b Hb e He. destruct (map_res_in _ _ _ _ Eb Hb) as [m [Hm Hr]]. rewrite forallb_forall in Hfr.
          pose proof (proj1 (Forall_forall _ _) (IH _ _ _ _ (Hfr m Hm) Hr) e He) as (e' & -> & Hp). rewrite prepend_nil. exact Hp. }
        intros e He. subst filtered.
        destruct (Nat.ltb 0 (fold_left Nat.max (map (max_error_depth f) branches) 0)).
        - apply in_concat in He as [b [Hb Heb]]. apply in_map_iff in Hb as [[dpt b'] [<- Hdb]]. apply filter_In in Hdb as [Hdb _].
          apply in_combine_r in Hdb. exact (Hbr _ Hdb _ Heb).
        - apply in_concat in He as [b [Hb Heb]]. exact (Hbr _ Hb _ Heb). }
      destruct (deduplicate_errors f filtered) as [d|e] eqn:Ed; cbn [bind] in H; [|discriminate].
      pose proof (dedupe_subset _ _ _ Ed) as Hsub.
      assert (Hu : rel path v (EUnion path v d)).
      { exists (EUnion [] v d). split; [cbn [prepend_path]; rewrite app_nil_r; reflexivity|].
        constructor; [constructor|]. apply Forall_forall. intros e He. apply Hfil, Hsub, He. }
      destruct d as [|e1 [|e2 d']]; inversion H; subst; constructor; try constructor; try exact Hu.
      exists e1. split; [reflexivity|]. apply Hfil, Hsub. left. reflexivity.
    - (* RArray *)
      destruct v; try (inversion H; subst; apply one_rel).
      apply Forall_forall. intros e He. destruct (concat_res_in _ _ _ H He) as [ys [Hys Hey]].
      apply in_map_iff in Hys as [[i x] [Hg Hix]]. cbn [fst snd] in Hg.
      destruct (combine_seq_nth VUndef _ _ _ _ Hix) as [_ Hn]. rewrite Nat.sub_0_r in Hn. subst x.
      refine (proj1 (Forall_forall _ _) (guarded_rel f path r (nth i xs VUndef) _ (VArr xs) ys _ _ Hg) e Hey).
      + intros path' es' Hr. eapply IH; [|exact Hr]; assumption.
      + apply (StepIdx (VArr xs) xs i eq_refl).
    - (* RMap *)
      destruct v; try (inversion H; subst; apply one_rel). apply andb_prop in Hfr as [Hk Hv].
      apply Forall_forall. intros e He. destruct (concat_res_in _ _ _ H He) as [ys [Hys Hey]].
      apply in_map_iff in Hys as [[k x] [Hg Hkx]]. cbn [fst snd] in Hg.
      destruct (template_json f k) as [js|ex] eqn:Ej; cbn [bind] in Hg; [|discriminate].
      destruct (validate F env f strict r1 k) as [okk|ex]; cbn [bind] in Hg; [|discriminate].
      match type of Hg with (do e1 <- ?X; _) = _ => destruct X as [e1|ex] eqn:E1 end; cbn [bind] in Hg; [|discriminate].
      destruct (validate F env f strict r2 x) as [okv|ex]; cbn [bind] in Hg; [|discriminate].
      match type of Hg with (do e2 <- ?X; _) = _ => destruct X as [e2|ex] eqn:E2 end; cbn [bind] in Hg; [|discriminate].
      inversion Hg; subst ys. apply in_app_or in Hey as [Hey|Hey].
      + destruct okk; [inversion E1; subst; contradiction|].
        apply (rel_step path _ (VMap kvs) k e (StepMapKey (VMap kvs) kvs k x f js eq_refl Hkx Ej)).
        exact (proj1 (Forall_forall _ _) (IH _ _ _ _ Hk E1) e Hey).
      + destruct okv; [inversion E2; subst; contradiction|].
        apply (rel_step path _ (VMap kvs) x e (StepMapValue (VMap kvs) kvs k x f js eq_refl Hkx Ej)).
        exact (proj1 (Forall_forall _ _) (IH _ _ _ _ Hv E2) e Hey).
    - (* RSet *)
      destruct v; try (inversion H; subst; apply one_rel).
      apply Forall_forall. intros e He. destruct (concat_res_in _ _ _ H He) as [ys [Hys Hey]].
      apply in_map_iff in Hys as [x [Hg Hx]].
      destruct (template_json f x) as [js|ex] eqn:Ej; cbn [bind] in Hg; [|discriminate].
      refine (proj1 (Forall_forall _ _) (guarded_rel f path r x _ (VSet xs) ys _ _ Hg) e Hey).
      + intros path' es' Hr. eapply IH; [|exact Hr]; assumption.
      + apply (StepSetItem (VSet xs) xs x f js eq_refl Hx Ej).
    - (* RDisc *)
      destruct (is_nullish v || negb (is_object_type v)) eqn:G; [inversion H; subst; apply one_rel|].
      apply orb_false_elim in G as [G1 G2]. apply Bool.negb_false_iff in G2.
      destruct (is_nullish (get v disc)); [inversion H; subst; apply one_rel|].
      destruct (to_key (get v disc)) as [key|ex]; cbn [bind] in H; [|discriminate].
      unfold lookup_plain in H. destruct key as [k|]; [|inversion H; subst].
      + destruct (assoc k mapping) as [m|] eqn:Ea.
        * apply IH with (r := m); [|exact H]. rewrite forallb_forall in Hfr. apply (Hfr (k, m)). apply assoc_In. exact Ea.
        * destruct (mem_str k object_proto_functions); [discriminate|]. destruct (String.eqb k proto_key); [discriminate|].
          inversion H; subst. constructor; [|constructor]. exists (ERegular ("expected one of " +++ concat_str ", " (map quote (keys mapping))) [disc] (get v disc)).
          split; [reflexivity|]. constructor. econstructor; [apply StepKey; assumption|constructor].
      + constructor; [|constructor]. exists (ERegular ("expected one of " +++ concat_str ", " (map quote (keys mapping))) [disc] (get v disc)).
        split; [reflexivity|]. constructor. econstructor; [apply StepKey; assumption|constructor].
    - (* ROptional *) apply IH with (r := r); assumption.
    - (* RObject *)
      destruct (negb (is_object_type v) || is_array v || match v with VNull => true | _ => false end) eqn:G;
        [inversion H; subst; apply one_rel|].
      assert (Hobj : is_object_type v = true /\ is_nullish v = false) by (destruct v; cbn in G |- *; try discriminate; auto).
      destruct Hobj as [Ho Hn]. apply andb_prop in Hfr as [Hprops Hidx].
      match type of H with (do acc <- ?X; _) = _ => destruct X as [acc|e] eqn:Eacc end; cbn [bind] in H; [|discriminate].
      assert (Hacc : Forall (rel path v) acc).
      { apply Forall_forall. intros e He. destruct (concat_res_in _ _ _ Eacc He) as [ys [Hys Hey]].
        apply in_map_iff in Hys as [kp [Hg Hkp]]. rewrite forallb_forall in Hprops.
        refine (proj1 (Forall_forall _ _) (guarded_rel f path (snd kp) (get v (fst kp)) _ v ys _ _ Hg) e Hey).
        - intros path' es' Hr. eapply IH; [|exact Hr]. apply (Hprops kp Hkp).
        - apply StepKey; assumption. }
      destruct indexed as [|i0 irest].
      + destruct strict; [|inversion H; subst; exact Hacc].
        destruct (filter (fun k => negb (mem_str k (keys props))) (own_keys v)) as [|k0 ks]; [inversion H; subst; exact Hacc|].
        inversion H; subst. apply Forall_forall. intros e He.
        change (In e (map (fun k => ERegular "extra property" (path ++ [k]) (get v k)) (k0 :: ks))) in He. apply in_map_iff in He as [k [<- _]].
        exists (ERegular "extra property" [k] (get v k)). split; [reflexivity|]. constructor. econstructor; [apply StepKey; assumption|constructor].
      + match type of H with (do more <- ?X; _) = _ => destruct X as [more|e] eqn:Emore end; cbn [bind] in H; [|discriminate].
        inversion H; subst. apply Forall_app. split; [exact Hacc|].
        apply Forall_forall. intros e He. destruct (concat_res_in _ _ _ Emore He) as [ys [Hys Hey]].
        apply in_map_iff in Hys as [k [Hg _]]. destruct (concat_res_in _ _ _ Hg Hey) as [zs [Hzs Hez]].
        apply in_map_iff in Hzs as [[kr vr] [Hq Hin]]. cbn [fst snd] in Hq.
        rewrite forallb_forall in Hidx. pose proof (Hidx _ Hin) as Hq2. cbn [fst snd] in Hq2. apply andb_prop in Hq2 as [Hkr Hvr].
        destruct kr; cbn in Hkr; try discriminate Hkr. destruct t; cbn in Hkr; try discriminate Hkr.
        assert (Hkv : forall f0, validate F env f0 strict (RTypeof TyString) (VStr k) = Ok true \/
                                 exists ex, validate F env f0 strict (RTypeof TyString) (VStr k) = Throw ex)
          by (intros [|f0]; [right; eexists; reflexivity|left; reflexivity]).
        destruct (Hkv f) as [Hk1|[ex Hk1]]; rewrite Hk1 in Hq; cbn [bind] in Hq; [|discriminate].
        destruct (validate F env f strict vr (get v k)) as [okv|ex]; cbn [bind] in Hq; [|discriminate].
        match type of Hq with (do e2 <- ?X; _) = _ => destruct X as [e2|ex] eqn:E2 end; cbn [bind] in Hq; [|discriminate].
        inversion Hq; subst zs. cbn [app] in Hez. destruct okv; [inversion E2; subst; contradiction|].
        apply (rel_step path k v (get v k) e (StepKey v k Ho Hn)).
        exact (proj1 (Forall_forall _ _) (IH _ _ _ _ Hvr E2) e Hez).
    - (* RRef *)
      destruct (assoc name env) as [t|] eqn:Ea; [|discriminate]. apply IH with (r := t); [|exact H].
      unfold c12_points_env in Henv. rewrite forallb_forall in Henv. apply (Henv (name, t)). apply assoc_In. exact Ea.
    - (* RMeta *) apply IH with (r := r); assumption.
  Qed.
End Points.

Lemma in_firstn {A} n (l : list A) x : In x (firstn n l) -> In x l.
Proof. intros H. rewrite <- (firstn_skipn n l). apply in_or_app. left. exact H. Qed.

Theorem safe_parse_points F env f strict order r v es :
  c12_points_env env = true -> c12_points r = true ->
  safe_parse F env f strict order r v = Ok (PFailure es) -> Forall (Points v) es.
Proof.
  intros He Hr H. unfold safe_parse in H.
  destruct (validate F env f strict r v) as [[|]|e]; cbn [bind] in H; try discriminate.
  - destruct (parse F env strict order f r v); cbn [bind] in H; discriminate.
  - destruct (report F env strict f [] r v) as [all|e] eqn:Hall; cbn [bind] in H; [|discriminate].
    assert (Hes : es = firstn 10 all) by congruence. subst es. clear H.
    pose proof (report_points F env strict He f [] r v all Hr Hall) as Hp.
    apply Forall_forall. intros e Hin. apply in_firstn in Hin.
    destruct (proj1 (Forall_forall _ _) Hp e Hin) as (e' & -> & Hpe). rewrite prepend_nil. exact Hpe.
Qed.
