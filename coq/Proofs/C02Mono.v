(* C02Mono.v — js_valid is monotone in its fuel on schemas without oneOf and $ref (every flat schema beff prints). *)
From Beff Require Import Model.JsonSchema Proofs.ResLemmas Proofs.C02Sound.

Definition sub_ok (chk : json -> bool) (o : option json) : bool :=
  match o with Some j => chk j | None => true end.
Definition subs_ok (chk : json -> bool) (o : option json) : bool :=
  match o with Some (JArr l) => forallb chk l | _ => true end.

Fixpoint mono_ok (fuel : nat) (j : json) : bool :=
  match fuel with
  | O => true
  | S f =>
      match j with
      | JObj kw =>
          match assoc "oneOf" kw, assoc "$ref" kw with
          | None, None =>
              subs_ok (mono_ok f) (assoc "anyOf" kw) && subs_ok (mono_ok f) (assoc "allOf" kw)
              && match assoc "properties" kw with Some (JObj ps) => forallb (fun kv => mono_ok f (snd kv)) ps | _ => true end
              && sub_ok (mono_ok f) (assoc "additionalProperties" kw) && sub_ok (mono_ok f) (assoc "propertyNames" kw)
              && subs_ok (mono_ok f) (assoc "prefixItems" kw) && sub_ok (mono_ok f) (assoc "items" kw)
          | _, _ => false
          end
      | _ => true
      end
  end.

Lemma forallb_impl {A} (p q : A -> bool) l : (forall x, In x l -> p x = true -> q x = true) -> forallb p l = true -> forallb q l = true.
Proof.
  intros H Hp. apply forallb_forall. intros x Hx. apply H; [exact Hx|]. exact (proj1 (forallb_forall _ _) Hp x Hx).
Qed.
Lemma existsb_impl {A} (p q : A -> bool) l : (forall x, In x l -> p x = true -> q x = true) -> existsb p l = true -> existsb q l = true.
Proof.
  intros H Hp. apply existsb_exists in Hp as [x [Hx Hpx]]. apply existsb_exists. exists x. split; [exact Hx|apply H; assumption].
Qed.

Lemma js_valid_mono : forall f j d, mono_ok f j = true -> js_valid R0 f j d = true -> js_valid R0 (S f) j d = true.
Proof.
  induction f as [|f IH]; intros j d Hm H; [discriminate H|].
  destruct j as [| b | | | |kw]; try discriminate H; [exact H|].
  cbn [mono_ok] in Hm. destruct (assoc "oneOf" kw) eqn:Eo; [discriminate Hm|]. destruct (assoc "$ref" kw) eqn:Er; [discriminate Hm|].
  repeat (apply andb_prop in Hm; destruct Hm as [Hm ?]).
  match goal with H1 : sub_ok _ (assoc "items" kw) = true |- _ => rename H1 into Mitems end.
  match goal with H1 : subs_ok _ (assoc "prefixItems" kw) = true |- _ => rename H1 into Mprefix end.
  match goal with H1 : sub_ok _ (assoc "propertyNames" kw) = true |- _ => rename H1 into Mpn end.
  match goal with H1 : sub_ok _ (assoc "additionalProperties" kw) = true |- _ => rename H1 into Map end.
  match goal with H1 : match assoc "properties" kw with _ => _ end = true |- _ => rename H1 into Mprops end.
  match goal with H1 : subs_ok _ (assoc "allOf" kw) = true |- _ => rename H1 into Mall end.
  rename Hm into Many.
  (* unfold one level on both sides *)
  cbn [js_valid] in H. remember (S f) as f1 eqn:Ef1. cbn [js_valid]. rewrite Eo, Er in *.
  repeat (apply andb_prop in H; destruct H as [H ?]).
  repeat (apply andb_true_intro; split); try assumption.
  - (* anyOf *)
    destruct (assoc "anyOf" kw) as [[| | | |l|]|]; try assumption. cbn [subs_ok] in Many.
    match goal with H1 : existsb _ l = true |- _ => revert H1 end. apply existsb_impl. intros x Hx. apply IH.
    exact (proj1 (forallb_forall _ _) Many x Hx).
  - (* allOf *)
    destruct (assoc "allOf" kw) as [[| | | |l|]|]; try assumption. cbn [subs_ok] in Mall.
    match goal with H1 : forallb _ l = true |- _ => revert H1 end. apply forallb_impl. intros x Hx. apply IH.
    exact (proj1 (forallb_forall _ _) Mall x Hx).
  - (* the instance-dependent part *)
    destruct d as [| | | |xs|fields]; try assumption.
    + match goal with H1 : _ && _ = true |- _ => apply andb_prop in H1; destruct H1 as [Hpre Hit] end.
      apply andb_true_intro. split.
      * destruct (assoc "prefixItems" kw) as [[| | | |ps|]|]; try assumption. cbn [subs_ok] in Mprefix.
        revert Hpre. apply forallb_impl. intros [s x] Hin. cbn [fst snd]. apply IH.
        apply in_combine_l in Hin. exact (proj1 (forallb_forall _ _) Mprefix s Hin).
      * destruct (assoc "items" kw) as [it|]; [|assumption]. cbn [sub_ok] in Mitems.
        revert Hit. apply forallb_impl. intros x _. apply IH. exact Mitems.
    + match goal with H1 : _ && _ = true |- _ => repeat (apply andb_prop in H1; destruct H1 as [H1 ?]); rename H1 into Hp end.
      repeat (apply andb_true_intro; split); try assumption.
      * revert Hp. apply forallb_impl. intros [k x] Hin. cbn [fst snd].
        destruct (assoc "properties" kw) as [[| | | | |ps]|]; try (intros; assumption).
        destruct (assoc k ps) as [s|] eqn:Ek; [|intros; reflexivity]. apply IH.
        apply assoc_In in Ek. exact (proj1 (forallb_forall _ _) Mprops (k, s) Ek).
      * destruct (assoc "additionalProperties" kw) as [ap|]; [|assumption]. cbn [sub_ok] in Map.
        match goal with H1 : forallb _ fields = true |- _ => revert H1 end. apply forallb_impl. intros [k x] _. cbn [fst snd].
        intros Hor. apply orb_prop in Hor as [Hor|Hor]; [rewrite Hor; reflexivity|]. rewrite (IH _ _ Map Hor). apply orb_true_r.
      * destruct (assoc "propertyNames" kw) as [pn|]; [|assumption]. cbn [sub_ok] in Mpn.
        match goal with H1 : forallb _ fields = true |- _ => revert H1 end. apply forallb_impl. intros [k x] _. cbn [fst]. apply IH. exact Mpn.
Qed.

Lemma js_valid_mono_le j d : (forall n, mono_ok n j = true) -> forall f f', f <= f' -> js_valid R0 f j d = true -> js_valid R0 f' j d = true.
Proof.
  intros Hm f f' Hle. induction Hle as [|f' _ IH]; [auto|]. intros H. apply js_valid_mono; [apply Hm|apply IH; exact H].
Qed.

(* annotations do not matter *)
Lemma mono_ok_annotate n desc j : mono_ok n j = true -> mono_ok n (annotate desc j) = true.
Proof.
  destruct desc as [s|]; [|auto]. destruct j; auto. destruct n as [|n]; [auto|].
  cbn [annotate mono_ok]. unfold jobj_set. rewrite !assoc_set_other by reflexivity. auto.
Qed.

(* every flat schema of the fragment is monotone *)
Section Mono.
  Variable env : renv.
  Variable cf : pconf.

  Lemma mono_smap f seen rs :
    forallb (sfrag env f seen) rs = true ->
    (forall seen desc c r j c', sfrag env f seen r = true -> schema env cf Flat f seen desc c r = Ok (j, c') -> forall n, mono_ok n j = true) ->
    forall c subs c', smap (fun c' r' => schema env cf Flat f seen None c' r') c rs = Ok (subs, c') -> forall n s, In s subs -> mono_ok n s = true.
  Proof.
    intros Hall IH c subs c' Hs n s Hin. apply smap_inv in Hs.
    destruct (Forall2_in_r _ _ _ _ Hs Hin) as (r & Hr & c1 & c2 & Hrs).
    eapply IH; [|exact Hrs]. exact (proj1 (forallb_forall _ _) Hall r Hr).
  Qed.

  Lemma rnub_mono : forall m raw rw, remove_null_union_branch m raw = Some rw -> nice m raw = true ->
    (forall n, mono_ok n raw = true) -> forall n, mono_ok n rw = true.
  Proof.
    induction m as [|m IH]; intros raw rw H Hn Hm n; [discriminate|].
    destruct (rnub_shape _ _ _ H Hn) as (m' & fs & vs & Em & -> & Ea & Hk & Hnv & _ & Hrw). inversion Em; subst m'. clear Em.
    cbv zeta in Hrw.
    assert (Hno : assoc "oneOf" fs = None /\ assoc "$ref" fs = None).
    { specialize (Hm 1). cbn [mono_ok] in Hm. destruct (assoc "oneOf" fs); [discriminate|]. destruct (assoc "$ref" fs); [discriminate|]. auto. }
    destruct Hno as [Hno Hnr].
    assert (Hvs : forall v, In v vs -> forall k, mono_ok k v = true).
    { intros v Hv k. specialize (Hm (S k)). cbn [mono_ok] in Hm. rewrite Hno, Hnr, Ea in Hm. cbn [subs_ok] in Hm.
      repeat (apply andb_prop in Hm; destruct Hm as [Hm ?]). exact (proj1 (forallb_forall _ _) Hm v Hv). }
    set (g := fun v => match remove_null_union_branch m v with Some v' => v' | None => v end) in *.
    set (non_null := filter (fun v => negb (is_null_definition v)) vs) in *.
    assert (Hg : forall v, In v non_null -> forall k, mono_ok k (g v) = true).
    { intros v Hv k. assert (Hin : In v vs) by (apply filter_In in Hv; tauto). unfold g.
      destruct (remove_null_union_branch m v) as [v'|] eqn:Ev; [|apply Hvs; exact Hin].
      apply (IH v v' Ev); [exact (proj1 (forallb_forall _ _) Hnv v Hin)|apply Hvs; exact Hin]. }
    assert (Hset : forall l, (forall w, In w l -> forall k, mono_ok k w = true) -> mono_ok n (JObj (jobj_set "anyOf" (JArr l) fs)) = true).
    { intros l Hl. destruct n as [|n]; [reflexivity|]. pose proof (Hm (S n)) as H1. cbn [mono_ok] in H1 |- *.
      unfold jobj_set.
      rewrite (assoc_set_other "oneOf" "anyOf"), (assoc_set_other "$ref" "anyOf"), (assoc_set_other "allOf" "anyOf"),
              (assoc_set_other "properties" "anyOf"), (assoc_set_other "additionalProperties" "anyOf"),
              (assoc_set_other "propertyNames" "anyOf"), (assoc_set_other "prefixItems" "anyOf"), (assoc_set_other "items" "anyOf") by reflexivity.
      rewrite Hno, Hnr in *. rewrite assoc_set_same. rewrite Ea in H1. cbn [subs_ok] in H1 |- *.
      repeat (apply andb_prop in H1; destruct H1 as [H1 ?]).
      repeat (apply andb_true_intro; split); try assumption; apply forallb_forall; intros w Hw; apply Hl; exact Hw. }
    destruct (map g non_null) as [|one [|two rest]] eqn:En; subst rw.
    - apply Hset. intros w [].
    - destruct non_null as [|v1 [|v2 r]] eqn:Enn; cbn [map] in En; try discriminate. inversion En; subst one.
      apply (Hg v1). left. reflexivity.
    - apply Hset. intros w Hw. rewrite <- En in Hw. apply in_map_iff in Hw as [v [<- Hv]]. apply Hg. exact Hv.
  Qed.

  Lemma mono_closed_node properties required n :
    (forall kv, In kv properties -> forall k, mono_ok k (snd kv) = true) -> mono_ok n (closed_node properties required) = true.
  Proof.
    intros Hp. destruct n as [|n]; [reflexivity|]. unfold closed_node.
    assert (Hb : mono_ok n (JBool false) = true) by (destruct n; reflexivity).
    destruct required as [|r0 rq]; cbn [app mono_ok assoc String.eqb Ascii.eqb Bool.eqb subs_ok sub_ok andb];
      rewrite Hb, ?andb_true_r; apply forallb_forall; intros kv Hkv; apply Hp; exact Hkv.
  Qed.

  Variable F : formats.
  Opaque validate js_valid nice remove_null_union_branch annotate.
  Theorem schema_flat_mono : forall fs seen desc c r j c',
    sfrag env fs seen r = true -> schema env cf Flat fs seen desc c r = Ok (j, c') -> forall n, mono_ok n j = true.
  Proof.
    induction fs as [|f IH]; intros seen desc c r j c' Hfrag Hs n; [discriminate|].
    destruct r; cbn [sfrag] in Hfrag; try discriminate Hfrag; cbn [schema] in Hs.
    - inversion Hs; subst. apply mono_ok_annotate. destruct n; reflexivity.
    - inversion Hs; subst. apply mono_ok_annotate. destruct n; reflexivity.
    - inversion Hs; subst. apply mono_ok_annotate. destruct n; reflexivity.
    - destruct c0; inversion Hs; subst; apply mono_ok_annotate; destruct n; reflexivity.
    - (* RAnyOfConsts *)
      destruct values as [|v0 vs]; [inversion Hs; subst; apply mono_ok_annotate; destruct n; reflexivity|].
      destruct (forallb (fun v => String.eqb (typeof_cst v) (typeof_cst v0)) (v0 :: vs) && negb (String.eqb (typeof_cst v0) "object"));
        inversion Hs; subst; apply mono_ok_annotate; destruct n; reflexivity.
    - (* RAnyOf *)
      destruct (smap (fun c' r' => schema env cf Flat f seen None c' r') c schemas) as [[subs c1]|e] eqn:Es; cbn [bind] in Hs; [|discriminate].
      inversion Hs; subst. apply mono_ok_annotate. destruct n as [|n]; [reflexivity|].
      cbn [mono_ok assoc String.eqb Ascii.eqb Bool.eqb subs_ok sub_ok andb fst]. rewrite ?andb_true_r.
      apply forallb_forall. intros s Hin. eapply mono_smap; eauto.
    - (* RArray *)
      destruct (schema env cf Flat f seen None c r) as [[s c1]|e] eqn:Es; cbn [bind] in Hs; [|discriminate].
      inversion Hs; subst. apply mono_ok_annotate. destruct n as [|n]; [reflexivity|].
      cbn [mono_ok assoc String.eqb Ascii.eqb Bool.eqb subs_ok sub_ok andb fst]. rewrite ?andb_true_r. eapply IH; eassumption.
    - (* ROptional *)
      destruct (schema env cf Flat f seen None c r) as [[s c1]|e] eqn:Es; cbn [bind] in Hs; [|discriminate].
      inversion Hs; subst. destruct n as [|n]; [reflexivity|].
      cbn [mono_ok assoc String.eqb Ascii.eqb Bool.eqb subs_ok sub_ok andb fst forallb]. rewrite (IH _ _ _ _ _ _ Hfrag Es n).
      destruct n; reflexivity.
    - (* RObject *)
      destruct indexed as [|[kr vr] [|i1 irest]]; [| |discriminate Hfrag].
      + apply andb_prop in Hfrag as [Hfrag Hall]. apply andb_prop in Hfrag as [Hnd Hsafe].
        match type of Hs with (do p <- ?X; _) = _ => destruct X as [[xs c1]|e] eqn:Es end; cbn [bind] in Hs; [|discriminate].
        cbn [smap bind fst snd] in Hs. inversion Hs; subst. apply mono_ok_annotate.
        apply smap_inv in Es.
        assert (Hxs : forall x, In x xs -> forall k, mono_ok k (snd (fst x)) = true).
        { intros x Hx k. destruct (Forall2_in_r _ _ _ _ Es Hx) as (kp & Hkp & c1' & c2' & Hx').
          destruct (schema env cf Flat f seen None c1' (snd kp)) as [[raw c3]|e] eqn:Er; cbn [bind] in Hx'; [|discriminate].
          cbn [fst snd] in Hx'. pose proof (proj1 (forallb_forall _ _) Hall kp Hkp) as Hk.
          pose proof (IH _ _ _ _ _ _ Hk Er) as Hraw.
          destruct (remove_null_union_branch 50 raw) as [rw|] eqn:En; inversion Hx'; subst; cbn [fst snd]; [|apply Hraw].
          destruct (schema_flat_good F env cf _ _ _ _ _ _ _ Hk Er) as (_ & Hnice & _).
          apply (rnub_mono 50 raw rw En (Hnice 50) Hraw). }
        assert (Hkeys : map (fun x : string * json * bool => fst (fst x)) xs = keys props).
        { clear -Es. induction Es as [|kp x l l' (c1 & c2 & Hx) _ IH2]; cbn [map keys]; [reflexivity|]. f_equal; [|exact IH2].
          destruct (schema env cf Flat f seen None c1 (snd kp)) as [[raw c3]|e]; cbn [bind] in Hx; [|discriminate].
          destruct (remove_null_union_branch 50 (fst (raw, c3))); inversion Hx; reflexivity. }
        rewrite (fold_jobj_set (fun x : string * json * bool => fst (fst x)) (fun x => snd (fst x)) xs []) by (rewrite ?Hkeys; auto).
        cbn [app]. apply mono_closed_node. intros kv Hkv k. apply in_map_iff in Hkv as [x [<- Hx]]. cbn [snd]. apply Hxs. exact Hx.
      + destruct props as [|p0 props]; [|discriminate Hfrag]. apply andb_prop in Hfrag as [Hk Hvr].
        cbn [smap bind fst snd fold_left map filter app] in Hs.
        destruct (schema env cf Flat f seen None c kr) as [[ks c1]|e] eqn:Eks; cbn [bind fst snd] in Hs; [|discriminate].
        destruct (schema env cf Flat f seen None c1 vr) as [[vs c2]|e] eqn:Evs; cbn [bind fst snd] in Hs; [|discriminate].
        pose proof (IH _ _ _ _ _ _ Hk Eks) as Mk. pose proof (IH _ _ _ _ _ _ Hvr Evs) as Mv.
        assert (Rec : forall vs', (forall k, mono_ok k vs' = true) ->
                  mono_ok n (JObj [("type", JStr "object"); ("additionalProperties", vs'); ("propertyNames", ks)]) = true).
        { intros vs' Hv'. destruct n as [|n]; [reflexivity|].
          cbn [mono_ok assoc String.eqb Ascii.eqb Bool.eqb subs_ok sub_ok andb]. rewrite Hv', Mk. reflexivity. }
        destruct (strip_meta_top vr); inversion Hs; subst; apply mono_ok_annotate; try (apply Rec; exact Mv).
        * cbn [jobj_set assoc_set String.eqb Ascii.eqb Bool.eqb]. apply Rec. intros k. destruct k; reflexivity.
        * destruct n as [|[|n]]; reflexivity.
    - (* RRef *)
      apply andb_prop in Hfrag as [Hseen Ht]. apply Bool.negb_true_iff in Hseen.
      destruct (assoc name env) as [t|] eqn:Ea; [|discriminate]. rewrite Hseen in Hs.
      destruct (schema env cf Flat f (name :: seen) None c t) as [[s c1]|e] eqn:Es; cbn [bind] in Hs; [|discriminate].
      inversion Hs; subst. apply mono_ok_annotate. eapply IH; eassumption.
    - (* RMeta *) eapply IH; eassumption.
  Qed.
End Mono.
