(* Proofs/C07.v — the per-tag materialisation of a positive basic semantic type means the same set of values. *)
From Beff Require Import Model.Materialise Proofs.ResLemmas Proofs.C01 Proofs.C01Print.

Definition basic_val (v : val) : bool :=
  match v with VNull | VBool _ | VStr _ | VNum (NInt _) => true | _ => false end.
Definition point_of (v : val) : point :=
  match v with
  | VBool b => PtBool b
  | VNum (NInt z) => PtNum z
  | VStr s => PtStr s
  | _ => PtUnit TgNull
  end.
Definition basic_tag (g : stag) : bool :=
  match g with TgNull | TgBoolean | TgNumber | TgString => true | _ => false end.
Definition pos_proper (p : proper) : bool :=
  match p with
  | PBoolean _ => true
  | PNumber true vs => forallb numval_lit vs
  | PString true vs => forallb strval_lit vs
  | _ => false
  end.
Definition positive_basic (t : semtype) : bool :=
  forallb (fun g => negb (has_bit (st_all t) (stag_code g)) || basic_tag g) all_stags && forallb pos_proper (st_data t).

(* the IR types the materialisation of such a type is made of, and what they accept *)
Definition simple_mem (t : ir) (v : val) : bool :=
  match t with
  | INull => is_nullish v
  | IBoolean => jstype_eqb (typeof v) TBoolean
  | INumber => jstype_eqb (typeof v) TNumber
  | IString => jstype_eqb (typeof v) TString
  | IConst (ICBool b) => match v with VBool x => Bool.eqb b x | _ => false end
  | IConst (ICNum n) => match v with VNum x => num_strict_eqb n x | _ => false end
  | ITpl [TplConst c] => match v with VStr s => String.eqb c s | _ => false end
  | _ => false
  end.
Definition simple_ir (t : ir) : bool :=
  match t with
  | INull | IBoolean | INumber | IString | IConst _ | ITpl [TplConst _] => true
  | _ => false
  end.

Section Sem.
  Variable F : formats.
  Variable env : ienv.

  Lemma rmember_simple f t v : simple_ir t = true -> rmember F env (S f) t v = Ok (simple_mem t v).
  Proof.
    destruct t; cbn [simple_ir]; try discriminate; try reflexivity.
    - destruct items as [|[| | |c|vs] [|i2 items]]; try discriminate. intros _.
      cbn [rmember simple_mem tpl_re_ts tpl_item_re_ts]. rewrite re_seq_eps_r.
      destruct v; try reflexivity. rewrite re_full_lit. reflexivity.
    - intros _. destruct c; reflexivity.
  Qed.

  Lemma rmember_any_of f l v :
    forallb simple_ir l = true ->
    rmember F env (S (S f)) (any_of l) v = Ok (existsb (fun t => simple_mem t v) l).
  Proof.
    intros Hl. destruct l as [|x [|y l]].
    - reflexivity.
    - cbn [any_of existsb]. cbn [forallb] in Hl. apply andb_prop in Hl as [Hx _].
      rewrite (rmember_simple (S f) x v Hx). rewrite orb_false_r. reflexivity.
    - unfold any_of. cbn [rmember]. apply exists_res_ok. intros t Ht.
      apply rmember_simple. rewrite forallb_forall in Hl. apply Hl. exact Ht.
  Qed.
End Sem.

Lemma all_stags_complete g : In g all_stags.
Proof. destruct g; cbn; tauto. Qed.

Lemma existsb_app' {A} (f : A -> bool) l1 l2 : existsb f (l1 ++ l2) = existsb f l1 || existsb f l2.
Proof. apply existsb_app. Qed.

(* the tags *)
Lemma tags_part t v :
  forallb (fun g => negb (has_bit (st_all t) (stag_code g)) || basic_tag g) all_stags = true ->
  basic_val v = true ->
  forallb simple_ir (tags_of t) = true /\
  existsb (fun x => simple_mem x v) (tags_of t) = has_bit (st_all t) (stag_code (point_tag (point_of v))).
Proof.
  intros Hb Hv.
  assert (Hg : forall g, has_bit (st_all t) (stag_code g) = true -> basic_tag g = true).
  { intros g Hh. rewrite forallb_forall in Hb. specialize (Hb g (all_stags_complete g)). rewrite Hh in Hb. exact Hb. }
  unfold tags_of, all_stags. cbn [map List.concat].
  destruct (has_bit (st_all t) (stag_code TgMapping)) eqn:E1; [apply Hg in E1; discriminate E1|].
  destruct (has_bit (st_all t) (stag_code TgOptionalProp)) eqn:E2; [apply Hg in E2; discriminate E2|].
  destruct (has_bit (st_all t) (stag_code TgList)) eqn:E3; [apply Hg in E3; discriminate E3|].
  destruct (has_bit (st_all t) (stag_code TgBigInt)) eqn:E4; [apply Hg in E4; discriminate E4|].
  destruct (has_bit (st_all t) (stag_code TgDate)) eqn:E5; [apply Hg in E5; discriminate E5|].
  destruct (has_bit (st_all t) (stag_code TgVoidUndefined)) eqn:E6; [apply Hg in E6; discriminate E6|].
  destruct (has_bit (st_all t) (stag_code TgTypedArray)) eqn:E7; [apply Hg in E7; discriminate E7|].
  destruct (has_bit (st_all t) (stag_code TgMap)) eqn:E8; [apply Hg in E8; discriminate E8|].
  destruct (has_bit (st_all t) (stag_code TgSet)) eqn:E9; [apply Hg in E9; discriminate E9|].
  destruct (has_bit (st_all t) (stag_code TgBoolean)) eqn:B1;
  destruct (has_bit (st_all t) (stag_code TgNumber)) eqn:B2;
  destruct (has_bit (st_all t) (stag_code TgString)) eqn:B3;
  destruct (has_bit (st_all t) (stag_code TgNull)) eqn:B4;
  cbn [tag_ir app forallb simple_ir andb existsb];
  (split; [reflexivity|]);
  destruct v as [ | |b|n|s|z| | |ms| |xs|fs|kvs|xs|k xs]; try discriminate Hv;
  try (destruct n; try discriminate Hv);
  cbn [point_of point_tag simple_mem is_nullish typeof jstype_eqb orb]; congruence.
Qed.

(* the literal sets *)
Lemma numbers_part vs v :
  forallb numval_lit vs = true -> basic_val v = true ->
  forallb simple_ir (map (numval_ir true) vs) = true /\
  existsb (fun x => simple_mem x v) (map (numval_ir true) vs) = pmem (PNumber true vs) (point_of v).
Proof.
  intros Hl Hv. induction vs as [|[z|f a] vs IH]; cbn [forallb numval_lit] in Hl.
  - split; [reflexivity|]. destruct v as [ | |b|n|s|z| | |ms| |xs|fs|kvs|xs|k xs]; try discriminate Hv; try reflexivity.
    destruct n; try discriminate Hv; reflexivity.
  - apply andb_prop in Hl as [_ Hl]. destruct (IH Hl) as [I1 I2]. split.
    + cbn [map numval_ir maybe_not negb forallb simple_ir andb]. exact I1.
    + cbn [map numval_ir maybe_not negb existsb]. rewrite I2.
      destruct v as [ | |b|n|s|z0| | |ms| |xs|fs|kvs|xs|k xs]; try discriminate Hv; try reflexivity.
      destruct n; try discriminate Hv.
      cbn [simple_mem point_of pmem lits_mem existsb numval_eqb num_strict_eqb]. rewrite (Z.eqb_sym z z0). reflexivity.
  - discriminate Hl.
Qed.

Lemma strings_part vs v :
  forallb strval_lit vs = true -> basic_val v = true ->
  forallb simple_ir (map (strval_ir true) vs) = true /\
  existsb (fun x => simple_mem x v) (map (strval_ir true) vs) = pmem (PString true vs) (point_of v).
Proof.
  intros Hl Hv. induction vs as [|sv vs IH]; cbn [forallb] in Hl.
  - split; [reflexivity|]. destruct v as [ | |b|n|s|z| | |ms| |xs|fs|kvs|xs|k xs]; try discriminate Hv; try reflexivity.
    destruct n; try discriminate Hv; reflexivity.
  - apply andb_prop in Hl as [Hs Hl]. destruct (IH Hl) as [I1 I2].
    destruct sv as [f a|items]; [discriminate Hs|].
    destruct items as [|[| | |c|os] [|i2 items]]; try discriminate Hs.
    split.
    + cbn [map strval_ir maybe_not negb forallb simple_ir andb]. exact I1.
    + cbn [map strval_ir maybe_not negb existsb]. rewrite I2.
      destruct v as [ | |b|n|s|z0| | |ms| |xs|fs|kvs|xs|k xs]; try discriminate Hv; try reflexivity.
      * destruct n; try discriminate Hv; reflexivity.
      * cbn [simple_mem point_of pmem lits_mem existsb strval_eqb lit_str list_eqb tpl_item_eqb].
        rewrite andb_true_r. rewrite (String.eqb_sym c s). reflexivity.
Qed.

Lemma data_part data v :
  forallb pos_proper data = true -> basic_val v = true ->
  forall ds, map_res proper_ir data = Ok ds ->
  forallb simple_ir (List.concat ds) = true /\
  existsb (fun x => simple_mem x v) (List.concat ds) = existsb (fun p => pmem p (point_of v)) data.
Proof.
  intros Hd Hv. induction data as [|p data IH]; intros ds Hm; cbn in Hm.
  - inversion Hm; subst. split; reflexivity.
  - cbn [forallb] in Hd. apply andb_prop in Hd as [Hp Hd].
    destruct (proper_ir p) as [l|e] eqn:Ep; cbn [bind] in Hm; [|discriminate].
    destruct (map_res proper_ir data) as [ds'|e] eqn:Ed; cbn [bind] in Hm; [|discriminate].
    inversion Hm; subst ds. destruct (IH Hd ds' eq_refl) as [I1 I2].
    cbn [List.concat existsb]. rewrite forallb_app, existsb_app'. rewrite I1, I2.
    assert (G : forallb simple_ir l = true /\ existsb (fun x => simple_mem x v) l = pmem p (point_of v)).
    { destruct p as [b|a vs|a vs|bd|bd|a vs|a vs|bd|bd]; cbn [pos_proper] in Hp; try discriminate Hp.
      - inversion Ep; subst l. split; [reflexivity|].
        destruct v as [ | |b0|n|s|z0| | |ms| |xs|fs|kvs|xs|k xs]; try discriminate Hv; try reflexivity.
        + cbn. rewrite orb_false_r. reflexivity.
        + destruct n; try discriminate Hv; reflexivity.
      - destruct a; [|discriminate Hp]. inversion Ep; subst l. apply numbers_part; assumption.
      - destruct a; [|discriminate Hp]. inversion Ep; subst l. apply strings_part; assumption. }
    destruct G as [G1 G2]. rewrite G1, G2. split; reflexivity.
Qed.

Theorem materialise_positive_basic F env f t v r :
  positive_basic t = true -> basic_val v = true -> materialise t = Ok r ->
  rmember F env (S (S f)) r v = Ok (mem t (point_of v)).
Proof.
  unfold positive_basic, materialise. intros Hp Hv. apply andb_prop in Hp as [Ht Hd].
  destruct (N.eqb (st_all t) 0 && match st_data t with [] => true | _ :: _ => false end) eqn:E0.
  - intros Hr; inversion Hr; subst r. cbn [rmember].
    apply andb_prop in E0 as [Ea Ed]. apply N.eqb_eq in Ea.
    unfold mem. destruct (st_data t); [|discriminate Ed]. cbn [existsb]. rewrite Ea.
    unfold has_bit. cbn. reflexivity.
  - destruct (map_res proper_ir (st_data t)) as [ds|e] eqn:Em; cbn [bind]; [|discriminate].
    intros Hr; inversion Hr; subst r.
    destruct (tags_part t v Ht Hv) as [T1 T2]. destruct (data_part (st_data t) v Hd Hv ds Em) as [D1 D2].
    rewrite rmember_any_of; [|rewrite forallb_app, T1, D1; reflexivity].
    rewrite existsb_app', T2, D2. reflexivity.
Qed.
