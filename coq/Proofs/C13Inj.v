(* Proofs/C13Inj.v — the byte stream hash256() feeds to SHA-256 determines the behaviour of the validator: two reference-free
   validator trees whose streams are equal accept the same values (whenever both validations answer).  Contrapositive: validators
   that disagree on some value are hashed from different byte strings. *)
From Beff Require Import Model.Hash256Enc Model.Validate Proofs.SortLemmas Proofs.C13Bytes.
From Coq Require Import Lia Sorting.Permutation.

Notation flat := (@List.concat byte).

(* ---------- numbers and constants ---------- *)
Definition dec_ok (s : string) : bool := negb (int_like s) && negb (mem_str s ["NaN"; "Infinity"; "-Infinity"]).
Definition num_ok (n : num) : bool :=
  small (canonical_number n) && match n with NDec s => dec_ok s | _ => true end.
Definition cst_ok (c : cst) : bool :=
  match c with CStr s => small s | CNum n => num_ok n | _ => true end.
Definition cnt_ok (n : nat) : bool := small (Z_to_string (Z.of_nat n)).

Lemma neg_not_minus_zero p : Z_to_string (Zneg p) <> "-0"%string.
Proof.
  cbn [Z_to_string]. intros H. cbn in H. injection H as H.
  change "0"%string with (N_to_string 0) in H. apply N_to_string_inj in H. discriminate.
Qed.

Lemma int_like_of_eq z s : Z_to_string z = s -> int_like s = true.
Proof. intros <-. apply Z_to_string_int_like. Qed.

Lemma canon_inj n m : num_ok n = true -> num_ok m = true -> canonical_number n = canonical_number m -> n = m.
Proof.
  unfold num_ok. intros Hn Hm H.
  apply Bool.andb_true_iff in Hn, Hm. destruct Hn as [_ Hn], Hm as [_ Hm].
  destruct n as [z|s| | |[]], m as [z'|s'| | |[]]; cbn [canonical_number num_to_string] in H;
    try reflexivity;
    try (apply int_like_of_eq in H; cbn in H; discriminate);
    try (symmetry in H; apply int_like_of_eq in H; cbn in H; discriminate);
    try discriminate.
  - apply Z_to_string_inj in H. subst. reflexivity.
  - unfold dec_ok in Hm. apply int_like_of_eq in H. rewrite H in Hm. discriminate.
  - exfalso. destruct z as [|p|p]; [discriminate| |exact (neg_not_minus_zero p H)].
    pose proof (Z_to_string_int_like (Zpos p)) as Hi. cbn [Z_to_string] in H, Hi.
    pose proof (N_to_string_digits (Npos p)) as Hd. rewrite H in Hd. discriminate.
  - unfold dec_ok in Hn. symmetry in H. apply int_like_of_eq in H. rewrite H in Hn. discriminate.
  - subst. reflexivity.
  - subst. unfold dec_ok in Hn. cbn in Hn. discriminate.
  - subst. unfold dec_ok in Hn. cbn in Hn. discriminate.
  - subst. unfold dec_ok in Hn. cbn in Hn. discriminate.
  - subst. unfold dec_ok in Hn. cbn in Hn. discriminate.
  - subst. unfold dec_ok in Hm. cbn in Hm. discriminate.
  - exfalso. symmetry in H. destruct z' as [|p|p]; [discriminate| |exact (neg_not_minus_zero p H)].
    pose proof (N_to_string_digits (Npos p)) as Hd. cbn [Z_to_string] in H. rewrite H in Hd. discriminate.
  - subst. unfold dec_ok in Hm. cbn in Hm. discriminate.
  - subst. unfold dec_ok in Hm. cbn in Hm. discriminate.
  - subst. unfold dec_ok in Hm. cbn in Hm. discriminate.
Qed.

Lemma number_inj n m x y : num_ok n = true -> num_ok m = true ->
  flat (w_number n) ++ x = flat (w_number m) ++ y -> n = m /\ x = y.
Proof.
  intros Hn Hm H. pose proof Hn as Hn'. pose proof Hm as Hm'. unfold num_ok in Hn', Hm'.
  apply Bool.andb_true_iff in Hn', Hm'. destruct Hn' as [Sn _], Hm' as [Sm _].
  apply framed_inj in H; [|assumption|assumption]. destruct H as [H ->].
  split; [apply canon_inj; assumption|reflexivity].
Qed.

Lemma nat_inj n m x y : cnt_ok n = true -> cnt_ok m = true ->
  flat (w_nat n) ++ x = flat (w_nat m) ++ y -> n = m /\ x = y.
Proof.
  unfold cnt_ok, w_nat. intros Hn Hm H.
  apply number_inj in H.
  - destruct H as [H ->]. injection H as H. apply Nat2Z.inj in H. split; [exact H|reflexivity].
  - unfold num_ok. cbn [canonical_number num_to_string]. rewrite Hn. reflexivity.
  - unfold num_ok. cbn [canonical_number num_to_string]. rewrite Hm. reflexivity.
Qed.

Lemma flat_app (a b : list (list byte)) : flat (a ++ b) = flat a ++ flat b.
Proof. apply concat_app. Qed.

(* normalise an equation between two streams and peel one tag off both sides *)
Ltac norm H := repeat rewrite flat_app in H; repeat rewrite <- app_assoc in H.
Ltac peel_tag H :=
  let E := fresh "E" in
  apply tag_inj in H; [destruct H as [E H]; try discriminate E; clear E | reflexivity | reflexivity].

Lemma const_inj c d x y : cst_ok c = true -> cst_ok d = true ->
  flat (w_const c) ++ x = flat (w_const d) ++ y -> c = d /\ x = y.
Proof.
  intros Hc Hd H.
  destruct c as [|a|n|s], d as [|b|m|t]; cbn [w_const] in H; norm H;
    try (cbn in H; discriminate H); try (peel_tag H; fail).
  - cbn in H. injection H as ->. split; reflexivity.
  - peel_tag H. apply bool_inj in H. destruct H as [-> ->]. split; reflexivity.
  - peel_tag H. apply number_inj in H; [|exact Hc|exact Hd]. destruct H as [-> ->]. split; reflexivity.
  - peel_tag H. apply string_inj in H; [|exact Hc|exact Hd]. destruct H as [-> ->]. split; reflexivity.
Qed.

Lemma consts_inj cs ds x y : List.length cs = List.length ds -> forallb cst_ok cs = true -> forallb cst_ok ds = true ->
  flat (List.concat (map w_const cs)) ++ x = flat (List.concat (map w_const ds)) ++ y -> cs = ds /\ x = y.
Proof.
  revert ds x y; induction cs as [|c cs IH]; intros [|d ds] x y Hl Hc Hd H; try discriminate Hl.
  - cbn in H. split; [reflexivity|exact H].
  - cbn [map List.concat forallb] in *. apply Bool.andb_true_iff in Hc, Hd. destruct Hc as [Hc Hcs], Hd as [Hd Hds].
    norm H. apply const_inj in H; [|assumption|assumption]. destruct H as [-> H].
    injection Hl as Hl. destruct (IH ds x y Hl Hcs Hds H) as [-> ->]. split; reflexivity.
Qed.

Lemma strings_inj cs ds x y : List.length cs = List.length ds -> forallb small cs = true -> forallb small ds = true ->
  flat (List.concat (map w_string cs)) ++ x = flat (List.concat (map w_string ds)) ++ y -> cs = ds /\ x = y.
Proof.
  revert ds x y; induction cs as [|c cs IH]; intros [|d ds] x y Hl Hc Hd H; try discriminate Hl.
  - cbn in H. split; [reflexivity|exact H].
  - cbn [map List.concat forallb] in *. apply Bool.andb_true_iff in Hc, Hd. destruct Hc as [Hc Hcs], Hd as [Hd Hds].
    norm H. apply string_inj in H; [|assumption|assumption]. destruct H as [-> H].
    injection Hl as Hl. destruct (IH ds x y Hl Hcs Hds H) as [-> ->]. split; reflexivity.
Qed.

(* ---------- the fragment ---------- *)
Fixpoint nodupb (l : list string) : bool :=
  match l with [] => true | x :: l' => negb (mem_str x l') && nodupb l' end.

(* ---------- agreement of two answers ---------- *)
Definition agree (a b : res bool) : Prop := forall x y, a = Ok x -> b = Ok y -> x = y.

Lemma agree_refl_ok b : agree (Ok b) (Ok b).
Proof. intros x y [= <-] [= <-]. reflexivity. Qed.

Lemma forall_res_agree {A B} (R : A -> B -> Prop) g1 g2 l1 l2 :
  Forall2 R l1 l2 -> (forall a b, R a b -> agree (g1 a) (g2 b)) -> agree (forall_res g1 l1) (forall_res g2 l2).
Proof.
  intros HF Hg. induction HF as [|a b l1 l2 HR HF IH]; cbn; [apply agree_refl_ok|].
  specialize (Hg a b HR). destruct (g1 a) as [[]|e1], (g2 b) as [[]|e2]; intros x y Hx Hy; try discriminate.
  - exact (IH x y Hx Hy).
  - specialize (Hg true false eq_refl eq_refl). discriminate.
  - specialize (Hg false true eq_refl eq_refl). discriminate.
  - congruence.
Qed.

Lemma exists_res_agree {A B} (R : A -> B -> Prop) g1 g2 l1 l2 :
  Forall2 R l1 l2 -> (forall a b, R a b -> agree (g1 a) (g2 b)) -> agree (exists_res g1 l1) (exists_res g2 l2).
Proof.
  intros HF Hg. induction HF as [|a b l1 l2 HR HF IH]; cbn; [apply agree_refl_ok|].
  specialize (Hg a b HR). destruct (g1 a) as [[]|e1], (g2 b) as [[]|e2]; intros x y Hx Hy; try discriminate.
  - congruence.
  - specialize (Hg true false eq_refl eq_refl). discriminate.
  - specialize (Hg false true eq_refl eq_refl). discriminate.
  - exact (IH x y Hx Hy).
Qed.

Lemma prefix_res_agree {A B C} (R : A -> B -> Prop) (p1 : A -> C -> res bool) (p2 : B -> C -> res bool) d xs l1 l2 :
  Forall2 R l1 l2 -> (forall a b c, R a b -> agree (p1 a c) (p2 b c)) ->
  forall idx, agree (prefix_res p1 d xs l1 idx) (prefix_res p2 d xs l2 idx).
Proof.
  intros HF Hg. induction HF as [|a b l1 l2 HR HF IH]; intros idx; cbn; [apply agree_refl_ok|].
  specialize (Hg a b (nth idx xs d) HR).
  destruct (p1 a (nth idx xs d)) as [[]|e1], (p2 b (nth idx xs d)) as [[]|e2]; intros x y Hx Hy; try discriminate.
  - exact (IH (S idx) x y Hx Hy).
  - specialize (Hg true false eq_refl eq_refl). discriminate.
  - specialize (Hg false true eq_refl eq_refl). discriminate.
  - congruence.
Qed.

Lemma forall_res_true {A} (g : A -> res bool) l : forall_res g l = Ok true -> forall a, In a l -> g a = Ok true.
Proof.
  induction l as [|x l IH]; cbn; intros H a []; subst.
  - destruct (g a) as [[]|]; [reflexivity|discriminate|discriminate].
  - destruct (g x) as [[]|]; [apply IH; assumption|discriminate|discriminate].
Qed.
Lemma forall_res_false {A} (g : A -> res bool) l : forall_res g l = Ok false -> exists a, In a l /\ g a = Ok false.
Proof.
  induction l as [|x l IH]; cbn; intros H; [discriminate|].
  destruct (g x) as [[]|] eqn:E; [|exists x; split; [left; reflexivity|exact E]|discriminate].
  destruct (IH H) as [a [Ha Hg]]. exists a. split; [right; exact Ha|exact Hg].
Qed.

(* ---------- association lists ---------- *)
Lemma mem_str_In k l : mem_str k l = true <-> In k l.
Proof.
  induction l as [|x l IH]; cbn; [split; [discriminate|intros []]|].
  destruct (String.eqb_spec k x) as [->|Hne].
  - split; [left; reflexivity|reflexivity].
  - rewrite IH. split; [right; assumption|intros [->|H]; [congruence|exact H]].
Qed.

Lemma assoc_In {A} k (v : A) l : assoc k l = Some v -> In (k, v) l.
Proof.
  induction l as [|[k' v'] l IH]; cbn; [discriminate|].
  destruct (String.eqb_spec k k') as [->|Hne]; [intros [= ->]; left; reflexivity|intros H; right; apply IH; exact H].
Qed.

Lemma In_assoc_nodup {A} k (v : A) l : nodupb (keys l) = true -> In (k, v) l -> assoc k l = Some v.
Proof.
  induction l as [|[k' v'] l IH]; cbn; [intros _ []|].
  intros Hn [H|H].
  - injection H as -> ->. rewrite String.eqb_refl. reflexivity.
  - apply Bool.andb_true_iff in Hn. destruct Hn as [Hm Hn].
    destruct (String.eqb_spec k k') as [->|Hne].
    + exfalso. apply Bool.negb_true_iff in Hm.
      assert (Hin : In k' (keys l)) by (apply (in_map fst) in H; exact H).
      apply mem_str_In in Hin. unfold keys in *. congruence.
    + apply IH; assumption.
Qed.

Lemma In_keys_assoc {A} k (l : list (string * A)) : In k (keys l) -> exists v, assoc k l = Some v.
Proof.
  induction l as [|[k' v'] l IH]; cbn; [intros []|].
  intros H. destruct (String.eqb_spec k k') as [->|Hne]; [eexists; reflexivity|].
  destruct H as [H|H]; [cbn in H; exfalso; apply Hne; symmetry; exact H|apply IH; exact H].
Qed.

Lemma forall_res_agree_same {A} (g1 g2 : A -> res bool) l :
  (forall a, agree (g1 a) (g2 a)) -> agree (forall_res g1 l) (forall_res g2 l).
Proof.
  intros Hg. apply (forall_res_agree eq); [|intros a b <-; apply Hg].
  induction l; constructor; [reflexivity|assumption].
Qed.

Lemma forallb_perm {A} (p : A -> bool) l l' : Permutation l l' -> forallb p l = forallb p l'.
Proof.
  induction 1; cbn; [reflexivity|congruence| |congruence].
  destruct (p x), (p y); reflexivity.
Qed.
Lemma existsb_perm {A} (p : A -> bool) l l' : Permutation l l' -> existsb p l = existsb p l'.
Proof.
  induction 1; cbn; [reflexivity|congruence| |congruence].
  destruct (p x), (p y); reflexivity.
Qed.

Lemma sorted_eq_perm {A} (leb : A -> A -> bool) l l' : sort_by leb l = sort_by leb l' -> Permutation l l'.
Proof.
  intros H. rewrite (sort_perm leb l), H. symmetry. apply sort_perm.
Qed.

Lemma Forall2_len {A B} (R : A -> B -> Prop) l1 l2 : Forall2 R l1 l2 -> List.length l1 = List.length l2.
Proof. induction 1; cbn; congruence. Qed.

Fixpoint tag_of (r : rt) : string :=
  match r with
  | RTypeof _ => "typeof" | RAny => "any" | RNullish _ => "nullish" | RNever => "never" | RConst _ => "const"
  | RRegex _ _ => "regex" | RDate => "date" | RBigInt => "bigint" | RTypedArray _ => "typedArray"
  | RStringFmt _ => "stringWithFormat" | RNumberFmt _ => "numberWithFormat" | RAnyOfConsts _ => "anyOfConsts"
  | RTuple _ _ => "tuple" | RAllOf _ => "allOf" | RAnyOf _ => "anyOf" | RArray _ => "array" | RMap _ _ => "map"
  | RSet _ => "set" | RDisc _ _ _ _ => "anyOfDiscriminated" | ROptional _ => "optionalField" | RObject _ _ => "object"
  | RRef _ => "" | RMeta _ t => tag_of t
  end.
Lemma small_tag r : small (tag_of r) = true.
Proof. induction r; try reflexivity. exact IHr. Qed.

Ltac bind_ok H :=
  match type of H with
  | bind ?e _ = Ok _ => let p := fresh "p" in let E := fresh "E" in destruct e as [p|] eqn:E; cbn [bind] in H; [|discriminate H]
  end.

Arguments w_string : simpl never.
Arguments w_tag : simpl never.
Arguments w_bool : simpl never.
Arguments w_nat : simpl never.
Arguments w_number : simpl never.
Arguments w_utf8 : simpl never.
Arguments w_null : simpl never.
Arguments w_const : simpl never.

Lemma Ok_inj {A} (a b : A) : Ok a = Ok b -> a = b.
Proof. intros [= ->]. reflexivity. Qed.

Section Inj.
  Variable F : formats.
  Variable env : renv.
  (* named types: a rank function along which every reference descends (no recursion) *)
  Variable rank : string -> nat.

  Fixpoint hfr (n : nat) (r : rt) : bool :=
    match r with
    | RTypeof _ | RAny | RNullish _ | RNever | RDate | RBigInt => true
    | RConst c => cst_ok c
    | RTypedArray c => small c
    | RStringFmt fs | RNumberFmt fs => forallb small fs && cnt_ok (List.length fs)
    | RAnyOfConsts cs => forallb cst_ok cs && cnt_ok (List.length cs)
    | RTuple p rest => forallb (hfr n) p && cnt_ok (List.length p) && match rest with Some r' => hfr n r' | None => true end
    | RAllOf rs | RAnyOf rs => forallb (hfr n) rs && cnt_ok (List.length rs)
    | RArray t | RSet t | ROptional t => hfr n t
    | RMap k v => hfr n k && hfr n v
    | RObject props indexed =>
        nodupb (keys props) && forallb (fun kv => small (fst kv) && hfr n (snd kv)) props && cnt_ok (List.length props)
        && forallb (fun kv => hfr n (fst kv) && hfr n (snd kv)) indexed && cnt_ok (List.length indexed)
    | RDisc ss disc mapping _ =>
        forallb (hfr n) ss && cnt_ok (List.length ss) && small disc && nodupb (keys mapping)
        && forallb (fun kv => small (fst kv) && hfr n (snd kv)) mapping && cnt_ok (List.length mapping)
    | RMeta _ t => hfr n t
    | RRef name => match assoc name env with Some _ => Nat.ltb (rank name) n | None => false end
    | RRegex _ _ => false
    end.

  Hypothesis env_ok : forall name t, assoc name env = Some t -> hfr (rank name) t = true.

  (* the names being hashed all have a rank no node of the tree refers to *)
  Definition aok (n : nat) (a : list (string * nat)) : Prop := forall name, In name (keys a) -> n <= rank name.

  Definition beq (r1 r2 : rt) : Prop :=
    forall fv1 fv2 strict v, agree (validate F env fv1 strict r1 v) (validate F env fv2 strict r2 v).

  Definition encP (f1 : nat) : Prop :=
    forall n1 n2 r1 r2 f2 st1 st2 p1 p2 x y, hfr n1 r1 = true -> hfr n2 r2 = true ->
      aok n1 (fst st1) -> aok n2 (fst st2) ->
      enc env f1 st1 r1 = Ok p1 -> enc env f2 st2 r2 = Ok p2 ->
      flat (fst p1) ++ x = flat (fst p2) ++ y -> beq r1 r2 /\ x = y.

  Definition enc_seq (e : est -> rt -> res (list (list byte) * est)) :=
    fix go (l : list rt) (st : est) : res (list (list byte) * est) :=
      match l with
      | [] => Ok ([], st)
      | x :: l' => do a <- e st x; do b <- go l' (snd a); Ok (fst a ++ fst b, snd b)
      end.
  Definition enc_idx (e : est -> rt -> res (list (list byte) * est)) :=
    fix go (ps : list (rt * rt)) (st : est) : res (list (list byte) * est) :=
      match ps with
      | [] => Ok ([], st)
      | kv :: ps' =>
          do a <- e st (fst kv); do b <- e (snd a) (snd kv); do c <- go ps' (snd b);
          Ok (fst a ++ fst b ++ fst c, snd c)
      end.

  Lemma enc_tuple f st p rest :
    enc env (S f) st (RTuple p rest) =
    (do q <- enc_seq (enc env f) p st;
     match rest with
     | None => Ok (w_tag "tuple" ++ w_nat (List.length p) ++ fst q ++ w_tag "noRest", snd q)
     | Some rr => do q' <- enc env f (snd q) rr;
                  Ok (w_tag "tuple" ++ w_nat (List.length p) ++ fst q ++ w_tag "rest" ++ fst q', snd q')
     end).
  Proof. reflexivity. Qed.
  Lemma enc_allof f st rs :
    enc env (S f) st (RAllOf rs) = (do p <- enc_seq (enc env f) rs st; Ok (w_tag "allOf" ++ w_nat (List.length rs) ++ fst p, snd p)).
  Proof. reflexivity. Qed.
  Lemma enc_anyof f st rs :
    enc env (S f) st (RAnyOf rs) = (do p <- enc_seq (enc env f) rs st; Ok (w_tag "anyOf" ++ w_nat (List.length rs) ++ fst p, snd p)).
  Proof. reflexivity. Qed.
  Lemma enc_object f st props indexed :
    enc env (S f) st (RObject props indexed) =
    (let ks := sort_strings (keys props) in
     do p <- enc_props (enc env f) (fun k => assoc k props) ks st;
     do q <- enc_idx (enc env f) indexed (snd p);
     Ok (w_tag "object" ++ w_nat (List.length ks) ++ fst p ++ w_nat (List.length indexed) ++ fst q, snd q)).
  Proof. reflexivity. Qed.

  Lemma enc_disc f st ss disc mapping sm :
    enc env (S f) st (RDisc ss disc mapping sm) =
    (do p <- enc_seq (enc env f) ss st;
     let ks := sort_strings (keys mapping) in
     do q <- enc_mapping (enc env f) (fun k => assoc k mapping) ks (snd p);
     Ok (w_tag "anyOfDiscriminated" ++ w_string disc ++ w_nat (List.length ss) ++ fst p ++ w_nat (List.length ks) ++ fst q, snd q)).
  Proof. reflexivity. Qed.

  Fixpoint tag_f (f : nat) (r : rt) : string :=
    match f with
    | O => ""
    | S f' => match r with
              | RMeta _ t => tag_f f' t
              | RRef name => match assoc name env with Some t => tag_f f' t | None => "" end
              | _ => tag_of r
              end
    end.
  Lemma small_tag_f f r : small (tag_f f r) = true.
  Proof.
    revert r; induction f as [|f IHf]; intros r; [reflexivity|]. destruct r; try reflexivity; cbn [tag_f].
    - destruct (assoc name env); [apply IHf|reflexivity].
    - apply IHf.
  Qed.

  (* ---------- the table of active names comes back unchanged ---------- *)
  Definition keeps (n : nat) (e : est -> rt -> res (list (list byte) * est)) : Prop :=
    forall st r p, hfr n r = true -> aok n (fst st) -> e st r = Ok p -> fst (snd p) = fst st.

  Lemma seq_keeps n e : keeps n e -> forall l st p, forallb (hfr n) l = true -> aok n (fst st) ->
    enc_seq e l st = Ok p -> fst (snd p) = fst st.
  Proof.
    intros K. induction l as [|a l IHl]; intros st p Hl A E; cbn [enc_seq] in E.
    - apply Ok_inj in E. subst p. reflexivity.
    - cbn [forallb] in Hl. apply Bool.andb_true_iff in Hl. destruct Hl as [Ha Hl].
      bind_ok E. bind_ok E. apply Ok_inj in E. subst p. cbn [snd].
      pose proof (K _ _ _ Ha A E0) as K1. rewrite (IHl _ _ Hl ltac:(rewrite K1; exact A) E1). exact K1.
  Qed.
  Lemma idx_keeps n e : keeps n e -> forall l st p, forallb (fun kv => hfr n (fst kv) && hfr n (snd kv)) l = true ->
    aok n (fst st) -> enc_idx e l st = Ok p -> fst (snd p) = fst st.
  Proof.
    intros K. induction l as [|a l IHl]; intros st p Hl A E; cbn [enc_idx] in E.
    - apply Ok_inj in E. subst p. reflexivity.
    - cbn [forallb] in Hl. apply Bool.andb_true_iff in Hl. destruct Hl as [Ha Hl].
      apply Bool.andb_true_iff in Ha. destruct Ha as [Ha1 Ha2].
      bind_ok E. bind_ok E. bind_ok E. apply Ok_inj in E. subst p. cbn [snd].
      pose proof (K _ _ _ Ha1 A E0) as K1.
      pose proof (K _ _ _ Ha2 ltac:(rewrite K1; exact A) E1) as K2.
      rewrite (IHl _ _ Hl ltac:(rewrite K2, K1; exact A) E2). rewrite K2. exact K1.
  Qed.
  Lemma props_keeps n e look : keeps n e -> (forall k m, look k = Some m -> hfr n m = true) ->
    forall ks st p, aok n (fst st) -> enc_props e look ks st = Ok p -> fst (snd p) = fst st.
  Proof.
    intros K L. induction ks as [|k ks IHk]; intros st p A E; cbn [enc_props] in E.
    - apply Ok_inj in E. subst p. reflexivity.
    - destruct (look k) as [m|] eqn:Lk; [|discriminate E].
      bind_ok E. bind_ok E. apply Ok_inj in E. subst p. cbn [snd].
      pose proof (K _ _ _ (L _ _ Lk) A E0) as K1. rewrite (IHk _ _ ltac:(rewrite K1; exact A) E1). exact K1.
  Qed.
  Lemma mapping_keeps n e look : keeps n e -> (forall k m, look k = Some m -> hfr n m = true) ->
    forall ks st p, aok n (fst st) -> enc_mapping e look ks st = Ok p -> fst (snd p) = fst st.
  Proof.
    intros K L. induction ks as [|k ks IHk]; intros st p A E; cbn [enc_mapping] in E.
    - apply Ok_inj in E. subst p. reflexivity.
    - destruct (look k) as [m|] eqn:Lk; [|discriminate E].
      bind_ok E. bind_ok E. apply Ok_inj in E. subst p. cbn [snd].
      pose proof (K _ _ _ (L _ _ Lk) A E0) as K1. rewrite (IHk _ _ ltac:(rewrite K1; exact A) E1). exact K1.
  Qed.

  Lemma hf_props_look n props : forallb (fun kv => small (fst kv) && hfr n (snd kv)) props = true ->
    forall k m, assoc k props = Some m -> hfr n m = true.
  Proof.
    intros H k m Hm. apply assoc_In in Hm. rewrite forallb_forall in H. specialize (H _ Hm). cbn in H.
    apply Bool.andb_true_iff in H. exact (proj2 H).
  Qed.

  Ltac split_and H :=
    repeat match type of H with
           | (_ && _) = true => let H' := fresh H in apply Bool.andb_true_iff in H; destruct H as [H H']
           end.

  Lemma assoc_remove_absent {A} k (l : list (string * A)) : ~ In k (keys l) -> assoc_remove k l = l.
  Proof.
    induction l as [|[k' v] l IHl]; cbn; intros H; [reflexivity|].
    destruct (String.eqb_spec k k') as [->|Hne]; [exfalso; apply H; left; reflexivity|].
    rewrite IHl; [reflexivity|]. intros Hin. apply H. right. exact Hin.
  Qed.

  Lemma ref_inactive n name a : aok n a -> Nat.ltb (rank name) n = true -> assoc name a = None /\ ~ In name (keys a).
  Proof.
    intros A Hlt. apply Nat.ltb_lt in Hlt.
    assert (Hn : ~ In name (keys a)) by (intros Hin; specialize (A _ Hin); lia).
    split; [|exact Hn]. destruct (assoc name a) as [v|] eqn:E; [|reflexivity].
    exfalso. apply Hn. apply assoc_In in E. apply (in_map fst) in E. exact E.
  Qed.

  Lemma aok_push n name id a : aok n a -> Nat.ltb (rank name) n = true -> aok (rank name) ((name, id) :: a).
  Proof.
    intros A Hlt. apply Nat.ltb_lt in Hlt. intros k [<-|Hin]; [cbn; lia|]. specialize (A _ Hin). lia.
  Qed.

  Lemma enc_keeps f : forall n, keeps n (enc env f).
  Proof.
    induction f as [|f IHf]; intros n st r p Hh A H; [discriminate H|].
    destruct r; try discriminate Hh;
      rewrite ?enc_tuple, ?enc_allof, ?enc_anyof, ?enc_object, ?enc_disc in H; cbn [enc] in H; cbn zeta in H; cbn [hfr] in Hh;
      try (apply Ok_inj in H; subst p; reflexivity).
    - (* tuple *) split_and Hh. bind_ok H. pose proof (seq_keeps _ _ (IHf n) _ _ _ Hh A E) as K1.
      destruct rest as [rr|]; [bind_ok H|]; apply Ok_inj in H; subst p; cbn [snd]; [|exact K1].
      rewrite (IHf n _ _ _ Hh0 ltac:(rewrite K1; exact A) E0). exact K1.
    - split_and Hh. bind_ok H. apply Ok_inj in H; subst p; cbn [snd]. exact (seq_keeps _ _ (IHf n) _ _ _ Hh A E).
    - split_and Hh. bind_ok H. apply Ok_inj in H; subst p; cbn [snd]. exact (seq_keeps _ _ (IHf n) _ _ _ Hh A E).
    - bind_ok H. apply Ok_inj in H; subst p; cbn [snd]. exact (IHf n _ _ _ Hh A E).
    - split_and Hh. bind_ok H. bind_ok H. apply Ok_inj in H; subst p; cbn [snd].
      pose proof (IHf n _ _ _ Hh A E) as K1. rewrite (IHf n _ _ _ Hh0 ltac:(rewrite K1; exact A) E0). exact K1.
    - bind_ok H. apply Ok_inj in H; subst p; cbn [snd]. exact (IHf n _ _ _ Hh A E).
    - (* disc *) split_and Hh. bind_ok H. bind_ok H. apply Ok_inj in H; subst p; cbn [snd].
      pose proof (seq_keeps _ _ (IHf n) _ _ _ Hh A E) as K1.
      rewrite (mapping_keeps n _ _ (IHf n) (hf_props_look n mapping Hh1) _ _ _ ltac:(rewrite K1; exact A) E0). exact K1.
    - bind_ok H. apply Ok_inj in H; subst p; cbn [snd]. exact (IHf n _ _ _ Hh A E).
    - (* object *) split_and Hh. bind_ok H. bind_ok H. apply Ok_inj in H; subst p; cbn [snd].
      pose proof (props_keeps n _ _ (IHf n) (hf_props_look n props Hh3) _ _ _ A E) as K1.
      rewrite (idx_keeps _ _ (IHf n) _ _ _ Hh1 ltac:(rewrite K1; exact A) E0). exact K1.
    - (* named type *)
      destruct (assoc name env) as [target|] eqn:En; [|discriminate Hh].
      destruct (ref_inactive _ _ _ A Hh) as [Hnone Hnot]. rewrite Hnone in H.
      bind_ok H. apply Ok_inj in H; subst p; cbn [snd fst].
      rewrite (IHf (rank name) ((name, snd st) :: fst st, S (snd st)) _ _ (env_ok _ _ En) (aok_push _ _ _ _ A Hh) E). cbn [fst assoc_remove].
      rewrite String.eqb_refl. apply assoc_remove_absent. exact Hnot.
    - (* metadata *) exact (IHf n _ _ _ Hh A H).
  Qed.

  Lemma enc_head f : forall n st r p, hfr n r = true -> aok n (fst st) -> enc env f st r = Ok p ->
    exists body, fst p = w_tag (tag_f f r) ++ body.
  Proof.
    induction f as [|f IHf]; intros n st r p Hh A H; [discriminate H|].
    destruct r; try discriminate Hh;
      rewrite ?enc_tuple, ?enc_allof, ?enc_anyof, ?enc_object, ?enc_disc in H; cbn [enc] in H; cbn zeta in H;
      try (cbn [hfr tag_f] in *; exact (IHf _ _ _ _ Hh A H));
      try (cbn [hfr] in Hh; destruct (assoc name env) as [target|] eqn:En; [|discriminate Hh];
           destruct (ref_inactive _ _ _ A Hh) as [Hnone Hnot]; rewrite Hnone in H; bind_ok H; apply Ok_inj in H; subst p;
           cbn [fst tag_f]; rewrite En; exact (IHf (rank name) ((name, snd st) :: fst st, S (snd st)) _ _ (env_ok _ _ En) (aok_push _ _ _ _ A Hh) E));
      repeat bind_ok H;
      try (injection H as <-; cbn [fst tag_f tag_of]; eexists; reflexivity).
    destruct rest; [bind_ok H|]; injection H as <-; cbn [fst tag_f tag_of]; eexists; reflexivity.
  Qed.

  (* ---------- validation: congruence of beq ---------- *)
  Ltac fuel2 fv1 fv2 x y H1 H2 :=
    destruct fv1 as [|fv1]; [discriminate H1|]; destruct fv2 as [|fv2]; [discriminate H2|]; cbn [validate] in H1, H2.

  Lemma beq_array a b : beq a b -> beq (RArray a) (RArray b).
  Proof.
    intros Hab fv1 fv2 strict v x y H1 H2. fuel2 fv1 fv2 x y H1 H2.
    destruct v; try congruence. revert x y H1 H2. apply forall_res_agree_same. intros a0. apply Hab.
  Qed.
  Lemma beq_set a b : beq a b -> beq (RSet a) (RSet b).
  Proof.
    intros Hab fv1 fv2 strict v x y H1 H2. fuel2 fv1 fv2 x y H1 H2.
    destruct v; try congruence. revert x y H1 H2. apply forall_res_agree_same. intros a0. apply Hab.
  Qed.
  Lemma beq_optional a b : beq a b -> beq (ROptional a) (ROptional b).
  Proof.
    intros Hab fv1 fv2 strict v x y H1 H2. fuel2 fv1 fv2 x y H1 H2.
    destruct (is_nullish v); [congruence|]. exact (Hab _ _ _ _ _ _ H1 H2).
  Qed.
  Lemma beq_map k1 v1 k2 v2 : beq k1 k2 -> beq v1 v2 -> beq (RMap k1 v1) (RMap k2 v2).
  Proof.
    intros Hk Hv fv1 fv2 strict v x y H1 H2. fuel2 fv1 fv2 x y H1 H2.
    destruct v; try congruence. revert x y H1 H2. apply forall_res_agree_same. intros kv x y H1 H2.
    destruct (validate F env fv1 strict k1 (fst kv)) as [a|] eqn:E1; cbn [bind] in H1; [|discriminate].
    destruct (validate F env fv2 strict k2 (fst kv)) as [b|] eqn:E2; cbn [bind] in H2; [|discriminate].
    pose proof (Hk _ _ _ _ _ _ E1 E2) as <-. destruct a; cbn [negb] in H1, H2; [|congruence].
    exact (Hv _ _ _ _ _ _ H1 H2).
  Qed.
  Lemma beq_allof l1 l2 : Forall2 beq l1 l2 -> beq (RAllOf l1) (RAllOf l2).
  Proof.
    intros HF fv1 fv2 strict v x y H1 H2. fuel2 fv1 fv2 x y H1 H2.
    revert x y H1 H2. apply (forall_res_agree beq); [exact HF|].
    intros a b Hab. destruct (negb (is_object_type v)); [apply agree_refl_ok|apply Hab].
  Qed.
  Lemma beq_anyof l1 l2 : Forall2 beq l1 l2 -> beq (RAnyOf l1) (RAnyOf l2).
  Proof.
    intros HF fv1 fv2 strict v x y H1 H2. fuel2 fv1 fv2 x y H1 H2.
    revert x y H1 H2. apply (exists_res_agree beq); [exact HF|]. intros a b Hab. apply Hab.
  Qed.

  Definition orel (a b : option rt) : Prop :=
    match a, b with Some x, Some y => beq x y | None, None => True | _, _ => False end.

  Lemma beq_tuple p1 p2 r1 r2 : Forall2 beq p1 p2 -> orel r1 r2 -> beq (RTuple p1 r1) (RTuple p2 r2).
  Proof.
    intros HF Hr fv1 fv2 strict v x y H1 H2. fuel2 fv1 fv2 x y H1 H2.
    destruct v; try congruence.
    destruct (prefix_res (validate F env fv1 strict) VUndef xs p1 0) as [o1|] eqn:E1; cbn [bind] in H1; [|discriminate].
    destruct (prefix_res (validate F env fv2 strict) VUndef xs p2 0) as [o2|] eqn:E2; cbn [bind] in H2; [|discriminate].
    assert (o1 = o2) as <-.
    { revert E1 E2. apply (prefix_res_agree beq); [exact HF|]. intros a b c Hab. apply Hab. }
    destruct o1; cbn [negb] in H1, H2; [|congruence].
    rewrite <- (Forall2_len _ _ _ HF) in H2.
    destruct r1 as [a|], r2 as [b|]; cbn in Hr; try contradiction; [|congruence].
    revert x y H1 H2. apply forall_res_agree_same. intros c. apply Hr.
  Qed.

  Lemma props_agree f1 f2 strict v props1 props2 ok1 ok2 :
    nodupb (keys props1) = true -> nodupb (keys props2) = true ->
    (forall k, In k (keys props1) <-> In k (keys props2)) ->
    (forall k m1 m2, assoc k props1 = Some m1 -> assoc k props2 = Some m2 -> beq m1 m2) ->
    forall_res (fun kp => validate F env f1 strict (snd kp) (get v (fst kp))) props1 = Ok ok1 ->
    forall_res (fun kp => validate F env f2 strict (snd kp) (get v (fst kp))) props2 = Ok ok2 ->
    ok1 = ok2.
  Proof.
    intros N1 N2 HK HM H1 H2.
    destruct ok1, ok2; try reflexivity; exfalso.
    - apply forall_res_false in H2. destruct H2 as [[k m2] [Hin Hg]]. cbn [fst snd] in Hg.
      assert (Hk : In k (keys props1)) by (apply HK; apply (in_map fst) in Hin; exact Hin).
      destruct (In_keys_assoc _ _ Hk) as [m1 Hm1].
      pose proof (forall_res_true _ _ H1 (k, m1) (assoc_In _ _ _ Hm1)) as Ht. cbn [fst snd] in Ht.
      pose proof (HM k m1 m2 Hm1 (In_assoc_nodup _ _ _ N2 Hin) _ _ _ _ _ _ Ht Hg). discriminate.
    - apply forall_res_false in H1. destruct H1 as [[k m1] [Hin Hg]]. cbn [fst snd] in Hg.
      assert (Hk : In k (keys props2)) by (apply HK; apply (in_map fst) in Hin; exact Hin).
      destruct (In_keys_assoc _ _ Hk) as [m2 Hm2].
      pose proof (forall_res_true _ _ H2 (k, m2) (assoc_In _ _ _ Hm2)) as Ht. cbn [fst snd] in Ht.
      pose proof (HM k m1 m2 (In_assoc_nodup _ _ _ N1 Hin) Hm2 _ _ _ _ _ _ Hg Ht). discriminate.
  Qed.

  Definition prel (a b : rt * rt) : Prop := beq (fst a) (fst b) /\ beq (snd a) (snd b).

  Lemma beq_object props1 idx1 props2 idx2 :
    nodupb (keys props1) = true -> nodupb (keys props2) = true ->
    (forall k, In k (keys props1) <-> In k (keys props2)) ->
    (forall k m1 m2, assoc k props1 = Some m1 -> assoc k props2 = Some m2 -> beq m1 m2) ->
    Forall2 prel idx1 idx2 ->
    beq (RObject props1 idx1) (RObject props2 idx2).
  Proof.
    intros N1 N2 HK HM HI fv1 fv2 strict v x y H1 H2. fuel2 fv1 fv2 x y H1 H2.
    destruct (is_object_type v && negb (is_array v) && negb match v with VNull => true | _ => false end); [|congruence].
    bind_ok H1. bind_ok H2.
    pose proof (props_agree _ _ _ _ _ _ _ _ N1 N2 HK HM E E0) as <-.
    destruct p; cbn [negb] in H1, H2; [|congruence].
    assert (Hf : filter (fun k => negb (mem_str k (keys props1))) (own_keys v)
                 = filter (fun k => negb (mem_str k (keys props2))) (own_keys v)).
    { apply filter_ext. intros k. f_equal.
      destruct (mem_str k (keys props1)) eqn:M1, (mem_str k (keys props2)) eqn:M2; try reflexivity.
      - apply mem_str_In, HK, mem_str_In in M1. congruence.
      - apply mem_str_In, HK, mem_str_In in M2. congruence. }
    rewrite <- Hf in H2. clear Hf.
    destruct HI as [|a b idx1 idx2 Hab HI]; [congruence|].
    revert x y H1 H2. apply forall_res_agree_same. intros k.
    apply (exists_res_agree prel); [constructor; assumption|].
    intros c d [Hc Hd] x y H1 H2.
    destruct (validate F env fv1 strict (fst c) (VStr k)) as [a1|] eqn:E1; cbn [bind] in H1; [|discriminate].
    destruct (validate F env fv2 strict (fst d) (VStr k)) as [a2|] eqn:E2; cbn [bind] in H2; [|discriminate].
    pose proof (Hc _ _ _ _ _ _ E1 E2) as <-. destruct a1; cbn [negb] in H1, H2; [|congruence].
    exact (Hd _ _ _ _ _ _ H1 H2).
  Qed.

  Lemma beq_meta_l d t r : beq t r -> beq (RMeta d t) r.
  Proof.
    intros Hb fv1 fv2 strict v x y H1 H2. destruct fv1 as [|fv1]; [discriminate H1|]. cbn [validate] in H1.
    exact (Hb _ _ _ _ _ _ H1 H2).
  Qed.
  Lemma beq_meta_r d t r : beq r t -> beq r (RMeta d t).
  Proof.
    intros Hb fv1 fv2 strict v x y H1 H2. destruct fv2 as [|fv2]; [discriminate H2|]. cbn [validate] in H2.
    exact (Hb _ _ _ _ _ _ H1 H2).
  Qed.

  Lemma not_In_assoc {A} k (l : list (string * A)) : ~ In k (keys l) -> assoc k l = None.
  Proof.
    intros H. destruct (assoc k l) as [v|] eqn:E; [|reflexivity].
    exfalso. apply H. apply assoc_In in E. apply (in_map fst) in E. exact E.
  Qed.

  Lemma beq_disc ss1 ss2 disc map1 map2 sm1 sm2 :
    (forall k, In k (keys map1) <-> In k (keys map2)) ->
    (forall k m1 m2, assoc k map1 = Some m1 -> assoc k map2 = Some m2 -> beq m1 m2) ->
    beq (RDisc ss1 disc map1 sm1) (RDisc ss2 disc map2 sm2).
  Proof.
    intros HK HM fv1 fv2 strict v x y H1 H2. fuel2 fv1 fv2 x y H1 H2.
    destruct (negb (is_object_type v) || is_nullish v); [congruence|].
    destruct (is_nullish (get v disc)); [congruence|].
    destruct (to_key (get v disc)) as [key|]; cbn [bind] in H1, H2; [|discriminate].
    destruct key as [k|]; cbn [lookup_plain] in H1, H2; [|congruence].
    destruct (assoc k map1) as [m1|] eqn:A1.
    - assert (Hin : In k (keys map2)) by (apply HK; apply assoc_In in A1; apply (in_map fst) in A1; exact A1).
      destruct (In_keys_assoc _ _ Hin) as [m2 A2]. rewrite A2 in H2. exact (HM _ _ _ A1 A2 _ _ _ _ _ _ H1 H2).
    - assert (A2 : assoc k map2 = None).
      { apply not_In_assoc. intros Hin. apply HK in Hin. destruct (In_keys_assoc _ _ Hin) as [m A]. congruence. }
      rewrite A2 in H2. destruct (mem_str k object_proto_functions); [discriminate|].
      destruct (String.eqb k proto_key); [discriminate|]. congruence.
  Qed.

  Lemma beq_ref_l name t r : assoc name env = Some t -> beq t r -> beq (RRef name) r.
  Proof.
    intros En Hb fv1 fv2 strict v x y H1 H2. destruct fv1 as [|fv1]; [discriminate H1|]. cbn [validate] in H1.
    rewrite En in H1. exact (Hb _ _ _ _ _ _ H1 H2).
  Qed.
  Lemma beq_ref_r name t r : assoc name env = Some t -> beq r t -> beq r (RRef name).
  Proof.
    intros En Hb fv1 fv2 strict v x y H1 H2. destruct fv2 as [|fv2]; [discriminate H2|]. cbn [validate] in H2.
    rewrite En in H2. exact (Hb _ _ _ _ _ _ H1 H2).
  Qed.

  (* ---------- reading sequences back ---------- *)
  Lemma seq_inj f1 f2 n1 n2 : encP f1 ->
    forall l1 l2 st1 st2 p1 p2 x y, List.length l1 = List.length l2 ->
      forallb (hfr n1) l1 = true -> forallb (hfr n2) l2 = true -> aok n1 (fst st1) -> aok n2 (fst st2) ->
      enc_seq (enc env f1) l1 st1 = Ok p1 -> enc_seq (enc env f2) l2 st2 = Ok p2 ->
      flat (fst p1) ++ x = flat (fst p2) ++ y -> Forall2 beq l1 l2 /\ x = y.
  Proof.
    intros IH. induction l1 as [|a l1 IHl]; intros [|b l2] st1 st2 p1 p2 x y Hl H1 H2 A1 A2 E1 E2 H; try discriminate Hl.
    - cbn in E1, E2. injection E1 as <-. injection E2 as <-. cbn in H. split; [constructor|exact H].
    - cbn [enc_seq] in E1, E2. cbn [forallb] in H1, H2. apply Bool.andb_true_iff in H1, H2.
      destruct H1 as [Ha Hl1], H2 as [Hb Hl2].
      bind_ok E1. bind_ok E1. bind_ok E2. bind_ok E2. apply Ok_inj in E1, E2. subst p1 p2. cbn [fst] in H. norm H.
      destruct (IH _ _ _ _ _ _ _ _ _ _ _ Ha Hb A1 A2 E E3 H) as [Hab H'].
      pose proof (enc_keeps _ _ _ _ _ Ha A1 E) as K1. pose proof (enc_keeps _ _ _ _ _ Hb A2 E3) as K2.
      injection Hl as Hl.
      destruct (IHl _ _ _ _ _ _ _ Hl Hl1 Hl2 ltac:(rewrite K1; exact A1) ltac:(rewrite K2; exact A2) E0 E4 H') as [HF ->].
      split; [constructor; assumption|reflexivity].
  Qed.

  Lemma idx_inj f1 f2 n1 n2 : encP f1 ->
    forall l1 l2 st1 st2 p1 p2 x y, List.length l1 = List.length l2 ->
      forallb (fun kv => hfr n1 (fst kv) && hfr n1 (snd kv)) l1 = true ->
      forallb (fun kv => hfr n2 (fst kv) && hfr n2 (snd kv)) l2 = true -> aok n1 (fst st1) -> aok n2 (fst st2) ->
      enc_idx (enc env f1) l1 st1 = Ok p1 -> enc_idx (enc env f2) l2 st2 = Ok p2 ->
      flat (fst p1) ++ x = flat (fst p2) ++ y -> Forall2 prel l1 l2 /\ x = y.
  Proof.
    intros IH. induction l1 as [|a l1 IHl]; intros [|b l2] st1 st2 p1 p2 x y Hl H1 H2 A1 A2 E1 E2 H; try discriminate Hl.
    - cbn in E1, E2. injection E1 as <-. injection E2 as <-. cbn in H. split; [constructor|exact H].
    - cbn [enc_idx] in E1, E2. cbn [forallb] in H1, H2. apply Bool.andb_true_iff in H1, H2.
      destruct H1 as [Ha Hl1], H2 as [Hb Hl2]. apply Bool.andb_true_iff in Ha, Hb. destruct Ha as [Ha1 Ha2], Hb as [Hb1 Hb2].
      bind_ok E1. bind_ok E1. bind_ok E1. bind_ok E2. bind_ok E2. bind_ok E2.
      apply Ok_inj in E1, E2. subst p1 p2. cbn [fst] in H. norm H.
      destruct (IH _ _ _ _ _ _ _ _ _ _ _ Ha1 Hb1 A1 A2 E E4 H) as [Hk H'].
      pose proof (enc_keeps _ _ _ _ _ Ha1 A1 E) as K1. pose proof (enc_keeps _ _ _ _ _ Hb1 A2 E4) as K2.
      assert (A1' : aok n1 (fst (snd p))) by (rewrite K1; exact A1).
      assert (A2' : aok n2 (fst (snd p4))) by (rewrite K2; exact A2).
      destruct (IH _ _ _ _ _ _ _ _ _ _ _ Ha2 Hb2 A1' A2' E0 E5 H') as [Hv H''].
      pose proof (enc_keeps _ _ _ _ _ Ha2 A1' E0) as K3. pose proof (enc_keeps _ _ _ _ _ Hb2 A2' E5) as K4.
      injection Hl as Hl.
      destruct (IHl _ _ _ _ _ _ _ Hl Hl1 Hl2 ltac:(rewrite K3; exact A1') ltac:(rewrite K4; exact A2') E3 E6 H'') as [HF ->].
      split; [constructor; [split; assumption|assumption]|reflexivity].
  Qed.

  Lemma props_inj f1 f2 n1 n2 look1 look2 : encP f1 ->
    (forall k m, look1 k = Some m -> hfr n1 m = true) -> (forall k m, look2 k = Some m -> hfr n2 m = true) ->
    forall ks1 ks2 st1 st2 p1 p2 x y, List.length ks1 = List.length ks2 ->
      forallb small ks1 = true -> forallb small ks2 = true -> aok n1 (fst st1) -> aok n2 (fst st2) ->
      enc_props (enc env f1) look1 ks1 st1 = Ok p1 -> enc_props (enc env f2) look2 ks2 st2 = Ok p2 ->
      flat (fst p1) ++ x = flat (fst p2) ++ y ->
      ks1 = ks2 /\ (forall k, In k ks1 -> exists m1 m2, look1 k = Some m1 /\ look2 k = Some m2 /\ beq m1 m2) /\ x = y.
  Proof.
    intros IH L1 L2. induction ks1 as [|k ks1 IHk]; intros [|k' ks2] st1 st2 p1 p2 x y Hl S1 S2 A1 A2 E1 E2 H; try discriminate Hl.
    - cbn in E1, E2. injection E1 as <-. injection E2 as <-. cbn in H. split; [reflexivity|split; [intros k []|exact H]].
    - cbn [enc_props] in E1, E2. cbn [forallb] in S1, S2. apply Bool.andb_true_iff in S1, S2.
      destruct S1 as [Sk S1], S2 as [Sk' S2].
      destruct (look1 k) as [m1|] eqn:Lk1; [|discriminate E1]. destruct (look2 k') as [m2|] eqn:Lk2; [|discriminate E2].
      bind_ok E1. bind_ok E1. bind_ok E2. bind_ok E2. apply Ok_inj in E1, E2. subst p1 p2. cbn [fst] in H. norm H.
      apply string_inj in H; [|assumption|assumption]. destruct H as [<- H].
      apply bool_inj in H. destruct H as [_ H].
      destruct (IH _ _ _ _ _ _ _ _ _ _ _ (L1 _ _ Lk1) (L2 _ _ Lk2) A1 A2 E E3 H) as [Hm H'].
      pose proof (enc_keeps _ _ _ _ _ (L1 _ _ Lk1) A1 E) as K1. pose proof (enc_keeps _ _ _ _ _ (L2 _ _ Lk2) A2 E3) as K2.
      injection Hl as Hl.
      destruct (IHk _ _ _ _ _ _ _ Hl S1 S2 ltac:(rewrite K1; exact A1) ltac:(rewrite K2; exact A2) E0 E4 H') as [-> [Hall ->]].
      split; [reflexivity|split; [|reflexivity]].
      intros k0 [<-|Hin]; [exists m1, m2; repeat split; assumption|apply Hall; exact Hin].
  Qed.

  Lemma mapping_inj f1 f2 n1 n2 look1 look2 : encP f1 ->
    (forall k m, look1 k = Some m -> hfr n1 m = true) -> (forall k m, look2 k = Some m -> hfr n2 m = true) ->
    forall ks1 ks2 st1 st2 p1 p2 x y, List.length ks1 = List.length ks2 ->
      forallb small ks1 = true -> forallb small ks2 = true -> aok n1 (fst st1) -> aok n2 (fst st2) ->
      enc_mapping (enc env f1) look1 ks1 st1 = Ok p1 -> enc_mapping (enc env f2) look2 ks2 st2 = Ok p2 ->
      flat (fst p1) ++ x = flat (fst p2) ++ y ->
      ks1 = ks2 /\ (forall k, In k ks1 -> exists m1 m2, look1 k = Some m1 /\ look2 k = Some m2 /\ beq m1 m2) /\ x = y.
  Proof.
    intros IH L1 L2. induction ks1 as [|k ks1 IHk]; intros [|k' ks2] st1 st2 p1 p2 x y Hl S1 S2 A1 A2 E1 E2 H; try discriminate Hl.
    - cbn in E1, E2. injection E1 as <-. injection E2 as <-. cbn in H. split; [reflexivity|split; [intros k []|exact H]].
    - cbn [enc_mapping] in E1, E2. cbn [forallb] in S1, S2. apply Bool.andb_true_iff in S1, S2.
      destruct S1 as [Sk S1], S2 as [Sk' S2].
      destruct (look1 k) as [m1|] eqn:Lk1; [|discriminate E1]. destruct (look2 k') as [m2|] eqn:Lk2; [|discriminate E2].
      bind_ok E1. bind_ok E1. bind_ok E2. bind_ok E2. apply Ok_inj in E1, E2. subst p1 p2. cbn [fst] in H. norm H.
      apply string_inj in H; [|assumption|assumption]. destruct H as [<- H].
      destruct (IH _ _ _ _ _ _ _ _ _ _ _ (L1 _ _ Lk1) (L2 _ _ Lk2) A1 A2 E E3 H) as [Hm H'].
      pose proof (enc_keeps _ _ _ _ _ (L1 _ _ Lk1) A1 E) as K1. pose proof (enc_keeps _ _ _ _ _ (L2 _ _ Lk2) A2 E3) as K2.
      injection Hl as Hl.
      destruct (IHk _ _ _ _ _ _ _ Hl S1 S2 ltac:(rewrite K1; exact A1) ltac:(rewrite K2; exact A2) E0 E4 H') as [-> [Hall ->]].
      split; [reflexivity|split; [|reflexivity]].
      intros k0 [<-|Hin]; [exists m1, m2; repeat split; assumption|apply Hall; exact Hin].
  Qed.

  Lemma forallb_small_sorted l : forallb small l = true -> forallb small (sort_strings l) = true.
  Proof. intros H. unfold sort_strings. rewrite <- (forallb_perm small _ _ (sort_perm str_leb l)). exact H. Qed.
  Lemma length_sorted {A} (leb : A -> A -> bool) l : List.length (sort_by leb l) = List.length l.
  Proof. symmetry. apply Permutation_length, sort_perm. Qed.

  Lemma hf_props_small n (props : list (string * rt)) : forallb (fun kv => small (fst kv) && hfr n (snd kv)) props = true ->
    forallb small (keys props) = true.
  Proof.
    induction props as [|[k m] props IH]; cbn; [reflexivity|]. intros H.
    apply Bool.andb_true_iff in H. destruct H as [H1 H2]. apply Bool.andb_true_iff in H1. destruct H1 as [H1 _].
    rewrite H1. cbn. apply IH. exact H2.
  Qed.
  Lemma wconst_match c : match c with CNull => w_null | _ => w_const c end = w_const c.
  Proof. destruct c; reflexivity. Qed.

  Ltac leaf_beq :=
    let H1 := fresh "H1" in let H2 := fresh "H2" in
    intros fv1 fv2 strict v a b H1 H2;
    destruct fv1 as [|fv1]; [discriminate H1|]; destruct fv2 as [|fv2]; [discriminate H2|]; cbn [validate] in H1, H2;
    congruence.

  Lemma enc_determines : forall f1, encP f1.
  Proof.
    induction f1 as [|f1 IH]; [intros n1 n2 r1 r2 f2 st1 st2 p1 p2 x y Hh1 Hh2 A1 A2 He1; discriminate He1|].
    intros n1 n2 r1 r2 f2. revert n2 r2.
    induction f2 as [|f2 IH2]; intros n2 r2 st1 st2 p1 p2 x y Hh1 Hh2 A1 A2 He1 He2 H; [discriminate He2|].
    destruct (enc_head _ _ _ _ _ Hh1 A1 He1) as [b1 Hb1]. destruct (enc_head _ _ _ _ _ Hh2 A2 He2) as [b2 Hb2].
    assert (Etag : tag_f (S f1) r1 = tag_f (S f2) r2).
    { pose proof H as Ht. rewrite Hb1, Hb2 in Ht. norm Ht.
      apply tag_inj in Ht; [exact (proj1 Ht)|apply small_tag_f|apply small_tag_f]. }
    clear b1 Hb1 b2 Hb2.
    destruct r1; try discriminate Hh1; destruct r2; try discriminate Hh2; cbn [tag_f tag_of] in Etag;
      try discriminate Etag; clear Etag;
    (* metadata on the left: one level of fuel on the left *)
    try solve [ match type of He1 with enc env (S f1) _ (RMeta _ _) = _ => idtac end;
                cbn [enc] in He1; cbn [hfr] in Hh1;
                match type of He1 with
                | enc env f1 _ ?t = _ =>
                    match type of He2 with
                    | enc env _ _ ?r = _ =>
                        destruct (IH n1 n2 t r _ _ _ _ _ _ _ Hh1 Hh2 A1 A2 He1 He2 H) as [Hb ->];
                        split; [apply beq_meta_l; exact Hb|reflexivity]
                    end
                end ];
    (* a named type on the left *)
    try solve [ match type of He1 with
                | enc env (S f1) _ (RRef ?nm) = _ =>
                    cbn [enc] in He1; cbn [hfr] in Hh1;
                    destruct (assoc nm env) as [target|] eqn:En; [|discriminate Hh1];
                    destruct (ref_inactive _ _ _ A1 Hh1) as [Hnone _]; rewrite Hnone in He1;
                    bind_ok He1; apply Ok_inj in He1; subst p1; cbn [fst] in H;
                    match type of He2 with
                    | enc env _ _ ?r = _ =>
                        destruct (IH (rank nm) n2 target r _ ((nm, snd st1) :: fst st1, S (snd st1)) _ _ _ _ _
                                     (env_ok _ _ En) Hh2 (aok_push _ _ _ _ A1 Hh1) A2 E He2 H) as [Hb ->];
                        split; [exact (beq_ref_l _ _ _ En Hb)|reflexivity]
                    end
                end ];
    (* metadata on the right: one level of fuel on the right *)
    try solve [ match type of He2 with enc env (S f2) _ (RMeta _ _) = _ => idtac end;
                cbn [enc] in He2; cbn [hfr] in Hh2;
                match type of He2 with
                | enc env f2 _ ?t = _ =>
                    destruct (IH2 n2 t _ _ _ _ _ _ Hh1 Hh2 A1 A2 He1 He2 H) as [Hb ->];
                    split; [apply beq_meta_r; exact Hb|reflexivity]
                end ];
    (* a named type on the right *)
    try solve [ match type of He2 with
                | enc env (S f2) _ (RRef ?nm) = _ =>
                    cbn [enc] in He2; cbn [hfr] in Hh2;
                    destruct (assoc nm env) as [target|] eqn:En; [|discriminate Hh2];
                    destruct (ref_inactive _ _ _ A2 Hh2) as [Hnone _]; rewrite Hnone in He2;
                    bind_ok He2; apply Ok_inj in He2; subst p2; cbn [fst] in H;
                    destruct (IH2 (rank nm) target st1 ((nm, snd st2) :: fst st2, S (snd st2)) _ _ _ _
                                  Hh1 (env_ok _ _ En) A1 (aok_push _ _ _ _ A2 Hh2) He1 E H) as [Hb ->];
                    split; [exact (beq_ref_r _ _ _ En Hb)|reflexivity]
                end ];
    rewrite ?enc_tuple, ?enc_allof, ?enc_anyof, ?enc_object, ?enc_disc in He1, He2; cbn [enc] in He1, He2;
      cbn zeta in He1, He2; cbn [hfr] in Hh1, Hh2.
    - (* typeof *)
      apply Ok_inj in He1, He2. subst p1 p2. cbn [fst] in H. norm H. peel_tag H.
      apply string_inj in H; [|destruct t; reflexivity|destruct t0; reflexivity]. destruct H as [Es H].
      assert (t = t0) by (destruct t, t0; try reflexivity; discriminate Es). subst t0.
      split; [leaf_beq|exact H].
    - (* any *) apply Ok_inj in He1, He2. subst p1 p2. cbn [fst] in H. norm H. peel_tag H. split; [leaf_beq|exact H].
    - (* nullish *) apply Ok_inj in He1, He2. subst p1 p2. cbn [fst] in H. norm H. peel_tag H. split; [leaf_beq|exact H].
    - (* never *) apply Ok_inj in He1, He2. subst p1 p2. cbn [fst] in H. norm H. peel_tag H. split; [leaf_beq|exact H].
    - (* const *)
      apply Ok_inj in He1, He2. subst p1 p2. cbn [fst] in H. rewrite !wconst_match in H. norm H. peel_tag H.
      apply const_inj in H; [|assumption|assumption]. destruct H as [<- H]. split; [leaf_beq|exact H].
    - (* date *) apply Ok_inj in He1, He2. subst p1 p2. cbn [fst] in H. norm H. peel_tag H. split; [leaf_beq|exact H].
    - (* bigint *) apply Ok_inj in He1, He2. subst p1 p2. cbn [fst] in H. norm H. peel_tag H. split; [leaf_beq|exact H].
    - (* typed array *)
      apply Ok_inj in He1, He2. subst p1 p2. cbn [fst] in H. norm H. peel_tag H.
      apply string_inj in H; [|assumption|assumption]. destruct H as [<- H]. split; [leaf_beq|exact H].
    - (* string formats *)
      apply Ok_inj in He1, He2. subst p1 p2. cbn [fst] in H. norm H. peel_tag H. split_and Hh1. split_and Hh2.
      apply nat_inj in H; [|unfold sort_strings; rewrite length_sorted; assumption|unfold sort_strings; rewrite length_sorted; assumption].
      destruct H as [Hl H].
      apply strings_inj in H; [|exact Hl|apply forallb_small_sorted; assumption|apply forallb_small_sorted; assumption].
      destruct H as [Hs H]. apply sorted_eq_perm in Hs.
      split; [|exact H]. intros fv1 fv2 strict v a b H1 H2.
      destruct fv1 as [|fv1]; [discriminate H1|]; destruct fv2 as [|fv2]; [discriminate H2|]; cbn [validate] in H1, H2.
      destruct v; try congruence. unfold check_formats in H1, H2. rewrite (forallb_perm _ _ _ Hs) in H1. congruence.
    - (* number formats *)
      apply Ok_inj in He1, He2. subst p1 p2. cbn [fst] in H. norm H. peel_tag H. split_and Hh1. split_and Hh2.
      apply nat_inj in H; [|unfold sort_strings; rewrite length_sorted; assumption|unfold sort_strings; rewrite length_sorted; assumption].
      destruct H as [Hl H].
      apply strings_inj in H; [|exact Hl|apply forallb_small_sorted; assumption|apply forallb_small_sorted; assumption].
      destruct H as [Hs H]. apply sorted_eq_perm in Hs.
      split; [|exact H]. intros fv1 fv2 strict v a b H1 H2.
      destruct fv1 as [|fv1]; [discriminate H1|]; destruct fv2 as [|fv2]; [discriminate H2|]; cbn [validate] in H1, H2.
      destruct v; try congruence. unfold check_formats in H1, H2. rewrite (forallb_perm _ _ _ Hs) in H1. congruence.
    - (* literal sets *)
      apply Ok_inj in He1, He2. subst p1 p2. cbn [fst] in H. norm H. peel_tag H. split_and Hh1. split_and Hh2.
      apply nat_inj in H; [|rewrite length_sorted; assumption|rewrite length_sorted; assumption].
      destruct H as [Hl H].
      apply consts_inj in H; [|exact Hl|rewrite <- (forallb_perm cst_ok _ _ (sort_perm _ values)); assumption
                               |rewrite <- (forallb_perm cst_ok _ _ (sort_perm _ values0)); assumption].
      destruct H as [Hs H]. apply sorted_eq_perm in Hs.
      split; [|exact H]. intros fv1 fv2 strict v a b H1 H2.
      destruct fv1 as [|fv1]; [discriminate H1|]; destruct fv2 as [|fv2]; [discriminate H2|]; cbn [validate] in H1, H2.
      rewrite !(existsb_perm _ _ _ Hs) in H1. congruence.
    - (* tuple *)
      bind_ok He1. bind_ok He2. split_and Hh1. split_and Hh2.
      pose proof (seq_keeps _ _ (enc_keeps f1 n1) _ _ _ Hh1 A1 E) as K1.
      pose proof (seq_keeps _ _ (enc_keeps f2 n2) _ _ _ Hh2 A2 E0) as K2.
      destruct rest as [rr|], rest0 as [rr0|]; [bind_ok He1; bind_ok He2| bind_ok He1 | bind_ok He2 |];
        apply Ok_inj in He1, He2; subst p1 p2; cbn [fst] in H; norm H; peel_tag H;
        (apply nat_inj in H; [|assumption|assumption]); destruct H as [Hl H];
        (apply (seq_inj _ _ _ _ IH) with (1 := Hl) (4 := A1) (5 := A2) (6 := E) (7 := E0) in H; [|assumption|assumption]);
        destruct H as [HF H]; peel_tag H.
      + destruct (IH n1 n2 rr rr0 _ _ _ _ _ _ _ ltac:(assumption) ltac:(assumption)
                     ltac:(rewrite K1; exact A1) ltac:(rewrite K2; exact A2) E1 E2 H) as [Hr ->].
        split; [apply beq_tuple; assumption|reflexivity].
      + split; [apply beq_tuple; [assumption|exact I]|exact H].
    - (* allOf *)
      bind_ok He1. bind_ok He2. split_and Hh1. split_and Hh2.
      apply Ok_inj in He1, He2; subst p1 p2; cbn [fst] in H; norm H; peel_tag H.
      apply nat_inj in H; [|assumption|assumption]. destruct H as [Hl H].
      apply (seq_inj _ _ _ _ IH) with (1 := Hl) (4 := A1) (5 := A2) (6 := E) (7 := E0) in H; [|assumption|assumption].
      destruct H as [HF H]. split; [apply beq_allof; exact HF|exact H].
    - (* anyOf *)
      bind_ok He1. bind_ok He2. split_and Hh1. split_and Hh2.
      apply Ok_inj in He1, He2; subst p1 p2; cbn [fst] in H; norm H; peel_tag H.
      apply nat_inj in H; [|assumption|assumption]. destruct H as [Hl H].
      apply (seq_inj _ _ _ _ IH) with (1 := Hl) (4 := A1) (5 := A2) (6 := E) (7 := E0) in H; [|assumption|assumption].
      destruct H as [HF H]. split; [apply beq_anyof; exact HF|exact H].
    - (* array *)
      bind_ok He1. bind_ok He2. apply Ok_inj in He1, He2; subst p1 p2; cbn [fst] in H; norm H; peel_tag H.
      destruct (IH n1 n2 _ _ _ _ _ _ _ _ _ Hh1 Hh2 A1 A2 E E0 H) as [Hb ->]. split; [apply beq_array; exact Hb|reflexivity].
    - (* map *)
      bind_ok He1. bind_ok He1. bind_ok He2. bind_ok He2. split_and Hh1. split_and Hh2.
      apply Ok_inj in He1, He2; subst p1 p2; cbn [fst] in H; norm H; peel_tag H.
      destruct (IH n1 n2 r1_1 r2_1 _ _ _ _ _ _ _ ltac:(assumption) ltac:(assumption) A1 A2 E E1 H) as [Hk H'].
      pose proof (enc_keeps _ _ _ _ _ Hh1 A1 E) as K1. pose proof (enc_keeps _ _ _ _ _ Hh2 A2 E1) as K2.
      destruct (IH n1 n2 r1_2 r2_2 _ _ _ _ _ _ _ ltac:(assumption) ltac:(assumption)
                   ltac:(rewrite K1; exact A1) ltac:(rewrite K2; exact A2) E0 E2 H') as [Hv ->].
      split; [apply beq_map; assumption|reflexivity].
    - (* set *)
      bind_ok He1. bind_ok He2. apply Ok_inj in He1, He2; subst p1 p2; cbn [fst] in H; norm H; peel_tag H.
      destruct (IH n1 n2 _ _ _ _ _ _ _ _ _ Hh1 Hh2 A1 A2 E E0 H) as [Hb ->]. split; [apply beq_set; exact Hb|reflexivity].
    - (* discriminated union *)
      bind_ok He1. bind_ok He1. bind_ok He2. bind_ok He2. split_and Hh1. split_and Hh2.
      pose proof (seq_keeps _ _ (enc_keeps f1 n1) _ _ _ Hh1 A1 E) as K1.
      pose proof (seq_keeps _ _ (enc_keeps f2 n2) _ _ _ Hh2 A2 E1) as K2.
      apply Ok_inj in He1, He2; subst p1 p2; cbn [fst] in H; norm H; peel_tag H.
      apply string_inj in H; [|assumption|assumption]. destruct H as [<- H].
      apply nat_inj in H; [|assumption|assumption]. destruct H as [Hl H].
      apply (seq_inj _ _ _ _ IH) with (1 := Hl) (4 := A1) (5 := A2) (6 := E) (7 := E1) in H; [|assumption|assumption].
      destruct H as [_ H].
      assert (Lk : forall ps : list (string * rt), List.length (sort_strings (keys ps)) = List.length ps).
      { intros ps. unfold sort_strings, keys. rewrite length_sorted, map_length. reflexivity. }
      apply nat_inj in H; [|rewrite Lk; assumption|rewrite Lk; assumption]. destruct H as [Hlm H].
      apply (mapping_inj _ _ _ _ _ _ IH (hf_props_look n1 mapping ltac:(assumption)) (hf_props_look n2 mapping0 ltac:(assumption)))
        with (1 := Hlm) (6 := E0) (7 := E2) in H;
        [|apply forallb_small_sorted, (hf_props_small n1); assumption|apply forallb_small_sorted, (hf_props_small n2); assumption
         |rewrite K1; exact A1|rewrite K2; exact A2].
      destruct H as [Hks [Hall ->]]. split; [|reflexivity].
      pose proof (sorted_eq_perm _ _ _ Hks) as HP.
      apply beq_disc.
      + intros k. split; intros Hin; [exact (Permutation_in _ HP Hin)|exact (Permutation_in _ (Permutation_sym HP) Hin)].
      + intros k m1 m2 B1 B2.
        assert (Hin : In k (sort_strings (keys mapping))).
        { apply (Permutation_in _ (sort_perm str_leb (keys mapping))). apply assoc_In in B1.
          apply (in_map fst) in B1. exact B1. }
        destruct (Hall k Hin) as [m1' [m2' [C1 [C2 Hb]]]]. cbn beta in C1, C2.
        rewrite B1 in C1. rewrite B2 in C2. injection C1 as <-. injection C2 as <-. exact Hb.
    - (* optional *)
      bind_ok He1. bind_ok He2. apply Ok_inj in He1, He2; subst p1 p2; cbn [fst] in H; norm H; peel_tag H.
      destruct (IH n1 n2 _ _ _ _ _ _ _ _ _ Hh1 Hh2 A1 A2 E E0 H) as [Hb ->]. split; [apply beq_optional; exact Hb|reflexivity].
    - (* object *)
      bind_ok He1. bind_ok He1. bind_ok He2. bind_ok He2. split_and Hh1. split_and Hh2.
      pose proof (props_keeps n1 _ _ (enc_keeps f1 n1) (hf_props_look n1 props ltac:(assumption)) _ _ _ A1 E) as K1.
      pose proof (props_keeps n2 _ _ (enc_keeps f2 n2) (hf_props_look n2 props0 ltac:(assumption)) _ _ _ A2 E1) as K2.
      apply Ok_inj in He1, He2; subst p1 p2; cbn [fst] in H; norm H; peel_tag H.
      assert (Lk : forall ps : list (string * rt), List.length (sort_strings (keys ps)) = List.length ps).
      { intros ps. unfold sort_strings, keys. rewrite length_sorted, map_length. reflexivity. }
      apply nat_inj in H; [|rewrite Lk; assumption|rewrite Lk; assumption]. destruct H as [Hl H].
      apply (props_inj _ _ _ _ _ _ IH (hf_props_look n1 props ltac:(assumption)) (hf_props_look n2 props0 ltac:(assumption)))
        with (1 := Hl) (4 := A1) (5 := A2) (6 := E) (7 := E1) in H;
        [|apply forallb_small_sorted, (hf_props_small n1); assumption|apply forallb_small_sorted, (hf_props_small n2); assumption].
      destruct H as [Hks [Hall H]].
      apply nat_inj in H; [|assumption|assumption]. destruct H as [Hli H].
      apply (idx_inj f1 f2 n1 n2 IH) with (1 := Hli) (6 := E0) (7 := E2) in H;
        [|assumption|assumption|rewrite K1; exact A1|rewrite K2; exact A2].
      destruct H as [HI ->]. split; [|reflexivity].
      pose proof (sorted_eq_perm _ _ _ Hks) as HP.
      apply beq_object; try assumption.
      + intros k. split; intros Hin; [exact (Permutation_in _ HP Hin)|exact (Permutation_in _ (Permutation_sym HP) Hin)].
      + intros k m1 m2 B1 B2.
        assert (Hin : In k (sort_strings (keys props))).
        { apply (Permutation_in _ (sort_perm str_leb (keys props))). apply assoc_In in B1.
          apply (in_map fst) in B1. exact B1. }
        destruct (Hall k Hin) as [m1' [m2' [C1 [C2 Hb]]]]. cbn beta in C1, C2.
        rewrite B1 in C1. rewrite B2 in C2. injection C1 as <-. injection C2 as <-. exact Hb.
  Qed.

  (* the whole stream, with the version tag in front *)
  Theorem writes_determine_behaviour f1 f2 n1 n2 r1 r2 ws1 ws2 :
    hfr n1 r1 = true -> hfr n2 r2 = true ->
    hash256_writes env f1 r1 = Ok ws1 -> hash256_writes env f2 r2 = Ok ws2 ->
    flat ws1 = flat ws2 -> beq r1 r2.
  Proof.
    unfold hash256_writes. intros Hh1 Hh2 E1 E2 H. bind_ok E1. bind_ok E2. apply Ok_inj in E1, E2. subst ws1 ws2.
    norm H. apply tag_inj in H; [|reflexivity|reflexivity]. destruct H as [_ H].
    assert (H' : flat (fst p) ++ [] = flat (fst p0) ++ []) by (rewrite !app_nil_r; exact H).
    assert (A0 : forall n, aok n (fst (([] : list (string * nat)), 0))) by (intros n k []).
    exact (proj1 (enc_determines _ _ _ _ _ _ _ _ _ _ _ _ Hh1 Hh2 (A0 n1) (A0 n2) E E0 H')).
  Qed.
End Inj.

(* the hypothesis on the named types, as a computation *)
Definition env_okb (env : renv) (rank : string -> nat) : bool :=
  forallb (fun e => hfr env rank (rank (fst e)) (snd e)) env.
Lemma env_okb_sound env rank : env_okb env rank = true ->
  forall name t, assoc name env = Some t -> hfr env rank (rank name) t = true.
Proof.
  unfold env_okb. intros H name t Hn. apply assoc_In in Hn. rewrite forallb_forall in H. exact (H _ Hn).
Qed.

(* used by the check to report how many of the generated trees lie in the fragment of the theorem *)
Definition rank_of (l : list (string * nat)) (s : string) : nat := match assoc s l with Some n => n | None => 0 end.
Definition in_fragment (env : renv) (ranks : list (string * nat)) (n : nat) (r : rt) : string :=
  if env_okb env (rank_of ranks) && hfr env (rank_of ranks) n r then "1" else "0".
