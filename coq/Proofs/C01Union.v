(* Proofs/C01Union.v — membership of the IR does not depend on the fuel once it answers; flattening a union through nested
   unions and named references (extract_union) keeps its meaning; hence the literal-set validator the printer emits for a
   union of constants accepts exactly the members of that union. *)
From Beff Require Import Model.Printer Proofs.ResLemmas Proofs.C01 Proofs.C01Print.

(* ---------- loops are monotone in their element test ---------- *)
Lemma forall_res_mono {A} (p q : A -> res bool) xs a :
  (forall x b, In x xs -> p x = Ok b -> q x = Ok b) -> forall_res p xs = Ok a -> forall_res q xs = Ok a.
Proof.
  induction xs as [|x xs IH]; cbn; intros H Hp; [exact Hp|].
  destruct (p x) as [[|]|e] eqn:E; try discriminate.
  - rewrite (H x true (or_introl eq_refl) E). apply IH; [intros; apply H; auto|exact Hp].
  - rewrite (H x false (or_introl eq_refl) E). exact Hp.
Qed.
Lemma exists_res_mono {A} (p q : A -> res bool) xs a :
  (forall x b, In x xs -> p x = Ok b -> q x = Ok b) -> exists_res p xs = Ok a -> exists_res q xs = Ok a.
Proof.
  induction xs as [|x xs IH]; cbn; intros H Hp; [exact Hp|].
  destruct (p x) as [[|]|e] eqn:E; try discriminate.
  - rewrite (H x true (or_introl eq_refl) E). exact Hp.
  - rewrite (H x false (or_introl eq_refl) E). apply IH; [intros; apply H; auto|exact Hp].
Qed.
Lemma prefix_res_mono {A B} (p q : A -> B -> res bool) d xs ps : forall idx a,
  (forall x y b, In x ps -> p x y = Ok b -> q x y = Ok b) -> prefix_res p d xs ps idx = Ok a -> prefix_res q d xs ps idx = Ok a.
Proof.
  induction ps as [|x ps IH]; cbn; intros idx a H Hp; [exact Hp|].
  destruct (p x (nth idx xs d)) as [[|]|e] eqn:E; try discriminate.
  - rewrite (H x _ true (or_introl eq_refl) E). apply IH; [intros; eapply H; eauto; right; assumption|exact Hp].
  - rewrite (H x _ false (or_introl eq_refl) E). exact Hp.
Qed.

Section Mono.
  Variable F : formats.
  Variable env : ienv.

  Lemma rmember_S : forall k t v a, rmember F env k t v = Ok a -> rmember F env (S k) t v = Ok a.
  Proof.
    induction k as [|k IH]; intros t v a H; [discriminate H|].
    destruct t; cbn [rmember] in H; remember (S k) as k1 eqn:Ek1; cbn [rmember];
      assert (Hopt : forall req t' x b, (if negb req && is_nullish x then Ok true else rmember F env k t' x) = Ok b ->
                                        (if negb req && is_nullish x then Ok true else rmember F env k1 t' x) = Ok b)
        by (intros req t' x b Hb; destruct (negb req && is_nullish x); [exact Hb|apply IH; exact Hb]);
      try exact H.
    - (* IObject *)
      destruct (is_object_type v && negb (is_array v) && negb match v with VNull => true | _ => false end); [|exact H].
      destruct (forall_res (fun kp => if negb (fst (snd kp)) && is_nullish (get v (fst kp)) then Ok true else rmember F env k (snd (snd kp)) (get v (fst kp))) vs)
        as [ok|e] eqn:E; cbn [bind] in H; [|discriminate H].
      rewrite (forall_res_mono _ (fun kp => if negb (fst (snd kp)) && is_nullish (get v (fst kp)) then Ok true else rmember F env k1 (snd (snd kp)) (get v (fst kp))) vs ok
                               (fun kp b _ Hb => Hopt _ _ _ _ Hb) E). cbn [bind].
      destruct (negb ok); [exact H|]. destruct indexed as [[kt [req vt]]|]; [|exact H].
      eapply forall_res_mono; [|exact H]. intros key b _ Hb. cbn beta in Hb |- *.
      destruct (rmember F env k kt (VStr key)) as [a0|e] eqn:Ek; cbn [bind] in Hb; [|discriminate Hb].
      rewrite (IH _ _ _ Ek). cbn [bind]. destruct (negb a0); [exact Hb|apply Hopt; exact Hb].
    - (* IArray *)
      destruct v; try exact H. eapply forall_res_mono; [|exact H]. intros x b _ Hb. apply IH. exact Hb.
    - (* ITuple *)
      destruct v; try exact H. destruct (Nat.ltb (List.length xs) (List.length prefix)); [exact H|].
      destruct (prefix_res (rmember F env k) VUndef xs prefix 0) as [ok|e] eqn:E; cbn [bind] in H; [|discriminate H].
      rewrite (prefix_res_mono (rmember F env k) (rmember F env k1) VUndef xs prefix 0 ok (fun x y b _ Hb => IH _ _ _ Hb) E). cbn [bind].
      destruct (negb ok); [exact H|]. destruct rest; [|exact H].
      eapply forall_res_mono; [|exact H]. intros x b _ Hb. apply IH. exact Hb.
    - (* IRef *)
      destruct (assoc name env); [apply IH; exact H|exact H].
    - (* IAnyOf *)
      eapply exists_res_mono; [|exact H]. intros x b _ Hb. apply IH. exact Hb.
    - (* IAllOf *)
      eapply forall_res_mono; [|exact H]. intros x b _ Hb. apply IH. exact Hb.
    - (* IStNot *)
      destruct (rmember F env k t v) as [b|e] eqn:E; cbn [bind] in H; [|discriminate H]. rewrite (IH _ _ _ E). exact H.
    - (* IMap *)
      destruct v; try exact H. eapply forall_res_mono; [|exact H]. intros kv b _ Hb. cbn beta in Hb |- *.
      destruct (rmember F env k t1 (fst kv)) as [a0|e] eqn:Ek; cbn [bind] in Hb; [|discriminate Hb].
      rewrite (IH _ _ _ Ek). cbn [bind]. destruct (negb a0); [exact Hb|apply IH; exact Hb].
    - (* ISet *)
      destruct v; try exact H. eapply forall_res_mono; [|exact H]. intros x b _ Hb. apply IH. exact Hb.
    - (* IMetaIR *)
      apply IH. exact H.
  Qed.

  Lemma rmember_mono k k' t v a : k <= k' -> rmember F env k t v = Ok a -> rmember F env k' t v = Ok a.
  Proof. induction 1 as [|k' _ IH]; intros H; [exact H|apply rmember_S; apply IH; exact H]. Qed.

  (* two terminating evaluations of the same membership agree, whatever their fuel *)
  Lemma rmember_agree k1 k2 t v a b : rmember F env k1 t v = Ok a -> rmember F env k2 t v = Ok b -> a = b.
  Proof.
    intros H1 H2. destruct (Nat.le_ge_cases k1 k2) as [L|L].
    - rewrite (rmember_mono k1 k2 t v a L H1) in H2. congruence.
    - rewrite (rmember_mono k2 k1 t v b L H2) in H1. congruence.
  Qed.
End Mono.

(* ---------- flattening a union keeps its meaning ---------- *)
Lemma exists_res_true_inv {A} (p : A -> res bool) xs : exists_res p xs = Ok true -> exists x, In x xs /\ p x = Ok true.
Proof.
  induction xs as [|x xs IH]; cbn; [discriminate|].
  destruct (p x) as [[|]|e] eqn:E; try discriminate.
  - intros _. exists x. auto.
  - intros H. destruct (IH H) as [y [Hy Hp]]. exists y. auto.
Qed.

Lemma concat_res_l_inv {A} (l : list (res (list A))) flat :
  concat_res_l l = Ok flat ->
  exists parts, Forall2 (fun r p => r = Ok p) l parts /\ flat = List.concat parts.
Proof.
  revert flat. induction l as [|r l IH]; cbn; intros flat H.
  - inversion H. exists []. split; [constructor|reflexivity].
  - destruct r as [a|e]; cbn [bind] in H; [|discriminate].
    destruct (concat_res_l l) as [b|e] eqn:E; cbn [bind] in H; [|discriminate]. inversion H; subst.
    destruct (IH b eq_refl) as [parts [F ->]]. exists (a :: parts). split; [constructor; auto|reflexivity].
Qed.

Section Flatten.
  Variable F : formats.
  Variable env : ienv.

  Lemma flatten_union : forall f t flat, extract_union f env t = Ok flat ->
    forall k v, 
      (rmember F env k t v = Ok true -> exists m k', In m flat /\ rmember F env k' m v = Ok true) /\
      (rmember F env k t v = Ok false -> forall m, In m flat -> forall k' b, rmember F env k' m v = Ok b -> b = false).
  Proof.
    induction f as [|f IH]; intros t flat He k v; [discriminate He|].
    assert (Leaf : flat = [t] ->
                   (rmember F env k t v = Ok true -> exists m k', In m flat /\ rmember F env k' m v = Ok true) /\
                   (rmember F env k t v = Ok false -> forall m, In m flat -> forall k' b, rmember F env k' m v = Ok b -> b = false)).
    { intros ->. split.
      - intros H. exists t, k. split; [left; reflexivity|exact H].
      - intros H m [<-|[]] k' b Hb. symmetry. eapply rmember_agree; [exact H|exact Hb]. }
    destruct t; cbn [extract_union] in He; try (apply Leaf; inversion He; reflexivity).
    - (* IRef *)
      destruct (assoc name env) as [s|] eqn:Ea; [|discriminate He].
      destruct k as [|k]; [split; discriminate|]. cbn [rmember]. rewrite Ea. apply (IH s flat He k v).
    - (* IAnyOf *)
      destruct (concat_res_l_inv _ _ He) as [parts [F2 ->]].
      destruct k as [|k]; [split; discriminate|]. cbn [rmember]. split.
      + intros H. destruct (exists_res_true_inv _ _ H) as [x [Hx Hm]].
        assert (G : exists p, In p parts /\ extract_union f env x = Ok p).
        { clear -F2 Hx. revert parts F2. induction vs as [|y vs IHv]; intros parts F2; [contradiction|].
          inversion F2 as [|a p l l' Hap Hrest]; subst. cbn in Hap. destruct Hx as [<-|Hx]; [exists p; split; [left; reflexivity|exact Hap]|].
          destruct (IHv Hx l' Hrest) as [q [Hq He']]. exists q. split; [right; exact Hq|exact He']. }
        destruct G as [p [Hp Hep]]. destruct (proj1 (IH x p Hep k v) Hm) as [m [k' [Hin Hk']]].
        exists m, k'. split; [apply in_concat; exists p; auto|exact Hk'].
      + intros H m Hin k' b Hb. apply in_concat in Hin as [p [Hp Hmp]].
        assert (G : exists x, In x vs /\ extract_union f env x = Ok p).
        { clear -F2 Hp. revert parts F2 Hp. induction vs as [|y vs IHv]; intros parts F2 Hp; inversion F2 as [|a q l l' Haq Hrest]; subst; [contradiction|].
          cbn in Haq. destruct Hp as [<-|Hp]; [exists y; split; [left; reflexivity|exact Haq]|].
          destruct (IHv l' Hrest Hp) as [x [Hx He']]. exists x. split; [right; exact Hx|exact He']. }
        destruct G as [x [Hx Hex]].
        pose proof (exists_res_false_all _ _ H x Hx) as Hxf. cbn beta in Hxf.
        apply (proj2 (IH x p Hex k v) Hxf m Hmp k' b Hb).
    - (* INever *)
      inversion He; subst. split; [|intros _ m []]. destruct k; cbn; discriminate.
    - (* IMetaIR *)
      destruct k as [|k]; [split; discriminate|]. cbn [rmember]. apply (IH t flat He k v).
  Qed.
End Flatten.

(* ---------- constants ---------- *)
Lemma const_of_ir_erase m : const_of_ir (erase m) = const_of_ir m.
Proof.
  induction m; try reflexivity.
  cbn [erase]. rewrite IHm. unfold const_of_ir, single_string_const. cbn [ir_kind]. reflexivity.
Qed.

Section Consts.
  Variable F : formats.
  Variable env : ienv.

  Lemma const_rmember m c : const_of_ir m = Some c ->
    (forall k v b, rmember F env k m v = Ok b -> b = cst_strict_eqb c v) /\
    (forall v, exists k, rmember F env k m v = Ok (cst_strict_eqb c v)).
  Proof.
    induction m; unfold const_of_ir, single_string_const; cbn [ir_kind]; try discriminate.
    - (* ITpl *)
      destruct items as [|[| | |s|vs] [|i2 items]]; try discriminate. intros H; inversion H; subst c. split.
      + intros k v b Hb. destruct k; [discriminate|]. cbn [rmember tpl_re_ts tpl_item_re_ts] in Hb. rewrite re_seq_eps_r in Hb.
        destruct v; cbn in Hb |- *; try congruence. rewrite re_full_lit in Hb. congruence.
      + intros v. exists 1. cbn [rmember tpl_re_ts tpl_item_re_ts]. rewrite re_seq_eps_r.
        destruct v; try reflexivity. rewrite re_full_lit. reflexivity.
    - (* IConst *)
      intros H; inversion H; subst. split.
      + intros k v b Hb. destruct k; [discriminate|]. destruct c0; cbn in Hb |- *; destruct v; cbn in *; congruence.
      + intros v. exists 1. destruct c0; destruct v; reflexivity.
    - (* IMetaIR *)
      intros H. fold (ir_kind m) in H.
      assert (H' : const_of_ir m = Some c) by (unfold const_of_ir, single_string_const; exact H).
      destruct (IHm H') as [A B]. split.
      + intros k v b Hb. destruct k; [discriminate|]. cbn [rmember] in Hb. eapply A; exact Hb.
      + intros v. destruct (B v) as [k Hk]. exists (S k). exact Hk.
  Qed.
End Consts.

(* ---------- deduplication up to descriptions keeps a representative of every constant ---------- *)
From Beff Require Import Proofs.SemOps.

Definition const_shaped (a : ir) : bool :=
  match a with ITpl [TplConst _] | IConst _ => true | _ => false end.

Lemma num_eqb_eq a b : num_eqb a b = true -> a = b.
Proof.
  destruct a, b; cbn; try discriminate; try reflexivity; intros H.
  - apply Z.eqb_eq in H. congruence.
  - apply String.eqb_eq in H. congruence.
  - apply Bool.eqb_prop in H. congruence.
Qed.
Lemma irconst_eqb_eq a b : irconst_eqb a b = true -> a = b.
Proof.
  destruct a, b; cbn; try discriminate; intros H.
  - apply Bool.eqb_prop in H. congruence.
  - apply num_eqb_eq in H. congruence.
Qed.

Lemma ir_eqb0_const_r a b : const_shaped b = true -> ir_eqb0 a b = true -> a = b.
Proof.
  destruct b; cbn [const_shaped]; try discriminate.
  - destruct items as [|[| | |s|vs] [|i2 items]]; try discriminate. intros _.
    destruct a; cbn [ir_eqb0]; try discriminate. intros H.
    apply (list_eqb_spec tpl_item_eqb items [TplConst s] (fun x y _ => tpl_item_eqb_spec x y)) in H. congruence.
  - intros _. destruct a; cbn [ir_eqb0]; try discriminate. intros H. apply irconst_eqb_eq in H. congruence.
Qed.
Lemma ir_eqb0_const_l a b : const_shaped a = true -> ir_eqb0 a b = true -> b = a.
Proof.
  destruct a; cbn [const_shaped]; try discriminate.
  - destruct items as [|[| | |s|vs] [|i2 items]]; try discriminate. intros _.
    destruct b; cbn [ir_eqb0]; try discriminate. intros H.
    apply (list_eqb_spec tpl_item_eqb [TplConst s] items (fun x y _ => tpl_item_eqb_spec x y)) in H. congruence.
  - intros _. destruct b; cbn [ir_eqb0]; try discriminate. intros H. apply irconst_eqb_eq in H. congruence.
Qed.

Lemma const_erase_shaped m c : const_of_ir m = Some c -> const_shaped (erase m) = true.
Proof.
  induction m; unfold const_of_ir, single_string_const; cbn [ir_kind erase]; try discriminate.
  - destruct items as [|[| | |s|vs] [|i2 items]]; try discriminate. reflexivity.
  - reflexivity.
  - intros H. apply IHm. unfold const_of_ir, single_string_const. exact H.
Qed.
Lemma const_not_null m c : const_of_ir m = Some c -> c <> CNull.
Proof.
  unfold const_of_ir. destruct (single_string_const m); [intros H; inversion H; discriminate|].
  destruct (ir_kind m); try discriminate. intros H; inversion H. destruct c0; discriminate.
Qed.

Lemma dedupe_subset l : forall x, In x (dedupe_ir l) -> In x l.
Proof.
  induction l as [|y l IH]; cbn [dedupe_ir]; [tauto|]. intros x.
  destruct (existsb (ir_eqb y) l); [intros H; right; apply IH; exact H|].
  intros [<-|H]; [left; reflexivity|right; apply IH; exact H].
Qed.

Lemma dedupe_rep l :
  (forall m, In m (dedupe_ir l) -> exists c, const_of_ir m = Some c) ->
  forall x, In x l -> exists y, In y (dedupe_ir l) /\ erase x = erase y.
Proof.
  induction l as [|z l IH]; intros Hc x Hx; [contradiction|]. cbn [dedupe_ir] in *.
  destruct (existsb (ir_eqb z) l) eqn:E.
  - destruct Hx as [<-|Hx]; [|apply IH; assumption].
    apply existsb_exists in E as [y [Hy Hzy]].
    destruct (IH Hc y Hy) as [y' [Hy' Eyy']]. exists y'. split; [exact Hy'|].
    destruct (Hc y' Hy') as [c Hcy']. pose proof (const_erase_shaped y' c Hcy') as Hs. rewrite <- Eyy' in Hs.
    unfold ir_eqb in Hzy. rewrite (ir_eqb0_const_r _ _ Hs Hzy). exact Eyy'.
  - destruct Hx as [<-|Hx]; [exists z; split; [left; reflexivity|reflexivity]|].
    destruct (IH (fun m Hm => Hc m (or_intror Hm)) x Hx) as [y [Hy Exy]]. exists y. split; [right; exact Hy|exact Exy].
Qed.

Lemma all_some_in {A B} (g : A -> option B) l cs :
  all_some (map g l) = Some cs ->
  (forall m, In m l -> exists c, g m = Some c /\ In c cs) /\ (forall c, In c cs -> exists m, In m l /\ g m = Some c).
Proof.
  revert cs. induction l as [|x l IH]; cbn [map all_some]; intros cs H.
  - inversion H; subst. split; [intros m []|intros c []].
  - destruct (g x) as [c0|] eqn:Ex; [|discriminate].
    destruct (all_some (map g l)) as [r|] eqn:Er; [|discriminate]. inversion H; subst cs.
    destruct (IH r eq_refl) as [P1 P2]. split.
    + intros m [<-|Hm]; [exists c0; split; [exact Ex|left; reflexivity]|].
      destruct (P1 m Hm) as [c [Hc Hin]]. exists c. split; [exact Hc|right; exact Hin].
    + intros c [<-|Hc]; [exists x; split; [left; reflexivity|exact Ex]|].
      destruct (P2 c Hc) as [m [Hm Hg]]. exists m. split; [right; exact Hm|exact Hg].
Qed.

Lemma map_res_concat_res {A B} (g : A -> res (list B)) l parts :
  map_res g l = Ok parts -> concat_res_l (map g l) = Ok (List.concat parts).
Proof.
  revert parts. induction l as [|x l IH]; cbn; intros parts H; [inversion H; reflexivity|].
  destruct (g x) as [a|e]; cbn [bind] in H |- *; [|discriminate].
  destruct (map_res g l) as [ps|e] eqn:E; cbn [bind] in H; [|discriminate]. inversion H; subst.
  rewrite (IH ps eq_refl). reflexivity.
Qed.

(* ---------- the literal-set validator of a union of constants means the union ---------- *)
Lemma print_anyof_consts_inv env prefer f vs cs :
  print env prefer (S f) (IAnyOf vs) = Ok (RAnyOfConsts cs) ->
  exists flats, map_res (extract_union f env) vs = Ok flats /\
                all_some (map const_of_ir (dedupe_ir (List.concat flats))) = Some cs.
Proof.
  cbn [print]. destruct vs as [|v0 vs']; [discriminate|]. set (vs := v0 :: vs').
  destruct (map_res (extract_union f env) vs) as [flats|e]; cbn [bind]; [|discriminate].
  destruct (all_some (map const_of_ir (dedupe_ir (List.concat flats)))) as [cs0|] eqn:Ec.
  { intros H; inversion H; subst. exists flats. auto. }
  destruct (map_res (object_shape env f) (dedupe_ir (List.concat flats))) as [shapes|e]; cbn [bind]; [|discriminate].
  assert (Plain : (do rs <- map_res (print env prefer f) vs; Ok (RAnyOf rs)) = Ok (RAnyOfConsts cs) -> False).
  { intros H. destruct (map_res (print env prefer f) vs); cbn in H; [inversion H|discriminate]. }
  destruct (all_some shapes) as [ovs|]; [|intros H; destruct (Plain H)].
  destruct (first_discriminator env f ovs (prefer ++ List.concat (map keys ovs))) as [[[disc strs]|]|e]; cbn [bind];
    [|intros H; destruct (Plain H)|discriminate].
  match goal with |- (do m <- ?X; _) = _ -> _ => destruct X as [mapping|e]; cbn [bind]; [|discriminate] end.
  match goal with |- (do m <- ?X; _) = _ -> _ => destruct X as [members|e]; cbn [bind]; [|discriminate] end.
  intros H; inversion H.
Qed.

Theorem consts_dispatch_means_the_union F env prefer renv' f vs cs k1 k2 v a b :
  print env prefer (S f) (IAnyOf vs) = Ok (RAnyOfConsts cs) ->
  forallb cst_not_nan cs = true ->
  rmember F env k1 (IAnyOf vs) v = Ok a ->
  validate F renv' k2 false (RAnyOfConsts cs) v = Ok b ->
  a = b.
Proof.
  intros Hp Hn Hm Hv.
  destruct (print_anyof_consts_inv env prefer f vs cs Hp) as (flats & Hfl & Hcs).
  set (raw := List.concat flats) in *.
  assert (Hex : extract_union (S f) env (IAnyOf vs) = Ok raw) by (cbn [extract_union]; apply map_res_concat_res; exact Hfl).
  destruct (all_some_in const_of_ir (dedupe_ir raw) cs Hcs) as [C1 C2].
  (* every flattened member is a constant whose value is listed *)
  assert (Hraw : forall m, In m raw -> exists c, const_of_ir m = Some c /\ In c cs).
  { intros m Hin.
    assert (Hshape : forall m0, In m0 (dedupe_ir raw) -> exists c0, const_of_ir m0 = Some c0).
    { intros m0 Hm0. destruct (C1 m0 Hm0) as [c0 [Hc0 _]]. exists c0. exact Hc0. }
    destruct (dedupe_rep raw Hshape m Hin) as [y [Hy Ey]].
    destruct (C1 y Hy) as [c [Hc Hin']]. exists c. split; [|exact Hin'].
    rewrite <- (const_of_ir_erase m), Ey, const_of_ir_erase. exact Hc. }
  (* what the validator answers *)
  destruct k2 as [|k2]; [discriminate Hv|]. cbn [validate] in Hv. inversion Hv as [Hb]. clear Hv.
  assert (Hnull : existsb (fun c => match c with CNull => true | _ => false end) cs = false).
  { destruct (existsb (fun c => match c with CNull => true | _ => false end) cs) eqn:E; [|reflexivity].
    apply existsb_exists in E as [c [Hc Hn0]]. destruct c; try discriminate Hn0.
    destruct (C2 CNull Hc) as [m [_ Hm0]]. exfalso. apply (const_not_null m CNull Hm0). reflexivity. }
  rewrite Hnull, andb_false_r, orb_false_l.
  assert (Hsvz : existsb (fun c => cst_same_value_zero c v) cs = existsb (fun c => cst_strict_eqb c v) cs).
  { clear -Hn. induction cs as [|c cs IH]; [reflexivity|]. cbn [forallb existsb] in *. apply andb_prop in Hn as [Hc Hn].
    rewrite (svz_is_strict c v Hc), (IH Hn). reflexivity. }
  rewrite Hsvz.
  destruct (flatten_union F env (S f) (IAnyOf vs) raw Hex k1 v) as [FT FF].
  destruct a.
  - destruct (FT Hm) as (m & k' & Hin & Hk').
    destruct (Hraw m Hin) as (c & Hc & Hcin).
    pose proof (proj1 (const_rmember F env m c Hc) k' v true Hk') as Ht.
    symmetry. apply existsb_exists. exists c. split; [exact Hcin|]. symmetry. exact Ht.
  - destruct (existsb (fun c => cst_strict_eqb c v) cs) eqn:E; [|reflexivity].
    apply existsb_exists in E as [c [Hcin Hcv]].
    destruct (C2 c Hcin) as [m [Hmin Hmc]].
    destruct (proj2 (const_rmember F env m c Hmc) v) as [k' Hk'].
    pose proof (FF Hm m (dedupe_subset raw m Hmin) k' _ Hk') as Hfalse. congruence.
Qed.
