(* Proofs/C13Term.v — hash256() terminates on recursive types: a named type is marked active while it is hashed and a reference to
   an active name is written as a cycle id, so each name is entered at most once along a path; the table of active names comes
   back unchanged from every call (for every tree, not only the fragment of C13Inj.v). *)
From Beff Require Import Model.Hash256Enc Proofs.C13Bytes Proofs.C13Inj Proofs.C15 Proofs.C15Term.
From Coq Require Import Lia.

(* the height hash256() descends: like `ht`, and through the discriminator mapping as well *)
Fixpoint hte (r : rt) : nat :=
  S (match r with
     | RTuple prefix rest => Nat.max (list_max (map hte prefix)) (match rest with Some x => hte x | None => 0 end)
     | RAllOf rs | RAnyOf rs => list_max (map hte rs)
     | RDisc ss _ mapping _ => Nat.max (list_max (map hte ss)) (list_max (map (fun kv => hte (snd kv)) mapping))
     | RArray t | RSet t | ROptional t | RMeta _ t => hte t
     | RMap k v => Nat.max (hte k) (hte v)
     | RObject props indexed =>
         Nat.max (list_max (map (fun kv => hte (snd kv)) props)) (list_max (map (fun kv => Nat.max (hte (fst kv)) (hte (snd kv))) indexed))
     | _ => 0
     end).

Section EncTerm.
  Variable env : renv.

  Definition restores (e : est -> rt -> res (list (list byte) * est)) : Prop :=
    forall st r p, e st r = Ok p -> fst (snd p) = fst st.

  Lemma seq_restores e : restores e -> forall l st p, enc_seq e l st = Ok p -> fst (snd p) = fst st.
  Proof.
    intros K. induction l as [|a l IHl]; intros st p E; cbn [enc_seq] in E.
    - apply Ok_inj in E. subst p. reflexivity.
    - bind_ok E. bind_ok E. apply Ok_inj in E. subst p. cbn [snd]. rewrite (IHl _ _ E1). exact (K _ _ _ E0).
  Qed.
  Lemma idx_restores e : restores e -> forall l st p, enc_idx e l st = Ok p -> fst (snd p) = fst st.
  Proof.
    intros K. induction l as [|a l IHl]; intros st p E; cbn [enc_idx] in E.
    - apply Ok_inj in E. subst p. reflexivity.
    - bind_ok E. bind_ok E. bind_ok E. apply Ok_inj in E. subst p. cbn [snd].
      rewrite (IHl _ _ E2), (K _ _ _ E1). exact (K _ _ _ E0).
  Qed.
  Lemma props_restores e look : restores e -> forall ks st p, enc_props e look ks st = Ok p -> fst (snd p) = fst st.
  Proof.
    intros K. induction ks as [|k ks IHk]; intros st p E; cbn [enc_props] in E.
    - apply Ok_inj in E. subst p. reflexivity.
    - destruct (look k) as [m|]; [|discriminate E]. bind_ok E. bind_ok E. apply Ok_inj in E. subst p. cbn [snd].
      rewrite (IHk _ _ E1). exact (K _ _ _ E0).
  Qed.
  Lemma mapping_restores e look : restores e -> forall ks st p, enc_mapping e look ks st = Ok p -> fst (snd p) = fst st.
  Proof.
    intros K. induction ks as [|k ks IHk]; intros st p E; cbn [enc_mapping] in E.
    - apply Ok_inj in E. subst p. reflexivity.
    - destruct (look k) as [m|]; [|discriminate E]. bind_ok E. bind_ok E. apply Ok_inj in E. subst p. cbn [snd].
      rewrite (IHk _ _ E1). exact (K _ _ _ E0).
  Qed.

  Lemma assoc_remove_none {A} k (l : list (string * A)) : assoc k l = None -> assoc_remove k l = l.
  Proof.
    induction l as [|[k' v] l IHl]; cbn; [reflexivity|].
    destruct (String.eqb_spec k k') as [->|Hne]; [discriminate|]. intros Hn. rewrite (IHl Hn). reflexivity.
  Qed.

  Lemma enc_restores f : restores (enc env f).
  Proof.
    induction f as [|f IHf]; intros st r p H; [discriminate H|].
    destruct r; rewrite ?enc_tuple, ?enc_allof, ?enc_anyof, ?enc_object, ?enc_disc in H; cbn [enc] in H; cbn zeta in H;
      try (apply Ok_inj in H; subst p; reflexivity).
    - (* tuple *) bind_ok H. pose proof (seq_restores _ IHf _ _ _ E) as K1.
      destruct rest as [rr|]; [bind_ok H|]; apply Ok_inj in H; subst p; cbn [snd]; [|exact K1].
      rewrite (IHf _ _ _ E0). exact K1.
    - bind_ok H. apply Ok_inj in H; subst p; cbn [snd]. exact (seq_restores _ IHf _ _ _ E).
    - bind_ok H. apply Ok_inj in H; subst p; cbn [snd]. exact (seq_restores _ IHf _ _ _ E).
    - bind_ok H. apply Ok_inj in H; subst p; cbn [snd]. exact (IHf _ _ _ E).
    - bind_ok H. bind_ok H. apply Ok_inj in H; subst p; cbn [snd]. rewrite (IHf _ _ _ E0). exact (IHf _ _ _ E).
    - bind_ok H. apply Ok_inj in H; subst p; cbn [snd]. exact (IHf _ _ _ E).
    - bind_ok H. bind_ok H. apply Ok_inj in H; subst p; cbn [snd].
      rewrite (mapping_restores _ _ IHf _ _ _ E0). exact (seq_restores _ IHf _ _ _ E).
    - bind_ok H. apply Ok_inj in H; subst p; cbn [snd]. exact (IHf _ _ _ E).
    - bind_ok H. bind_ok H. apply Ok_inj in H; subst p; cbn [snd].
      rewrite (idx_restores _ IHf _ _ _ E0). exact (props_restores _ _ IHf _ _ _ E).
    - (* named type *)
      destruct (assoc name env) as [target|]; [|discriminate H].
      destruct (assoc name (fst st)) as [id|] eqn:Ea; [apply Ok_inj in H; subst p; reflexivity|].
      bind_ok H. apply Ok_inj in H; subst p; cbn [snd fst].
      rewrite (IHf _ _ _ E). cbn [fst assoc_remove]. rewrite String.eqb_refl. apply assoc_remove_none. exact Ea.
    - exact (IHf _ _ _ H).
  Qed.

  (* ---------- the measure: named types not being hashed ---------- *)
  Variable H : nat.
  Hypothesis heights : forall n t, assoc n env = Some t -> hte t <= H.

  Definition inactive (a : list (string * nat)) : nat :=
    List.length (filter (fun n => negb (mem_str n (keys a))) (keys env)).

  Lemma inactive_enter name id a t : assoc name env = Some t -> assoc name a = None -> inactive ((name, id) :: a) < inactive a.
  Proof.
    intros En Ea. unfold inactive. apply filter_length_lt with (a := name).
    - intros x. cbn [keys map fst mem_str]. destruct (String.eqb x name); [discriminate|auto].
    - apply assoc_in_env in En. apply (in_map fst) in En. exact En.
    - apply Bool.negb_true_iff. destruct (mem_str name (keys a)) eqn:M; [|reflexivity].
      apply mem_str_In in M. exfalso. clear -M Ea. induction a as [|[k v] l IHl]; cbn in *; [contradiction|].
      destruct (String.eqb_spec name k) as [->|Hne]; [discriminate|]. destruct M as [M|M]; [congruence|exact (IHl Ea M)].
    - cbn [keys map fst mem_str]. rewrite String.eqb_refl. reflexivity.
  Qed.

  Lemma seq_no_oof e l m0 :
    restores e -> (forall st x, In x l -> inactive (fst st) <= m0 -> no_oof (e st x)) ->
    forall st, inactive (fst st) <= m0 -> no_oof (enc_seq e l st).
  Proof.
    intros K Hg. induction l as [|x l IHl]; intros st Hm; cbn [enc_seq]; [apply no_oof_ok|].
    apply no_oof_bind; [apply Hg; [left; reflexivity|exact Hm]|]. intros a Ea.
    apply no_oof_bind; [|intros b _; apply no_oof_ok].
    apply IHl; [intros st' y Hy; apply Hg; right; exact Hy|]. rewrite (K _ _ _ Ea). exact Hm.
  Qed.
  Lemma idx_no_oof e l m0 :
    restores e -> (forall st kv, In kv l -> inactive (fst st) <= m0 -> no_oof (e st (fst kv)) /\ no_oof (e st (snd kv))) ->
    forall st, inactive (fst st) <= m0 -> no_oof (enc_idx e l st).
  Proof.
    intros K Hg. induction l as [|x l IHl]; intros st Hm; cbn [enc_idx]; [apply no_oof_ok|].
    apply no_oof_bind; [apply (Hg st x (or_introl eq_refl) Hm)|]. intros a Ea.
    assert (Hm1 : inactive (fst (snd a)) <= m0) by (rewrite (K _ _ _ Ea); exact Hm).
    apply no_oof_bind; [apply (Hg (snd a) x (or_introl eq_refl) Hm1)|]. intros b Eb.
    apply no_oof_bind; [|intros c _; apply no_oof_ok].
    apply IHl; [intros st' y Hy; apply Hg; right; exact Hy|]. rewrite (K _ _ _ Eb). exact Hm1.
  Qed.
  Lemma props_no_oof e look ks m0 :
    restores e -> (forall st k m, In k ks -> look k = Some m -> inactive (fst st) <= m0 -> no_oof (e st m)) ->
    forall st, inactive (fst st) <= m0 -> no_oof (enc_props e look ks st).
  Proof.
    intros K Hg. induction ks as [|k ks IHk]; intros st Hm; cbn [enc_props]; [apply no_oof_ok|].
    destruct (look k) as [m|] eqn:Lk; [|intros e' He; injection He as <-; discriminate].
    apply no_oof_bind; [apply (Hg st k m (or_introl eq_refl) Lk Hm)|]. intros a Ea.
    apply no_oof_bind; [|intros b _; apply no_oof_ok].
    apply IHk; [intros st' k' m' Hk'; apply Hg; right; exact Hk'|]. rewrite (K _ _ _ Ea). exact Hm.
  Qed.
  Lemma mapping_no_oof e look ks m0 :
    restores e -> (forall st k m, In k ks -> look k = Some m -> inactive (fst st) <= m0 -> no_oof (e st m)) ->
    forall st, inactive (fst st) <= m0 -> no_oof (enc_mapping e look ks st).
  Proof.
    intros K Hg. induction ks as [|k ks IHk]; intros st Hm; cbn [enc_mapping]; [apply no_oof_ok|].
    destruct (look k) as [m|] eqn:Lk; [|intros e' He; injection He as <-; discriminate].
    apply no_oof_bind; [apply (Hg st k m (or_introl eq_refl) Lk Hm)|]. intros a Ea.
    apply no_oof_bind; [|intros b _; apply no_oof_ok].
    apply IHk; [intros st' k' m' Hk'; apply Hg; right; exact Hk'|]. rewrite (K _ _ _ Ea). exact Hm.
  Qed.

  Theorem enc_no_oof : forall fuel st r m0 h,
      inactive (fst st) <= m0 -> hte r <= h -> h <= H -> m0 * (H + 1) + h < fuel -> no_oof (enc env fuel st r).
  Proof.
    induction fuel as [|f IH]; intros st r m0 h Hm Hh HhH Hf; [lia|].
    assert (Hchild : forall st' c, inactive (fst st') <= m0 -> hte c < hte r -> no_oof (enc env f st' c)).
    { intros st' c Hm' Hc. apply (IH st' c m0 (h - 1)); lia. }
    assert (Hseq : forall l st', inactive (fst st') <= m0 -> (forall c, In c l -> hte c < hte r) -> no_oof (enc_seq (enc env f) l st')).
    { intros l st' Hm' Hl. apply (seq_no_oof _ l m0 (enc_restores f)); [|exact Hm'].
      intros s x Hx Hs. apply Hchild; [exact Hs|exact (Hl x Hx)]. }
    destruct r; rewrite ?enc_tuple, ?enc_allof, ?enc_anyof, ?enc_object, ?enc_disc; cbn [enc]; cbn zeta; try apply no_oof_ok.
    - (* tuple *)
      apply no_oof_bind.
      { apply Hseq; [exact Hm|]. intros c Hc. cbn [hte]. pose proof (list_max_in_gen hte prefix c Hc). lia. }
      intros q Eq. destruct rest as [rr|]; [|apply no_oof_ok].
      apply no_oof_bind; [|intros q' _; apply no_oof_ok].
      apply Hchild; [rewrite (seq_restores _ (enc_restores f) _ _ _ Eq); exact Hm|cbn [hte]; lia].
    - apply no_oof_bind; [|intros q _; apply no_oof_ok].
      apply Hseq; [exact Hm|]. intros c Hc. cbn [hte]. pose proof (list_max_in_gen hte schemas c Hc). lia.
    - apply no_oof_bind; [|intros q _; apply no_oof_ok].
      apply Hseq; [exact Hm|]. intros c Hc. cbn [hte]. pose proof (list_max_in_gen hte schemas c Hc). lia.
    - apply no_oof_bind; [|intros q _; apply no_oof_ok]. apply Hchild; [exact Hm|cbn [hte]; lia].
    - apply no_oof_bind; [apply Hchild; [exact Hm|cbn [hte]; lia]|]. intros a Ea.
      apply no_oof_bind; [|intros b _; apply no_oof_ok].
      apply Hchild; [rewrite (enc_restores f _ _ _ Ea); exact Hm|cbn [hte]; lia].
    - apply no_oof_bind; [|intros q _; apply no_oof_ok]. apply Hchild; [exact Hm|cbn [hte]; lia].
    - (* discriminated union *)
      apply no_oof_bind.
      { apply Hseq; [exact Hm|]. intros c Hc. cbn [hte]. pose proof (list_max_in_gen hte schemas c Hc). lia. }
      intros q Eq. apply no_oof_bind; [|intros q' _; apply no_oof_ok].
      apply (mapping_no_oof _ _ _ m0 (enc_restores f)); [|rewrite (seq_restores _ (enc_restores f) _ _ _ Eq); exact Hm].
      intros s k m _ Lk Hs. cbn beta in Lk.
      apply assoc_in_env in Lk. apply Hchild; [exact Hs|]. cbn [hte].
      pose proof (list_max_in_gen (fun kv : string * rt => hte (snd kv)) mapping (k, m) Lk). cbn in *. lia.
    - apply no_oof_bind; [|intros q _; apply no_oof_ok]. apply Hchild; [exact Hm|cbn [hte]; lia].
    - (* object *)
      apply no_oof_bind.
      { apply (props_no_oof _ _ _ m0 (enc_restores f)); [|exact Hm].
        intros s k m _ Lk Hs. cbn beta in Lk. apply assoc_in_env in Lk.
        apply Hchild; [exact Hs|]. cbn [hte].
        pose proof (list_max_in_gen (fun kv : string * rt => hte (snd kv)) props (k, m) Lk). cbn in *. lia. }
      intros q Eq. apply no_oof_bind; [|intros q' _; apply no_oof_ok].
      apply (idx_no_oof _ _ m0 (enc_restores f)); [|rewrite (props_restores _ _ (enc_restores f) _ _ _ Eq); exact Hm].
      intros s kv Hkv Hs.
      pose proof (list_max_in_gen (fun kv : rt * rt => Nat.max (hte (fst kv)) (hte (snd kv))) indexed kv Hkv) as Hmx. cbn beta in Hmx.
      split; apply Hchild; try exact Hs; cbn [hte]; lia.
    - (* named type *)
      destruct (assoc name env) as [target|] eqn:En; [|intros e He; injection He as <-; discriminate].
      destruct (assoc name (fst st)) as [id|] eqn:Ea; [apply no_oof_ok|].
      apply no_oof_bind; [|intros q _; apply no_oof_ok].
      pose proof (inactive_enter name (snd st) (fst st) target En Ea) as Hlt.
      apply (IH _ target (inactive (fst st) - 1) H); cbn [fst]; try lia.
      + exact (heights _ _ En).
      + nia.
    - (* metadata *) apply Hchild; [exact Hm|cbn [hte]; lia].
  Qed.
End EncTerm.

(* hash256(): the whole computation *)
Theorem hash256_terminates env H fuel r :
  forallb (fun e => Nat.leb (hte (snd e)) H) env = true -> hte r <= H ->
  (List.length env + 1) * (H + 1) <= fuel ->
  forall e, hash256_hex env fuel r = Throw e -> e <> EOutOfFuel.
Proof.
  intros Hhs Hr Hf. unfold hash256_hex, hash256_writes.
  assert (Hheights : forall n t, assoc n env = Some t -> hte t <= H).
  { intros n t Hn. apply assoc_in_env in Hn. rewrite forallb_forall in Hhs. specialize (Hhs _ Hn). cbn in Hhs. apply Nat.leb_le. exact Hhs. }
  apply no_oof_bind; [|intros ws _; apply no_oof_ok].
  apply no_oof_bind; [|intros p _; apply no_oof_ok].
  apply (enc_no_oof env H Hheights fuel ([], 0) r (List.length env) H); [|exact Hr|apply le_n|].
  - unfold inactive. etransitivity; [apply filter_length_upper|]. unfold keys. rewrite map_length. apply le_n.
  - eapply Nat.lt_le_trans; [|exact Hf]. rewrite Nat.mul_add_distr_r, Nat.mul_1_l.
    apply Nat.add_lt_mono_l. apply Nat.lt_succ_r. rewrite Nat.add_1_r. apply le_n.
Qed.
