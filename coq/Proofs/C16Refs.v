(* Proofs/C16Refs.v — every $ref (and every discriminator-mapping target) of every schema returned by a contextual
   print, and of every definition stored in the context, names a definition that is stored or still in progress;
   after a history of successful top-level prints nothing is in progress, so every reference resolves in the export. *)
From Beff Require Import Model.Schema Proofs.C16.

(* ================================================================ references of a schema document *)
(* A reading of "the $refs of a JSON Schema" that over-approximates: the value of every keyword is searched, except that
   the keys of a `properties` object are property names, not keywords; the targets of a discriminator mapping count too. *)
Inductive sref : json -> string -> Prop :=
| sr_here fs s : In ("$ref", JStr s) fs -> sref (JObj fs) s
| sr_field fs k v s : In (k, v) fs -> k <> "properties" -> sref v s -> sref (JObj fs) s
| sr_props fs ps k v s : In ("properties", JObj ps) fs -> In (k, v) ps -> sref v s -> sref (JObj fs) s
| sr_elem xs x s : In x xs -> sref x s -> sref (JArr xs) s
| sr_mapping fs d m k s : In ("discriminator", JObj d) fs -> In ("mapping", JObj m) d -> In (k, JStr s) m -> sref (JObj fs) s.

Lemma sref_scalar j s : sref j s -> match j with JObj _ | JArr _ => True | _ => False end.
Proof. intros H; inversion H; exact I. Qed.

Lemma sref_nil s : ~ sref (JObj []) s.
Proof. intros H; inversion H; subst; match goal with H : In _ [] |- _ => destruct H end. Qed.

Lemma sref_arr_nil s : ~ sref (JArr []) s.
Proof. intros H; inversion H; subst; match goal with H : In _ [] |- _ => destruct H end. Qed.

(* one field at a time *)
Lemma sref_cons k v fs s :
  sref (JObj ((k, v) :: fs)) s ->
  (k = "$ref" /\ v = JStr s) \/
  (k <> "properties" /\ sref v s) \/
  (k = "properties" /\ exists ps k' v', v = JObj ps /\ In (k', v') ps /\ sref v' s) \/
  (k = "discriminator" /\ exists d m k', v = JObj d /\ In ("mapping", JObj m) d /\ In (k', JStr s) m) \/
  sref (JObj fs) s.
Proof.
  intros H. inversion H as [fs0 s0 Hin|fs0 k0 v0 s0 Hin Hk Hv|fs0 ps k0 v0 s0 Hin Hin2 Hv| |fs0 d m k0 s0 Hin Hm Hs]; subst.
  - destruct Hin as [E|Hin]; [injection E as -> ->; left; auto|].
    right; right; right; right. apply sr_here; exact Hin.
  - destruct Hin as [E|Hin]; [injection E as -> ->; right; left; auto|].
    right; right; right; right. eapply sr_field; eauto.
  - destruct Hin as [E|Hin]; [injection E as -> ->; right; right; left; split; [reflexivity|]; eauto 8|].
    right; right; right; right. eapply sr_props; eauto.
  - destruct Hin as [E|Hin]; [injection E as -> ->; right; right; right; left; split; [reflexivity|]; eauto 8|].
    right; right; right; right. eapply sr_mapping; eauto.
Qed.

Lemma sref_app fs1 fs2 s : sref (JObj (fs1 ++ fs2)) s -> sref (JObj fs1) s \/ sref (JObj fs2) s.
Proof.
  intros H. inversion H as [fs0 s0 Hin|fs0 k0 v0 s0 Hin Hk Hv|fs0 ps k0 v0 s0 Hin Hin2 Hv| |fs0 d m k0 s0 Hin Hm Hs]; subst;
    apply in_app_or in Hin; destruct Hin as [Hin|Hin].
  - left; apply sr_here; exact Hin.
  - right; apply sr_here; exact Hin.
  - left; eapply sr_field; eauto.
  - right; eapply sr_field; eauto.
  - left; eapply sr_props; eauto.
  - right; eapply sr_props; eauto.
  - left; eapply sr_mapping; eauto.
  - right; eapply sr_mapping; eauto.
Qed.

Lemma in_assoc_set {A} k (v : A) l kv : In kv (assoc_set k v l) -> kv = (k, v) \/ In kv l.
Proof.
  induction l as [|[k' v'] l IH]; cbn.
  - intros [E|[]]; left; auto.
  - destruct (String.eqb k k'); cbn.
    + intros [E|H]; [left; auto|right; right; exact H].
    + intros [E|H]; [right; left; exact E|]. destruct (IH H); [left; auto|right; right; auto].
Qed.

Lemma assoc_in {A} k l (v : A) : assoc k l = Some v -> In (k, v) l.
Proof.
  induction l as [|[k' v'] l IH]; cbn; [discriminate|].
  destruct (String.eqb k k') eqn:E.
  - apply String.eqb_eq in E. subst k'. intros [= ->]. left; reflexivity.
  - intros H. right. apply IH. exact H.
Qed.

(* assoc_set of a field whose value has no references of its own *)
Lemma sref_assoc_set_inert k v fs s :
  k <> "$ref" -> k <> "properties" -> k <> "discriminator" -> (forall s', ~ sref v s') ->
  sref (JObj (assoc_set k v fs)) s -> sref (JObj fs) s.
Proof.
  intros K1 K2 K3 Hv H.
  inversion H as [fs0 s0 Hin|fs0 k0 v0 s0 Hin Hk Hv0|fs0 ps k0 v0 s0 Hin Hin2 Hv0| |fs0 d m k0 s0 Hin Hm Hs]; subst;
    apply in_assoc_set in Hin; destruct Hin as [E|Hin].
  - injection E as E1 E2. congruence.
  - apply sr_here; exact Hin.
  - injection E as -> ->. exfalso. eapply Hv; eauto.
  - eapply sr_field; eauto.
  - injection E as E1 E2. congruence.
  - eapply sr_props; eauto.
  - injection E as E1 E2. congruence.
  - eapply sr_mapping; eauto.
Qed.

Lemma sref_annotate d j s : sref (annotate d j) s -> sref j s.
Proof.
  destruct d as [d|]; [|auto]. destruct j; cbn; auto.
  apply sref_assoc_set_inert; try discriminate. intros s' H; inversion H.
Qed.

Lemma no_sref_cst c s : ~ sref (cst_json_val c) s.
Proof. destruct c; intros H; inversion H. Qed.

Lemma no_sref_csts vs s : ~ sref (JArr (map cst_json_val vs)) s.
Proof.
  intros H. inversion H as [| | |xs x s0 Hin Hx|]; subst. apply in_map_iff in Hin. destruct Hin as [c [<- _]].
  eapply no_sref_cst; eauto.
Qed.

Lemma no_sref_strs {X} (f : X -> json) (l : list X) s : (forall x, exists y, f x = JStr y) -> ~ sref (JArr (map f l)) s.
Proof.
  intros Hf H. inversion H as [| | |xs x s0 Hin Hx|]; subst. apply in_map_iff in Hin. destruct Hin as [c [<- _]].
  destruct (Hf c) as [y E]. rewrite E in Hx. inversion Hx.
Qed.

(* ---------- removeNullUnionBranch only drops or keeps parts ---------- *)
Lemma sref_jobj_set_arr key (xs : list json) fs s :
  key <> "$ref" -> key <> "properties" -> key <> "discriminator" ->
  sref (JObj (jobj_set key (JArr xs) fs)) s -> sref (JObj fs) s \/ exists x, In x xs /\ sref x s.
Proof.
  intros K1 K2 K3 H. unfold jobj_set in H.
  inversion H as [fs0 s0 Hin|fs0 k0 v0 s0 Hin Hk Hv0|fs0 ps k0 v0 s0 Hin Hin2 Hv0| |fs0 d m k0 s0 Hin Hm Hs]; subst;
    apply in_assoc_set in Hin; destruct Hin as [E|Hin].
  - injection E as E1 E2. congruence.
  - left; apply sr_here; exact Hin.
  - injection E as -> ->. inversion Hv0; subst. right; eauto.
  - left; eapply sr_field; eauto.
  - injection E as E1 E2. congruence.
  - left; eapply sr_props; eauto.
  - injection E as E1 E2. congruence.
  - left; eapply sr_mapping; eauto.
Qed.

Lemma remove_null_refs : forall fuel def def' s,
  remove_null_union_branch fuel def = Some def' -> sref def' s -> sref def s.
Proof.
  induction fuel as [|f IH]; intros def def' s; cbn [remove_null_union_branch]; [discriminate|].
  destruct def as [| | | | |fs]; try discriminate.
  set (pick := match assoc "anyOf" fs with
               | Some (JArr vs) => Some ("anyOf", vs)
               | _ => match assoc "oneOf" fs with Some (JArr vs) => Some ("oneOf", vs) | _ => None end
               end).
  assert (Hpick : forall key vs, pick = Some (key, vs) ->
                                 In (key, JArr vs) fs /\ key <> "$ref" /\ key <> "properties" /\ key <> "discriminator").
  { intros key vs. unfold pick.
    destruct (assoc "anyOf" fs) as [[| | | |vs0|]|] eqn:A;
      try (destruct (assoc "oneOf" fs) as [[| | | |vs1|]|] eqn:O; try discriminate;
           intros [= <- <-]; split; [apply assoc_in; exact O|repeat split; discriminate]).
    intros [= <- <-]. split; [apply assoc_in; exact A|repeat split; discriminate]. }
  destruct pick as [[key variants]|]; [|discriminate].
  destruct (Hpick key variants eq_refl) as [Hin [K1 [K2 K3]]].
  set (non_null := filter (fun v => negb (is_null_definition v)) variants).
  destruct (Nat.eqb (List.length non_null) (List.length variants) || Nat.eqb (List.length non_null) 0); [discriminate|].
  set (normalized := map (fun v => match remove_null_union_branch f v with Some v' => v' | None => v end) non_null).
  assert (Hnorm : forall x, In x normalized -> sref x s -> sref (JObj fs) s).
  { intros x Hx Hs. unfold normalized in Hx. apply in_map_iff in Hx. destruct Hx as [v [Ev Hv]].
    assert (Hvv : In v variants) by (unfold non_null in Hv; apply filter_In in Hv; tauto).
    assert (sref v s).
    { destruct (remove_null_union_branch f v) as [v'|] eqn:Er; subst x; [eapply IH; eauto|exact Hs]. }
    eapply sr_field; [exact Hin|exact K2|]. eapply sr_elem; [exact Hvv|assumption]. }
  destruct normalized as [|one [|two rest]] eqn:En.
  - intros [= <-] H. apply sref_jobj_set_arr in H; auto. destruct H as [H|[x [[] _]]]. exact H.
  - intros [= <-] H. apply (Hnorm one); [left; reflexivity|exact H].
  - intros [= <-] H. apply sref_jobj_set_arr in H; auto. destruct H as [H|[x [Hx Hs]]]; [exact H|]. apply (Hnorm x); assumption.
Qed.

(* ---------- tryMergeAllOfObjectSchemas only rearranges properties of its inputs ---------- *)
Lemma jget_in j k v : jget j k = Some v -> exists fs, j = JObj fs /\ In (k, v) fs.
Proof. destruct j; cbn; try discriminate. intros H. eexists; split; [reflexivity|apply assoc_in; exact H]. Qed.

Definition prop_entry_of (l : list json) (kv : string * json) : Prop :=
  exists x fs ps, In x l /\ x = JObj fs /\ In ("properties", JObj ps) fs /\ In kv ps.

Definition merge_inner (p : option (list (string * json))) (kv : string * json) : option (list (string * json)) :=
  match p with
  | None => None
  | Some ps =>
      match assoc (fst kv) ps with
      | Some existing =>
          if String.eqb (show_json existing) (show_json (snd kv))
          then Some (assoc_set (fst kv) (snd kv) ps) else None
      | None =>
          if mem_str (fst kv) object_proto_functions || String.eqb (fst kv) proto_key
          then None else Some (ps ++ [kv])
      end
  end.

Lemma merge_inner_entries (P : string * json -> Prop) src :
  (forall kv, In kv src -> P kv) ->
  forall acc p1, fold_left merge_inner src acc = Some p1 ->
  exists ps0, acc = Some ps0 /\ forall kv, In kv p1 -> In kv ps0 \/ P kv.
Proof.
  induction src as [|kv src IH]; intros Hsrc acc p1; cbn [fold_left].
  - intros ->. eexists; split; [reflexivity|auto].
  - intros Hf. destruct (IH (fun kv0 H0 => Hsrc kv0 (or_intror H0)) _ _ Hf) as [ps1 [E Hp1]].
    destruct acc as [ps0|]; [|discriminate]. eexists; split; [reflexivity|].
    intros kv0 Hkv0. destruct (Hp1 kv0 Hkv0) as [H1|H1]; [|right; exact H1].
    cbn [merge_inner] in E.
    destruct (assoc (fst kv) ps0) as [existing|].
    + destruct (String.eqb (show_json existing) (show_json (snd kv))); [|discriminate].
      injection E as <-. apply in_assoc_set in H1. destruct H1 as [E1|H1]; [|left; exact H1].
      right. subst kv0. replace (fst kv, snd kv) with kv by (destruct kv; reflexivity). apply Hsrc. left; reflexivity.
    + destruct (mem_str (fst kv) object_proto_functions || String.eqb (fst kv) proto_key); [discriminate|].
      injection E as <-. apply in_app_or in H1. destruct H1 as [H1|[<-|[]]]; [left; exact H1|].
      right. apply Hsrc. left; reflexivity.
Qed.

Lemma try_merge_refs l m s :
  try_merge_allof l = Some m -> sref m s -> exists x, In x l /\ sref x s.
Proof.
  unfold try_merge_allof.
  match goal with |- match fold_left ?st _ _ with _ => _ end = _ -> _ => set (step := st) end.
  assert (Hfold : forall l0 acc res,
             (forall x, In x l0 -> In x l) ->
             fold_left step l0 acc = Some res ->
             exists p0 r0, acc = Some (p0, r0) /\ forall kv, In kv (fst res) -> In kv p0 \/ prop_entry_of l kv).
  { induction l0 as [|x l0 IHl]; intros acc res Hsub; cbn [fold_left].
    - intros ->. destruct res as [p r]. exists p, r. split; [reflexivity|]. cbn. auto.
    - intros H. destruct (IHl _ _ (fun y Hy => Hsub y (or_intror Hy)) H) as [props1 [req1 [E1 Hres]]].
      destruct acc as [[props0 req0]|]; [|cbn in E1; discriminate].
      exists props0, req0. split; [reflexivity|].
      unfold step in E1 at 1. destruct (negb (is_mergeable_closed_object x)); [discriminate|].
      match type of E1 with match ?pp with _ => _ end = _ => destruct pp as [p'|] eqn:Ep; [|discriminate] end.
      injection E1 as <- _.
      change (fold_left merge_inner (match jget x "properties" with Some (JObj ps) => ps | _ => [] end) (Some props0) = Some p') in Ep.
      assert (Hsrc : forall kv, In kv (match jget x "properties" with Some (JObj ps) => ps | _ => [] end) -> prop_entry_of l kv).
      { intros kv Hkv. destruct (jget x "properties") as [[| | | | |ps]|] eqn:J; try (destruct Hkv; fail).
        apply jget_in in J. destruct J as [fs [-> Hin]].
        exists (JObj fs), fs, ps. repeat split; auto. apply Hsub. left; reflexivity. }
      destruct (merge_inner_entries (prop_entry_of l) _ Hsrc _ _ Ep) as [ps0 [E0 Hp]].
      injection E0 as <-.
      intros kv Hkv. destruct (Hres kv Hkv) as [H1|H1]; [|right; exact H1]. apply Hp. exact H1. }
  destruct (fold_left step l (Some ([], []))) as [[props req]|] eqn:Ef; [|discriminate].
  destruct (Hfold _ _ _ (fun x H => H) Ef) as [p0 [r0 [E0 Hentries]]]. injection E0 as <- <-. cbn [fst] in Hentries.
  intros [= <-] Hs.
  assert (Hprops : forall k v, In (k, v) props -> sref v s -> exists x, In x l /\ sref x s).
  { intros k v Hin Hv. destruct (Hentries _ Hin) as [[]|[x [fs [ps [Hx [-> [Hp Hkv]]]]]]].
    exists (JObj fs). split; [exact Hx|]. eapply sr_props; eauto. }
  cbn [app] in Hs.
  apply sref_cons in Hs. destruct Hs as [[E _]|[[_ H]|[[E _]|[[E _]|Hs]]]]; try discriminate; [inversion H|].
  assert (Hrest : forall s0, ~ sref (JObj ((match req with [] => [] | _ => [("required", JArr (map JStr req))] end)
                                          ++ [("additionalProperties", JBool false)])) s0).
  { intros s0 H. apply sref_app in H. destruct H as [H|H].
    - destruct req as [|r0 req']; [eapply sref_nil; eauto|].
      apply sref_cons in H. destruct H as [[E _]|[[_ H]|[[E _]|[[E _]|H]]]]; try discriminate; [|eapply sref_nil; eauto].
      eapply no_sref_strs; [|exact H]. intros y; eexists; reflexivity.
    - apply sref_cons in H. destruct H as [[E _]|[[_ H]|[[E _]|[[E _]|H]]]]; try discriminate; [inversion H|eapply sref_nil; eauto]. }
  destruct props as [|pe props'].
  - cbn [app] in Hs. exfalso. eapply Hrest; eauto.
  - cbn [app] in Hs. apply sref_cons in Hs.
    destruct Hs as [[E _]|[[E _]|[[_ [ps [k' [v' [E [Hin Hv]]]]]]|[[E _]|Hs]]]]; try discriminate.
    + congruence.
    + injection E as <-. eapply Hprops; eauto.
    + exfalso. eapply Hrest; eauto.
Qed.

(* ================================================================ the invariant of the printing context *)
Lemma mem_keys_assoc {A} k (l : list (string * A)) : mem_str k (keys l) = true -> exists v, assoc k l = Some v.
Proof.
  induction l as [|[k' v'] l IH]; cbn; [discriminate|].
  destruct (String.eqb k k'); [eauto|exact IH].
Qed.
Lemma assoc_mem_keys {A} k (l : list (string * A)) v : assoc k l = Some v -> mem_str k (keys l) = true.
Proof.
  induction l as [|[k' v'] l IH]; cbn; [discriminate|].
  destruct (String.eqb k k'); [reflexivity|exact IH].
Qed.
Lemma mem_str_filter_ne n name l :
  String.eqb n name = false -> mem_str n (filter (fun x => negb (String.eqb x name)) l) = mem_str n l.
Proof.
  intros Hne. induction l as [|x l IH]; cbn; [reflexivity|].
  destruct (String.eqb x name) eqn:E; cbn.
  - apply String.eqb_eq in E. subst x. rewrite Hne. exact IH.
  - destruct (String.eqb n x); [reflexivity|exact IH].
Qed.

Lemma no_sref_arr1 x s : (forall s', ~ sref x s') -> ~ sref (JArr [x]) s.
Proof. intros Hx H. inversion H as [| | |xs y s0 Hin Hy|]; subst. destruct Hin as [<-|[]]. eapply Hx; eauto. Qed.
Ltac kill H := solve [inversion H | exfalso; eapply sref_nil; exact H | exfalso; eapply sref_arr_nil; exact H
                      | exfalso; eapply no_sref_csts; exact H
                      | exfalso; eapply no_sref_arr1; [|exact H]; let s' := fresh in let X := fresh in intros s' X; inversion X].
Ltac split_sref H :=
  repeat (apply sref_cons in H; destruct H as [[? ?]|[[_ H]|[[? _]|[[? _]|H]]]]; try discriminate; try kill H).


Lemma fold_jobj_set_entries {X} (kf : X -> string) (vf : X -> json) l : forall acc kv,
  In kv (fold_left (fun acc x => jobj_set (kf x) (vf x) acc) l acc) ->
  In kv acc \/ exists x, In x l /\ kv = (kf x, vf x).
Proof.
  induction l as [|x l IH]; intros acc kv; cbn [fold_left]; [auto|].
  intros H. destruct (IH _ _ H) as [H1|[y [Hy E]]].
  - unfold jobj_set in H1. apply in_assoc_set in H1. destruct H1 as [E|H1]; [right; exists x; split; [left; reflexivity|exact E]|left; exact H1].
  - right. exists y. split; [right; exact Hy|exact E].
Qed.

Lemma dedupe_first_in x l : forall seen, In x (dedupe_first l seen) -> In x l.
Proof.
  induction l as [|y l IH]; intros seen; cbn [dedupe_first]; [intros []|].
  destruct (mem_str y seen); [intros H; right; eapply IH; exact H|].
  intros [<-|H]; [left; reflexivity|right; eapply IH; exact H].
Qed.

Lemma sref_disc_schema disc (refs : list (string * string)) s :
  sref (JObj [("type", JStr "object");
              ("discriminator", JObj [("propertyName", JStr disc);
                                      ("mapping", JObj (fold_left (fun acc kr => jobj_set (fst kr) (JStr (snd kr)) acc) refs []))]);
              ("oneOf", JArr (map (fun r0 : string => JObj [("$ref", JStr r0)]) (dedupe_first (map snd refs) [])))]) s ->
  exists kr, In kr refs /\ s = snd kr.
Proof.
  assert (Hmap : forall k v, In (k, v) (fold_left (fun acc (kr : string * string) => jobj_set (fst kr) (JStr (snd kr)) acc) refs []) ->
                             exists kr, In kr refs /\ v = JStr (snd kr)).
  { intros k v H. apply (fold_jobj_set_entries (fun kr : string * string => fst kr) (fun kr => JStr (snd kr))) in H.
    destruct H as [[]|[kr [Hkr E]]]. injection E as _ ->. eauto. }
  assert (Hm : forall s', sref (JObj (fold_left (fun acc (kr : string * string) => jobj_set (fst kr) (JStr (snd kr)) acc) refs [])) s' ->
                          exists kr, In kr refs /\ s' = snd kr).
  { intros s' H. inversion H as [fs0 s0 Hin|fs0 k0 v0 s0 Hin Hk Hv0|fs0 ps k0 v0 s0 Hin Hin2 Hv0| |fs0 d m k0 s0 Hin Hmm Hss]; subst.
    - destruct (Hmap _ _ Hin) as [kr [Hkr E]]. injection E as ->. eauto.
    - destruct (Hmap _ _ Hin) as [kr [Hkr ->]]. inversion Hv0.
    - destruct (Hmap _ _ Hin) as [kr [Hkr E]]. discriminate.
    - destruct (Hmap _ _ Hin) as [kr [Hkr E]]. discriminate. }
  intros H.
  apply sref_cons in H. destruct H as [[E _]|[[_ H]|[[E _]|[[E _]|H]]]]; try discriminate; [inversion H|].
  apply sref_cons in H. destruct H as [[E _]|[[_ H]|[[E _]|[[_ [d [m [k' [E [Hmp Hs]]]]]]|H]]]]; try discriminate.
  - (* inside the discriminator object *)
    apply sref_cons in H. destruct H as [[E _]|[[_ H]|[[E _]|[[E _]|H]]]]; try discriminate; [inversion H|].
    apply sref_cons in H. destruct H as [[E _]|[[_ H]|[[E _]|[[E _]|H]]]]; try discriminate; [apply Hm; exact H|].
    exfalso; eapply sref_nil; eauto.
  - (* a mapping target *)
    injection E as <-. destruct Hmp as [E|[E|[]]]; [discriminate|]. injection E as <-.
    destruct (Hmap _ _ Hs) as [kr [Hkr E]]. injection E as ->. eauto.
  - apply sref_cons in H. destruct H as [[E _]|[[_ H]|[[E _]|[[E _]|H]]]]; try discriminate; [|exfalso; eapply sref_nil; eauto].
    inversion H as [| | |xs x s0 Hin Hx|]; subst. apply in_map_iff in Hin. destruct Hin as [r0 [<- Hr0]].
    apply dedupe_first_in in Hr0. apply in_map_iff in Hr0. destruct Hr0 as [kr [<- Hkr]].
    apply sref_cons in Hx. destruct Hx as [[_ E]|[[_ Hx]|[[E _]|[[E _]|Hx]]]]; try discriminate.
    + injection E as <-. eauto.
    + inversion Hx.
    + exfalso; eapply sref_nil; eauto.
Qed.

Section Refs.
  Variable env : renv.
  Variable cf : pconf.
  Notation sch := (schema env cf Contextual).
  Notation Rr := (R env cf).

  Definition okn (c : pctx) (n : string) : Prop := has_definition c n = true \/ is_in_progress c n = true.
  Definition Pc (c : pctx) (s : string) : Prop := exists n, s = get_ref cf n /\ okn c n.
  Definition refs_in (c : pctx) (j : json) : Prop := forall s, sref j s -> Pc c s.
  Definition WF (c : pctx) : Prop := forall n b, assoc n (collected c) = Some b -> refs_in c b.

  Lemma okn_R c c' n : Rr c c' -> okn c n -> okn c' n.
  Proof.
    intros [I M _ _] [H|H].
    - left. unfold has_definition in *. apply mem_keys_assoc in H. destruct H as [b H]. eapply assoc_mem_keys. apply M. exact H.
    - right. unfold is_in_progress in *. rewrite I. exact H.
  Qed.
  Lemma refs_in_R c c' j : Rr c c' -> refs_in c j -> refs_in c' j.
  Proof. intros HR H s Hs. destruct (H s Hs) as [n [E Hn]]. exists n. split; [exact E|eapply okn_R; eauto]. Qed.

  Lemma okn_mark c name n : okn c n -> okn (mark_in_progress c name) n.
  Proof.
    intros [H|H]; [left; exact H|right]. unfold is_in_progress, mark_in_progress in *. cbn.
    destruct (mem_str name (in_progress c)); [exact H|]. rewrite mem_str_app, H. reflexivity.
  Qed.
  Lemma okn_mark_self c name : okn (mark_in_progress c name) name.
  Proof.
    right. unfold is_in_progress, mark_in_progress. cbn.
    destruct (mem_str name (in_progress c)) eqn:E; [exact E|]. rewrite mem_str_app. cbn. rewrite String.eqb_refl.
    apply Bool.orb_true_r.
  Qed.
  Lemma WF_mark c name : WF c -> WF (mark_in_progress c name).
  Proof.
    intros H n b Hn s Hs. destruct (H n b Hn s Hs) as [m [E Hm]]. exists m. split; [exact E|apply okn_mark; exact Hm].
  Qed.

  Lemma okn_store c name body n : okn c n -> okn (store_definition c name body) n.
  Proof.
    destruct (String.eqb n name) eqn:E.
    - intros _. apply String.eqb_eq in E. subst n. left. unfold has_definition, store_definition. cbn.
      eapply assoc_mem_keys. apply assoc_set_same.
    - intros [H|H].
      + left. unfold has_definition, store_definition in *. cbn. apply mem_keys_assoc in H. destruct H as [b H].
        eapply assoc_mem_keys. rewrite assoc_set_other by exact E. exact H.
      + right. unfold is_in_progress, store_definition in *. cbn. rewrite mem_str_filter_ne by exact E. exact H.
  Qed.
  Lemma okn_store_self c name body : okn (store_definition c name body) name.
  Proof. left. unfold has_definition, store_definition. cbn. eapply assoc_mem_keys. apply assoc_set_same. Qed.
  Lemma refs_in_store c name body j : refs_in c j -> refs_in (store_definition c name body) j.
  Proof. intros H s Hs. destruct (H s Hs) as [n [E Hn]]. exists n. split; [exact E|apply okn_store; exact Hn]. Qed.
  Lemma WF_store c name body : WF c -> refs_in c body -> WF (store_definition c name body).
  Proof.
    intros Hc Hb n b Hn. unfold store_definition in Hn. cbn in Hn.
    destruct (String.eqb n name) eqn:E.
    - apply String.eqb_eq in E. subst n. rewrite assoc_set_same in Hn. injection Hn as <-. apply refs_in_store. exact Hb.
    - rewrite assoc_set_other in Hn by exact E. apply refs_in_store. eapply Hc. exact Hn.
  Qed.

  Lemma smap_refs {A B} (g : pctx -> A -> res (B * pctx)) (out : pctx -> B -> Prop) l :
    (forall c c' y, Rr c c' -> out c y -> out c' y) ->
    (forall x c y c', In x l -> WF c -> g c x = Ok (y, c') -> WF c' /\ out c' y /\ Rr c c') ->
    forall c ys c', WF c -> smap g c l = Ok (ys, c') -> WF c' /\ Forall (out c') ys /\ Rr c c'.
  Proof.
    intros Hmono. induction l as [|x l IH]; intros Hg c ys c' Hc; unfold smap; fold (smap g).
    - intros [= <- <-]. split; [exact Hc|split; [constructor|apply R_refl]].
    - destruct (g c x) as [[y cy]|e] eqn:E; cbn [bind fst snd]; [|discriminate].
      destruct (smap g cy l) as [[ys' cl]|e] eqn:El; cbn [bind fst snd]; [|discriminate].
      intros [= <- <-].
      destruct (Hg x c y cy (or_introl eq_refl) Hc E) as [Hcy [Hy Ry]].
      destruct (IH (fun x0 c0 y0 c0' H0 => Hg x0 c0 y0 c0' (or_intror H0)) cy ys' cl Hcy El) as [Hcl [Hys Rl]].
      split; [exact Hcl|split; [|eapply R_trans; eassumption]].
      constructor; [eapply Hmono; eassumption|exact Hys].
  Qed.

  Lemma refs_in_arr c xs : Forall (refs_in c) xs -> refs_in c (JArr xs).
  Proof.
    intros H s Hs. inversion Hs as [| | |xs0 x s0 Hin Hx|]; subst. rewrite Forall_forall in H. eapply H; eauto.
  Qed.

  (* mark, print the body, store *)
  Lemma ensure_refs f seen c name tgt body cb :
    (forall c0 r0 y c0', WF c0 -> sch f seen None c0 r0 = Ok (y, c0') -> WF c0' /\ refs_in c0' y) ->
    WF c -> sch f seen None (mark_in_progress c name) tgt = Ok (body, cb) ->
    WF (store_definition cb name body) /\ okn (store_definition cb name body) name.
  Proof.
    intros IH Hc E. destruct (IH _ _ _ _ (WF_mark _ name Hc) E) as [Hcb Hb].
    split; [apply WF_store; assumption|apply okn_store_self].
  Qed.

  Lemma sch_refs : forall f seen desc c r j c', WF c -> sch f seen desc c r = Ok (j, c') -> WF c' /\ refs_in c' j.
  Proof.
    induction f as [|f IH]; intros seen desc c r j c' Hc; [discriminate|].
    assert (IHsub : forall c0 r0 y c0', WF c0 -> sch f seen None c0 r0 = Ok (y, c0') -> WF c0' /\ refs_in c0' y)
      by (intros; eapply IH; eassumption).
    assert (IHs : forall x c0 y c0', WF c0 -> sch f seen None c0 x = Ok (y, c0') -> WF c0' /\ refs_in c0' y /\ Rr c0 c0').
    { intros x c0 y c0' H0 E0. destruct (IHsub _ _ _ _ H0 E0) as [H1 H2]. split; [exact H1|split; [exact H2|eapply schema_R; exact E0]]. }
    assert (Hmono : forall c0 c0' (y : json), Rr c0 c0' -> refs_in c0 y -> refs_in c0' y) by (intros; eapply refs_in_R; eauto).
    destruct r as [t| |d| |k|items d| | |ctor|fs|fs|cs|prefix rest|rs|rs|item|r1 r2|item|ss disc mapping smapping|t|props indexed|name|d t];
      cbn [schema].
    - (* RTypeof *) intros [= <- <-]; split; [exact Hc|]. intros s0 H; apply sref_annotate in H; split_sref H.
    - (* RAny *) intros [= <- <-]; split; [exact Hc|]. intros s0 H; apply sref_annotate in H; split_sref H; kill H.
    - (* RNullish *) intros [= <- <-]; split; [exact Hc|]. intros s0 H; apply sref_annotate in H; split_sref H.
    - (* RNever *) intros [= <- <-]; split; [exact Hc|]. intros s0 H; apply sref_annotate in H; split_sref H.
    - (* RConst *)
      destruct k; intros [= <- <-]; (split; [exact Hc|]); intros s0 H; apply sref_annotate in H; split_sref H.
    - (* RRegex *) intros [= <- <-]; split; [exact Hc|]. intros s0 H; apply sref_annotate in H; split_sref H.
    - (* RDate *) unfold unsupported; intros H; discriminate H.
    - (* RBigInt *) unfold unsupported; intros H; discriminate H.
    - (* RTypedArray *) unfold unsupported; intros H; discriminate H.
    - (* RStringFmt *) intros [= <- <-]; split; [exact Hc|]. intros s0 H; apply sref_annotate in H; split_sref H.
    - (* RNumberFmt *) intros [= <- <-]; split; [exact Hc|]. intros s0 H; apply sref_annotate in H; split_sref H.
    - (* RAnyOfConsts *)
      match goal with |- match ?s with _ => _ end = _ -> _ => destruct s end; intros [= <- <-]; (split; [exact Hc|]);
        intros s0 H; apply sref_annotate in H; split_sref H.
    - (* RTuple *)
      destruct (smap _ c prefix) as [[ps cp]|e] eqn:E; cbn [bind fst snd]; [|discriminate].
      destruct (smap_refs _ refs_in prefix Hmono (fun x c0 y c0' _ => IHs x c0 y c0') _ _ _ Hc E) as [Hcp [Hps Rp]].
      destruct rest as [rr|].
      + destruct (schema env cf Contextual f seen None cp rr) as [[x cx]|e] eqn:Er; cbn [bind fst snd]; [|discriminate].
        intros [= <- <-]. destruct (IHs _ _ _ _ Hcp Er) as [Hcx [Hx Rx]]. split; [exact Hcx|].
        intros s0 H; apply sref_annotate in H; split_sref H.
        * eapply refs_in_arr; [|exact H]. eapply Forall_impl; [|exact Hps]. intros a Ha. eapply refs_in_R; eauto.
        * apply Hx; exact H.
      + cbn [bind fst snd]. intros [= <- <-]. split; [exact Hcp|].
        intros s0 H; apply sref_annotate in H; split_sref H. eapply refs_in_arr; eauto.
    - (* RAllOf *)
      destruct (smap _ c rs) as [[ps cp]|e] eqn:E; cbn [bind fst snd]; [|discriminate].
      destruct (smap_refs _ refs_in rs Hmono (fun x c0 y c0' _ => IHs x c0 y c0') _ _ _ Hc E) as [Hcp [Hps Rp]].
      destruct (try_merge_allof ps) as [merged|] eqn:Em; intros [= <- <-]; (split; [exact Hcp|]);
        intros s0 H; apply sref_annotate in H.
      + destruct (try_merge_refs _ _ _ Em H) as [x [Hx Hs]]. rewrite Forall_forall in Hps. eapply Hps; eauto.
      + split_sref H. eapply refs_in_arr; eauto.
    - (* RAnyOf *)
      destruct (smap _ c rs) as [[ps cp]|e] eqn:E; cbn [bind fst snd]; [|discriminate].
      destruct (smap_refs _ refs_in rs Hmono (fun x c0 y c0' _ => IHs x c0 y c0') _ _ _ Hc E) as [Hcp [Hps Rp]].
      intros [= <- <-]. split; [exact Hcp|]. intros s0 H; apply sref_annotate in H; split_sref H. eapply refs_in_arr; eauto.
    - (* RArray *)
      destruct (schema env cf Contextual f seen None c item) as [[x cx]|e] eqn:E; cbn [bind fst snd]; [|discriminate].
      intros [= <- <-]. destruct (IHs _ _ _ _ Hc E) as [Hcx [Hx _]]. split; [exact Hcx|].
      intros s0 H; apply sref_annotate in H; split_sref H. apply Hx; exact H.
    - (* RMap *) unfold unsupported; intros H; discriminate H.
    - (* RSet *) unfold unsupported; intros H; discriminate H.
    - (* RDisc *)
      destruct (hash32 env f [] (RDisc ss disc mapping smapping)) as [uh|e]; cbn [bind]; [|discriminate].
      destruct (smap _ c (variant_labels smapping)) as [[refs cr]|e] eqn:E; cbn [bind fst snd]; [|discriminate].
      assert (Hsm : WF cr /\ Forall (fun kr : string * string => Pc cr (snd kr)) refs /\ Rr c cr).
      { eapply (smap_refs _ (fun c0 (kr : string * string) => Pc c0 (snd kr))); [| |exact Hc|exact E].
        - intros c0 c0' y HR [n [En Hn]]. exists n. split; [exact En|eapply okn_R; eauto].
        - intros [[key vr] label] c0 y c0' _ Hc0. cbn [fst snd].
          assert (Ens : forall name target c1,
                     (assoc name env = Some target \/ is_synthetic name) ->
                     (if has_definition c0 name || is_in_progress c0 name then Ok c0
                      else do b <- schema env cf Contextual f seen None (mark_in_progress c0 name)
                                      (match assoc name (overrides cf) with Some o => o | None => target end);
                           Ok (store_definition (snd b) name (fst b))) = Ok c1 ->
                     WF c1 /\ okn c1 name /\ Rr c0 c1).
          { intros name target c1 Hsrc.
            destruct (has_definition c0 name) eqn:Hd; cbn [orb].
            { intros [= <-]. split; [exact Hc0|split; [left; exact Hd|apply R_refl]]. }
            destruct (is_in_progress c0 name) eqn:Hi.
            { intros [= <-]. split; [exact Hc0|split; [right; exact Hi|apply R_refl]]. }
            assert (Hsrc' : let tgt := match assoc name (overrides cf) with Some o => o | None => target end in
                            assoc name env = Some tgt \/ assoc name (overrides cf) = Some tgt \/ is_synthetic name).
            { cbv zeta. destruct (assoc name (overrides cf)) as [o|] eqn:O; [right; left; reflexivity|].
              destruct Hsrc as [A|Sy]; [left; exact A|right; right; exact Sy]. }
            cbv zeta in Hsrc'.
            destruct (schema env cf Contextual f seen None (mark_in_progress c0 name) _) as [[b cb]|e] eqn:Eb;
              cbn [bind fst snd]; [|discriminate].
            intros [= <-]. destruct (ensure_refs _ _ _ _ _ _ _ IHsub Hc0 Eb) as [H1 H2]. split; [exact H1|split; [exact H2|]].
            eapply store_step; eauto. eapply schema_R; exact Eb. }
          destruct (is_ref_node vr) as [name|].
          + destruct (assoc name env) as [target|] eqn:A; [|discriminate].
            match goal with |- (do c1 <- ?e; _) = _ -> _ => destruct e as [c1|e'] eqn:Ee end; cbn [bind]; [|discriminate].
            intros [= <- <-]. destruct (Ens _ _ _ (or_introl A) Ee) as [H1 [H2 H3]].
            split; [exact H1|split; [|exact H3]]. cbn [snd]. exists name. split; [reflexivity|exact H2].
          + match goal with |- (do c1 <- ?e; _) = _ -> _ => destruct e as [c1|e'] eqn:Ee end; cbn [bind]; [|discriminate].
            intros [= <- <-].
            assert (Sy : is_synthetic (synthetic_ref_name disc label uh)) by (repeat eexists).
            destruct (Ens _ _ _ (or_intror Sy) Ee) as [H1 [H2 H3]].
            split; [exact H1|split; [|exact H3]]. cbn [snd]. eexists. split; [reflexivity|exact H2]. }
      destruct Hsm as [Hcr [Hrefs _]].
      intros [= <- <-]. split; [exact Hcr|]. intros s0 H; apply sref_annotate in H.
      apply sref_disc_schema in H. destruct H as [kr [Hkr ->]]. rewrite Forall_forall in Hrefs. apply Hrefs. exact Hkr.
    - (* ROptional *)
      destruct (schema env cf Contextual f seen None c t) as [[x cx]|e] eqn:E; cbn [bind fst snd]; [|discriminate].
      intros [= <- <-]. destruct (IHs _ _ _ _ Hc E) as [Hcx [Hx _]]. split; [exact Hcx|].
      intros s0 H. split_sref H.
      inversion H as [| | |xs y s1 Hin Hy|]; subst. destruct Hin as [<-|[<-|[]]]; [apply Hx; exact Hy|split_sref Hy].
    - (* RObject *)
      destruct (smap _ c props) as [[ps cp]|e] eqn:E; cbn [bind fst snd]; [|discriminate].
      assert (Hp : WF cp /\ Forall (fun y : string * json * bool => refs_in cp (snd (fst y))) ps /\ Rr c cp).
      { eapply (smap_refs _ (fun c0 (y : string * json * bool) => refs_in c0 (snd (fst y)))); [| |exact Hc|exact E].
        - intros c0 c0' y HR Hy. eapply refs_in_R; eauto.
        - intros [k0 p0] c0 y c0' _ Hc0. cbn [fst snd].
          destruct (schema env cf Contextual f seen None c0 p0) as [[raw craw]|e] eqn:Er; cbn [bind fst snd]; [|discriminate].
          destruct (IHs _ _ _ _ Hc0 Er) as [H1 [H2 H3]].
          destruct (remove_null_union_branch 50 raw) as [rw|] eqn:En; intros [= <- <-]; (split; [exact H1|split; [|exact H3]]); cbn [fst snd].
          + intros s0 Hs. apply H2. eapply remove_null_refs; eauto.
          + exact H2. }
      destruct Hp as [Hcp [Hps Rp]].
      destruct (smap _ cp indexed) as [[qs cq]|e] eqn:Eq; cbn [bind fst snd]; [|discriminate].
      assert (Hq : WF cq /\ Forall (refs_in cq) qs /\ Rr cp cq).
      { eapply (smap_refs _ refs_in); [exact Hmono| |exact Hcp|exact Eq].
        intros [kr vr] c0 y c0' _ Hc0. cbn [fst snd].
        destruct (schema env cf Contextual f seen None c0 kr) as [[ks cks]|e] eqn:Ek; cbn [bind fst snd]; [|discriminate].
        destruct (schema env cf Contextual f seen None cks vr) as [[vs cvs]|e] eqn:Ev; cbn [bind fst snd]; [|discriminate].
        intros [= <- <-]. destruct (IHs _ _ _ _ Hc0 Ek) as [H1 [H2 H3]]. destruct (IHs _ _ _ _ H1 Ev) as [H4 [H5 H6]].
        split; [exact H4|split; [|eapply R_trans; eassumption]].
        intros s0 H. split_sref H; [apply H5; exact H|]. eapply refs_in_R; [exact H6|exact H2|exact H]. }
      destruct Hq as [Hcq [Hqs Rq]].
      set (properties := fold_left (fun acc (x : string * json * bool) => jobj_set (fst (fst x)) (snd (fst x)) acc) ps []).
      set (required := map (fun x : string * json * bool => JStr (fst (fst x))) (filter (fun x => negb (snd x)) ps)).
      set (base := [("type", JStr "object"); ("properties", JObj properties)]
                   ++ match required with [] => [] | _ => [("required", JArr required)] end).
      assert (Hprops : forall k v s0, In (k, v) properties -> sref v s0 -> Pc cq s0).
      { intros k v s0 Hin Hv. unfold properties in Hin.
        apply (fold_jobj_set_entries (fun x : string * json * bool => fst (fst x)) (fun x => snd (fst x))) in Hin.
        destruct Hin as [[]|[x [Hx E0]]]. injection E0 as -> ->.
        rewrite Forall_forall in Hps. eapply refs_in_R; [exact Rq|apply Hps; exact Hx|exact Hv]. }
      assert (Hbase : forall tail, (forall s0, ~ sref (JObj tail) s0) -> refs_in cq (JObj (base ++ tail))).
      { intros tail Ht s0 H. apply sref_app in H. destruct H as [H|H]; [|exfalso; eapply Ht; eauto].
        unfold base in H. apply sref_app in H. destruct H as [H|H].
        - apply sref_cons in H. destruct H as [[E0 _]|[[_ H]|[[E0 _]|[[E0 _]|H]]]]; try discriminate; [inversion H|].
          apply sref_cons in H. destruct H as [[E0 _]|[[E0 _]|[[_ [pp [k' [v' [E0 [Hin Hv]]]]]]|[[E0 _]|H]]]]; try discriminate.
          + congruence.
          + injection E0 as <-. eapply Hprops; eauto.
          + exfalso; eapply sref_nil; eauto.
        - assert (Hreq : forall s1, ~ sref (JArr required) s1).
          { intros s1. unfold required. apply no_sref_strs. intros y; eexists; reflexivity. }
          destruct required as [|r0 req']; [exfalso; eapply sref_nil; eauto|].
          apply sref_cons in H. destruct H as [[E0 _]|[[_ H]|[[E0 _]|[[E0 _]|H]]]]; try discriminate; [|exfalso; eapply sref_nil; eauto].
          exfalso. eapply Hreq; eauto. }
      assert (Hallof : refs_in cq (JObj [("allOf", JArr (JObj base :: qs))])).
      { intros s0 H. split_sref H. inversion H as [| | |xs y s1 Hin Hy|]; subst. destruct Hin as [<-|Hin].
        - rewrite <- (app_nil_r base) in Hy. eapply Hbase; [|exact Hy]. intros s2 X; eapply sref_nil; eauto.
        - rewrite Forall_forall in Hqs. eapply Hqs; eauto. }
      destruct qs as [|one [|two qs']].
      + intros [= <- <-]. split; [exact Hcq|]. intros s0 H; apply sref_annotate in H. eapply Hbase; [|exact H].
        intros s1 X. split_sref X.
      + destruct properties as [|pe properties'] eqn:Epr; [|intros [= <- <-]; split; [exact Hcq|];
                                                            intros s0 H; apply sref_annotate in H; apply Hallof; exact H].
        destruct indexed as [|[kr vr] [|ix2 indexed']];
          try (intros [= <- <-]; split; [exact Hcq|]; intros s0 H; apply sref_annotate in H; apply Hallof; exact H).
        assert (Hone : refs_in cq one) by (inversion Hqs; assumption).
        destruct (strip_meta_top vr); intros [= <- <-]; (split; [exact Hcq|]); intros s0 H; apply sref_annotate in H;
          try (apply Hone; exact H); try (split_sref H; fail).
        destruct one as [| | | | |ofs]; try (apply Hone; exact H).
        apply sref_assoc_set_inert in H; try discriminate; [apply Hone; exact H|]. intros s' X; inversion X.
      + intros [= <- <-]. split; [exact Hcq|]. intros s0 H; apply sref_annotate in H; apply Hallof; exact H.
    - (* RRef *)
      destruct (assoc name env) as [target|] eqn:A; [|discriminate].
      assert (Hgoal : forall c1, WF c1 -> okn c1 name ->
                                 WF c1 /\ refs_in c1 (annotate desc (JObj [("$ref", JStr (get_ref cf name))]))).
      { intros c1 H1 H2. split; [exact H1|]. intros s0 H; apply sref_annotate in H.
        apply sref_cons in H. destruct H as [[_ E0]|[[_ H]|[[E0 _]|[[E0 _]|H]]]]; try discriminate.
        - injection E0 as <-. exists name. split; [reflexivity|exact H2].
        - inversion H.
        - exfalso; eapply sref_nil; eauto. }
      destruct (has_definition c name) eqn:Hd; cbn [negb andb bind].
      { intros [= <- <-]. apply Hgoal; [exact Hc|left; exact Hd]. }
      destruct (is_in_progress c name) eqn:Hi; cbn [negb bind].
      { intros [= <- <-]. apply Hgoal; [exact Hc|right; exact Hi]. }
      match goal with |- (do c1 <- (do b <- ?e; _); _) = _ -> _ => destruct e as [[b cb]|e'] eqn:Eb end;
        cbn [bind fst snd]; [|discriminate].
      intros [= <- <-]. destruct (ensure_refs _ _ _ _ _ _ _ IHsub Hc Eb) as [H1 H2]. apply Hgoal; assumption.
    - (* RMeta *)
      intros H. eapply IH; eassumption.
  Qed.

  (* ---------- histories of successful top-level prints into one context ---------- *)
  Inductive reach : pctx -> list json -> Prop :=
  | reach_nil : reach empty_ctx []
  | reach_step c outs f seen desc r j c' :
      reach c outs -> sch f seen desc c r = Ok (j, c') -> reach c' (outs ++ [j]).

  (* the reference names a definition of the final export *)
  Definition resolves (c : pctx) (s : string) : Prop :=
    exists n b, s = get_ref cf n /\ assoc n (collected c) = Some b.

  Lemma reach_inv c outs : reach c outs -> in_progress c = [] /\ WF c /\ Forall (refs_in c) outs.
  Proof.
    induction 1 as [|c outs f seen desc r j c' Hr [Hip [Hwf Houts]] E].
    - split; [reflexivity|split; [intros n b H; discriminate H|constructor]].
    - destruct (sch_refs _ _ _ _ _ _ _ Hwf E) as [Hwf' Hj]. pose proof (schema_R _ _ _ _ _ _ _ _ _ E) as HR.
      split; [destruct HR as [I _ _ _]; congruence|split; [exact Hwf'|]].
      apply Forall_app. split; [|constructor; [exact Hj|constructor]].
      eapply Forall_impl; [|exact Houts]. intros a Ha. eapply refs_in_R; eauto.
  Qed.

  Theorem every_ref_resolves c outs :
    reach c outs ->
    in_progress c = [] /\
    (forall j s, In j outs -> sref j s -> resolves c s) /\
    (forall n b s, assoc n (collected c) = Some b -> sref b s -> resolves c s).
  Proof.
    intros Hr. destruct (reach_inv _ _ Hr) as [Hip [Hwf Houts]].
    assert (Hres : forall s, Pc c s -> resolves c s).
    { intros s [n [E [H|H]]].
      - unfold has_definition in H. apply mem_keys_assoc in H. destruct H as [b H]. exists n, b. auto.
      - unfold is_in_progress in H. rewrite Hip in H. discriminate H. }
    split; [exact Hip|split].
    - intros j s Hj Hs. apply Hres. rewrite Forall_forall in Houts. eapply Houts; eauto.
    - intros n b s Hn Hs. apply Hres. eapply Hwf; eauto.
  Qed.
End Refs.
