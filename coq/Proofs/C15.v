(* Proofs/C15.v — invariants of describe(): the active set is restored, aliases are declared at most once. *)
From Beff Require Import Model.Describe Proofs.ResLemmas.

Lemma mem_str_In k l : mem_str k l = true <-> In k l.
Proof.
  induction l as [|x l IH]; cbn; [split; [discriminate|tauto]|].
  destruct (String.eqb k x) eqn:E; cbn.
  - apply String.eqb_eq in E. subst. tauto.
  - rewrite IH. apply String.eqb_neq in E. split; [tauto|]. intros [H|H]; [congruence|exact H].
Qed.

Lemma keys_assoc_set_in {A} k (v : A) l : In k (keys l) -> keys (assoc_set k v l) = keys l.
Proof.
  unfold keys. induction l as [|[k' v'] l IH]; cbn; [tauto|].
  destruct (String.eqb k k') eqn:E; cbn.
  - apply String.eqb_eq in E. subst. reflexivity.
  - intros [H|H]; [apply String.eqb_neq in E; congruence|]. rewrite IH; auto.
Qed.
Lemma keys_assoc_set_notin {A} k (v : A) l : ~ In k (keys l) -> keys (assoc_set k v l) = keys l ++ [k].
Proof.
  unfold keys. induction l as [|[k' v'] l IH]; cbn; [reflexivity|].
  intros H. destruct (String.eqb k k') eqn:E; cbn.
  - apply String.eqb_eq in E. subst. tauto.
  - rewrite IH; tauto.
Qed.
Lemma NoDup_snoc {A} (l : list A) x : NoDup l -> ~ In x l -> NoDup (l ++ [x]).
Proof.
  induction l as [|y l IH]; cbn; intros Hn Hx.
  - constructor; [tauto|constructor].
  - inversion Hn; subst. constructor.
    + rewrite in_app_iff. cbn. intros [H|[H|[]]]; [tauto|subst; tauto].
    + apply IH; tauto.
Qed.
Lemma assoc_set_nodup {A} k (v : A) l : NoDup (keys l) -> NoDup (keys (assoc_set k v l)).
Proof.
  intros H. destruct (in_dec string_dec k (keys l)) as [Hi|Hi].
  - rewrite keys_assoc_set_in; auto.
  - rewrite keys_assoc_set_notin; auto. apply NoDup_snoc; auto.
Qed.
Lemma assoc_set_incl {A} k (v : A) l : incl (keys l) (keys (assoc_set k v l)).
Proof.
  destruct (in_dec string_dec k (keys l)) as [Hi|Hi].
  - rewrite keys_assoc_set_in; auto. apply incl_refl.
  - rewrite keys_assoc_set_notin; auto. apply incl_appl, incl_refl.
Qed.
Lemma assoc_set_key_in {A} k (v : A) l : In k (keys (assoc_set k v l)).
Proof.
  unfold keys. induction l as [|[k' v'] l IH]; cbn; [tauto|].
  destruct (String.eqb k k') eqn:E; cbn; tauto.
Qed.
Lemma filter_neq_notin k l : ~ In k l -> filter (fun n => negb (String.eqb n k)) l = l.
Proof.
  induction l as [|x l IH]; cbn; [reflexivity|]. intros H.
  destruct (String.eqb x k) eqn:E; cbn.
  - apply String.eqb_eq in E. subst. tauto.
  - rewrite IH; tauto.
Qed.

(* the relation every describe call establishes between the state before and after *)
Definition step_ok (st st' : dst) : Prop :=
  snd st' = snd st /\ (NoDup (keys (fst st)) -> NoDup (keys (fst st'))) /\ incl (keys (fst st)) (keys (fst st')).
Lemma step_refl st : step_ok st st.
Proof. repeat split; auto. apply incl_refl. Qed.
Lemma step_trans a b c : step_ok a b -> step_ok b c -> step_ok a c.
Proof. intros (A1 & A2 & A3) (B1 & B2 & B3). repeat split; [congruence|auto|eapply incl_tran; eauto]. Qed.

Lemma map_st_step {A B} (f : dst -> A -> res (B * dst)) l :
  (forall st x r, In x l -> f st x = Ok r -> step_ok st (snd r)) ->
  forall st r, map_st f l st = Ok r -> step_ok st (snd r).
Proof.
  induction l as [|x l IH]; cbn; intros Hf st r H.
  - inversion H; subst. apply step_refl.
  - destruct (f st x) as [a|e] eqn:Ea; cbn in H; [|discriminate].
    destruct (map_st f l (snd a)) as [b|e] eqn:Eb; cbn in H; [|discriminate].
    inversion H; subst; cbn.
    eapply step_trans; [eapply Hf; eauto|]. eapply IH; eauto.
Qed.

Section Inv.
  Variable env : renv.

  Ltac bind_inv_as H p E :=
    match type of H with
    | bind ?x _ = Ok _ => destruct x as [p|] eqn:E; cbn [bind] in H; [|discriminate H]
    end.
  Ltac bind_inv H := let p := fresh "p" in let E := fresh "E" in bind_inv_as H p E.

  Lemma describe_step fuel : forall counts md st r res,
      describe env fuel counts md st r = Ok res -> step_ok st (snd res).
  Proof.
    induction fuel as [|f IH]; intros counts md st r res H; [discriminate H|].
    assert (Hexpr : forall st r' q, (do p <- describe env f counts None st r'; Ok (fst (fst p), snd p)) = Ok q -> step_ok st (snd q)).
    { intros st0 r' q Hq. bind_inv Hq. inversion Hq; subst; cbn. eapply IH; eauto. }
    assert (Hexprs : forall l st q,
               map_st (fun st r' => do p <- describe env f counts None st r'; Ok (fst (fst p), snd p)) l st = Ok q -> step_ok st (snd q)).
    { intros l st0 q Hq. eapply map_st_step; [|exact Hq]. intros st1 x r0 _ Hq0. cbn beta in Hq0. eapply Hexpr; exact Hq0. }
    destruct r; cbn [describe] in H;
      try (inversion H; subst; cbn; apply step_refl).
    - (* Tuple *)
      bind_inv_as H p E. bind_inv_as H p0 E0. inversion H; subst; cbn.
      eapply step_trans; [eapply Hexprs; eauto|].
      destruct rest as [x|].
      + bind_inv E0. inversion E0; subst; cbn. eapply Hexpr; eauto.
      + inversion E0; subst; cbn. apply step_refl.
    - bind_inv H. inversion H; subst; cbn. eapply Hexprs; eauto.
    - bind_inv H. inversion H; subst; cbn. eapply Hexprs; eauto.
    - bind_inv H. inversion H; subst; cbn. eapply Hexpr; eauto.
    - bind_inv H. bind_inv H. inversion H; subst; cbn. eapply step_trans; eapply Hexpr; eauto.
    - bind_inv H. inversion H; subst; cbn. eapply Hexpr; eauto.
    - bind_inv H. inversion H; subst; cbn. eapply Hexprs; eauto.
    - eapply IH; eauto.
    - (* Object *)
      assert (Hmember : forall st key value q,
                 (do d <- describe env f counts None st value;
                  Ok ((snd (fst d), key +++ (if is_optional value then "?" else "") +++ ": " +++ fst (fst d)), snd d)) = Ok q ->
                 step_ok st (snd q)).
      { intros st0 key value q Hq. bind_inv Hq. inversion Hq; subst; cbn. eapply IH; eauto. }
      bind_inv_as H p E. bind_inv_as H p0 E0.
      assert (S1 : step_ok st (snd p)).
      { eapply map_st_step; [|exact E]. intros st0 k q _ Hq. cbn beta in Hq. destruct (assoc k props); [|discriminate Hq]. eapply Hmember; eauto. }
      assert (S2 : step_ok (snd p) (snd p0)).
      { eapply map_st_step; [|exact E0]. intros st0 kv q _ Hq. cbn beta in Hq. bind_inv Hq.
        eapply step_trans; [eapply Hexpr; eauto|]. eapply Hmember; eauto. }
      assert (S : step_ok st (snd p0)) by (eapply step_trans; eauto).
      destruct (existsb _ _); [destruct (fst p ++ fst p0)|]; inversion H; subst; cbn; exact S.
    - (* Ref *)
      destruct (assoc name env) as [target|]; [|discriminate H].
      destruct (Nat.ltb 1 (count_of name counts)).
      + destruct (mem_str name (snd st)) eqn:Em; [inversion H; subst; cbn; apply step_refl|].
        destruct (assoc name (fst st)); [inversion H; subst; cbn; apply step_refl|].
        bind_inv_as H p E. inversion H; subst; cbn.
        apply IH in E. destruct E as (E1 & E2 & E3). cbn in E1, E2, E3.
        unfold step_ok; cbn. split; [|split].
        * rewrite E1. cbn. rewrite String.eqb_refl. cbn. apply filter_neq_notin.
          intros Hin. apply mem_str_In in Hin. congruence.
        * intros Hn. apply assoc_set_nodup. auto.
        * eapply incl_tran; [exact E3|apply assoc_set_incl].
      + bind_inv_as H p E. apply IH in E. destruct md; inversion H; subst; cbn; exact E.
    - eapply IH; eauto.
  Qed.
End Inv.

(* describe_children lists every immediate component describe() descends into *)
Lemma describe_children_complete r c :
  match r with
  | RTuple prefix rest => In c prefix \/ rest = Some c
  | RAllOf rs | RAnyOf rs => In c rs
  | RDisc ss _ _ _ => In c ss
  | RArray t | RSet t | ROptional t => c = t
  | RMap k v => c = k \/ c = v
  | RObject props indexed => In c (map snd props) \/ (exists kv, In kv indexed /\ (c = fst kv \/ c = snd kv))
  | _ => False
  end -> In c (describe_children r).
Proof.
  destruct r; cbn; try tauto; try (intros H; subst; tauto).
  - intros [H|H]; apply in_or_app; [tauto|right; subst; cbn; tauto].
  - intros [H|H]; subst; tauto.
  - intros [H|(kv & Hin & H)]; apply in_or_app; [tauto|right].
    apply in_concat. exists [fst kv; snd kv]. split; [apply in_map_iff; exists kv; tauto|cbn; destruct H; subst; tauto].
Qed.
