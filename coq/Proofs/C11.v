(* Proofs/C11.v — strict mode = default mode && "no undeclared key", outside the known call site. *)
From Beff Require Import Model.StrictSpec Proofs.ResLemmas.

Section C11.
  Variable F : formats.
  Variable env : renv.

  Notation strict f := (validate F env f true).
  Notation lax f := (validate F env f false).

  Ltac same := let H := fresh in let l := fresh in let Hl := fresh in intros H l Hl; congruence.

  (* ------------------------------------------------------------------ monotonicity *)
  Lemma strict_below_lax : forall f r v, below (strict f r) (lax f r) v.
  Proof.
    induction f as [|f IH]; intros r v; unfold below; [cbn; discriminate|].
    destruct r as [t| |d| |c|items d| | |ctor|fs|fs|cs|prefix rest|rs|rs|item|r1 r2|item|ss disc mapping smap|t|props indexed|name|d t];
      cbn [validate]; try same.
    - (* RTuple *)
      destruct v; try same.
      destruct (prefix_res (strict f) VUndef xs prefix 0) as [[|]|e] eqn:Ps; cbn [bind negb]; try discriminate.
      destruct (prefix_res (lax f) VUndef xs prefix 0) as [[|]|e'] eqn:Pl; cbn [bind negb]; try discriminate.
      + destruct rest; [|same].
        intros H l Hl. refine (forall_res_below _ _ _ _ H l Hl). intros; apply IH.
      + exfalso. assert (false = true); [|discriminate].
        refine (prefix_res_below (strict f) (lax f) _ _ _ _ _ Ps _ Pl). intros; apply IH.
    - (* RAllOf *)
      intros H l Hl. refine (forall_res_below _ _ _ _ H l Hl).
      intros m _. unfold below. destruct (is_object_type v); cbn [negb]; [apply IH|discriminate].
    - (* RAnyOf *)
      intros H l Hl. refine (exists_res_below _ _ _ _ H l Hl). intros; apply IH.
    - (* RArray *)
      destruct v; try same. intros H l Hl. refine (forall_res_below _ _ _ _ H l Hl). intros; apply IH.
    - (* RMap *)
      destruct v; try same. intros H l Hl. refine (forall_res_below _ _ _ _ H l Hl).
      intros [a b] _. unfold below. cbn [fst snd].
      destruct (strict f r1 a) as [[|]|e] eqn:S1; cbn [bind negb]; try discriminate.
      destruct (lax f r1 a) as [[|]|e'] eqn:L1; cbn [bind negb]; try discriminate.
      + apply IH.
      + intros _ l0 [= <-]. eapply (IH r1 a); eauto.
    - (* RSet *)
      destruct v; try same. intros H l Hl. refine (forall_res_below _ _ _ _ H l Hl). intros; apply IH.
    - (* RDisc *)
      destruct (negb (is_object_type v) || is_nullish v); [same|].
      destruct (is_nullish (get v disc)); [same|].
      destruct (to_key (get v disc)) as [key|e]; cbn [bind]; [|discriminate].
      destruct (lookup_plain mapping key) as [m| | |]; try same. apply IH.
    - (* ROptional *)
      destruct (is_nullish v); [same|apply IH].
    - (* RObject *)
      destruct (is_object_type v && negb (is_array v) && negb match v with VNull => true | _ => false end); [|same].
      destruct (forall_res (fun kp => strict f (snd kp) (get v (fst kp))) props) as [[|]|e] eqn:Ps;
        cbn [bind negb]; try discriminate.
      destruct (forall_res (fun kp => lax f (snd kp) (get v (fst kp))) props) as [[|]|e'] eqn:Pl;
        cbn [bind negb]; try discriminate.
      + destruct indexed as [|ix indexed']; [intros _ l [= <-]; reflexivity|].
        intros H l Hl. refine (forall_res_below _ _ _ _ H l Hl).
        intros k _. unfold below. intros H1 l1 Hl1. refine (exists_res_below _ _ _ _ H1 l1 Hl1).
        intros [kr vr] _. unfold below. cbn [fst snd].
        destruct (strict f kr (VStr k)) as [[|]|e] eqn:S1; cbn [bind negb]; try discriminate.
        destruct (lax f kr (VStr k)) as [[|]|e'] eqn:L1; cbn [bind negb]; try discriminate.
        * apply IH.
        * intros _ l0 [= <-]. eapply (IH kr (VStr k)); eauto.
      + exfalso. assert (false = true); [|discriminate].
        refine (forall_res_below _ _ _ _ Ps _ Pl). intros; apply IH.
    - (* RRef *)
      destruct (assoc name env); [apply IH|same].
    - (* RMeta *) apply IH.
  Qed.

  Corollary lax_false_strict_false f r v s :
    lax f r v = Ok false -> strict f r v = Ok s -> s = false.
  Proof.
    intros Hl Hs. destruct s; [|reflexivity].
    symmetry. eapply strict_below_lax; eauto.
  Qed.

  (* ------------------------------------------------------------------ agreement outside the known class *)
  Hypothesis Henv : c11_plain_env env = true.
  Notation ne f := (no_extra F env f []).

  Lemma env_plain name t : assoc name env = Some t -> c11_plain t = true.
  Proof.
    intros H. apply assoc_In in H. unfold c11_plain_env in Henv.
    rewrite forallb_forall in Henv. apply (Henv _ H).
  Qed.

  Lemma no_allowed_extra (extra : list string) :
    forallb (fun k => mem_str k []) extra = match extra with [] => true | _ => false end.
  Proof. destruct extra; reflexivity. Qed.

  Ltac leaf := let Hs := fresh in let Hl := fresh in let n := fresh in
               intros _ Hs Hl n [= <-]; congruence.
  Ltac contra := intros; match goal with
    | H : Ok false = Ok true |- _ => discriminate H
    | H : Throw _ = Ok _ |- _ => discriminate H end.

  Definition sspec f r' v' : res bool :=
    do l <- lax f r' v'; if negb l then Ok false else ne f r' v'.

  Lemma strict_agrees : forall f r v s,
      c11_plain r = true -> strict f r v = Ok s -> lax f r v = Ok true ->
      forall n, ne f r v = Ok n -> s = n.
  Proof.
    induction f as [|f IH]; intros r v s; [cbn; discriminate|].
    assert (SS : forall r' v' s1 m1, c11_plain r' = true ->
                   strict f r' v' = Ok s1 -> sspec f r' v' = Ok m1 -> s1 = m1).
    { intros r' v' s1 m1 Hp Hs. unfold sspec.
      destruct (lax f r' v') as [[|]|e] eqn:L; cbn [bind negb]; try discriminate.
      - intros Hn. eapply IH; eauto.
      - intros [= <-]. eapply lax_false_strict_false; eauto. }
    destruct r as [t| |d| |c|items d| | |ctor|fs|fs|cs|prefix rest|rs|rs|item|r1 r2|item|ss disc mapping smap|t|props indexed|name|d t];
      cbn [validate no_extra c11_plain]; try leaf.
    - (* RTuple *)
      intros Hp. apply andb_prop in Hp as [Hpre Hrest]. rewrite forallb_forall in Hpre.
      destruct v as [ | |b0|n0|s0|z0| | |ms0| |xs|fs0|kvs|xs|k0 xs]; try contra.
      destruct (prefix_res (strict f) VUndef xs prefix 0) as [ps|e] eqn:Ps; cbn [bind]; [|discriminate].
      destruct (prefix_res (lax f) VUndef xs prefix 0) as [[|]|e] eqn:Pl; cbn [bind negb]; try discriminate.
      destruct (prefix_res (ne f) VUndef xs prefix 0) as [pn|e] eqn:Pn; cbn [bind];
        [|intros _ _ n Hn; discriminate Hn].
      assert (ps = pn).
      { refine (prefix_res_agree (strict f) (lax f) (ne f) _ _ _ _ _ _ Ps Pl _ Pn).
        intros a b Ha. unfold agree. intros. eapply IH; eauto. }
      subst pn. destruct ps; cbn [negb]; [|congruence].
      destruct rest as [rr|].
      + intros Hs Hl n Hn. refine (forall_res_agree _ _ _ _ _ _ Hs Hl _ Hn).
        intros x _. unfold agree. intros. eapply IH; eauto.
      + intros Hs Hl n [= <-]. congruence.
    - (* RAllOf *)
      intros Hp. apply andb_prop in Hp as [Hlen Hall].
      destruct rs as [|m [|m' rs']]; [| |cbn in Hlen; discriminate].
      + cbn. congruence.
      + cbn in Hall. rewrite andb_true_r in Hall.
        cbn [forall_res allof_res app map_res bind List.concat].
        destruct (is_object_type v); cbn [negb]; [|intros _ Hl; discriminate Hl].
        destruct (strict f m v) as [sm|e] eqn:Sm; [|discriminate].
        destruct (lax f m v) as [[|]|e] eqn:Lm; try discriminate.
        destruct (ne f m v) as [nm|e] eqn:Nm; [|intros _ _ n Hn; discriminate Hn].
        assert (sm = nm) by (eapply IH; eauto). subst nm.
        destruct sm; cbn; congruence.
    - (* RAnyOf *)
      intros Hp Hs Hl n Hn. rewrite forallb_forall in Hp.
      refine (exists_res_same _ _ _ _ _ _ Hs Hn).
      intros m Hm s1 m1 H1 H2. eapply SS; eauto.
    - (* RArray *)
      intros Hp. destruct v as [ | |b0|n0|s0|z0| | |ms0| |xs|fs0|kvs|xs|k0 xs]; try contra.
      intros Hs Hl n Hn. refine (forall_res_agree _ _ _ _ _ _ Hs Hl _ Hn).
      intros x _. unfold agree. intros. eapply IH; eauto.
    - (* RMap *)
      intros Hp. apply andb_prop in Hp as [Hk Hv]. destruct v as [ | |b0|n0|s0|z0| | |ms0| |xs|fs0|kvs|xs|k0 xs]; try contra.
      intros Hs Hl n Hn. refine (forall_res_agree _ _ _ _ _ _ Hs Hl _ Hn).
      intros [a b] _. unfold agree. cbn [fst snd]. intros s0.
      destruct (strict f r1 a) as [sa|e] eqn:S1; cbn [bind]; [|discriminate].
      destruct (lax f r1 a) as [[|]|e] eqn:L1; cbn [bind negb]; try (intros _ Hx; discriminate Hx).
      destruct (ne f r1 a) as [na|e] eqn:N1; cbn [bind]; [|intros _ _ m Hm; discriminate Hm].
      assert (sa = na) by (eapply (IH r1 a); eauto). subst na.
      destruct sa; cbn [negb]; [|congruence].
      intros. eapply (IH r2 b); eauto.
    - (* RSet *)
      intros Hp. destruct v as [ | |b0|n0|s0|z0| | |ms0| |xs|fs0|kvs|xs|k0 xs]; try contra.
      intros Hs Hl n Hn. refine (forall_res_agree _ _ _ _ _ _ Hs Hl _ Hn).
      intros x _. unfold agree. intros. eapply IH; eauto.
    - (* RDisc *)
      intros Hp. apply andb_prop in Hp as [Hp Hsm]. apply andb_prop in Hp as [Hss Hmp].
      destruct (negb (is_object_type v) || is_nullish v); [contra|].
      destruct (is_nullish (get v disc)); [contra|].
      destruct (to_key (get v disc)) as [key|e]; cbn [bind]; [|intros _ Hl; discriminate Hl].
      unfold lookup_plain. destruct key as [k|]; [|contra].
      destruct (assoc k mapping) as [m|] eqn:Am.
      + intros. eapply IH; eauto. rewrite forallb_forall in Hmp.
        apply (Hmp (k, m)). apply assoc_In; assumption.
      + destruct (mem_str k object_proto_functions); [contra|].
        destruct (String.eqb k proto_key); contra.
    - (* ROptional *)
      intros Hp. destruct (is_nullish v); [intros; congruence|]. intros. eapply IH; eauto.
    - (* RObject *)
      intros Hp. apply andb_prop in Hp as [Hprops Hidx]. rewrite forallb_forall in Hprops, Hidx.
      destruct (is_object_type v && negb (is_array v) && negb match v with VNull => true | _ => false end);
        [|contra].
      destruct (forall_res (fun kp => strict f (snd kp) (get v (fst kp))) props) as [ps|e] eqn:Ps;
        cbn [bind]; [|discriminate].
      destruct (forall_res (fun kp => lax f (snd kp) (get v (fst kp))) props) as [[|]|e] eqn:Pl;
        cbn [bind negb]; try (intros Hx Hy; discriminate Hy).
      destruct (forall_res (fun kp => ne f (snd kp) (get v (fst kp))) props) as [pn|e] eqn:Pn;
        cbn [bind]; [|intros _ _ n Hn; discriminate Hn].
      assert (ps = pn).
      { refine (forall_res_agree _ _ _ _ _ _ Ps Pl _ Pn).
        intros kp Hin. unfold agree. intros. eapply IH; eauto. }
      subst pn. destruct ps; cbn [negb]; [|congruence].
      destruct indexed as [|ix indexed'].
      + rewrite no_allowed_extra. congruence.
      + intros Hs _ n Hn. refine (forall_res_same _ _ _ _ _ _ Hs Hn).
        intros k _ s1 m1 H1 H2. refine (exists_res_same _ _ _ _ _ _ H1 H2).
        intros [kr vr] Hin s2 m2. cbn [fst snd].
        specialize (Hidx _ Hin). cbn [fst snd] in Hidx. apply andb_prop in Hidx as [Hkr Hvr].
        fold (sspec f kr (VStr k)). fold (sspec f vr (get v k)).
        destruct (strict f kr (VStr k)) as [sa|e] eqn:S1; cbn [bind]; [|discriminate].
        destruct (sspec f kr (VStr k)) as [na|e] eqn:N1; cbn [bind]; [|intros _ Hm; discriminate Hm].
        assert (sa = na) by (eapply (SS kr (VStr k)); eauto). subst na.
        destruct sa; cbn [negb]; [|congruence].
        intros. eapply (SS vr (get v k)); eauto.
    - (* RRef *)
      intros _. destruct (assoc name env) as [t|] eqn:A; [|contra].
      intros. eapply IH; eauto. eapply env_plain; eauto.
    - (* RMeta *)
      intros. eapply IH; eauto.
  Qed.

  (* the property, for every validator tree outside the known class and every value:
     whenever the three evaluations terminate normally, strict = default && no-undeclared-key *)
  Theorem strict_is_lax_and_no_extra : forall f r v s l,
      c11_plain r = true ->
      strict f r v = Ok s -> lax f r v = Ok l ->
      forall n, (if l then ne f r v else Ok false) = Ok n -> s = l && n.
  Proof.
    intros f r v s l Hp Hs Hl n Hn. destruct l.
    - cbn. eapply strict_agrees; eauto.
    - cbn. eapply lax_false_strict_false; eauto.
  Qed.
End C11.
