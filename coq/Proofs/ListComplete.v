(* ListComplete.v — completeness of list_inhabited / list_formula_is_empty: when the procedure answers "inhabited", some list
   value is in every positive atom and in no negative one.  Element level abstract, as in ListSound.v. *)
From Beff Require Import Model.ListSpec Proofs.ResLemmas Proofs.ListSound.

Section ListLevelC.
  Variable V : Type.
  Variable vm : V -> semtype -> bool.
  Variable good : semtype -> Prop.
  Variable is_empty : semtype -> res bool.
  Hypothesis good_never : good sem_never.
  Hypothesis vm_never : forall v, vm v sem_never = false.
  Hypothesis diff_ok : forall a b d, good a -> good b -> sem_diff a b = Ok d -> good d /\ forall v, vm v d = vm v a && negb (vm v b).
  Hypothesis inter_ok : forall a b d, good a -> good b -> sem_intersect a b = Ok d -> good d /\ forall v, vm v d = vm v a && vm v b.
  Hypothesis empty_complete : forall t, good t -> is_empty t = Ok false -> exists v, vm v t = true.
  Hypothesis good_unknown : good sem_unknown.
  Hypothesis vm_unknown : forall v, vm v sem_unknown = true.

  Local Notation in_shape := (in_shape vm).
  Local Notation Shape := (Shape V vm).
  Local Notation in_atom := (in_atom V vm).
  Local Notation good_atom := (good_atom good).
  Definition Inh (t : semtype) : Prop := exists v, vm v t = true.

  (* ways of not being in an atom *)
  Lemma out_by_position xs q j i x : nth_error xs i = Some x -> vm x (nth i q j) = false -> in_shape xs q j = false.
  Proof.
    intros Hi Hv. destruct (in_shape xs q j) eqn:E; [|reflexivity]. apply (in_shape_iff V vm) in E. destruct E as [_ H].
    rewrite (H i x Hi) in Hv. discriminate.
  Qed.
  Lemma out_by_length xs q j : List.length xs < List.length q -> in_shape xs q j = false.
  Proof.
    intros Hl. destruct (in_shape xs q j) eqn:E; [|reflexivity]. apply (in_shape_iff V vm) in E. destruct E as [H _]. lia.
  Qed.

  (* a witness for a shape whose prefix members are inhabited *)
  Lemma shape_witness prefix items : Forall Inh prefix -> exists xs, Shape xs prefix items /\ List.length xs = List.length prefix.
  Proof.
    induction 1 as [|p prefix [v Hv] _ (xs & Hs & Hl)].
    - exists []. split; [|reflexivity]. split; [cbn; lia|intros i x Hn; destruct i; discriminate].
    - exists (v :: xs). split; [|cbn; lia]. destruct Hs as [Hl' Hs]. split; [cbn; lia|].
      intros i x Hn. destruct i as [|i]; cbn in Hn |- *; [inversion Hn; subst; exact Hv|apply Hs; exact Hn].
  Qed.

  Lemma shape_unpad_closed xs prefix items k :
    Shape xs (prefix ++ repeat items k) sem_never -> Shape xs prefix items /\ List.length xs = List.length prefix + k.
  Proof.
    intros Hs. pose proof (shape_never_length V vm vm_never xs _ Hs) as Hl. rewrite app_length, repeat_length in Hl.
    split; [|exact Hl]. destruct Hs as [_ H]. split; [lia|]. intros i x Hn.
    assert (Hi : i < List.length (prefix ++ repeat items k)) by (rewrite app_length, repeat_length; rewrite <- Hl; apply nth_error_Some; congruence).
    specialize (H i x Hn). rewrite (nth_indep _ sem_never items Hi) in H. rewrite nth_app_repeat in H. exact H.
  Qed.

  (* ---------- the loops ---------- *)
  Lemma tail_loop_true rec items diff : forall n s,
    tail_loop rec s items diff n = Ok true -> exists m, m < n /\ rec ((s ++ repeat items m) ++ [diff]) items = Ok true.
  Proof.
    induction n as [|n IH]; intros s H; cbn [tail_loop] in H; [discriminate|].
    destruct (rec (s ++ [diff]) items) as [[|]|e] eqn:Er; cbn [bind] in H; try discriminate.
    - exists 0. split; [lia|]. cbn [repeat]. rewrite app_nil_r. exact Er.
    - destruct (IH _ H) as (m & Hm & Hr). exists (S m). split; [lia|]. cbn [repeat].
      replace (s ++ items :: repeat items m) with ((s ++ [items]) ++ repeat items m) by (rewrite <- app_assoc; reflexivity). exact Hr.
  Qed.

  Lemma shorter_loop_true rec items : forall n s re,
    shorter_loop is_empty rec s items n = Ok (true, re) ->
    exists k, k < n /\ rec (s ++ repeat items k) sem_never = Ok true /\ (1 <= k -> is_empty items = Ok false).
  Proof.
    induction n as [|n IH]; intros s re H; cbn [shorter_loop] in H; [discriminate|].
    destruct (rec s sem_never) as [[|]|e] eqn:Er; cbn [bind] in H; try discriminate.
    - exists 0. split; [lia|]. split; [cbn [repeat]; rewrite app_nil_r; exact Er|lia].
    - destruct (is_empty items) as [[|]|e] eqn:Ee; cbn [bind] in H; try discriminate.
      destruct (IH _ _ H) as (k & Hk & Hr & _). exists (S k). split; [lia|]. split; [|intros _; reflexivity]. cbn [repeat].
      replace (s ++ items :: repeat items k) with ((s ++ [items]) ++ repeat items k) by (rewrite <- app_assoc; reflexivity). exact Hr.
  Qed.

  Lemma shorter_loop_none rec items : forall n s,
    shorter_loop is_empty rec s items n = Ok (false, false) -> 1 <= n -> is_empty items = Ok false.
  Proof.
    induction n as [|n IH]; intros s H Hn; [lia|]. cbn [shorter_loop] in H.
    destruct (rec s sem_never) as [[|]|e]; cbn [bind] in H; try discriminate.
    destruct (is_empty items) as [[|]|e] eqn:Ee; cbn [bind] in H; try discriminate. reflexivity.
  Qed.

  Lemma Forall_Inh_pad prefix items k : Forall Inh prefix -> (1 <= k -> Inh items) -> Forall Inh (prefix ++ repeat items k).
  Proof.
    intros Hp Hi. apply Forall_app. split; [exact Hp|]. apply Forall_forall. intros z Hz.
    destruct k as [|k]; [contradiction|]. apply repeat_spec in Hz. subst. apply Hi. lia.
  Qed.
  Lemma Forall_good_pad prefix items k : Forall good prefix -> good items -> Forall good (prefix ++ repeat items k).
  Proof.
    intros Hp Hi. apply Forall_app. split; [exact Hp|]. apply Forall_forall. intros z Hz. apply repeat_spec in Hz. subst. exact Hi.
  Qed.

  Section StepC.
    Variable rest : list latom.
    Variable rec : list semtype -> semtype -> res bool.
    Variable K : nat.
    Hypothesis IHrec : forall prefix items, Forall good prefix -> good items -> Forall Inh prefix -> rec prefix items = Ok true ->
      exists xs, Shape xs prefix items /\ forall n, In n rest -> in_atom xs n = false.

    Lemma main_complete nt prefix items :
      good_atom nt -> Forall good prefix -> good items -> Forall Inh prefix -> List.length (la_prefix nt) <= List.length prefix ->
      inhabited_main is_empty nt K rec prefix items = Ok true ->
      exists xs, Shape xs prefix items /\ in_atom xs nt = false /\ forall n, In n rest -> in_atom xs n = false.
    Proof.
      intros [Gnp Gni] Gp Gi Ip Hnl H. unfold inhabited_main in H. set (len := List.length prefix) in *.
      match type of H with (do a <- ?X; _) = _ => destruct X as [[|]|e] eqn:Eex end; cbn [bind] in H; try discriminate.
      - (* an element of the prefix is outside the negative *)
        destruct (exists_res_true_some _ _ Eex) as (i & Hi & Hb). apply in_seq in Hi. cbv beta in Hb.
        assert (Gpi : good (nth i prefix sem_never)) by (apply Forall_nth_default; assumption).
        assert (Gni' : good (nth i (la_prefix nt) (la_items nt))) by (apply Forall_nth_default; assumption).
        destruct (sem_diff (nth i prefix sem_never) (nth i (la_prefix nt) (la_items nt))) as [d|e] eqn:Edi; cbn [bind] in Hb; [|discriminate].
        destruct (diff_ok _ _ _ Gpi Gni' Edi) as [Gd Hd].
        destruct (is_empty d) as [[|]|e] eqn:Ee; cbn [bind] in Hb; try discriminate.
        destruct (IHrec (set_nth i d prefix) items (Forall_set_nth _ _ _ _ Gp Gd) Gi
                        (Forall_set_nth _ _ _ _ Ip (empty_complete d Gd Ee)) Hb) as (xs & [Hl Hs] & Hrest).
        rewrite set_nth_length in Hl. fold len in Hl.
        destruct (nth_error xs i) as [x|] eqn:Ex; [|apply nth_error_None in Ex; lia].
        assert (Hxd : vm x d = true).
        { pose proof (Hs i x Ex) as Hx. rewrite nth_set_nth in Hx. rewrite Nat.eqb_refl in Hx. fold len in Hx.
          destruct (Nat.ltb i len) eqn:El; [exact Hx|apply Nat.ltb_ge in El; lia]. }
        rewrite Hd in Hxd. apply andb_prop in Hxd as [Hxp Hxn]. apply Bool.negb_true_iff in Hxn.
        exists xs. split; [|split; [apply (out_by_position xs _ _ i x Ex Hxn)|exact Hrest]].
        split; [fold len; exact Hl|]. intros j y Hj. pose proof (Hs j y Hj) as Hy. rewrite nth_set_nth in Hy.
        destruct (Nat.eqb j i) eqn:Eji; cbn [andb] in Hy; [|exact Hy]. apply Nat.eqb_eq in Eji. subst j. fold len in Hy.
        destruct (Nat.ltb i len) eqn:El; [|exact Hy]. rewrite Ex in Hj. inversion Hj; subst y.
        rewrite <- (nth_indep prefix sem_never items) by (fold len; lia). exact Hxp.
      - (* an element of the tail is outside the negative's rest type *)
        destruct (sem_diff items (la_items nt)) as [diff|e] eqn:Ed; cbn [bind] in H; [|discriminate].
        destruct (diff_ok _ _ _ Gi Gni Ed) as [Gd Hdm].
        destruct (is_empty diff) as [[|]|e] eqn:Ee; cbn [bind] in H; try discriminate.
        destruct (tail_loop_true rec items diff _ _ H) as (m & _ & Hr).
        destruct (empty_complete diff Gd Ee) as [w Hw].
        assert (Ii : Inh items) by (exists w; rewrite Hdm in Hw; apply andb_prop in Hw as [Hw _]; exact Hw).
        assert (Gs : Forall good ((prefix ++ repeat items m) ++ [diff])).
        { apply Forall_app. split; [apply Forall_good_pad; assumption|constructor; [exact Gd|constructor]]. }
        assert (Is : Forall Inh ((prefix ++ repeat items m) ++ [diff])).
        { apply Forall_app. split; [apply Forall_Inh_pad; [exact Ip|intros _; exact Ii]|constructor; [exists w; exact Hw|constructor]]. }
        destruct (IHrec _ items Gs Gi Is Hr) as (xs & [Hl Hs] & Hrest).
        rewrite !app_length, repeat_length in Hl. cbn [List.length] in Hl. fold len in Hl.
        set (j := len + m) in *.
        destruct (nth_error xs j) as [x|] eqn:Ex; [|apply nth_error_None in Ex; lia].
        assert (Hxd : vm x diff = true).
        { pose proof (Hs j x Ex) as Hx. rewrite app_nth2 in Hx by (rewrite app_length, repeat_length; fold len; lia).
          rewrite app_length, repeat_length in Hx. fold len in Hx. replace (j - (len + m)) with 0 in Hx by lia. exact Hx. }
        rewrite Hdm in Hxd. apply andb_prop in Hxd as [Hxi Hxn]. apply Bool.negb_true_iff in Hxn.
        exists xs. split; [|split; [|exact Hrest]].
        + split; [fold len; lia|]. intros i y Hi. pose proof (Hs i y Hi) as Hy.
          destruct (Nat.lt_trichotomy i j) as [Hij|[Hij|Hij]].
          * rewrite app_nth1 in Hy by (rewrite app_length, repeat_length; fold len; lia). rewrite nth_app_repeat in Hy. exact Hy.
          * subst i. rewrite Ex in Hi. inversion Hi; subst y. rewrite nth_overflow by (fold len; lia). exact Hxi.
          * rewrite nth_overflow in Hy by (rewrite !app_length, repeat_length; cbn [List.length]; fold len; lia).
            rewrite nth_overflow by (fold len; lia). exact Hy.
        + apply (out_by_position xs _ _ j x Ex). rewrite nth_overflow by lia. exact Hxn.
    Qed.

    Lemma step_complete nt prefix items :
      good_atom nt -> Forall good prefix -> good items -> Forall Inh prefix ->
      inhabited_step is_empty nt K rec prefix items = Ok true ->
      exists xs, Shape xs prefix items /\ in_atom xs nt = false /\ forall n, In n rest -> in_atom xs n = false.
    Proof.
      intros Gn Gp Gi Ip H. unfold inhabited_step in H.
      set (len := List.length prefix) in *. set (nl := List.length (la_prefix nt)) in *.
      destruct (Nat.ltb len nl) eqn:E1.
      - apply Nat.ltb_lt in E1. destruct (is_never items) eqn:En.
        + apply (is_never_eq) in En. subst items. destruct (IHrec prefix sem_never Gp Gi Ip H) as (xs & Hs & Hrest).
          exists xs. split; [exact Hs|]. split; [|exact Hrest].
          apply out_by_length. rewrite (shape_never_length V vm vm_never xs prefix Hs). fold len nl. exact E1.
        + match type of H with (do f <- ?X; _) = _ => destruct X as [[[|] re]|e] eqn:Es end; cbn [bind fst snd] in H; try discriminate.
          * destruct (shorter_loop_true rec items _ _ _ Es) as (k & Hk & Hr & Hne).
            assert (Ik : Forall Inh (prefix ++ repeat items k)).
            { apply Forall_Inh_pad; [exact Ip|]. intros H1. apply (empty_complete items Gi (Hne H1)). }
            destruct (IHrec _ sem_never (Forall_good_pad _ _ k Gp Gi) good_never Ik Hr) as (xs & Hs & Hrest).
            destruct (shape_unpad_closed xs prefix items k Hs) as [Hs' Hl]. fold len in Hl.
            exists xs. split; [exact Hs'|]. split; [apply out_by_length; fold nl; lia|exact Hrest].
          * destruct re; [discriminate H|].
            pose proof (shorter_loop_none rec items _ _ Es ltac:(lia)) as Hne.
            assert (Ik : Forall Inh (prefix ++ repeat items (nl - len))).
            { apply Forall_Inh_pad; [exact Ip|]. intros _. apply (empty_complete items Gi Hne). }
            destruct (main_complete nt (prefix ++ repeat items (nl - len)) items Gn (Forall_good_pad _ _ _ Gp Gi) Gi Ik) as (xs & Hs & Hnt & Hrest);
              [rewrite app_length, repeat_length; fold len nl; lia|exact H|].
            exists xs. split; [apply (shape_pad V vm) in Hs; tauto|]. split; assumption.
      - apply Nat.ltb_ge in E1. destruct (Nat.ltb nl len && is_never (la_items nt)) eqn:E2.
        + apply andb_prop in E2 as [E2 En]. apply Nat.ltb_lt in E2. apply is_never_eq in En.
          destruct (IHrec prefix items Gp Gi Ip H) as (xs & [Hl Hs] & Hrest). fold len in Hl.
          exists xs. split; [split; assumption|]. split; [|exact Hrest].
          destruct (nth_error xs nl) as [x|] eqn:Ex; [|apply nth_error_None in Ex; lia].
          apply (out_by_position xs _ _ nl x Ex). rewrite nth_overflow by (fold nl; lia). rewrite En. apply vm_never.
        + apply main_complete; auto.
    Qed.
  End StepC.

  Theorem list_inhabited_complete : forall neg, Forall good_atom neg -> forall prefix items,
    Forall good prefix -> good items -> Forall Inh prefix -> list_inhabited is_empty neg prefix items = Ok true ->
    exists xs, Shape xs prefix items /\ forall n, In n neg -> in_atom xs n = false.
  Proof.
    induction neg as [|nt rest IH]; intros Gneg prefix items Gp Gi Ip H.
    - destruct (shape_witness prefix items Ip) as (xs & Hs & _). exists xs. split; [exact Hs|intros n []].
    - inversion Gneg as [|? ? Gnt Grest]; subst. cbn [list_inhabited] in H.
      destruct (step_complete rest (list_inhabited is_empty rest) (longest_prefix rest) (IH Grest) nt prefix items Gnt Gp Gi Ip H)
        as (xs & Hs & Hnt & Hrest).
      exists xs. split; [exact Hs|]. intros n [<-|Hn]; [exact Hnt|apply Hrest; exact Hn].
  Qed.

  (* ---------- the positive atoms: a member of the meet is a member of every atom ---------- *)
  Lemma meet_positive_complete acc lt acc' : good_pair good acc -> good_atom lt -> meet_positive acc lt = Ok (Some acc') ->
    forall xs, Shape xs (fst acc') (snd acc') -> Shape xs (fst acc) (snd acc) /\ Shape xs (la_prefix lt) (la_items lt).
  Proof.
    destruct acc as [prefix items]. intros [Gp Gi] [Glp Gli] H. cbn [fst snd] in *. unfold meet_positive in H.
    set (len := List.length prefix) in *. set (nl := List.length (la_prefix lt)) in *. set (new_len := Nat.max len nl) in *.
    destruct (Nat.ltb len new_len && is_never items); [discriminate|].
    destruct (Nat.ltb nl new_len && is_never (la_items lt)); [discriminate|].
    set (prefix1 := prefix ++ repeat items (new_len - len)) in *.
    set (other := la_prefix lt ++ repeat (la_items lt) (new_len - nl)) in *.
    destruct (map_res (fun pq => sem_intersect (fst pq) (snd pq)) (combine prefix1 other)) as [prefix2|e] eqn:Em; cbn [bind] in H; [|discriminate].
    destruct (sem_intersect items (la_items lt)) as [items2|e] eqn:Ei; cbn [bind] in H; [|discriminate]. inversion H; subst acc'. clear H.
    cbn [fst snd]. destruct (inter_ok _ _ _ Gi Gli Ei) as [Gi2 Hi2].
    destruct (map_res_combine_nth _ _ _ _ Em) as [Hlen2 Hnth2].
    assert (L1 : List.length prefix1 = new_len) by (unfold prefix1; rewrite app_length, repeat_length; fold len; lia).
    assert (L2 : List.length other = new_len) by (unfold other; rewrite app_length, repeat_length; fold nl; lia).
    assert (G1 : Forall good prefix1) by (apply Forall_good_pad; assumption).
    assert (G2 : Forall good other) by (apply Forall_good_pad; assumption).
    intros xs [Hl Hs]. assert (Hl' : new_len <= List.length xs) by lia.
    assert (Both : forall j y, nth_error xs j = Some y -> vm y (nth j prefix items) = true /\ vm y (nth j (la_prefix lt) (la_items lt)) = true).
    { intros j y Hj. pose proof (Hs j y Hj) as Hy. destruct (Nat.lt_ge_cases j new_len) as [Hlt|Hge].
      - destruct (nth_error prefix1 j) as [a|] eqn:Ea; [|apply nth_error_None in Ea; lia].
        destruct (nth_error other j) as [b|] eqn:Eb; [|apply nth_error_None in Eb; lia].
        destruct (Hnth2 j a b Ea Eb) as (c & Hc & Hf). cbn [fst snd] in Hf.
        assert (Ga : good a) by (eapply Forall_forall; [exact G1|eapply nth_error_In; exact Ea]).
        assert (Gb : good b) by (eapply Forall_forall; [exact G2|eapply nth_error_In; exact Eb]).
        destruct (inter_ok _ _ _ Ga Gb Hf) as [_ Hc2]. rewrite (nth_error_nth _ _ _ Hc), Hc2 in Hy. apply andb_prop in Hy as [Hy1 Hy2].
        rewrite <- (nth_app_repeat prefix items (new_len - len) j), <- (nth_app_repeat (la_prefix lt) (la_items lt) (new_len - nl) j).
        fold prefix1 other. rewrite (nth_error_nth _ _ _ Ea), (nth_error_nth _ _ _ Eb). auto.
      - rewrite nth_overflow in Hy by lia. rewrite Hi2 in Hy. apply andb_prop in Hy as [Hy1 Hy2].
        rewrite (nth_overflow prefix) by (fold len; lia). rewrite (nth_overflow (la_prefix lt)) by (fold nl; lia). auto. }
    split; (split; [fold len nl; lia|]); intros j y Hj; apply (Both j y Hj).
  Qed.

  Lemma meet_all_complete : forall ps acc acc', good_pair good acc -> Forall good_atom ps -> meet_all acc ps = Ok (Some acc') ->
    good_pair good acc' /\
    forall xs, Shape xs (fst acc') (snd acc') -> Shape xs (fst acc) (snd acc) /\ Forall (fun lt => Shape xs (la_prefix lt) (la_items lt)) ps.
  Proof.
    induction ps as [|lt ps IH]; intros acc acc' Ga Gps H; cbn [meet_all] in H.
    - inversion H; subst. split; [exact Ga|]. intros xs Hs. split; [exact Hs|constructor].
    - inversion Gps as [|? ? Glt Gps']; subst.
      destruct (meet_positive acc lt) as [[acc1|]|e] eqn:Em; cbn [bind] in H; try discriminate.
      pose proof (meet_positive_sound V vm good vm_never inter_ok acc lt _ Ga Glt Em) as [Ga1 _].
      destruct (IH acc1 acc' Ga1 Gps' H) as [Ga' R]. split; [exact Ga'|]. intros xs Hs.
      destruct (R xs Hs) as [Hs1 Hall]. destruct (meet_positive_complete acc lt acc1 Ga Glt Em xs Hs1) as [Hs0 Hlt].
      split; [exact Hs0|constructor; assumption].
  Qed.

  Theorem list_formula_is_empty_complete pos neg :
    Forall good_atom pos -> Forall good_atom neg -> list_formula_is_empty is_empty pos neg = Ok false ->
    exists xs, Forall (fun lt => Shape xs (la_prefix lt) (la_items lt)) pos /\ forall n, In n neg -> in_atom xs n = false.
  Proof.
    intros Gpos Gneg H. unfold list_formula_is_empty in H.
    assert (Fin : forall prefix items, Forall good prefix -> good items -> Forall Inh prefix ->
                  (do y <- list_inhabited is_empty neg prefix items; Ok (negb y)) = Ok false ->
                  exists xs, Shape xs prefix items /\ forall n, In n neg -> in_atom xs n = false).
    { intros prefix items Gp Gi Ip Hy. destruct (list_inhabited is_empty neg prefix items) as [[|]|e] eqn:El; cbn [bind negb] in Hy; try discriminate.
      apply (list_inhabited_complete neg Gneg prefix items Gp Gi Ip El). }
    destruct pos as [|lt0 ps].
    - cbn [bind] in H. destruct (Fin [] sem_unknown (Forall_nil _) good_unknown (Forall_nil _) H) as (xs & _ & Hn).
      exists xs. split; [constructor|exact Hn].
    - inversion Gpos as [|? ? G0 Gps]; subst.
      destruct (meet_all (la_prefix lt0, la_items lt0) ps) as [[[prefix items]|]|e] eqn:Em; cbn [bind] in H; try discriminate.
      destruct (meet_all_complete ps (la_prefix lt0, la_items lt0) (prefix, items) G0 Gps Em) as [[Gp Gi] M]. cbn [fst snd] in *.
      destruct (exists_res is_empty prefix) as [[|]|e] eqn:Ee; cbn [bind] in H; try discriminate.
      assert (Ip : Forall Inh prefix).
      { apply Forall_forall. intros p Hp. apply (empty_complete p (proj1 (Forall_forall _ _) Gp p Hp)).
        apply (exists_res_false_all _ _ Ee p Hp). }
      destruct (Fin prefix items Gp Gi Ip H) as (xs & Hs & Hn). destruct (M xs Hs) as [H0 Hall].
      exists xs. split; [constructor; assumption|exact Hn].
  Qed.
End ListLevelC.
