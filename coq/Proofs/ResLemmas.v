(* ResLemmas.v — lemmas about the JS-loop combinators of Base.v, parametric in the element tests. *)
From Beff Require Import Model.Base.

Lemma forall_res_true_inv {A} (p : A -> res bool) xs :
  forall_res p xs = Ok true -> forall x, In x xs -> p x = Ok true.
Proof.
  induction xs as [|y ys IH]; cbn; intros H x Hin; [contradiction|].
  destruct (p y) as [[|]|e] eqn:E; try discriminate.
  destruct Hin as [->|Hin]; auto.
Qed.

(* "p answers true only where q, if it answers at all, answers true" lifts through both loops *)
Definition below {A} (p q : A -> res bool) (x : A) : Prop :=
  p x = Ok true -> forall l, q x = Ok l -> l = true.

Lemma forall_res_below {A} (p q : A -> res bool) xs :
  (forall x, In x xs -> below p q x) ->
  forall_res p xs = Ok true -> forall l, forall_res q xs = Ok l -> l = true.
Proof.
  induction xs as [|y ys IH]; cbn; intros Hb Hp l Hq; [congruence|].
  destruct (p y) as [[|]|e] eqn:Ep; try discriminate.
  destruct (q y) as [[|]|e] eqn:Eq; try discriminate.
  - eapply IH; eauto; intros; apply Hb; auto.
  - assert (false = true) by (eapply (Hb y); eauto). discriminate.
Qed.

Lemma exists_res_below {A} (p q : A -> res bool) xs :
  (forall x, In x xs -> below p q x) ->
  exists_res p xs = Ok true -> forall l, exists_res q xs = Ok l -> l = true.
Proof.
  induction xs as [|y ys IH]; cbn; intros Hb Hp l Hq; [congruence|].
  destruct (q y) as [[|]|e] eqn:Eq; try discriminate; [congruence|].
  destruct (p y) as [[|]|e] eqn:Ep; try discriminate.
  - assert (false = true) by (eapply (Hb y); eauto). discriminate.
  - eapply IH; eauto; intros; apply Hb; auto.
Qed.

Lemma prefix_res_below {A B} (p q : A -> B -> res bool) d xs ps :
  (forall a b, In a ps -> below (p a) (q a) b) ->
  forall idx, prefix_res p d xs ps idx = Ok true ->
  forall l, prefix_res q d xs ps idx = Ok l -> l = true.
Proof.
  induction ps as [|a ps IH]; cbn; intros Hb idx Hp l Hq; [congruence|].
  destruct (p a (nth idx xs d)) as [[|]|e] eqn:Ep; try discriminate.
  destruct (q a (nth idx xs d)) as [[|]|e] eqn:Eq; try discriminate.
  - eapply IH; eauto.
  - assert (false = true) by (eapply (Hb a); eauto). discriminate.
Qed.

(* "wherever r answers true, p and n agree" lifts through the loops.  r is the default-mode test. *)
Definition agree {A} (p r n : A -> res bool) (x : A) : Prop :=
  forall s, p x = Ok s -> r x = Ok true -> forall m, n x = Ok m -> s = m.

Lemma forall_res_agree {A} (p r n : A -> res bool) xs :
  (forall x, In x xs -> agree p r n x) ->
  forall s, forall_res p xs = Ok s -> forall_res r xs = Ok true ->
  forall m, forall_res n xs = Ok m -> s = m.
Proof.
  induction xs as [|y ys IH]; cbn; intros Hb s Hp Hr m Hn; [congruence|].
  destruct (r y) as [[|]|e] eqn:Er; try discriminate.
  destruct (p y) as [sy|e] eqn:Ep; try discriminate.
  destruct (n y) as [ny|e] eqn:En; [|destruct sy; discriminate].
  assert (sy = ny) by (eapply (Hb y); eauto). subst ny.
  destruct sy; [|congruence].
  eapply IH; eauto.
Qed.

Lemma prefix_res_agree {A B} (p r n : A -> B -> res bool) d xs ps :
  (forall a b, In a ps -> agree (p a) (r a) (n a) b) ->
  forall idx s, prefix_res p d xs ps idx = Ok s -> prefix_res r d xs ps idx = Ok true ->
  forall m, prefix_res n d xs ps idx = Ok m -> s = m.
Proof.
  induction ps as [|a ps IH]; cbn; intros Hb idx s Hp Hr m Hn; [congruence|].
  destruct (r a (nth idx xs d)) as [[|]|e] eqn:Er; try discriminate.
  destruct (p a (nth idx xs d)) as [sy|e] eqn:Ep; try discriminate.
  destruct (n a (nth idx xs d)) as [ny|e] eqn:En; [|destruct sy; discriminate].
  assert (sy = ny) by (eapply (Hb a); eauto). subst ny.
  destruct sy; [|congruence].
  eapply IH; eauto.
Qed.

(* for the "some branch" loops the two sides simply compute the same function pointwise *)
Lemma exists_res_same {A} (p n : A -> res bool) xs :
  (forall x, In x xs -> forall s m, p x = Ok s -> n x = Ok m -> s = m) ->
  forall s m, exists_res p xs = Ok s -> exists_res n xs = Ok m -> s = m.
Proof.
  induction xs as [|y ys IH]; cbn; intros Hb s m Hp Hn; [congruence|].
  destruct (p y) as [sy|e] eqn:Ep; [|discriminate].
  destruct (n y) as [ny|e] eqn:En; [|destruct sy; discriminate].
  assert (sy = ny) by (eapply (Hb y); eauto). subst ny.
  destruct sy; [congruence|].
  eapply IH; eauto.
Qed.

Lemma forall_res_same {A} (p n : A -> res bool) xs :
  (forall x, In x xs -> forall s m, p x = Ok s -> n x = Ok m -> s = m) ->
  forall s m, forall_res p xs = Ok s -> forall_res n xs = Ok m -> s = m.
Proof.
  induction xs as [|y ys IH]; cbn; intros Hb s m Hp Hn; [congruence|].
  destruct (p y) as [sy|e] eqn:Ep; [|discriminate].
  destruct (n y) as [ny|e] eqn:En; [|destruct sy; discriminate].
  assert (sy = ny) by (eapply (Hb y); eauto). subst ny.
  destruct sy; [|congruence].
  eapply IH; eauto.
Qed.

Lemma assoc_In {A} k (l : list (string * A)) v : assoc k l = Some v -> In (k, v) l.
Proof.
  induction l as [|[k' v'] l IH]; cbn; [discriminate|].
  destruct (String.eqb k k') eqn:E.
  - apply String.eqb_eq in E. subst. intros [= ->]. auto.
  - auto.
Qed.

(* where a loop throws, some element test threw *)
Lemma forall_res_throw {A} (p : A -> res bool) xs e :
  forall_res p xs = Throw e -> exists x, In x xs /\ p x = Throw e.
Proof.
  induction xs as [|y ys IH]; cbn; [discriminate|].
  destruct (p y) as [[|]|e'] eqn:E; try discriminate.
  - intros H. destruct (IH H) as [x [Hin Hx]]. eauto.
  - intros [= <-]. eauto.
Qed.
Lemma exists_res_throw {A} (p : A -> res bool) xs e :
  exists_res p xs = Throw e -> exists x, In x xs /\ p x = Throw e.
Proof.
  induction xs as [|y ys IH]; cbn; [discriminate|].
  destruct (p y) as [[|]|e'] eqn:E; try discriminate.
  - intros H. destruct (IH H) as [x [Hin Hx]]. eauto.
  - intros [= <-]. eauto.
Qed.
Lemma prefix_res_throw {A B} (p : A -> B -> res bool) d xs ps e :
  forall idx, prefix_res p d xs ps idx = Throw e -> exists a b, In a ps /\ p a b = Throw e.
Proof.
  induction ps as [|a ps IH]; cbn; intros idx; [discriminate|].
  destruct (p a (nth idx xs d)) as [[|]|e'] eqn:E; try discriminate.
  - intros H. destruct (IH _ H) as [a' [b [Hin Hx]]]. eauto.
  - intros [= <-]. eauto.
Qed.
