(* Proofs/C15Term.v — describe() terminates on recursive types.
   The argument: a named type referenced more than once (counts) is printed as an alias and is marked active while its body is printed,
   so each such name is entered at most once along a path; a named type referenced once is printed in place, and the names printed in
   place must not reach themselves through names printed in place only (a rank function on them).  Under that hypothesis on the
   counts — a computation, `term_okb` — no fuel above the stated bound is ever exhausted. *)
From Beff Require Import Model.Describe Proofs.ResLemmas Proofs.C15.
From Coq Require Import Lia.

(* ---------- height ---------- *)
Fixpoint ht (r : rt) : nat :=
  S (match r with
     | RTuple prefix rest => Nat.max (list_max (map ht prefix)) (match rest with Some x => ht x | None => 0 end)
     | RAllOf rs | RAnyOf rs => list_max (map ht rs)
     | RDisc ss _ _ _ => list_max (map ht ss)
     | RArray t | RSet t | ROptional t | RMeta _ t => ht t
     | RMap k v => Nat.max (ht k) (ht v)
     | RObject props indexed =>
         Nat.max (list_max (map (fun kv => ht (snd kv)) props)) (list_max (map (fun kv => Nat.max (ht (fst kv)) (ht (snd kv))) indexed))
     | _ => 0
     end).

Lemma list_max_in_gen {A} (f : A -> nat) l x : In x l -> f x <= list_max (map f l).
Proof.
  induction l as [|y l IH]; [intros []|].
  change (list_max (map f (y :: l))) with (Nat.max (f y) (list_max (map f l))).
  intros [->|Hin]; [lia|]. specialize (IH Hin). lia.
Qed.
Lemma list_max_in (f : rt -> nat) l x : In x l -> f x <= list_max (map f l).
Proof. apply list_max_in_gen. Qed.

Lemma filter_length_le {A} (p q : A -> bool) l :
  (forall x, p x = true -> q x = true) -> List.length (filter p l) <= List.length (filter q l).
Proof.
  intros H. induction l as [|x l IH]; cbn; [lia|].
  destruct (p x) eqn:P; [rewrite (H x P); cbn; lia|]. destruct (q x); cbn; lia.
Qed.
Lemma filter_length_lt {A} (p q : A -> bool) l a :
  (forall x, p x = true -> q x = true) -> In a l -> q a = true -> p a = false ->
  List.length (filter p l) < List.length (filter q l).
Proof.
  intros H. induction l as [|x l IH]; cbn; [intros []|].
  intros [->|Hin] Q P.
  - rewrite P, Q. cbn. pose proof (filter_length_le p q l H). lia.
  - specialize (IH Hin Q P). destruct (p x) eqn:Px; [rewrite (H x Px); cbn; lia|]. destruct (q x); cbn; lia.
Qed.

Lemma filter_length_upper {A} (p : A -> bool) l : List.length (filter p l) <= List.length l.
Proof. induction l as [|x l IH]; cbn; [lia|]. destruct (p x); cbn; lia. Qed.

Section Term.
  Variable env : renv.
  Variable counts : list (string * nat).
  Variable rank : string -> nat.
  Variable rl : list string.          (* the names that matter: those reachable from the type being described *)
  Variables R H : nat.

  Definition aliased (n : string) : bool := Nat.ltb 1 (count_of n counts).

  (* the names printed in place that occur in a tree have a rank below rho *)
  Fixpoint refs_ok (rho : nat) (r : rt) : bool :=
    match r with
    | RRef n => mem_str n rl && (if aliased n then true else Nat.ltb (rank n) rho)
    | RTuple prefix rest => forallb (refs_ok rho) prefix && match rest with Some x => refs_ok rho x | None => true end
    | RAllOf rs | RAnyOf rs => forallb (refs_ok rho) rs
    | RDisc ss _ _ _ => forallb (refs_ok rho) ss
    | RArray t | RSet t | ROptional t | RMeta _ t => refs_ok rho t
    | RMap k v => refs_ok rho k && refs_ok rho v
    | RObject props indexed =>
        forallb (fun kv => refs_ok rho (snd kv)) props && forallb (fun kv => refs_ok rho (fst kv) && refs_ok rho (snd kv)) indexed
    | _ => true
    end.

  Hypothesis heights : forall n t, assoc n env = Some t -> mem_str n rl = true -> ht t <= H.
  Hypothesis in_place : forall n t, assoc n env = Some t -> mem_str n rl = true -> aliased n = false -> refs_ok (rank n) t = true.
  Hypothesis aliases : forall n t, assoc n env = Some t -> mem_str n rl = true -> aliased n = true -> refs_ok R t = true.

  (* aliased names not yet defined and not being printed *)
  Definition pending (st : dst) (n : string) : bool :=
    aliased n && negb (mem_str n (keys (fst st))) && negb (mem_str n (snd st)).
  Definition mu (st : dst) : nat := List.length (filter (pending st) (keys env)).

  Lemma mu_step st st' : step_ok st st' -> mu st' <= mu st.
  Proof.
    intros (S1 & _ & S3). unfold mu. apply filter_length_le. intros x. unfold pending. rewrite S1.
    intros Hx. apply Bool.andb_true_iff in Hx. destruct Hx as [Hx Ha]. apply Bool.andb_true_iff in Hx. destruct Hx as [Hal Hd].
    rewrite Hal, Ha. cbn. rewrite Bool.andb_true_r. apply Bool.negb_true_iff. apply Bool.negb_true_iff in Hd.
    destruct (mem_str x (keys (fst st))) eqn:M; [|reflexivity].
    apply mem_str_In in M. apply S3 in M. apply mem_str_In in M. congruence.
  Qed.

  Lemma mu_enter st n t : assoc n env = Some t -> aliased n = true -> mem_str n (snd st) = false -> assoc n (fst st) = None ->
    mu (fst st, n :: snd st) < mu st.
  Proof.
    intros En Ha Hact Hdef. unfold mu. apply filter_length_lt with (a := n).
    - intros x. unfold pending. cbn [fst snd mem_str]. intros Hx.
      apply Bool.andb_true_iff in Hx. destruct Hx as [Hx Hm]. rewrite Hx. cbn.
      destruct (String.eqb x n); [discriminate Hm|exact Hm].
    - clear -En. induction env as [|[k v] l IH]; cbn in *; [discriminate|].
      destruct (String.eqb_spec n k) as [->|Hne]; [left; reflexivity|right; apply IH; exact En].
    - unfold pending. rewrite Ha, Hact. cbn.
      destruct (mem_str n (keys (fst st))) eqn:M; [|reflexivity].
      apply mem_str_In in M. clear -M Hdef. exfalso. induction (fst st) as [|[k v] l IH]; cbn in *; [contradiction|].
      destruct (String.eqb_spec n k) as [->|Hne]; [discriminate|]. destruct M as [M|M]; [congruence|exact (IH Hdef M)].
    - unfold pending. cbn [fst snd mem_str]. rewrite String.eqb_refl. rewrite Bool.andb_false_r. reflexivity.
  Qed.

  Definition K : nat := (R + 1) * (H + 1).
  Definition W (m rho h : nat) : nat := m * K + rho * (H + 1) + h.

  Definition no_oof {A} (x : res A) : Prop := forall e, x = Throw e -> e <> EOutOfFuel.

  Lemma no_oof_ok {A} (a : A) : no_oof (Ok a).
  Proof. intros e He. discriminate. Qed.
  Lemma no_oof_bind {A B} (x : res A) (g : A -> res B) : no_oof x -> (forall a, x = Ok a -> no_oof (g a)) -> no_oof (bind x g).
  Proof.
    intros Hx Hg. destruct x as [a|e]; cbn [bind]; [apply Hg; reflexivity|]. intros e' He'. injection He' as <-. apply Hx. reflexivity.
  Qed.

  Lemma map_st_no_oof {A B} (g : dst -> A -> res (B * dst)) l m0 :
    (forall st x, In x l -> mu st <= m0 -> no_oof (g st x)) ->
    (forall st x r, g st x = Ok r -> step_ok st (snd r)) ->
    forall st, mu st <= m0 -> no_oof (map_st g l st).
  Proof.
    intros Hg Hs. induction l as [|x l IH]; intros st Hm; cbn [map_st]; [apply no_oof_ok|].
    apply no_oof_bind; [apply Hg; [left; reflexivity|exact Hm]|]. intros a Ea.
    apply no_oof_bind; [|intros b _; apply no_oof_ok].
    apply IH; [intros st' y Hy; apply Hg; right; exact Hy|].
    pose proof (mu_step _ _ (Hs _ _ _ Ea)). lia.
  Qed.

  Lemma forallb_in {A} (p : A -> bool) l x : forallb p l = true -> In x l -> p x = true.
  Proof. intros Hf Hin. rewrite forallb_forall in Hf. exact (Hf x Hin). Qed.

  Theorem describe_no_oof : forall fuel md st r m0 rho h,
      mu st <= m0 -> rho <= R -> ht r <= h -> h <= H -> refs_ok rho r = true -> W m0 rho h < fuel ->
      no_oof (describe env fuel counts md st r).
  Proof.
    induction fuel as [|f IH]; intros md st r m0 rho h Hm Hrho Hh HhH Hr HW; [lia|].
    (* children: same budget, one level lower *)
    assert (Hchild : forall md' st' c, mu st' <= m0 -> ht c < ht r -> refs_ok rho c = true -> no_oof (describe env f counts md' st' c)).
    { intros md' st' c Hm' Hc Hrc. apply (IH md' st' c m0 rho (h - 1)); try assumption; try lia. unfold W in *. lia. }
    assert (Hexpr : forall st' c, mu st' <= m0 -> ht c < ht r -> refs_ok rho c = true ->
                                  no_oof (do p <- describe env f counts None st' c; Ok (fst (fst p), snd p))).
    { intros st' c Hm' Hc Hrc. apply no_oof_bind; [apply Hchild; assumption|intros a _; apply no_oof_ok]. }
    assert (Hexpr_step : forall st' c q, (do p <- describe env f counts None st' c; Ok (fst (fst p), snd p)) = Ok q -> step_ok st' (snd q)).
    { intros st' c q Hq. destruct (describe env f counts None st' c) as [p|] eqn:E; cbn [bind] in Hq; [|discriminate].
      injection Hq as <-. cbn. exact (describe_step env f counts None st' c p E). }
    assert (Hexprs : forall l st', mu st' <= m0 -> (forall c, In c l -> ht c < ht r /\ refs_ok rho c = true) ->
                                   no_oof (map_st (fun st r' => do p <- describe env f counts None st r'; Ok (fst (fst p), snd p)) l st')).
    { intros l st' Hm' Hl. apply (map_st_no_oof _ l m0); [|intros s x q Hq; exact (Hexpr_step s x q Hq)|exact Hm'].
      intros s x Hx Hs. destruct (Hl x Hx) as [Hx1 Hx2]. apply Hexpr; assumption. }
    assert (Hexprs_step : forall l st' q,
               map_st (fun st r' => do p <- describe env f counts None st r'; Ok (fst (fst p), snd p)) l st' = Ok q -> step_ok st' (snd q)).
    { intros l st' q Hq. eapply map_st_step; [|exact Hq]. intros s x q0 _ Hq0. exact (Hexpr_step s x q0 Hq0). }
    destruct r; cbn [describe]; try apply no_oof_ok; cbn [refs_ok] in Hr.
    - (* tuple *)
      apply Bool.andb_true_iff in Hr. destruct Hr as [Hp Hrest].
      apply no_oof_bind.
      { apply Hexprs; [exact Hm|]. intros c Hc. split; [|exact (forallb_in _ _ _ Hp Hc)].
        cbn [ht]. pose proof (list_max_in ht prefix c Hc). lia. }
      intros p Ep. apply no_oof_bind; [|intros q _; apply no_oof_ok].
      destruct rest as [x|]; [|apply no_oof_ok].
      apply no_oof_bind; [|intros e _; apply no_oof_ok].
      apply Hexpr; [pose proof (mu_step _ _ (Hexprs_step _ _ _ Ep)); lia|cbn [ht]; lia|exact Hrest].
    - (* allOf *)
      apply no_oof_bind; [|intros p _; apply no_oof_ok].
      apply Hexprs; [exact Hm|]. intros c Hc. split; [|exact (forallb_in _ _ _ Hr Hc)].
      cbn [ht]. pose proof (list_max_in ht schemas c Hc). lia.
    - (* anyOf *)
      apply no_oof_bind; [|intros p _; apply no_oof_ok].
      apply Hexprs; [exact Hm|]. intros c Hc. split; [|exact (forallb_in _ _ _ Hr Hc)].
      cbn [ht]. pose proof (list_max_in ht schemas c Hc). lia.
    - (* array *)
      apply no_oof_bind; [|intros p _; apply no_oof_ok]. apply Hexpr; [exact Hm|cbn [ht]; lia|exact Hr].
    - (* map *)
      apply Bool.andb_true_iff in Hr. destruct Hr as [Hk Hv].
      apply no_oof_bind; [apply Hexpr; [exact Hm|cbn [ht]; lia|exact Hk]|]. intros a Ea.
      apply no_oof_bind; [|intros b _; apply no_oof_ok].
      apply Hexpr; [pose proof (mu_step _ _ (Hexpr_step _ _ _ Ea)); lia|cbn [ht]; lia|exact Hv].
    - (* set *)
      apply no_oof_bind; [|intros p _; apply no_oof_ok]. apply Hexpr; [exact Hm|cbn [ht]; lia|exact Hr].
    - (* discriminated union *)
      apply no_oof_bind; [|intros p _; apply no_oof_ok].
      apply Hexprs; [exact Hm|]. intros c Hc. split; [|exact (forallb_in _ _ _ Hr Hc)].
      cbn [ht]. pose proof (list_max_in ht schemas c Hc). lia.
    - (* optional *)
      apply Hchild; [exact Hm|cbn [ht]; lia|exact Hr].
    - (* object *)
      apply Bool.andb_true_iff in Hr. destruct Hr as [Hp Hi].
      assert (Hmember : forall st' key value, mu st' <= m0 -> ht value < ht (RObject props indexed) -> refs_ok rho value = true ->
                 no_oof (do d <- describe env f counts None st' value;
                         Ok ((snd (fst d), key +++ (if is_optional value then "?" else "") +++ ": " +++ fst (fst d)), snd d))).
      { intros st' key value Hm' Hv Hrv. apply no_oof_bind; [apply Hchild; assumption|intros a _; apply no_oof_ok]. }
      assert (Hmember_step : forall st' key value q,
                 (do d <- describe env f counts None st' value;
                  Ok ((snd (fst d), key +++ (if is_optional value then "?" else "") +++ ": " +++ fst (fst d)), snd d)) = Ok q ->
                 step_ok st' (snd q)).
      { intros st' key value q Hq. destruct (describe env f counts None st' value) as [d|] eqn:E; cbn [bind] in Hq; [|discriminate].
        injection Hq as <-. cbn. exact (describe_step env f counts None st' value d E). }
      apply no_oof_bind.
      { apply (map_st_no_oof _ _ m0); [| |exact Hm].
        - intros s k Hk Hs. destruct (assoc k props) as [v|] eqn:Ak; [|intros e He; injection He as <-; discriminate].
          assert (Hin : In (k, v) props).
          { clear -Ak. induction props as [|[k' v'] l IHl]; cbn in *; [discriminate|].
            destruct (String.eqb_spec k k') as [->|Hne]; [injection Ak as ->; left; reflexivity|right; apply IHl; exact Ak]. }
          apply Hmember; [exact Hs| |exact (forallb_in _ _ _ Hp Hin)].
          cbn [ht]. pose proof (list_max_in_gen (fun kv : string * rt => ht (snd kv)) props (k, v) Hin). cbn in *. lia.
        - intros s k q Hq. cbn beta in Hq. destruct (assoc k props); [|discriminate Hq]. exact (Hmember_step _ _ _ _ Hq). }
      intros ps Eps.
      assert (S1 : step_ok st (snd ps)).
      { eapply map_st_step; [|exact Eps]. intros s k q _ Hq. cbn beta in Hq. destruct (assoc k props); [|discriminate Hq].
        exact (Hmember_step _ _ _ _ Hq). }
      apply no_oof_bind.
      { apply (map_st_no_oof _ _ m0); [| |pose proof (mu_step _ _ S1); lia].
        - intros s kv Hkv Hs.
          pose proof (forallb_in _ _ _ Hi Hkv) as Hkv2. cbn beta in Hkv2. apply Bool.andb_true_iff in Hkv2. destruct Hkv2 as [Hk1 Hk2].
          pose proof (list_max_in_gen (fun kv : rt * rt => Nat.max (ht (fst kv)) (ht (snd kv))) indexed kv Hkv) as Hmx. cbn beta in Hmx.
          apply no_oof_bind; [apply Hexpr; [exact Hs|cbn [ht]; lia|exact Hk1]|]. intros ke Eke.
          apply Hmember; [pose proof (mu_step _ _ (Hexpr_step _ _ _ Eke)); lia|cbn [ht]; lia|exact Hk2].
        - intros s kv q Hq. cbn beta in Hq.
          destruct (do p <- describe env f counts None s (fst kv); Ok (fst (fst p), snd p)) as [ke|] eqn:Eke; cbn [bind] in Hq; [|discriminate].
          eapply step_trans; [exact (Hexpr_step _ _ _ Eke)|exact (Hmember_step _ _ _ _ Hq)]. }
      intros is_ _. destruct (existsb _ _); [destruct (fst ps ++ fst is_)|]; apply no_oof_ok.
    - (* named type *)
      apply Bool.andb_true_iff in Hr. destruct Hr as [Hrl Hr].
      destruct (assoc name env) as [target|] eqn:En; [|intros e He; injection He as <-; discriminate].
      fold (aliased name). destruct (aliased name) eqn:Ha.
      + destruct (mem_str name (snd st)) eqn:Em; [apply no_oof_ok|].
        destruct (assoc name (fst st)) eqn:Ed; [apply no_oof_ok|].
        apply no_oof_bind; [|intros d _; apply no_oof_ok].
        pose proof (mu_enter st name target En Ha Em Ed) as Hlt.
        apply (IH None (fst st, name :: snd st) target (mu st - 1) R H); try lia.
        * exact (heights _ _ En Hrl).
        * exact (aliases _ _ En Hrl Ha).
        * unfold W, K in *. nia.
      + apply Nat.ltb_lt in Hr.
        apply no_oof_bind; [|intros d _; destruct md; apply no_oof_ok].
        apply (IH None st target m0 (rank name) H); try lia.
        * exact (heights _ _ En Hrl).
        * exact (in_place _ _ En Hrl Ha).
        * unfold W, K in *. nia.
    - (* metadata *)
      apply Hchild; [exact Hm|cbn [ht]; lia|exact Hr].
  Qed.

  (* from the empty state: the bound in terms of the number of named types *)
  Corollary describe_top_no_oof fuel md r :
    ht r <= H -> refs_ok R r = true -> (List.length env + 1) * ((R + 1) * (H + 1)) < fuel ->
    no_oof (describe env fuel counts md ([], []) r).
  Proof.
    intros Hh Hr Hf.
    assert (Hm : mu ([], []) <= List.length env).
    { unfold mu. etransitivity; [apply filter_length_upper|]. unfold keys. rewrite map_length. lia. }
    apply (describe_no_oof fuel md ([], []) r (List.length env) R H); try lia; try assumption.
    unfold W, K. nia.
  Qed.
End Term.

(* the hypotheses as a computation *)
Definition rank_list (l : list (string * nat)) (s : string) : nat := match assoc s l with Some n => n | None => 0 end.
Definition term_okb (env : renv) (counts : list (string * nat)) (ranks : list (string * nat)) (rl : list string) (R H : nat) : bool :=
  forallb (fun e => negb (mem_str (fst e) rl) ||
                    (Nat.leb (ht (snd e)) H &&
                     refs_ok counts (rank_list ranks) rl (if aliased counts (fst e) then R else rank_list ranks (fst e)) (snd e))) env.

Lemma assoc_in_env {A} n (t : A) env : assoc n env = Some t -> In (n, t) env.
Proof.
  induction env as [|[k v] l IH]; cbn; [discriminate|].
  destruct (String.eqb_spec n k) as [->|Hne]; [intros [= ->]; left; reflexivity|intros Hn; right; apply IH; exact Hn].
Qed.

Theorem describe_terminates env counts ranks rl R H fuel md r :
  term_okb env counts ranks rl R H = true ->
  ht r <= H -> refs_ok counts (rank_list ranks) rl R r = true ->
  (List.length env + 1) * ((R + 1) * (H + 1)) < fuel ->
  forall e, describe env fuel counts md ([], []) r = Throw e -> e <> EOutOfFuel.
Proof.
  intros Hok Hh Hr Hf.
  assert (Hent : forall n t, assoc n env = Some t -> mem_str n rl = true ->
                             ht t <= H /\ refs_ok counts (rank_list ranks) rl (if aliased counts n then R else rank_list ranks n) t = true).
  { intros n t Hn Hrl. apply assoc_in_env in Hn. unfold term_okb in Hok. rewrite forallb_forall in Hok.
    specialize (Hok _ Hn). cbn [fst snd] in Hok. rewrite Hrl in Hok. cbn in Hok.
    apply Bool.andb_true_iff in Hok. destruct Hok as [Hh' Hr']. apply Nat.leb_le in Hh'. split; assumption. }
  apply (describe_top_no_oof env counts (rank_list ranks) rl R H).
  - intros n t Hn Hrl. exact (proj1 (Hent n t Hn Hrl)).
  - intros n t Hn Hrl Ha. pose proof (proj2 (Hent n t Hn Hrl)) as Hx. rewrite Ha in Hx. exact Hx.
  - intros n t Hn Hrl Ha. pose proof (proj2 (Hent n t Hn Hrl)) as Hx. rewrite Ha in Hx. exact Hx.
  - exact Hh.
  - exact Hr.
  - exact Hf.
Qed.

(* ---------- collectDescribeRefs terminates as well: every named type is entered once ---------- *)
Section Collect.
  Variable env : renv.
  Variable H : nat.
  Hypothesis heights : forall n t, assoc n env = Some t -> ht t <= H.

  Definition unvisited (st : list (string * nat) * list string) : nat :=
    List.length (filter (fun n => negb (mem_str n (snd st))) (keys env)).

  Lemma ht_strip r : ht (strip_meta_top r) <= ht r.
  Proof. induction r; cbn [strip_meta_top]; try lia. cbn [ht]. lia. Qed.

  Lemma ht_children r c : In c (describe_children r) -> ht c < ht r.
  Proof.
    destruct r; cbn [describe_children In]; try (intros Hf; contradiction Hf); cbn [ht].
    - intros Hin. apply in_app_or in Hin. destruct Hin as [Hin|Hin].
      + pose proof (list_max_in ht prefix c Hin). lia.
      + destruct rest as [x|]; [destruct Hin as [<-|[]]; lia|destruct Hin].
    - intros Hin. pose proof (list_max_in ht schemas c Hin). lia.
    - intros Hin. pose proof (list_max_in ht schemas c Hin). lia.
    - intros [<-|[]]. lia.
    - intros [<-|[<-|[]]]; lia.
    - intros [<-|[]]. lia.
    - intros Hin. pose proof (list_max_in ht schemas c Hin). lia.
    - intros [<-|[]]. lia.
    - intros Hin. apply in_app_or in Hin. destruct Hin as [Hin|Hin].
      + apply in_map_iff in Hin. destruct Hin as [kv [<- Hkv]].
        pose proof (list_max_in_gen (fun kv : string * rt => ht (snd kv)) props kv Hkv). cbn beta in *. lia.
      + apply in_concat in Hin. destruct Hin as [l [Hl Hc]]. apply in_map_iff in Hl. destruct Hl as [kv [<- Hkv]].
        pose proof (list_max_in_gen (fun kv : rt * rt => Nat.max (ht (fst kv)) (ht (snd kv))) indexed kv Hkv). cbn beta in *.
        destruct Hc as [<-|[<-|[]]]; lia.
  Qed.

  Lemma fold_collect_grows (g : list (string * nat) * list string -> rt -> res (list (string * nat) * list string)) l :
    (forall s c s', g s c = Ok s' -> incl (snd s) (snd s')) ->
    forall acc st', fold_left (fun acc c => do s <- acc; g s c) l acc = Ok st' ->
                    exists s0, acc = Ok s0 /\ incl (snd s0) (snd st').
  Proof.
    intros Hg. induction l as [|c l IH]; cbn [fold_left]; intros acc st' Hf.
    - exists st'. split; [exact Hf|apply incl_refl].
    - destruct (IH _ _ Hf) as [s1 [E1 I1]]. destruct acc as [s0|e]; cbn [bind] in E1; [|discriminate].
      exists s0. split; [reflexivity|]. eapply incl_tran; [exact (Hg _ _ _ E1)|exact I1].
  Qed.

  Lemma collect_grows fuel : forall st r st', collect env fuel st r = Ok st' -> incl (snd st) (snd st').
  Proof.
    induction fuel as [|f IH]; intros st r st' Hc; [discriminate Hc|]. cbn [collect] in Hc.
    destruct (strip_meta_top r) eqn:Es;
      try (destruct (fold_collect_grows (collect env f) _ (fun s c s' E => IH s c s' E) _ _ Hc) as [s0 [E0 I0]];
           injection E0 as <-; exact I0).
    destruct (mem_str name (snd st)); [injection Hc as <-; cbn; apply incl_refl|].
    destruct (assoc name env) as [target|]; [|discriminate Hc].
    apply IH in Hc. cbn [snd] in Hc. intros x Hx. apply Hc. right. exact Hx.
  Qed.

  Lemma unvisited_le st st' : incl (snd st) (snd st') -> unvisited st' <= unvisited st.
  Proof.
    intros Hi. unfold unvisited. apply filter_length_le. intros x Hx. apply Bool.negb_true_iff in Hx. apply Bool.negb_true_iff.
    destruct (mem_str x (snd st)) eqn:M; [|reflexivity]. apply mem_str_In in M. apply Hi in M. apply mem_str_In in M. congruence.
  Qed.

  Theorem collect_no_oof : forall fuel st r n0 h,
      unvisited st <= n0 -> ht r <= h -> h <= H -> n0 * (H + 1) + h < fuel -> no_oof (collect env fuel st r).
  Proof.
    induction fuel as [|f IH]; intros st r n0 h Hn Hh HhH Hf; [lia|]. cbn [collect].
    pose proof (ht_strip r) as Hs.
    assert (Hloop : forall r', ht r' <= ht r ->
              forall l, (forall c, In c l -> ht c < ht r') ->
              forall acc, no_oof acc -> (forall s, acc = Ok s -> unvisited s <= n0) ->
                          no_oof (fold_left (fun acc c => do s <- acc; collect env f s c) l acc)).
    { intros r' Hr' l. induction l as [|c l IHl]; intros Hl acc Ha Hacc; cbn [fold_left]; [exact Ha|].
      apply IHl; [intros c' Hc'; apply Hl; right; exact Hc'| |].
      - apply no_oof_bind; [exact Ha|]. intros s Es.
        pose proof (Hl c (or_introl eq_refl)) as Hc0.
        apply (IH s c n0 (h - 1)); [exact (Hacc s Es)| | |]; lia.
      - intros s' Es'. destruct acc as [s|e]; cbn [bind] in Es'; [|discriminate].
        pose proof (unvisited_le _ _ (collect_grows _ _ _ _ Es')). specialize (Hacc s eq_refl). lia. }
    destruct (strip_meta_top r) eqn:Es;
      try (match goal with
           | |- no_oof (fold_left _ (describe_children ?r') _) =>
               apply (Hloop r'); [exact Hs|intros c0 Hc0; exact (ht_children r' c0 Hc0)|apply no_oof_ok
                                 |intros s0 Es0; injection Es0 as <-; exact Hn]
           end).
    destruct (mem_str name (snd st)) eqn:Em; [apply no_oof_ok|].
    destruct (assoc name env) as [target|] eqn:En; [|intros e He; injection He as <-; discriminate].
    assert (Hlt : unvisited (assoc_set name (S (count_of name (fst st))) (fst st), name :: snd st) < unvisited st).
    { unfold unvisited. apply filter_length_lt with (a := name).
      - intros x. cbn [snd mem_str]. destruct (String.eqb x name); [discriminate|auto].
      - apply assoc_in_env in En. apply (in_map fst) in En. exact En.
      - rewrite Em. reflexivity.
      - cbn [snd mem_str]. rewrite String.eqb_refl. reflexivity. }
    apply (IH _ target (unvisited st - 1) H); try lia.
    - exact (heights _ _ En).
    - nia.
  Qed.
End Collect.

(* ParserFromRuntype.describe(): count, then print *)
Theorem describe_top_terminates env ranks rl R H fuel name hide r :
  forallb (fun e => Nat.leb (ht (snd e)) H) env = true ->
  ht r <= H ->
  (forall c, collect env fuel ([], []) r = Ok c ->
             term_okb env (fst c) ranks rl R H = true /\ refs_ok (fst c) (rank_list ranks) rl R r = true) ->
  (List.length env + 1) * ((R + 1) * (H + 1)) < fuel ->
  forall e, describe_top env fuel name hide r = Throw e -> e <> EOutOfFuel.
Proof.
  intros Hhs Hh Hok Hf. unfold describe_top.
  assert (Hheights : forall n t, assoc n env = Some t -> ht t <= H).
  { intros n t Hn. apply assoc_in_env in Hn. rewrite forallb_forall in Hhs. specialize (Hhs _ Hn). cbn in Hhs. apply Nat.leb_le. exact Hhs. }
  apply no_oof_bind.
  - apply (collect_no_oof env H Hheights fuel ([], []) r (List.length env) H); [|exact Hh|lia|nia].
    unfold unvisited. etransitivity; [apply filter_length_upper|]. unfold keys. rewrite map_length. lia.
  - intros c Ec. destruct (Hok c Ec) as [Ht Hr].
    apply no_oof_bind; [|intros d _; apply no_oof_ok].
    intros e He. exact (describe_terminates env (fst c) ranks rl R H fuel None r Ht Hh Hr Hf e He).
Qed.

(* used by the check: are the hypotheses of the termination theorem met by this case (with the counts the model computes)? *)
Definition term_check (env : renv) (r : rt) (ranks : list (string * nat)) (rl : list string) (R H : nat) : string :=
  let fuel := S ((List.length env + 1) * ((R + 1) * (H + 1))) in
  match collect env fuel ([], []) r with
  | Ok c => if forallb (fun e => Nat.leb (ht (snd e)) H) env && Nat.leb (ht r) H && term_okb env (fst c) ranks rl R H
               && refs_ok (fst c) (rank_list ranks) rl R r then "1" else "0"
  | Throw _ => "E"
  end.
