(* Proofs/C01.v — the compile-time dispatch optimisations are invisible: a literal-set validator and a
   discriminator-dispatch validator accept exactly what the plain union of their members accepts. *)
From Beff Require Import Model.Validate Proofs.ResLemmas.

Section Dispatch.
  Variable F : formats.
  Variable env : renv.

  Lemma exists_res_ok {A} (p : A -> bool) (g : A -> res bool) l :
    (forall x, In x l -> g x = Ok (p x)) -> exists_res g l = Ok (existsb p l).
  Proof.
    induction l as [|x l IH]; intros H; cbn; [reflexivity|].
    rewrite (H x (or_introl eq_refl)). destruct (p x); [reflexivity|]. apply IH. intros; apply H; right; assumption.
  Qed.

  Lemma existsb_map' {A B} (g : A -> B) (p : B -> bool) l : existsb p (map g l) = existsb (fun x => p (g x)) l.
  Proof. induction l as [|x l IH]; cbn; [reflexivity|]. rewrite IH. reflexivity. Qed.

  Lemma exists_res_false_all {A} (g : A -> res bool) l :
    exists_res g l = Ok false -> forall x, In x l -> g x = Ok false.
  Proof.
    induction l as [|y l IH]; cbn; intros H x Hin; [contradiction|].
    destruct (g y) as [[|]|e] eqn:E; try discriminate. destruct Hin as [<-|Hin]; auto.
  Qed.

  Definition cst_not_nan (c : cst) : bool := match c with CNum NNaN => false | _ => true end.
  Definition const_accepts (c : cst) (v : val) : bool :=
    match c with CNull => is_nullish v | _ => cst_strict_eqb c v end.

  Lemma svz_is_strict c v : cst_not_nan c = true -> cst_same_value_zero c v = cst_strict_eqb c v.
  Proof.
    destruct c as [| b | n | s]; try reflexivity. destruct v; try reflexivity.
    destruct n; try reflexivity. discriminate.
  Qed.

  (* AnyOfConstsRuntype([c1..cn]) validates like AnyOfRuntype([ConstRuntype(c1) ..]) *)
  Theorem consts_dispatch_is_union f strict cs v :
    forallb cst_not_nan cs = true ->
    validate F env (S (S f)) strict (RAnyOfConsts cs) v = validate F env (S (S f)) strict (RAnyOf (map RConst cs)) v.
  Proof.
    intros Hn. cbn [validate].
    rewrite (exists_res_ok (fun m => match m with RConst c => const_accepts c v | _ => false end)).
    2:{ intros m Hm. apply in_map_iff in Hm as [c [<- _]]. destruct c; reflexivity. }
    f_equal. rewrite existsb_map'.
    induction cs as [|c cs IH]; cbn [existsb forallb] in *; [rewrite andb_false_r; reflexivity|].
    apply andb_prop in Hn as [Hc Hn]. rewrite <- (IH Hn). rewrite (svz_is_strict c v Hc).
    destruct c as [| b | n | s]; cbn [const_accepts];
      destruct (is_nullish v) eqn:Nv, (existsb (fun c0 => match c0 with CNull => true | _ => false end) cs),
               (existsb (fun c0 => cst_same_value_zero c0 v) cs); cbn; try reflexivity;
      destruct v; cbn in *; try discriminate; try reflexivity.
  Qed.

  (* ---------- discriminator dispatch ---------- *)
  Definition cst_is_str (c : cst) : bool := match c with CStr _ => true | _ => false end.
  Definition disc_prop_ok (p : rt) : bool :=
    match p with
    | RConst (CStr _) => true
    | RAnyOfConsts cs => forallb cst_is_str cs
    | _ => false
    end.
  Definition disc_keys (p : rt) : list string :=
    match p with
    | RConst (CStr k) => [k]
    | RAnyOfConsts cs => List.concat (map (fun c => match c with CStr k => [k] | _ => [] end) cs)
    | _ => []
    end.
  Definition member_shape (disc : string) (m : rt) (props : list (string * rt)) (p : rt) : Prop :=
    m = RObject props [] /\ assoc disc props = Some p /\ disc_prop_ok p = true.

  Lemma disc_prop_accepts f strict p d b :
    disc_prop_ok p = true -> validate F env (S f) strict p d = Ok b ->
    (b = true <-> exists k, d = VStr k /\ In k (disc_keys p)).
  Proof.
    destruct p as [t| |dd| |c|items dd| | |ctor|fs|fs|cs|prefix rest|rs|rs|item|r1 r2|item|ss disc mapping smap|t|props indexed|name|dd t];
      cbn [disc_prop_ok]; try discriminate.
    - destruct c; try discriminate. intros _. cbn [validate disc_keys]. intros [= <-]. split.
      + intros H. destruct d as [ | |b0|n0|s0|z0| | |ms0| |xs0|fs0|kvs0|xs0|k0 xs0]; cbn in H; try discriminate.
        apply String.eqb_eq in H. subst s0. eexists; split; [reflexivity|left; reflexivity].
      + intros [k [-> [<-|[]]]]. cbn. apply String.eqb_refl.
    - intros Hs. cbn [validate disc_keys]. intros [= <-]. split.
      + intros H. apply orb_prop in H as [H|H].
        * apply andb_prop in H as [_ H]. apply existsb_exists in H as [c [Hc Hn]].
          rewrite forallb_forall in Hs. specialize (Hs c Hc). destruct c; discriminate.
        * apply existsb_exists in H as [c [Hc Hm]]. rewrite forallb_forall in Hs. pose proof (Hs c Hc) as Hstr.
          destruct c as [| | |k]; try discriminate.
          destruct d as [ | |b0|n0|s0|z0| | |ms0| |xs0|fs0|kvs0|xs0|k0 xs0]; cbn in Hm; try discriminate.
          apply String.eqb_eq in Hm. subst s0. exists k. split; [reflexivity|].
          apply in_concat. exists [k]. split; [|left; reflexivity]. apply in_map_iff. exists (CStr k). auto.
      + intros [k [-> Hin]]. apply in_concat in Hin as [l [Hl Hk]]. apply in_map_iff in Hl as [c [<- Hc]].
        destruct c as [| | |k']; try contradiction. destruct Hk as [<-|[]].
        apply orb_true_intro. right. apply existsb_exists. exists (CStr k'). split; [exact Hc|]. cbn. apply String.eqb_refl.
  Qed.

  (* an object member accepts only values whose discriminator is one of its keys *)
  Lemma member_true_disc f strict disc m props p v :
    member_shape disc m props p -> validate F env f strict m v = Ok true ->
    exists k, get v disc = VStr k /\ In k (disc_keys p).
  Proof.
    intros [-> [Ha Hok]]. destruct f as [|f]; [discriminate|]. cbn [validate].
    destruct (is_object_type v && negb (is_array v) && negb match v with VNull => true | _ => false end); [|discriminate].
    destruct (forall_res (fun kp => validate F env f strict (snd kp) (get v (fst kp))) props) as [[|]|e] eqn:P;
      cbn [bind negb]; try discriminate.
    intros _. pose proof (forall_res_true_inv _ _ P (disc, p) (assoc_In _ _ _ Ha)) as H. cbn [fst snd] in H.
    destruct f as [|f]; [discriminate|].
    apply (disc_prop_accepts _ _ _ _ _ Hok H). reflexivity.
  Qed.

  Lemma to_key_str k : to_key (VStr k) = Ok (Some k).
  Proof. reflexivity. Qed.

  Theorem disc_dispatch_is_union f strict ss disc mapping smap v a b :
    (forall m, In m ss -> exists props p, member_shape disc m props p /\
                                         forall k, In k (disc_keys p) -> assoc k mapping = Some m) ->
    (forall k m, assoc k mapping = Some m -> In m ss /\ exists props p, member_shape disc m props p /\ In k (disc_keys p)) ->
    validate F env (S f) strict (RDisc ss disc mapping smap) v = Ok a ->
    validate F env (S f) strict (RAnyOf ss) v = Ok b ->
    a = b.
  Proof.
    intros HA HB. cbn [validate].
    intros Hd Hu.
    (* whenever the union says yes, the accepting member is the one the mapping selects *)
    assert (Hyes : b = true -> exists m k, In m ss /\ validate F env f strict m v = Ok true
                                         /\ get v disc = VStr k /\ assoc k mapping = Some m).
    { intros ->. clear Hd.
      assert (G : forall l, (forall m, In m l -> In m ss) -> exists_res (fun m => validate F env f strict m v) l = Ok true ->
                            exists m, In m l /\ validate F env f strict m v = Ok true).
      { induction l as [|m l IH]; intros Hl; cbn; [discriminate|].
        destruct (validate F env f strict m v) as [[|]|e] eqn:E; try discriminate.
        - intros _. exists m. split; [left; reflexivity|exact E].
        - intros H. destruct (IH (fun x Hx => Hl x (or_intror Hx)) H) as [m' [Hin Hm']]. exists m'. split; [right; exact Hin|exact Hm']. }
      destruct (G ss (fun m H => H) Hu) as [m [Hin Hm]].
      destruct (HA m Hin) as [props [p [Hshape Hmap]]].
      destruct (member_true_disc _ _ _ _ _ _ _ Hshape Hm) as [k [Hg Hk]].
      exists m, k. repeat split; auto. }
    destruct b.
    - (* union accepts *)
      destruct (Hyes eq_refl) as [m [k [Hin [Hm [Hg Hmap]]]]].
      assert (Hobj : negb (is_object_type v) || is_nullish v = false).
      { destruct (HA m Hin) as [props [p [[-> _] _]]]. destruct f as [|f']; [discriminate|]. cbn [validate] in Hm.
        destruct v; cbn in Hm |- *; try discriminate; reflexivity. }
      rewrite Hobj, Hg in Hd. cbn [is_nullish bind] in Hd. rewrite to_key_str in Hd. cbn [bind] in Hd.
      unfold lookup_plain in Hd. rewrite Hmap in Hd. congruence.
    - (* union rejects: the selected member, if any, is one of the members, so it rejects too *)
      destruct (negb (is_object_type v) || is_nullish v); [congruence|].
      destruct (is_nullish (get v disc)); [congruence|].
      destruct (to_key (get v disc)) as [key|e]; cbn [bind] in Hd; [|discriminate].
      unfold lookup_plain in Hd. destruct key as [k|]; [|congruence].
      destruct (assoc k mapping) as [m|] eqn:Am.
      + destruct (HB k m Am) as [Hin _].
        pose proof (exists_res_false_all _ _ Hu m Hin) as Hm. cbn beta in Hm. congruence.
      + destruct (mem_str k object_proto_functions); [discriminate|].
        destruct (String.eqb k proto_key); [discriminate|congruence].
  Qed.
End Dispatch.
