(* Proofs/C16.v — the contextual schema printer: what it returns does not depend on the context, and a
   successful print preserves the invariant of the context. *)
From Beff Require Import Model.Schema.

(* ================================================================ generic facts *)
Lemma assoc_set_same {A} k (v : A) l : assoc k (assoc_set k v l) = Some v.
Proof.
  induction l as [|[k' v'] l IH]; cbn.
  - rewrite String.eqb_refl. reflexivity.
  - destruct (String.eqb k k') eqn:E; cbn; [rewrite String.eqb_refl; reflexivity|rewrite E; exact IH].
Qed.
Lemma assoc_set_other {A} k k' (v : A) l : String.eqb k' k = false -> assoc k' (assoc_set k v l) = assoc k' l.
Proof.
  intros Hne. induction l as [|[k0 v0] l IH]; cbn.
  - rewrite Hne. reflexivity.
  - destruct (String.eqb k k0) eqn:E; cbn.
    + apply String.eqb_eq in E. subst k0. rewrite Hne. reflexivity.
    + destruct (String.eqb k' k0); [reflexivity|exact IH].
Qed.
Lemma mem_str_keys_assoc {A} k (l : list (string * A)) : mem_str k (keys l) = false -> assoc k l = None.
Proof.
  induction l as [|[k' v'] l IH]; cbn; [reflexivity|].
  destruct (String.eqb k k'); [discriminate|exact IH].
Qed.
Lemma mem_str_app k l1 l2 : mem_str k (l1 ++ l2) = mem_str k l1 || mem_str k l2.
Proof. induction l1 as [|x l1 IH]; cbn; [reflexivity|]. destruct (String.eqb k x); [reflexivity|exact IH]. Qed.
Lemma filter_not_mem name l :
  mem_str name l = false -> filter (fun n => negb (String.eqb n name)) l = l.
Proof.
  induction l as [|x l IH]; cbn; [reflexivity|].
  rewrite (String.eqb_sym x name). destruct (String.eqb name x) eqn:E; [discriminate|]. cbn. intros H. rewrite IH; auto.
Qed.

Section C16.
  Variable env : renv.
  Variable cf : pconf.

  Notation sch := (schema env cf Contextual).

  Definition is_synthetic (n : string) : Prop := exists disc key uh, n = synthetic_ref_name disc key uh.
  (* b is the contextual schema of the tree that name n stands for *)
  Definition defined_by (n : string) (b : json) : Prop :=
    exists f seen c0 c0' t,
      (assoc n env = Some t \/ assoc n (overrides cf) = Some t \/ is_synthetic n) /\
      sch f seen None c0 t = Ok (b, c0').

  (* ---------- the invariant relation between the context before and after a successful print ---------- *)
  Record R (c c' : pctx) : Prop := {
    R_ip : in_progress c' = in_progress c;
    R_mono : forall n b, assoc n (collected c) = Some b -> assoc n (collected c') = Some b;
    R_new : forall n b, assoc n (collected c') = Some b -> assoc n (collected c) = Some b \/ defined_by n b;
    R_frozen : forall n, mem_str n (in_progress c) = true -> assoc n (collected c') = assoc n (collected c)
  }.

  Lemma R_refl c : R c c.
  Proof. constructor; auto. Qed.

  Lemma R_trans c1 c2 c3 : R c1 c2 -> R c2 c3 -> R c1 c3.
  Proof.
    intros [I1 M1 N1 F1] [I2 M2 N2 F2]. constructor.
    - congruence.
    - auto.
    - intros n b H. destruct (N2 n b H) as [H'|H']; auto.
    - intros n H. rewrite F2 by (rewrite I1; exact H). apply F1. exact H.
  Qed.

  Lemma smap_R {A B} (g : pctx -> A -> res (B * pctx)) l :
    (forall x c y c', In x l -> g c x = Ok (y, c') -> R c c') ->
    forall c ys c', smap g c l = Ok (ys, c') -> R c c'.
  Proof.
    induction l as [|x l IH]; intros Hg c ys c'; unfold smap; fold (smap g).
    - intros [= <- <-]. apply R_refl.
    - destruct (g c x) as [[y cy]|e] eqn:E; cbn [bind fst snd]; [|discriminate].
      destruct (smap g cy l) as [[ys' cl]|e] eqn:El; cbn [bind fst snd]; [|discriminate].
      intros [= <- <-]. eapply R_trans.
      + eapply Hg; [left; reflexivity|exact E].
      + eapply IH; [|exact El]. intros; eapply Hg; [right; eassumption|eassumption].
  Qed.

  (* mark, print the body, store: the step shared by BaseRefRuntype.schema and ensureContextualDefinition *)
  Lemma store_step c name f seen t body cb :
    has_definition c name = false -> is_in_progress c name = false ->
    (assoc name env = Some t \/ assoc name (overrides cf) = Some t \/ is_synthetic name) ->
    sch f seen None (mark_in_progress c name) t = Ok (body, cb) ->
    R (mark_in_progress c name) cb ->
    R c (store_definition cb name body).
  Proof.
    intros Hdef Hip Hsrc Hrun [I M N Fz].
    unfold has_definition in Hdef. pose proof Hdef as Hkeys.
    unfold is_in_progress in Hip.
    assert (Hipm : in_progress (mark_in_progress c name) = in_progress c ++ [name]).
    { unfold mark_in_progress. cbn. rewrite Hip. reflexivity. }
    constructor.
    - cbn. rewrite I, Hipm. rewrite filter_app. cbn. rewrite String.eqb_refl. cbn.
      rewrite app_nil_r. apply filter_not_mem. exact Hip.
    - intros n b H. cbn. destruct (String.eqb n name) eqn:E.
      + apply String.eqb_eq in E. subst n. rewrite (mem_str_keys_assoc _ _ Hkeys) in H. discriminate.
      + rewrite assoc_set_other by exact E. apply M. exact H.
    - intros n b H. cbn in H. destruct (String.eqb n name) eqn:E.
      + apply String.eqb_eq in E. subst n. rewrite assoc_set_same in H. injection H as <-.
        right. exists f, seen, (mark_in_progress c name), cb, t. split; assumption.
      + rewrite assoc_set_other in H by exact E. destruct (N n b H) as [H'|H']; auto.
    - intros n Hn. cbn. destruct (String.eqb n name) eqn:E.
      + apply String.eqb_eq in E. subst n. congruence.
      + rewrite assoc_set_other by exact E. apply Fz. rewrite Hipm, mem_str_app, Hn. reflexivity.
  Qed.

  (* ---------- every successful contextual print preserves the invariant ---------- *)
  Lemma schema_R : forall f seen desc c r j c', sch f seen desc c r = Ok (j, c') -> R c c'.
  Proof.
    induction f as [|f IH]; intros seen desc c r j c'; [discriminate|].
    assert (IHsub : forall c0 r0 y c0', schema env cf Contextual f seen None c0 r0 = Ok (y, c0') -> R c0 c0')
      by (intros; eapply IH; eassumption).
    destruct r as [t| |d| |k|items d| | |ctor|fs|fs|cs|prefix rest|rs|rs|item|r1 r2|item|ss disc mapping smapping|t|props indexed|name|d t];
      cbn [schema].
    - (* RTypeof *) intros [= <- <-]; apply R_refl.
    - (* RAny *) intros [= <- <-]; apply R_refl.
    - (* RNullish *) intros [= <- <-]; apply R_refl.
    - (* RNever *) intros [= <- <-]; apply R_refl.
    - (* RConst *) destruct k; intros [= <- <-]; apply R_refl.
    - (* RRegex *) intros [= <- <-]; apply R_refl.
    - (* RDate *) unfold unsupported; intros H; discriminate H.
    - (* RBigInt *) unfold unsupported; intros H; discriminate H.
    - (* RTypedArray *) unfold unsupported; intros H; discriminate H.
    - (* RStringFmt *) intros [= <- <-]; apply R_refl.
    - (* RNumberFmt *) intros [= <- <-]; apply R_refl.
    - (* RAnyOfConsts *)
      match goal with |- match ?s with _ => _ end = _ -> _ => destruct s end; intros [= <- <-]; apply R_refl.
    - (* RTuple *)
      destruct (smap _ c prefix) as [[ps cp]|e] eqn:E; cbn [bind fst snd]; [|discriminate].
      assert (Rp : R c cp) by (eapply smap_R; [|exact E]; intros; eapply IHsub; eassumption).
      destruct rest as [rr|].
      + destruct (schema env cf Contextual f seen None cp rr) as [[x cx]|e] eqn:Er; cbn [bind fst snd]; [|discriminate].
        intros [= <- <-]. eapply R_trans; [exact Rp|eapply IHsub; exact Er].
      + cbn [bind fst snd]. intros [= <- <-]. exact Rp.
    - (* RAllOf *)
      destruct (smap _ c rs) as [[ps cp]|e] eqn:E; cbn [bind fst snd]; [|discriminate].
      assert (Rp : R c cp) by (eapply smap_R; [|exact E]; intros; eapply IHsub; eassumption).
      destruct (try_merge_allof ps); intros [= <- <-]; exact Rp.
    - (* RAnyOf *)
      destruct (smap _ c rs) as [[ps cp]|e] eqn:E; cbn [bind fst snd]; [|discriminate].
      intros [= <- <-]. eapply smap_R; [|exact E]. intros; eapply IHsub; eassumption.
    - (* RArray *)
      destruct (schema env cf Contextual f seen None c item) as [[x cx]|e] eqn:E; cbn [bind fst snd]; [|discriminate].
      intros [= <- <-]. eapply IHsub; exact E.
    - (* RMap *) unfold unsupported; intros H; discriminate H.
    - (* RSet *) unfold unsupported; intros H; discriminate H.
    - (* RDisc *)
      destruct (hash32 env f [] (RDisc ss disc mapping smapping)) as [uh|e]; cbn [bind]; [|discriminate].
      destruct (smap _ c (variant_labels smapping)) as [[refs cr]|e] eqn:E; cbn [bind fst snd]; [|discriminate].
      intros [= <- <-]. eapply smap_R; [|exact E].
      intros [[key vr] label] c0 y c0' _. cbn [fst snd].
      assert (Ens : forall name target c1,
                 (assoc name env = Some target \/ is_synthetic name) ->
                 (if has_definition c0 name || is_in_progress c0 name then Ok c0
                  else do b <- schema env cf Contextual f seen None (mark_in_progress c0 name)
                                  (match assoc name (overrides cf) with Some o => o | None => target end);
                       Ok (store_definition (snd b) name (fst b))) = Ok c1 -> R c0 c1).
      { intros name target c1 Hsrc.
        destruct (has_definition c0 name) eqn:Hd; cbn [orb]; [intros [= <-]; apply R_refl|].
        destruct (is_in_progress c0 name) eqn:Hi; [intros [= <-]; apply R_refl|].
        assert (Hsrc' : let tgt := match assoc name (overrides cf) with Some o => o | None => target end in
                        assoc name env = Some tgt \/ assoc name (overrides cf) = Some tgt \/ is_synthetic name).
        { cbv zeta. destruct (assoc name (overrides cf)) as [o|] eqn:O; [right; left; reflexivity|].
          destruct Hsrc as [A|Sy]; [left; exact A|right; right; exact Sy]. }
        cbv zeta in Hsrc'.
        destruct (schema env cf Contextual f seen None (mark_in_progress c0 name) _) as [[b cb]|e] eqn:Eb;
          cbn [bind fst snd]; [|discriminate].
        intros [= <-]. eapply store_step; eauto. }
      destruct (is_ref_node vr) as [name|].
      + destruct (assoc name env) as [target|] eqn:A; [|discriminate].
        match goal with |- (do c1 <- ?e; _) = _ -> _ => destruct e as [c1|e'] eqn:Ee end; cbn [bind]; [|discriminate].
        intros [= <- <-]. eapply Ens; [|exact Ee]. left; exact A.
      + match goal with |- (do c1 <- ?e; _) = _ -> _ => destruct e as [c1|e'] eqn:Ee end; cbn [bind]; [|discriminate].
        intros [= <- <-]. eapply Ens; [|exact Ee]. right. repeat eexists.
    - (* ROptional *)
      destruct (schema env cf Contextual f seen None c t) as [[x cx]|e] eqn:E; cbn [bind fst snd]; [|discriminate].
      intros [= <- <-]. eapply IHsub; exact E.
    - (* RObject *)
      destruct (smap _ c props) as [[ps cp]|e] eqn:E; cbn [bind fst snd]; [|discriminate].
      assert (Rp : R c cp).
      { eapply smap_R; [|exact E]. intros [k0 p0] c0 y c0' _. cbn [fst snd].
        destruct (schema env cf Contextual f seen None c0 p0) as [[raw craw]|e] eqn:Er; cbn [bind fst snd]; [|discriminate].
        destruct (remove_null_union_branch 50 raw); intros [= <- <-]; eapply IHsub; exact Er. }
      destruct (smap _ cp indexed) as [[qs cq]|e] eqn:Eq; cbn [bind fst snd]; [|discriminate].
      assert (Rq : R cp cq).
      { eapply smap_R; [|exact Eq]. intros [kr vr] c0 y c0' _. cbn [fst snd].
        destruct (schema env cf Contextual f seen None c0 kr) as [[ks cks]|e] eqn:Ek; cbn [bind fst snd]; [|discriminate].
        destruct (schema env cf Contextual f seen None cks vr) as [[vs cvs]|e] eqn:Ev; cbn [bind fst snd]; [|discriminate].
        intros [= <- <-]. eapply R_trans; eapply IHsub; eassumption. }
      assert (Rc : R c cq) by (eapply R_trans; eassumption).
      destruct qs as [|one [|two qs']]; try (intros [= <- <-]; exact Rc).
      destruct (fold_left _ ps []); try (intros [= <- <-]; exact Rc).
      destruct indexed as [|[kr vr] [|ix2 indexed']]; try (intros [= <- <-]; exact Rc).
      destruct (strip_meta_top vr); intros [= <- <-]; exact Rc.
    - (* RRef *)
      destruct (assoc name env) as [target|] eqn:A; [|discriminate].
      destruct (has_definition c name) eqn:Hd; cbn [negb andb bind].
      { intros [= <- <-]. apply R_refl. }
      destruct (is_in_progress c name) eqn:Hi; cbn [negb bind].
      { intros [= <- <-]. apply R_refl. }
      match goal with |- (do c1 <- (do b <- ?e; _); _) = _ -> _ => destruct e as [[b cb]|e'] eqn:Eb end;
        cbn [bind fst snd]; [|discriminate].
      intros [= <- <-]. eapply store_step; [exact Hd|exact Hi| |exact Eb|eapply IHsub; exact Eb].
      destruct (assoc name (overrides cf)) as [o|] eqn:O; [right; left; reflexivity|left; exact A].
    - (* RMeta *)
      intros H. eapply IH; exact H.
  Qed.

  Theorem schema_preserves_invariant f seen desc c r j c' :
    sch f seen desc c r = Ok (j, c') ->
    in_progress c' = in_progress c /\
    (forall n b, assoc n (collected c) = Some b -> assoc n (collected c') = Some b) /\
    (forall n b, assoc n (collected c') = Some b -> assoc n (collected c) = Some b \/ defined_by n b).
  Proof. intros H. destruct (schema_R _ _ _ _ _ _ _ H) as [I M N _]. auto. Qed.

  Theorem collected_ref_noop f seen c n t :
    assoc n env = Some t -> has_definition c n = true ->
    sch (S f) seen None c (RRef n) = Ok (JObj [("$ref", JStr (get_ref cf n))], c).
  Proof. intros A H. cbn [schema]. rewrite A, H. reflexivity. Qed.

  (* ---------- what a contextual print returns does not depend on the context ---------- *)
  Definition hash_stable : Prop :=
    forall f1 f2 r h1 h2, hash32 env f1 [] r = Ok h1 -> hash32 env f2 [] r = Ok h2 -> h1 = h2.

  Lemma smap_indep {A B} (g1 g2 : pctx -> A -> res (B * pctx)) l :
    (forall x c1 c2 y1 c1' y2 c2', In x l -> g1 c1 x = Ok (y1, c1') -> g2 c2 x = Ok (y2, c2') -> y1 = y2) ->
    forall c1 c2 ys1 c1' ys2 c2', smap g1 c1 l = Ok (ys1, c1') -> smap g2 c2 l = Ok (ys2, c2') -> ys1 = ys2.
  Proof.
    induction l as [|x l IH]; intros Hg c1 c2 ys1 c1' ys2 c2'; unfold smap; fold (smap g1); fold (smap g2).
    - intros [= <- <-] [= <- <-]. reflexivity.
    - destruct (g1 c1 x) as [[y1 cy1]|e] eqn:E1; cbn [bind fst snd]; [|discriminate].
      destruct (smap g1 cy1 l) as [[l1 cl1]|e] eqn:El1; cbn [bind fst snd]; [|discriminate].
      intros [= <- <-].
      destruct (g2 c2 x) as [[y2 cy2]|e] eqn:E2; cbn [bind fst snd]; [|discriminate].
      destruct (smap g2 cy2 l) as [[l2 cl2]|e] eqn:El2; cbn [bind fst snd]; [|discriminate].
      intros [= <- <-]. f_equal.
      + eapply Hg; [left; reflexivity|exact E1|exact E2].
      + eapply IH; [|exact El1|exact El2]. intros; eapply Hg; [right; eassumption|eassumption|eassumption].
  Qed.

  Hypothesis Hhash : hash_stable.

  Lemma schema_indep : forall f1 f2 seen1 seen2 desc c1 c2 r j1 c1' j2 c2',
      sch f1 seen1 desc c1 r = Ok (j1, c1') -> sch f2 seen2 desc c2 r = Ok (j2, c2') -> j1 = j2.
  Proof.
    induction f1 as [|f1 IH]; intros f2 seen1 seen2 desc c1 c2 r j1 c1' j2 c2'; [discriminate|].
    destruct f2 as [|f2]; [intros _ H; discriminate H|].
    assert (IHs : forall ca cb r0 ya ca' yb cb',
               schema env cf Contextual f1 seen1 None ca r0 = Ok (ya, ca') ->
               schema env cf Contextual f2 seen2 None cb r0 = Ok (yb, cb') -> ya = yb)
      by (intros; eapply IH; eassumption).
    destruct r as [t| |d| |k|items d| | |ctor|fs|fs|cs|prefix rest|rs|rs|item|r1 r2|item|ss disc mapping smapping|t|props indexed|name|d t];
      cbn [schema].
    - intros [= <- <-] [= <- <-]; reflexivity.
    - intros [= <- <-] [= <- <-]; reflexivity.
    - intros [= <- <-] [= <- <-]; reflexivity.
    - intros [= <- <-] [= <- <-]; reflexivity.
    - destruct k; intros [= <- <-] [= <- <-]; reflexivity.
    - intros [= <- <-] [= <- <-]; reflexivity.
    - unfold unsupported; intros H; discriminate H.
    - unfold unsupported; intros H; discriminate H.
    - unfold unsupported; intros H; discriminate H.
    - intros [= <- <-] [= <- <-]; reflexivity.
    - intros [= <- <-] [= <- <-]; reflexivity.
    - match goal with |- match ?s with _ => _ end = _ -> _ => destruct s end; intros [= <- <-] [= <- <-]; reflexivity.
    - (* RTuple *)
      destruct (smap _ c1 prefix) as [[ps1 cp1]|e] eqn:E1; cbn [bind fst snd]; [|discriminate].
      intros H1.
      destruct (smap _ c2 prefix) as [[ps2 cp2]|e] eqn:E2; cbn [bind fst snd]; [|discriminate].
      intros H2.
      assert (ps1 = ps2) by (eapply smap_indep; [|exact E1|exact E2]; intros; eapply IHs; eassumption). subst ps2.
      destruct rest as [rr|].
      + destruct (schema env cf Contextual f1 seen1 None cp1 rr) as [[x1 cx1]|e] eqn:Er1; cbn [bind fst snd] in H1; [|discriminate].
        destruct (schema env cf Contextual f2 seen2 None cp2 rr) as [[x2 cx2]|e] eqn:Er2; cbn [bind fst snd] in H2; [|discriminate].
        assert (x1 = x2) by (eapply IHs; eassumption). subst x2.
        injection H1 as <- <-. injection H2 as <- <-. reflexivity.
      + cbn [bind fst snd] in H1, H2. injection H1 as <- <-. injection H2 as <- <-. reflexivity.
    - (* RAllOf *)
      destruct (smap _ c1 rs) as [[ps1 cp1]|e] eqn:E1; cbn [bind fst snd]; [|discriminate]. intros H1.
      destruct (smap _ c2 rs) as [[ps2 cp2]|e] eqn:E2; cbn [bind fst snd]; [|discriminate]. intros H2.
      assert (ps1 = ps2) by (eapply smap_indep; [|exact E1|exact E2]; intros; eapply IHs; eassumption). subst ps2.
      destruct (try_merge_allof ps1); injection H1 as <- <-; injection H2 as <- <-; reflexivity.
    - (* RAnyOf *)
      destruct (smap _ c1 rs) as [[ps1 cp1]|e] eqn:E1; cbn [bind fst snd]; [|discriminate]. intros [= <- <-].
      destruct (smap _ c2 rs) as [[ps2 cp2]|e] eqn:E2; cbn [bind fst snd]; [|discriminate]. intros [= <- <-].
      assert (ps1 = ps2) by (eapply smap_indep; [|exact E1|exact E2]; intros; eapply IHs; eassumption). subst ps2.
      reflexivity.
    - (* RArray *)
      destruct (schema env cf Contextual f1 seen1 None c1 item) as [[x1 cx1]|e] eqn:E1; cbn [bind fst snd]; [|discriminate].
      intros [= <- <-].
      destruct (schema env cf Contextual f2 seen2 None c2 item) as [[x2 cx2]|e] eqn:E2; cbn [bind fst snd]; [|discriminate].
      intros [= <- <-]. assert (x1 = x2) by (eapply IHs; eassumption). subst. reflexivity.
    - unfold unsupported; intros H; discriminate H.
    - unfold unsupported; intros H; discriminate H.
    - (* RDisc *)
      destruct (hash32 env f1 [] (RDisc ss disc mapping smapping)) as [uh1|e] eqn:U1; cbn [bind]; [|discriminate].
      destruct (smap _ c1 (variant_labels smapping)) as [[refs1 cr1]|e] eqn:E1; cbn [bind fst snd]; [|discriminate].
      intros [= <- <-].
      destruct (hash32 env f2 [] (RDisc ss disc mapping smapping)) as [uh2|e] eqn:U2; cbn [bind]; [|discriminate].
      destruct (smap _ c2 (variant_labels smapping)) as [[refs2 cr2]|e] eqn:E2; cbn [bind fst snd]; [|discriminate].
      intros [= <- <-].
      assert (uh1 = uh2) by (eapply Hhash; eassumption). subst uh2.
      assert (refs1 = refs2).
      { eapply smap_indep; [|exact E1|exact E2].
        intros [[key vr] label] ca cb ya ca' yb cb' _. cbn [fst snd].
        destruct (is_ref_node vr) as [name|].
        - destruct (assoc name env) as [target|]; [|discriminate].
          match goal with |- (do c1 <- ?e; _) = _ -> _ => destruct e end; cbn [bind]; [|discriminate].
          intros [= <- <-].
          match goal with |- (do c1 <- ?e; _) = _ -> _ => destruct e end; cbn [bind]; [|discriminate].
          intros [= <- <-]. reflexivity.
        - match goal with |- (do c1 <- ?e; _) = _ -> _ => destruct e end; cbn [bind]; [|discriminate].
          intros [= <- <-].
          match goal with |- (do c1 <- ?e; _) = _ -> _ => destruct e end; cbn [bind]; [|discriminate].
          intros [= <- <-]. reflexivity. }
      subst refs2. reflexivity.
    - (* ROptional *)
      destruct (schema env cf Contextual f1 seen1 None c1 t) as [[x1 cx1]|e] eqn:E1; cbn [bind fst snd]; [|discriminate].
      intros [= <- <-].
      destruct (schema env cf Contextual f2 seen2 None c2 t) as [[x2 cx2]|e] eqn:E2; cbn [bind fst snd]; [|discriminate].
      intros [= <- <-]. assert (x1 = x2) by (eapply IHs; eassumption). subst. reflexivity.
    - (* RObject *)
      destruct (smap _ c1 props) as [[ps1 cp1]|e] eqn:E1; cbn [bind fst snd]; [|discriminate].
      destruct (smap _ cp1 indexed) as [[qs1 cq1]|e] eqn:Q1; cbn [bind fst snd]; [|discriminate].
      intros H1.
      destruct (smap _ c2 props) as [[ps2 cp2]|e] eqn:E2; cbn [bind fst snd]; [|discriminate].
      destruct (smap _ cp2 indexed) as [[qs2 cq2]|e] eqn:Q2; cbn [bind fst snd]; [|discriminate].
      intros H2.
      assert (ps1 = ps2).
      { eapply smap_indep; [|exact E1|exact E2].
        intros [k0 p0] ca cb ya ca' yb cb' _. cbn [fst snd].
        destruct (schema env cf Contextual f1 seen1 None ca p0) as [[raw1 craw1]|e] eqn:Er1; cbn [bind fst snd]; [|discriminate].
        intros Ha.
        destruct (schema env cf Contextual f2 seen2 None cb p0) as [[raw2 craw2]|e] eqn:Er2; cbn [bind fst snd]; [|discriminate].
        intros Hb. assert (raw1 = raw2) by (eapply IHs; eassumption). subst raw2.
        destruct (remove_null_union_branch 50 raw1); injection Ha as <- <-; injection Hb as <- <-; reflexivity. }
      subst ps2.
      assert (qs1 = qs2).
      { eapply smap_indep; [|exact Q1|exact Q2].
        intros [kr vr] ca cb ya ca' yb cb' _. cbn [fst snd].
        destruct (schema env cf Contextual f1 seen1 None ca kr) as [[ks1 cks1]|e] eqn:Ek1; cbn [bind fst snd]; [|discriminate].
        destruct (schema env cf Contextual f1 seen1 None cks1 vr) as [[vs1 cvs1]|e] eqn:Ev1; cbn [bind fst snd]; [|discriminate].
        intros [= <- <-].
        destruct (schema env cf Contextual f2 seen2 None cb kr) as [[ks2 cks2]|e] eqn:Ek2; cbn [bind fst snd]; [|discriminate].
        destruct (schema env cf Contextual f2 seen2 None cks2 vr) as [[vs2 cvs2]|e] eqn:Ev2; cbn [bind fst snd]; [|discriminate].
        intros [= <- <-].
        assert (ks1 = ks2) by (eapply IHs; eassumption). assert (vs1 = vs2) by (eapply IHs; eassumption). subst. reflexivity. }
      subst qs2.
      destruct qs1 as [|one [|two qs']];
        try (injection H1 as <- <-; injection H2 as <- <-; reflexivity).
      destruct (fold_left _ ps1 []); try (injection H1 as <- <-; injection H2 as <- <-; reflexivity).
      destruct indexed as [|[kr vr] [|ix2 indexed']]; try (injection H1 as <- <-; injection H2 as <- <-; reflexivity).
      destruct (strip_meta_top vr); injection H1 as <- <-; injection H2 as <- <-; reflexivity.
    - (* RRef *)
      destruct (assoc name env) as [target|]; [|discriminate].
      match goal with |- (do c1 <- ?e; _) = _ -> _ => destruct e end; cbn [bind]; [|discriminate].
      intros [= <- <-].
      match goal with |- (do c1 <- ?e; _) = _ -> _ => destruct e end; cbn [bind]; [|discriminate].
      intros [= <- <-]. reflexivity.
    - (* RMeta *)
      intros H1 H2. eapply IH; eassumption.
  Qed.
End C16.

Theorem schema_context_independent :
  forall env cf f1 f2 seen1 seen2 desc c1 c2 r j1 c1' j2 c2',
    hash_stable env ->
    schema env cf Contextual f1 seen1 desc c1 r = Ok (j1, c1') ->
    schema env cf Contextual f2 seen2 desc c2 r = Ok (j2, c2') ->
    j1 = j2.
Proof. intros. eapply schema_indep; eassumption. Qed.

(* ---------- hash() does not depend on the fuel it is given, once it terminates ---------- *)
Lemma map_res_indep {A B} (g1 g2 : A -> res B) l :
  (forall x y1 y2, In x l -> g1 x = Ok y1 -> g2 x = Ok y2 -> y1 = y2) ->
  forall ys1 ys2, map_res g1 l = Ok ys1 -> map_res g2 l = Ok ys2 -> ys1 = ys2.
Proof.
  induction l as [|x l IH]; intros Hg ys1 ys2; cbn.
  - intros [= <-] [= <-]. reflexivity.
  - destruct (g1 x) as [y1|e] eqn:E1; cbn [bind]; [|discriminate].
    destruct (map_res g1 l) as [l1|e] eqn:L1; cbn [bind]; [|discriminate]. intros [= <-].
    destruct (g2 x) as [y2|e] eqn:E2; cbn [bind]; [|discriminate].
    destruct (map_res g2 l) as [l2|e] eqn:L2; cbn [bind]; [|discriminate]. intros [= <-].
    f_equal; [eapply Hg; [left; reflexivity|eassumption|eassumption]|].
    eapply IH; [|reflexivity|reflexivity]. intros; eapply Hg; [right; eassumption|eassumption|eassumption].
Qed.

Lemma hash32_fuel_independent env : forall f1 f2 seen r h1 h2,
    hash32 env f1 seen r = Ok h1 -> hash32 env f2 seen r = Ok h2 -> h1 = h2.
Proof.
  induction f1 as [|f1 IH]; intros f2 seen r h1 h2; [discriminate|].
  destruct f2 as [|f2]; [intros _ H; discriminate H|].
  assert (IHl : forall l ys1 ys2, map_res (hash32 env f1 seen) l = Ok ys1 -> map_res (hash32 env f2 seen) l = Ok ys2 -> ys1 = ys2).
  { intros l ys1 ys2. apply map_res_indep. intros; eapply IH; eassumption. }
  destruct r as [t| |d| |k|items d| | |ctor|fs|fs|cs|prefix rest|rs|rs|item|r1 r2|item|ss disc mapping smapping|t|props indexed|name|d t];
    cbn [hash32].
  - destruct t; intros [= <-] [= <-]; reflexivity.
  - intros [= <-] [= <-]; reflexivity.
  - intros [= <-] [= <-]; reflexivity.
  - intros [= <-] [= <-]; reflexivity.
  - intros [= <-] [= <-]; reflexivity.
  - intros [= <-] [= <-]; reflexivity.
  - intros [= <-] [= <-]; reflexivity.
  - intros [= <-] [= <-]; reflexivity.
  - intros [= <-] [= <-]; reflexivity.
  - intros [= <-] [= <-]; reflexivity.
  - intros [= <-] [= <-]; reflexivity.
  - intros [= <-] [= <-]; reflexivity.
  - (* RTuple *)
    destruct (map_res (hash32 env f1 seen) prefix) as [p1|e] eqn:P1; cbn [bind]; [|discriminate].
    intros H1.
    destruct (map_res (hash32 env f2 seen) prefix) as [p2|e] eqn:P2; cbn [bind]; [|discriminate].
    intros H2. assert (p1 = p2) by (eapply IHl; eassumption). subst p2.
    destruct rest as [rr|].
    + destruct (hash32 env f1 seen rr) as [x1|e] eqn:X1; cbn [bind] in H1; [|discriminate].
      destruct (hash32 env f2 seen rr) as [x2|e] eqn:X2; cbn [bind] in H2; [|discriminate].
      assert (x1 = x2) by (eapply IH; eassumption). subst. congruence.
    + cbn [bind] in H1, H2. congruence.
  - destruct (map_res (hash32 env f1 seen) rs) as [p1|e] eqn:P1; cbn [bind]; [|discriminate]. intros [= <-].
    destruct (map_res (hash32 env f2 seen) rs) as [p2|e] eqn:P2; cbn [bind]; [|discriminate]. intros [= <-].
    assert (p1 = p2) by (eapply IHl; eassumption). subst. reflexivity.
  - destruct (map_res (hash32 env f1 seen) rs) as [p1|e] eqn:P1; cbn [bind]; [|discriminate]. intros [= <-].
    destruct (map_res (hash32 env f2 seen) rs) as [p2|e] eqn:P2; cbn [bind]; [|discriminate]. intros [= <-].
    assert (p1 = p2) by (eapply IHl; eassumption). subst. reflexivity.
  - destruct (hash32 env f1 seen item) as [x1|e] eqn:X1; cbn [bind]; [|discriminate]. intros [= <-].
    destruct (hash32 env f2 seen item) as [x2|e] eqn:X2; cbn [bind]; [|discriminate]. intros [= <-].
    assert (x1 = x2) by (eapply IH; eassumption). subst. reflexivity.
  - destruct (hash32 env f1 seen r1) as [a1|e] eqn:A1; cbn [bind]; [|discriminate].
    destruct (hash32 env f1 seen r2) as [b1|e] eqn:B1; cbn [bind]; [|discriminate]. intros [= <-].
    destruct (hash32 env f2 seen r1) as [a2|e] eqn:A2; cbn [bind]; [|discriminate].
    destruct (hash32 env f2 seen r2) as [b2|e] eqn:B2; cbn [bind]; [|discriminate]. intros [= <-].
    assert (a1 = a2) by (eapply IH; eassumption). assert (b1 = b2) by (eapply IH; eassumption). subst. reflexivity.
  - destruct (hash32 env f1 seen item) as [x1|e] eqn:X1; cbn [bind]; [|discriminate]. intros [= <-].
    destruct (hash32 env f2 seen item) as [x2|e] eqn:X2; cbn [bind]; [|discriminate]. intros [= <-].
    assert (x1 = x2) by (eapply IH; eassumption). subst. reflexivity.
  - destruct (map_res (hash32 env f1 seen) ss) as [p1|e] eqn:P1; cbn [bind]; [|discriminate]. intros [= <-].
    destruct (map_res (hash32 env f2 seen) ss) as [p2|e] eqn:P2; cbn [bind]; [|discriminate]. intros [= <-].
    assert (p1 = p2) by (eapply IHl; eassumption). subst. reflexivity.
  - destruct (hash32 env f1 seen t) as [x1|e] eqn:X1; cbn [bind]; [|discriminate]. intros [= <-].
    destruct (hash32 env f2 seen t) as [x2|e] eqn:X2; cbn [bind]; [|discriminate]. intros [= <-].
    assert (x1 = x2) by (eapply IH; eassumption). subst. reflexivity.
  - (* RObject *)
    match goal with |- (do ps <- map_res ?g1 ?l; _) = _ -> (do ps <- map_res ?g2 ?l; _) = _ -> _ =>
      destruct (map_res g1 l) as [p1|e] eqn:P1; cbn [bind]; [|discriminate];
      destruct (map_res g2 l) as [p2|e] eqn:P2; cbn [bind]; [|intros _ H; discriminate H];
      assert (Hp : p1 = p2)
    end.
    { eapply map_res_indep; [|exact P1|exact P2]. intros k y1 y2 _. cbn beta.
      destruct (assoc k props) as [m|]; [|discriminate].
      destruct (hash32 env f1 seen m) as [x1|e] eqn:X1; cbn [bind]; [|discriminate]. intros [= <-].
      destruct (hash32 env f2 seen m) as [x2|e] eqn:X2; cbn [bind]; [|discriminate]. intros [= <-].
      assert (x1 = x2) by (eapply IH; eassumption). subst. reflexivity. }
    subst p2.
    match goal with |- (do is <- map_res ?g1 ?l; _) = _ -> (do is <- map_res ?g2 ?l; _) = _ -> _ =>
      destruct (map_res g1 l) as [i1|e] eqn:I1; cbn [bind]; [|discriminate];
      destruct (map_res g2 l) as [i2|e] eqn:I2; cbn [bind]; [|intros _ H; discriminate H];
      assert (Hi : i1 = i2)
    end.
    { eapply map_res_indep; [|exact I1|exact I2]. intros [kr vr] y1 y2 _. cbn [fst snd].
      destruct (hash32 env f1 seen kr) as [a1|e] eqn:A1; cbn [bind]; [|discriminate].
      destruct (hash32 env f1 seen vr) as [b1|e] eqn:B1; cbn [bind]; [|discriminate]. intros [= <-].
      destruct (hash32 env f2 seen kr) as [a2|e] eqn:A2; cbn [bind]; [|discriminate].
      destruct (hash32 env f2 seen vr) as [b2|e] eqn:B2; cbn [bind]; [|discriminate]. intros [= <-].
      assert (a1 = a2) by (eapply IH; eassumption). assert (b1 = b2) by (eapply IH; eassumption). subst. reflexivity. }
    subst i2. intros [= <-] [= <-]. reflexivity.
  - (* RRef *)
    destruct (assoc name env) as [target|]; [|discriminate].
    destruct (mem_str name seen); [intros [= <-] [= <-]; reflexivity|]. apply IH.
  - (* RMeta *) apply IH.
Qed.

Lemma hash_is_stable env : hash_stable env.
Proof. unfold hash_stable. intros. eapply hash32_fuel_independent; eassumption. Qed.
