(* Proofs/Bdd.v — union / intersect / diff / complement / from_node are exact Boolean operations, for every
   diagram and every truth assignment; bdd_to_dnf and dnf_to_bdd preserve the meaning. *)
From Beff Require Import Model.Bdd.

Lemma atom_eqb_eq a b : atom_eqb a b = true -> a = b.
Proof.
  unfold atom_eqb. intros H. apply andb_prop in H as [Hk Hi].
  apply N.eqb_eq in Hk, Hi. destruct a as [ka ia], b as [kb ib]. cbn in *. subst.
  destruct ka, kb; cbn in Hk; try discriminate; reflexivity.
Qed.

Lemma bdd_eqb_eq x : forall y, bdd_eqb x y = true -> x = y.
Proof.
  induction x as [| |a l IHl m IHm r IHr]; intros [| |a' l' m' r']; cbn; try discriminate; try reflexivity.
  intros H. apply andb_prop in H as [H Hr]. apply andb_prop in H as [H Hm]. apply andb_prop in H as [Ha Hl].
  apply atom_eqb_eq in Ha. f_equal; auto.
Qed.

Section Semantics.
  Variable rho : atom -> bool.
  Notation ev := (eval rho).

  Ltac bool_taut :=
    repeat match goal with
           | |- context [rho ?a] => destruct (rho a)
           | |- context [ev ?b] => destruct (ev b)
           end; reflexivity.

  Definition node_meaning (a : atom) (l m r : bdd) : bool :=
    (rho a && ev l) || ev m || (negb (rho a) && ev r).

  Definition union_ok (f : nat) : Prop :=
    forall b1 b2 b, union f b1 b2 = Some b -> ev b = ev b1 || ev b2.

  Lemma from_node_inner_ok f a l m r b :
    union_ok f ->
    match m with
    | BTrue => Some BTrue
    | _ => if bdd_eqb l r then union f l m else Some (BNode a l m r)
    end = Some b ->
    ev b = node_meaning a l m r.
  Proof.
    intros U. unfold node_meaning.
    assert (G : (if bdd_eqb l r then union f l m else Some (BNode a l m r)) = Some b ->
                ev b = rho a && ev l || ev m || negb (rho a) && ev r).
    { destruct (bdd_eqb l r) eqn:E.
      - apply bdd_eqb_eq in E. subst r. intros H. rewrite (U _ _ _ H). bool_taut.
      - intros [= <-]. reflexivity. }
    destruct m; auto.
    intros [= <-]. cbn. rewrite orb_true_r. reflexivity.
  Qed.

  Lemma atom_cmp_eq a b : atom_cmp a b = Eq -> a = b.
  Proof.
    unfold atom_cmp. destruct (N.compare (akind_code (ak a)) (akind_code (ak b))) eqn:E; try discriminate.
    intros H. apply N.compare_eq in E, H. destruct a as [ka ia], b as [kb ib]. cbn in *. subst.
    destruct ka, kb; cbn in E; try discriminate; reflexivity.
  Qed.

  Ltac finish :=
    cbn [eval];
    repeat match goal with
           | |- context [rho ?a] => destruct (rho a)
           | |- context [eval rho ?b] => destruct (eval rho b)
           end; reflexivity.

  Ltac step U :=
    match goal with
    | |- obind ?x _ = Some _ -> _ =>
        let y := fresh "y" in let E := fresh "E" in
        destruct x as [y|] eqn:E; cbn [obind]; [|discriminate]
    end.

  Lemma union_sound : forall f, union_ok f.
  Proof.
    induction f as [|f IH]; intros b1 b2 b; [discriminate|].
    cbn [union].
    destruct (bdd_eqb b1 b2) eqn:E.
    { apply bdd_eqb_eq in E. subst. intros [= <-]. destruct (ev b2); reflexivity. }
    destruct b1 as [| |a1 l1 m1 r1]; [intros [= <-]; reflexivity|intros [= <-]; reflexivity|].
    destruct b2 as [| |a2 l2 m2 r2]; [intros [= <-]; cbn; rewrite orb_true_r; reflexivity
                                     |intros [= <-]; cbn; rewrite orb_false_r; reflexivity|].
    destruct (atom_cmp a1 a2) eqn:C.
    - apply atom_cmp_eq in C. subst a2.
      destruct (union f l1 l2) as [l|] eqn:El; cbn [obind]; [|discriminate].
      destruct (union f m1 m2) as [m|] eqn:Em; cbn [obind]; [|discriminate].
      destruct (union f r1 r2) as [r|] eqn:Er; cbn [obind]; [|discriminate].
      intros H. rewrite (from_node_inner_ok _ _ _ _ _ _ IH H). unfold node_meaning.
      rewrite (IH _ _ _ El), (IH _ _ _ Em), (IH _ _ _ Er). finish.
    - destruct (union f m1 (BNode a2 l2 m2 r2)) as [m|] eqn:Em; cbn [obind]; [|discriminate].
      intros H. rewrite (from_node_inner_ok _ _ _ _ _ _ IH H). unfold node_meaning.
      rewrite (IH _ _ _ Em). finish.
    - destruct (union f (BNode a1 l1 m1 r1) m2) as [m|] eqn:Em; cbn [obind]; [|discriminate].
      intros H. rewrite (from_node_inner_ok _ _ _ _ _ _ IH H). unfold node_meaning.
      rewrite (IH _ _ _ Em). finish.
  Qed.

  Lemma from_node_sound f a l m r b : from_node f a l m r = Some b -> ev b = node_meaning a l m r.
  Proof. intros H. eapply from_node_inner_ok; [apply union_sound|exact H]. Qed.

  Lemma intersect_sound : forall f b1 b2 b, intersect f b1 b2 = Some b -> ev b = ev b1 && ev b2.
  Proof.
    induction f as [|f IH]; intros b1 b2 b; [discriminate|].
    cbn [intersect].
    destruct (bdd_eqb b1 b2) eqn:E.
    { apply bdd_eqb_eq in E. subst. intros [= <-]. destruct (ev b2); reflexivity. }
    destruct b1 as [| |a1 l1 m1 r1]; [intros [= <-]; reflexivity|intros [= <-]; reflexivity|].
    destruct b2 as [| |a2 l2 m2 r2]; [intros [= <-]; cbn; rewrite andb_true_r; reflexivity
                                     |intros [= <-]; cbn; rewrite andb_false_r; reflexivity|].
    destruct (atom_cmp a1 a2) eqn:C.
    - apply atom_cmp_eq in C. subst a2.
      destruct (union f l1 m1) as [x1|] eqn:X1; cbn [obind]; [|discriminate].
      destruct (union f l2 m2) as [x2|] eqn:X2; cbn [obind]; [|discriminate].
      destruct (intersect f x1 x2) as [l|] eqn:El; cbn [obind]; [|discriminate].
      destruct (union f r1 m1) as [y1|] eqn:Y1; cbn [obind]; [|discriminate].
      destruct (union f r2 m2) as [y2|] eqn:Y2; cbn [obind]; [|discriminate].
      destruct (intersect f y1 y2) as [r|] eqn:Er; cbn [obind]; [|discriminate].
      intros H. rewrite (from_node_sound _ _ _ _ _ _ H). unfold node_meaning.
      rewrite (IH _ _ _ El), (IH _ _ _ Er).
      rewrite (union_sound _ _ _ _ X1), (union_sound _ _ _ _ X2), (union_sound _ _ _ _ Y1), (union_sound _ _ _ _ Y2).
      finish.
    - destruct (intersect f l1 (BNode a2 l2 m2 r2)) as [l|] eqn:El; cbn [obind]; [|discriminate].
      destruct (intersect f m1 (BNode a2 l2 m2 r2)) as [m|] eqn:Em; cbn [obind]; [|discriminate].
      destruct (intersect f r1 (BNode a2 l2 m2 r2)) as [r|] eqn:Er; cbn [obind]; [|discriminate].
      intros H. rewrite (from_node_sound _ _ _ _ _ _ H). unfold node_meaning.
      rewrite (IH _ _ _ El), (IH _ _ _ Em), (IH _ _ _ Er). finish.
    - destruct (intersect f (BNode a1 l1 m1 r1) l2) as [l|] eqn:El; cbn [obind]; [|discriminate].
      destruct (intersect f (BNode a1 l1 m1 r1) m2) as [m|] eqn:Em; cbn [obind]; [|discriminate].
      destruct (intersect f (BNode a1 l1 m1 r1) r2) as [r|] eqn:Er; cbn [obind]; [|discriminate].
      intros H. rewrite (from_node_sound _ _ _ _ _ _ H). unfold node_meaning.
      rewrite (IH _ _ _ El), (IH _ _ _ Em), (IH _ _ _ Er). finish.
  Qed.

  Lemma complement_sound : forall f b c, complement f b = Some c -> ev c = negb (ev b).
  Proof.
    induction f as [|f IH]; intros b c; [discriminate|].
    cbn [complement]. destruct b as [| |a l m r]; [intros [= <-]; reflexivity|intros [= <-]; reflexivity|].
    destruct (bdd_eqb r BFalse) eqn:Er.
    { apply bdd_eqb_eq in Er. subst r.
      destruct (union f l m) as [lm|] eqn:U1; cbn [obind]; [|discriminate].
      destruct (complement f lm) as [x|] eqn:C1; cbn [obind]; [|discriminate].
      destruct (complement f m) as [y|] eqn:C2; cbn [obind]; [|discriminate].
      intros H. rewrite (from_node_sound _ _ _ _ _ _ H). unfold node_meaning.
      rewrite (IH _ _ C1), (IH _ _ C2), (union_sound _ _ _ _ U1). finish. }
    destruct (bdd_eqb l BFalse) eqn:El.
    { apply bdd_eqb_eq in El. subst l.
      destruct (complement f m) as [x|] eqn:C1; cbn [obind]; [|discriminate].
      destruct (union f r m) as [rm|] eqn:U1; cbn [obind]; [|discriminate].
      destruct (complement f rm) as [y|] eqn:C2; cbn [obind]; [|discriminate].
      intros H. rewrite (from_node_sound _ _ _ _ _ _ H). unfold node_meaning.
      rewrite (IH _ _ C1), (IH _ _ C2), (union_sound _ _ _ _ U1). finish. }
    destruct (bdd_eqb m BFalse) eqn:Em.
    { apply bdd_eqb_eq in Em. subst m.
      destruct (complement f l) as [x|] eqn:C1; cbn [obind]; [|discriminate].
      destruct (union f l r) as [lr|] eqn:U1; cbn [obind]; [|discriminate].
      destruct (complement f lr) as [y|] eqn:C2; cbn [obind]; [|discriminate].
      destruct (complement f r) as [z|] eqn:C3; cbn [obind]; [|discriminate].
      intros H. rewrite (from_node_sound _ _ _ _ _ _ H). unfold node_meaning.
      rewrite (IH _ _ C1), (IH _ _ C2), (IH _ _ C3), (union_sound _ _ _ _ U1). finish. }
    destruct (union f l m) as [lm|] eqn:U1; cbn [obind]; [|discriminate].
    destruct (complement f lm) as [x|] eqn:C1; cbn [obind]; [|discriminate].
    destruct (union f r m) as [rm|] eqn:U2; cbn [obind]; [|discriminate].
    destruct (complement f rm) as [z|] eqn:C2; cbn [obind]; [|discriminate].
    intros H. rewrite (from_node_sound _ _ _ _ _ _ H). unfold node_meaning.
    rewrite (IH _ _ C1), (IH _ _ C2), (union_sound _ _ _ _ U1), (union_sound _ _ _ _ U2). finish.
  Qed.

  Lemma diff_sound : forall f b1 b2 b, diff f b1 b2 = Some b -> ev b = ev b1 && negb (ev b2).
  Proof.
    induction f as [|f IH]; intros b1 b2 b; [discriminate|].
    cbn [diff].
    destruct (bdd_eqb b1 b2) eqn:E.
    { apply bdd_eqb_eq in E. subst. intros [= <-]. destruct (ev b2); reflexivity. }
    destruct b2 as [| |a2 l2 m2 r2].
    { destruct b1; intros [= <-]; cbn; rewrite ?andb_false_r; reflexivity. }
    { destruct b1; intros [= <-]; cbn; rewrite ?andb_true_r; reflexivity. }
    destruct b1 as [| |a1 l1 m1 r1].
    { intros H. rewrite (complement_sound _ _ _ H). reflexivity. }
    { intros [= <-]. reflexivity. }
    destruct (atom_cmp a1 a2) eqn:C.
    - apply atom_cmp_eq in C. subst a2.
      destruct (union f l1 m1) as [x1|] eqn:X1; cbn [obind]; [|discriminate].
      destruct (union f l2 m2) as [x2|] eqn:X2; cbn [obind]; [|discriminate].
      destruct (diff f x1 x2) as [l|] eqn:El; cbn [obind]; [|discriminate].
      destruct (union f r1 m1) as [y1|] eqn:Y1; cbn [obind]; [|discriminate].
      destruct (union f r2 m2) as [y2|] eqn:Y2; cbn [obind]; [|discriminate].
      destruct (diff f y1 y2) as [r|] eqn:Er; cbn [obind]; [|discriminate].
      intros H. rewrite (from_node_sound _ _ _ _ _ _ H). unfold node_meaning.
      rewrite (IH _ _ _ El), (IH _ _ _ Er).
      rewrite (union_sound _ _ _ _ X1), (union_sound _ _ _ _ X2), (union_sound _ _ _ _ Y1), (union_sound _ _ _ _ Y2).
      finish.
    - destruct (union f l1 m1) as [x|] eqn:X1; cbn [obind]; [|discriminate].
      destruct (diff f x (BNode a2 l2 m2 r2)) as [l|] eqn:El; cbn [obind]; [|discriminate].
      destruct (union f r1 m1) as [y|] eqn:Y1; cbn [obind]; [|discriminate].
      destruct (diff f y (BNode a2 l2 m2 r2)) as [r|] eqn:Er; cbn [obind]; [|discriminate].
      intros H. rewrite (from_node_sound _ _ _ _ _ _ H). unfold node_meaning.
      rewrite (IH _ _ _ El), (IH _ _ _ Er), (union_sound _ _ _ _ X1), (union_sound _ _ _ _ Y1). finish.
    - destruct (union f l2 m2) as [x|] eqn:X1; cbn [obind]; [|discriminate].
      destruct (diff f (BNode a1 l1 m1 r1) x) as [l|] eqn:El; cbn [obind]; [|discriminate].
      destruct (union f r2 m2) as [y|] eqn:Y1; cbn [obind]; [|discriminate].
      destruct (diff f (BNode a1 l1 m1 r1) y) as [r|] eqn:Er; cbn [obind]; [|discriminate].
      intros H. rewrite (from_node_sound _ _ _ _ _ _ H). unfold node_meaning.
      rewrite (IH _ _ _ El), (IH _ _ _ Er), (union_sound _ _ _ _ X1), (union_sound _ _ _ _ Y1). finish.
  Qed.

  (* ---------- DNF ---------- *)
  Lemma eval_dnf_app d1 d2 : eval_dnf rho (d1 ++ d2) = eval_dnf rho d1 || eval_dnf rho d2.
  Proof. unfold eval_dnf. apply existsb_app. Qed.

  Lemma to_dnf_sound b : forall pos neg,
      eval_dnf rho (to_dnf pos neg b) = forallb rho pos && forallb (fun a => negb (rho a)) neg && ev b.
  Proof.
    induction b as [| |a l IHl m IHm r IHr]; intros pos neg; cbn [to_dnf eval].
    - cbn. unfold eval_conj. cbn. rewrite orb_false_r, andb_true_r. reflexivity.
    - cbn. rewrite andb_false_r. reflexivity.
    - rewrite !eval_dnf_app, IHm, IHl, IHr. rewrite !forallb_app. cbn [forallb]. rewrite !andb_true_r.
      destruct (forallb rho pos), (forallb (fun a0 => negb (rho a0)) neg), (rho a), (ev l), (ev m), (ev r); reflexivity.
  Qed.

  Theorem bdd_to_dnf_sound b : eval_dnf rho (bdd_to_dnf b) = ev b.
  Proof. unfold bdd_to_dnf. rewrite to_dnf_sound. reflexivity. Qed.

  Lemma from_atom_eval a : ev (from_atom a) = rho a.
  Proof. cbn. destruct (rho a); reflexivity. Qed.

  Lemma pos_fold_sound f ps : forall acc b,
      fold_left (fun cb a => obind cb (fun x => intersect f x (from_atom a))) ps (Some acc) = Some b ->
      ev b = ev acc && forallb rho ps.
  Proof.
    induction ps as [|a ps IH]; intros acc b; cbn [fold_left forallb].
    - intros [= <-]. rewrite andb_true_r. reflexivity.
    - cbn [obind]. destruct (intersect f acc (from_atom a)) as [x|] eqn:E.
      + intros H. rewrite (IH _ _ H), (intersect_sound _ _ _ _ E), from_atom_eval, andb_assoc. reflexivity.
      + intros H. exfalso. clear -H. induction ps; cbn in H; [discriminate|auto].
  Qed.

  Lemma neg_fold_sound f ns : forall acc b,
      fold_left (fun cb a => obind cb (fun x => obind (complement f (from_atom a)) (fun na => intersect f x na)))
                ns (Some acc) = Some b ->
      ev b = ev acc && forallb (fun a => negb (rho a)) ns.
  Proof.
    induction ns as [|a ns IH]; intros acc b; cbn [fold_left forallb].
    - intros [= <-]. rewrite andb_true_r. reflexivity.
    - cbn [obind]. destruct (complement f (from_atom a)) as [na|] eqn:C; cbn [obind].
      + destruct (intersect f acc na) as [x|] eqn:E.
        * intros H. rewrite (IH _ _ H), (intersect_sound _ _ _ _ E), (complement_sound _ _ _ C), from_atom_eval, andb_assoc.
          reflexivity.
        * intros H. exfalso. clear -H. induction ns; cbn in H; [discriminate|auto].
      + intros H. exfalso. clear -H. induction ns; cbn in H; [discriminate|auto].
  Qed.

  Theorem dnf_to_bdd_sound f d b : dnf_to_bdd f d = Some b -> ev b = eval_dnf rho d.
  Proof.
    unfold dnf_to_bdd.
    assert (G : forall acc,
               fold_left (fun acc c =>
                 obind acc (fun b0 =>
                 obind (fold_left (fun cb a => obind cb (fun x => intersect f x (from_atom a))) (fst c) (Some BTrue)) (fun cb1 =>
                 obind (fold_left (fun cb a => obind cb (fun x => obind (complement f (from_atom a)) (fun na => intersect f x na)))
                                  (snd c) (Some cb1)) (fun cb2 => union f b0 cb2)))) d (Some acc) = Some b ->
               ev b = ev acc || eval_dnf rho d).
    { induction d as [|c d IH]; intros acc; cbn [fold_left eval_dnf existsb].
      - intros [= <-]. rewrite orb_false_r. reflexivity.
      - cbn [obind].
        destruct (fold_left _ (fst c) (Some BTrue)) as [cb1|] eqn:P; cbn [obind].
        + destruct (fold_left _ (snd c) (Some cb1)) as [cb2|] eqn:N; cbn [obind].
          * destruct (union f acc cb2) as [u|] eqn:U.
            -- intros H. rewrite (IH _ H), (union_sound _ _ _ _ U).
               rewrite (neg_fold_sound _ _ _ _ N), (pos_fold_sound _ _ _ _ P). cbn [eval]. unfold eval_conj.
               rewrite orb_assoc. reflexivity.
            -- intros H. exfalso. clear -H. induction d; cbn in H; [discriminate|auto].
          * intros H. exfalso. clear -H. induction d; cbn in H; [discriminate|auto].
        + intros H. exfalso. clear -H. induction d; cbn in H; [discriminate|auto]. }
    intros H. rewrite (G _ H). reflexivity.
  Qed.
End Semantics.
