(* SemWf.v — difference and intersection of well-formed semantic types are well-formed (wf2 of Proofs/SemOps.v):
   the proper subtypes stay sorted by tag, stay in the fragment, and never share a tag with the `all` bits. *)
From Beff Require Import Model.SemSpec Proofs.ResLemmas Proofs.SemOps.

Definition ptag (pr : option proper * option proper) : stag :=
  match pr with (Some p, _) => proper_tag p | (None, Some q) => proper_tag q | (None, None) => TgBoolean end.
Definition pcode (pr : option proper * option proper) : N := stag_code (ptag pr).

Fixpoint sorted_above (bits lb : N) (ps : list (option proper * option proper)) : Prop :=
  match ps with
  | [] => True
  | pr :: ps' => (lb < pcode pr)%N /\ has_bit bits (pcode pr) = true /\ sorted_above bits (pcode pr) ps'
  end.

Lemma inc_cons' p l : codes_increasing (p :: l) = true ->
  (forall q, In q l -> (proper_code p < proper_code q)%N) /\ codes_increasing l = true.
Proof.
  cbn [codes_increasing]. intros H. apply andb_prop in H as [H1 H2]. split; [|exact H2].
  intros q Hq. rewrite forallb_forall in H1. apply N.ltb_lt. apply H1. exact Hq.
Qed.

Lemma pair_iter_sorted bits : forall l1 l2 lb,
  codes_increasing l1 = true -> codes_increasing l2 = true ->
  (forall p, In p l1 -> (lb < proper_code p)%N) -> (forall q, In q l2 -> (lb < proper_code q)%N) ->
  sorted_above bits lb (pair_iter bits l1 l2).
Proof.
  induction l1 as [|d1 l1 IH1].
  - induction l2 as [|d2 l2 IH2]; intros lb I1 I2 B1 B2; [rewrite pi_nil_nil; exact I|].
    rewrite pi_nil_cons. destruct (inc_cons' _ _ I2) as [A2 I2'].
    destruct (has_bit bits (proper_code d2)) eqn:Eb.
    + cbn [sorted_above]. unfold pcode at 1 2. cbn [ptag]. fold (proper_code d2). split; [apply B2; left; reflexivity|]. split; [exact Eb|].
      unfold pcode. cbn [ptag]. fold (proper_code d2). apply IH2; auto. intros p [].
    + apply IH2; auto. intros q Hq. apply B2. right. exact Hq.
  - induction l2 as [|d2 l2 IH2]; intros lb I1 I2 B1 B2; destruct (inc_cons' _ _ I1) as [A1 I1'].
    + rewrite pi_cons_nil. destruct (has_bit bits (proper_code d1)) eqn:Eb.
      * cbn [sorted_above]. unfold pcode. cbn [ptag]. fold (proper_code d1). split; [apply B1; left; reflexivity|]. split; [exact Eb|].
        apply IH1; auto. intros q [].
      * apply IH1; auto. intros p Hp. apply B1. right. exact Hp.
    + destruct (inc_cons' _ _ I2) as [A2 I2']. rewrite pi_cons_cons.
      destruct (N.compare_spec (proper_code d1) (proper_code d2)) as [Heq|Hlt|Hgt].
      * destruct (has_bit bits (proper_code d1)) eqn:Eb.
        -- cbn [sorted_above]. unfold pcode. cbn [ptag]. fold (proper_code d1). split; [apply B1; left; reflexivity|]. split; [exact Eb|].
           apply IH1; auto. intros q Hq. rewrite Heq. apply A2. exact Hq.
        -- apply IH1; auto; [intros p Hp; apply B1; right; exact Hp|intros q Hq; apply B2; right; exact Hq].
      * destruct (has_bit bits (proper_code d1)) eqn:Eb.
        -- cbn [sorted_above]. unfold pcode. cbn [ptag]. fold (proper_code d1). split; [apply B1; left; reflexivity|]. split; [exact Eb|].
           apply IH1; auto. intros q [<-|Hq]; [exact Hlt|]. specialize (A2 q Hq). lia.
        -- apply IH1; auto. intros p Hp. apply B1. right. exact Hp.
      * destruct (has_bit bits (proper_code d2)) eqn:Eb.
        -- cbn [sorted_above]. unfold pcode. cbn [ptag]. fold (proper_code d2). split; [apply B2; left; reflexivity|]. split; [exact Eb|].
           apply IH2; auto. intros p [<-|Hp]; [exact Hgt|]. specialize (A1 p Hp). lia.
        -- apply IH2; auto. intros q Hq. apply B2. right. exact Hq.
Qed.

Lemma code_lt_neq g h : (stag_code g < stag_code h)%N -> stag_eqb g h = false.
Proof.
  intros H. destruct (stag_eqb g h) eqn:E; [|reflexivity]. apply stag_eqb_eq in E. subst. lia.
Qed.

Lemma inc_snoc d p : codes_increasing d = true -> (forall q, In q d -> (proper_code q < proper_code p)%N) -> codes_increasing (d ++ [p]) = true.
Proof.
  induction d as [|x d IH]; intros I B; [reflexivity|]. cbn [app codes_increasing]. destruct (inc_cons' _ _ I) as [A I'].
  apply andb_true_intro. split.
  - apply forallb_forall. intros q Hq. apply in_app_or in Hq as [Hq|[<-|[]]]; apply N.ltb_lt; [apply A; exact Hq|apply B; left; reflexivity].
  - apply IH; [exact I'|]. intros q Hq. apply B. right. exact Hq.
Qed.

(* what one step may produce *)
Definition step_ok (f : option proper * option proper -> res (option subtype)) (pr : option proper * option proper) : Prop :=
  forall s, f pr = Ok (Some s) ->
    match s with
    | SProper p => proper_tag p = ptag pr /\ pfrag p = true
    | STrue g => g = ptag pr
    | SFalse _ => True
    end.

Lemma collect_wf f add : forall ps lb a0 d0 a d,
  sorted_above 0 lb ps \/ True ->
  forall bits, sorted_above bits lb ps -> (forall pr, In pr ps -> step_ok f pr) ->
  fold_left (collect_step f add) ps (Ok (a0, d0)) = Ok (a, d) ->
  codes_increasing d0 = true -> (forall p, In p d0 -> (proper_code p <= lb)%N) -> (forall p, In p d0 -> pfrag p = true) ->
  (forall p, In p d0 -> has_bit a0 (proper_code p) = false) -> (forall pr, In pr ps -> has_bit a0 (pcode pr) = false) ->
  codes_increasing d = true /\ (forall p, In p d -> pfrag p = true) /\ (forall p, In p d -> has_bit a (proper_code p) = false).
Proof.
  induction ps as [|pr ps IH]; intros lb a0 d0 a d _ bits S Hf H I0 B0 F0 D0 P0; cbn [fold_left] in H.
  - inversion H; subst. auto.
  - cbn [sorted_above] in S. destruct S as (Hlb & _ & S').
    assert (Later : forall pr', In pr' ps -> (pcode pr < pcode pr')%N).
    { clear -S'. revert S'. generalize (pcode pr). induction ps as [|x ps IHp]; intros c S pr' Hin; [contradiction|].
      cbn [sorted_above] in S. destruct S as (H1 & _ & S2). destruct Hin as [<-|Hin]; [exact H1|]. specialize (IHp _ S2 pr' Hin). lia. }
    unfold collect_step at 2 in H. cbn [bind] in H.
    pose proof (Hf pr (or_introl eq_refl)) as Hs. unfold step_ok in Hs.
    destruct (f pr) as [[[g|g|q]|]|e] eqn:Ef; cbn [bind fst snd] in H; try (rewrite fold_throw in H; discriminate H).
    + (* SFalse *)
      apply (IH (pcode pr) a0 d0 a d (or_intror I) bits S');
        [intros pr' Hin; apply Hf; right; exact Hin|exact H|exact I0|intros p Hp; specialize (B0 p Hp); lia|exact F0|exact D0|
         intros pr' Hin; apply P0; right; exact Hin].
    + (* STrue *)
      specialize (Hs _ eq_refl). cbn in Hs. subst g.
      destruct add.
      * apply (IH (pcode pr) (N.lor a0 (stag_code (ptag pr))) d0 a d (or_intror I) bits S');
          [intros pr' Hin; apply Hf; right; exact Hin|exact H|exact I0|intros p Hp; specialize (B0 p Hp); lia|exact F0| |].
        -- intros p Hp. pose proof (D0 p Hp) as Dp. pose proof (B0 p Hp) as Bp. unfold proper_code, pcode in *.
           rewrite has_bit_lor, Dp, has_bit_code. cbn [orb]. rewrite stag_eqb_sym. apply code_lt_neq. lia.
        -- intros pr' Hin. pose proof (P0 pr' (or_intror Hin)) as Pp. pose proof (Later pr' Hin) as Lp. unfold pcode in *.
           rewrite has_bit_lor, Pp, has_bit_code. cbn [orb]. apply code_lt_neq. exact Lp.
      * apply (IH (pcode pr) a0 d0 a d (or_intror I) bits S');
          [intros pr' Hin; apply Hf; right; exact Hin|exact H|exact I0|intros p Hp; specialize (B0 p Hp); lia|exact F0|exact D0|
           intros pr' Hin; apply P0; right; exact Hin].
    + (* SProper *)
      specialize (Hs _ eq_refl). cbn in Hs. destruct Hs as [Tq Fq].
      assert (Cq : proper_code q = pcode pr) by (unfold proper_code, pcode; rewrite Tq; reflexivity).
      apply (IH (pcode pr) a0 (d0 ++ [q]) a d (or_intror I) bits S');
        [intros pr' Hin; apply Hf; right; exact Hin|exact H| | | | |intros pr' Hin; apply P0; right; exact Hin].
      * apply inc_snoc; [exact I0|]. intros p Hp. specialize (B0 p Hp). lia.
      * intros p Hp. apply in_app_or in Hp as [Hp|[<-|[]]]; [specialize (B0 p Hp); lia|lia].
      * intros p Hp. apply in_app_or in Hp as [Hp|[<-|[]]]; [apply F0; exact Hp|exact Fq].
      * intros p Hp. apply in_app_or in Hp as [Hp|[<-|[]]]; [apply D0; exact Hp|]. rewrite Cq. apply P0. left. reflexivity.
    + (* None *)
      apply (IH (pcode pr) a0 d0 a d (or_intror I) bits S');
        [intros pr' Hin; apply Hf; right; exact Hin|exact H|exact I0|intros p Hp; specialize (B0 p Hp); lia|exact F0|exact D0|
         intros pr' Hin; apply P0; right; exact Hin].
Qed.

Lemma sorted_above_bits bits : forall ps lb, sorted_above bits lb ps -> forall pr, In pr ps -> has_bit bits (pcode pr) = true.
Proof.
  induction ps as [|x ps IH]; intros lb S pr Hin; [contradiction|]. cbn [sorted_above] in S. destruct S as (_ & Hb & S').
  destruct Hin as [<-|Hin]; [exact Hb|apply (IH _ S' pr Hin)].
Qed.

Lemma stag_code_pos g : (0 < stag_code g)%N.
Proof. destruct g; vm_compute; reflexivity. Qed.

Lemma wf2_nil a : wf2 (mkSem a []) = true.
Proof. reflexivity. Qed.

Lemma step_ok_diff bits t1 t2 pr : wf2 t1 = true -> wf2 t2 = true -> In pr (pair_iter bits (st_data t1) (st_data t2)) -> step_ok f_diff pr.
Proof.
  intros W1 W2 Hin. destruct (wf2_parts t1 W1) as [_ F1]. destruct (wf2_parts t2 W2) as [_ F2].
  destruct pr as [o1 o2]. destruct (pair_iter_in _ _ _ _ _ Hin) as (A & B & C).
  intros s Hf. destruct o1 as [d1|], o2 as [d2|]; cbn [f_diff] in Hf.
  - destruct (proper_diff d1 d2) as [s0|e] eqn:Es; cbn [bind] in Hf; [|discriminate Hf]. inversion Hf; subst s0.
    pose proof (code_eq_tag _ _ (C d1 d2 eq_refl eq_refl)) as Ht.
    destruct (proper_diff_spec d1 d2 _ (F1 d1 (A d1 eq_refl)) (F2 d2 (B d2 eq_refl)) Ht Es) as [Hok _].
    destruct s; cbn [sub_ok ptag] in *; auto.
  - inversion Hf; subst s. cbn [ptag]. split; [reflexivity|apply F1; apply A; reflexivity].
  - destruct (proper_complement d2) as [c|e] eqn:Ec; cbn [bind] in Hf; [|discriminate Hf]. inversion Hf; subst s.
    destruct (proper_complement_spec d2 c (F2 d2 (B d2 eq_refl)) Ec) as (Tp & Fp & _). cbn [ptag]. auto.
  - discriminate Hf.
Qed.

Lemma step_ok_inter bits t1 t2 pr : wf2 t1 = true -> wf2 t2 = true -> In pr (pair_iter bits (st_data t1) (st_data t2)) -> step_ok f_inter pr.
Proof.
  intros W1 W2 Hin. destruct (wf2_parts t1 W1) as [_ F1]. destruct (wf2_parts t2 W2) as [_ F2].
  destruct pr as [o1 o2]. destruct (pair_iter_in _ _ _ _ _ Hin) as (A & B & C).
  intros s Hf. destruct o1 as [d1|], o2 as [d2|]; cbn [f_inter] in Hf.
  - destruct (proper_intersect d1 d2) as [s0|e] eqn:Es; cbn [bind] in Hf; [|discriminate Hf]. inversion Hf; subst s0.
    pose proof (code_eq_tag _ _ (C d1 d2 eq_refl eq_refl)) as Ht.
    destruct (proper_intersect_spec d1 d2 _ (F1 d1 (A d1 eq_refl)) (F2 d2 (B d2 eq_refl)) Ht Es) as [Hok _].
    destruct s; cbn [sub_ok ptag] in *; auto.
  - inversion Hf; subst s. cbn [ptag]. split; [reflexivity|apply F1; apply A; reflexivity].
  - inversion Hf; subst s. cbn [ptag]. split; [reflexivity|apply F2; apply B; reflexivity].
  - discriminate Hf.
Qed.

Lemma collect_result_wf f add bits all0 t1 t2 t :
  wf2 t1 = true -> wf2 t2 = true ->
  (forall pr, In pr (pair_iter bits (st_data t1) (st_data t2)) -> step_ok f pr) ->
  (forall g, has_bit bits (stag_code g) = true -> has_bit all0 (stag_code g) = false) ->
  sem_collect (pair_iter bits (st_data t1) (st_data t2)) f all0 add = Ok t -> wf2 t = true.
Proof.
  intros W1 W2 Hf Hdis Hc. destruct (wf2_parts t1 W1) as [I1 _]. destruct (wf2_parts t2 W2) as [I2 _].
  unfold sem_collect in Hc.
  match type of Hc with (do r <- fold_left _ ?ps (Ok (?a0, [])); _) = _ =>
    change (fold_left _ ps (Ok (a0, []))) with (fold_left (collect_step f add) ps (Ok (a0, []))) in Hc;
    destruct (fold_left (collect_step f add) ps (Ok (a0, []))) as [[a d]|e] eqn:E; cbn [bind] in Hc; [|discriminate Hc]
  end.
  inversion Hc; subst t. cbn [fst snd].
  assert (S : sorted_above bits 0 (pair_iter bits (st_data t1) (st_data t2))).
  { apply pair_iter_sorted; auto; intros p _; apply stag_code_pos. }
  destruct (collect_wf f add _ 0%N all0 [] a d (or_intror I) bits S Hf E eq_refl) as (R1 & R2 & R3).
  - intros p [].
  - intros p [].
  - intros p [].
  - intros pr Hin. apply Hdis. apply (sorted_above_bits bits _ _ S pr Hin).
  - unfold wf2. cbn [st_data st_all]. rewrite R1. cbn [andb]. apply andb_true_intro. split.
    + apply forallb_forall. exact R2.
    + apply forallb_forall. intros p Hp. rewrite (R3 p Hp). reflexivity.
Qed.

Theorem wf2_diff t1 t2 t : wf2 t1 = true -> wf2 t2 = true -> sem_diff t1 t2 = Ok t -> wf2 t = true.
Proof.
  intros W1 W2 Hd. destruct (sem_diff_is_collect t1 t2 t Hd) as [[_ ->]|[_ Hc]]; [apply wf2_nil|].
  eapply collect_result_wf; [exact W1|exact W2| | |exact Hc].
  - intros pr Hin. exact (step_ok_diff _ t1 t2 pr W1 W2 Hin).
  - intros g Hb. rewrite has_bit_land, has_bit_not in Hb. apply andb_prop in Hb as [_ Hb]. apply Bool.negb_true_iff in Hb. exact Hb.
Qed.

Theorem wf2_intersect t1 t2 t : wf2 t1 = true -> wf2 t2 = true -> sem_intersect t1 t2 = Ok t -> wf2 t = true.
Proof.
  intros W1 W2 Hd. destruct (sem_intersect_is_collect t1 t2 t Hd) as [[_ ->]|[_ Hc]]; [apply wf2_nil|].
  eapply collect_result_wf; [exact W1|exact W2| | |exact Hc].
  - intros pr Hin. exact (step_ok_inter _ t1 t2 pr W1 W2 Hin).
  - intros g Hb. rewrite has_bit_land, has_bit_not in Hb. apply andb_prop in Hb as [_ Hb]. apply Bool.negb_true_iff in Hb. exact Hb.
Qed.
