(* ListCompleteTop.v — list_is_empty is complete for types whose structural components are lists only: when the procedure
   answers "not assignable", some value is in the first type and not in the second.  With ListSoundTop.v: on that
   fragment assignability is exactly inclusion of the denoted sets. *)
From Beff Require Import Model.ListSpec Proofs.ResLemmas Proofs.SemOps Proofs.SemWf Proofs.ListSound Proofs.ListSoundTop Proofs.ListComplete.

(* a "not empty" answer of the walk comes from one path; every valuation that agrees with the path satisfies the diagram *)
Lemma bdd_every_complete pred : forall b p n, bdd_every pred b p n = Ok false ->
  exists p' n', pred p' n' = Ok false /\ incl p p' /\ incl n n' /\
    forall rho, (forall a, In a p' -> rho a = true) -> (forall a, In a n' -> rho a = false) -> eval rho b = true.
Proof.
  induction b as [| |a l IHl m IHm r IHr]; intros p n H; cbn [bdd_every] in H.
  - exists p, n. split; [exact H|]. split; [apply incl_refl|]. split; [apply incl_refl|]. intros; reflexivity.
  - discriminate H.
  - destruct (bdd_every pred r p (a :: n)) as [x|e] eqn:Er; cbn [bind] in H; [|discriminate].
    destruct (bdd_every pred m p n) as [y|e] eqn:Em; cbn [bind] in H; [|discriminate].
    destruct (bdd_every pred l (a :: p) n) as [z|e] eqn:El; cbn [bind] in H; [|discriminate].
    inversion H as [Hxyz]. clear H. destruct x.
    + destruct y.
      * destruct z; [discriminate Hxyz|]. destruct (IHl _ _ El) as (p' & n' & Hp & Ip & In' & He).
        exists p', n'. split; [exact Hp|]. split; [intros q Hq; apply Ip; right; exact Hq|]. split; [exact In'|].
        intros rho Hpos Hneg. cbn [eval]. rewrite (Hpos a (Ip a (or_introl eq_refl))), (He rho Hpos Hneg). reflexivity.
      * destruct (IHm _ _ Em) as (p' & n' & Hp & Ip & In' & He). exists p', n'. split; [exact Hp|]. split; [exact Ip|]. split; [exact In'|].
        intros rho Hpos Hneg. cbn [eval]. rewrite (He rho Hpos Hneg). rewrite orb_true_r. reflexivity.
    + destruct (IHr _ _ Er) as (p' & n' & Hp & Ip & In' & He).
      exists p', n'. split; [exact Hp|]. split; [exact Ip|]. split; [intros q Hq; apply In'; right; exact Hq|].
      intros rho Hpos Hneg. cbn [eval]. rewrite (Hneg a (In' a (or_introl eq_refl))), (He rho Hpos Hneg). cbn. rewrite orb_true_r. reflexivity.
Qed.

Lemma sem_intersect_all_in_val t1 t2 t : sem_intersect t1 t2 = Ok t -> N.land (st_all t1) VAL = st_all t1 -> N.land (st_all t) VAL = st_all t.
Proof.
  intros Hd Hv. destruct (sem_intersect_is_collect t1 t2 t Hd) as [[_ ->]|[_ Hc]]; cbn [st_all]; [apply land_sub_val; exact Hv|].
  unfold sem_collect in Hc.
  match type of Hc with (do r <- fold_left _ ?ps (Ok (?a0, [])); _) = _ =>
    change (fold_left _ ps (Ok (a0, []))) with (fold_left (collect_step f_inter false) ps (Ok (a0, []))) in Hc;
    destruct (fold_left (collect_step f_inter false) ps (Ok (a0, []))) as [[a d]|e] eqn:E; cbn [bind] in Hc; [|discriminate Hc]
  end.
  inversion Hc; subst t. cbn [st_all fst]. eapply collect_all_in_val; [exact E|]. apply land_sub_val. exact Hv.
Qed.

Lemma forall_res_false_some {A} (p : A -> res bool) xs : forall_res p xs = Ok false -> exists x, In x xs /\ p x = Ok false.
Proof.
  induction xs as [|y ys IH]; cbn [forall_res]; [discriminate|].
  destruct (p y) as [[|]|e] eqn:E; try discriminate.
  - intros H. destruct (IH H) as [x [Hin Hx]]. exists x. split; [right; exact Hin|exact Hx].
  - intros _. exists y. split; [left; reflexivity|exact E].
Qed.

Lemma in_shape_map {W U : Type} (g : W -> U) (vmu : U -> semtype -> bool) : forall (l : list W) prefix items,
  in_shape (fun w => vmu (g w)) l prefix items = in_shape vmu (map g l) prefix items.
Proof.
  induction l as [|w l IH]; intros prefix items; destruct prefix as [|p prefix]; cbn [map in_shape forallb]; try reflexivity.
  - f_equal. specialize (IH [] items).
    assert (E : forall (X : Type) (vmx : X -> semtype -> bool) k, in_shape vmx k [] items = forallb (fun x => vmx x items) k)
      by (intros X vmx k; destruct k; reflexivity).
    rewrite !E in IH. exact IH.
  - f_equal. apply IH.
Qed.

Section TopC.
  Variable tbl : ltable.
  Definition good2 (t : semtype) : Prop := wf2 t = true /\ N.land (st_all t) VAL = st_all t.
  Hypothesis tbl_good2 : forall i la, lookup_latom i tbl = Some la -> Forall good2 (la_prefix la) /\ good2 (la_items la).

  Local Notation real := (fun _ : point => True).
  Local Notation VV := (V real).
  Local Notation vmv := (vmV tbl real).
  Local Notation ok := (lval_ok real).

  Lemma diff_ok2 a b d : good2 a -> good2 b -> sem_diff a b = Ok d -> good2 d /\ forall v : VV, vmv v d = vmv v a && negb (vmv v b).
  Proof.
    intros [Wa Va] [Wb Vb] Hd. split; [split; [exact (wf2_diff a b d Wa Wb Hd)|exact (sem_diff_all_in_val a b d Hd Va)]|].
    intros [v Hv]. unfold vmV. cbn [proj1_sig]. rewrite !vmem_point. apply sem_diff_mem; auto. apply (point_of_valid tbl real). exact Hv.
  Qed.
  Lemma inter_ok2 a b d : good2 a -> good2 b -> sem_intersect a b = Ok d -> good2 d /\ forall v : VV, vmv v d = vmv v a && vmv v b.
  Proof.
    intros [Wa Va] [Wb Vb] Hd. split; [split; [exact (wf2_intersect a b d Wa Wb Hd)|exact (sem_intersect_all_in_val a b d Hd Va)]|].
    intros [v Hv]. unfold vmV. cbn [proj1_sig]. rewrite !vmem_point. apply sem_intersect_mem; auto. apply (point_of_valid tbl real). exact Hv.
  Qed.

  Lemma elem_empty_complete f :
    (forall b, list_is_empty tbl no_struct f b = Ok false -> exists xs, Forall ok xs /\ eval (rho_of tbl xs) b = true) ->
    forall t, good2 t -> sem_is_empty (struct_empty tbl no_struct f) t = Ok false -> exists v : VV, vmv v t = true.
  Proof.
    intros HL t [Wt Vt] He. unfold sem_is_empty in He.
    assert (Mk : forall v, ok v -> vmem tbl v t = true -> exists w : VV, vmv w t = true).
    { intros v Hv Hm. exists (exist _ v Hv). exact Hm. }
    destruct (N.eqb (st_all t) 0) eqn:Ea; cbn [negb] in He.
    - (* no whole tag: some proper component is reported inhabited *)
      destruct (forall_res_false_some _ _ He) as (p & Hin & Hp).
      destruct (wf2_parts t Wt) as [_ Fp]. specialize (Fp p Hin).
      assert (Hex : forall pt, pmem p pt = true -> mem t pt = true).
      { intros pt Hm. unfold mem. apply orb_true_intro. right. apply existsb_exists. exists p. split; assumption. }
      destruct p; cbn [proper_is_empty struct_empty] in Hp; try discriminate Hp; try discriminate Fp.
      + destruct (basic_inhabited (PBoolean b) Fp eq_refl) as (pt & Hv & Hm).
        apply (Mk (LPt pt)); [constructor; [exact Hv| |exact I]|cbn [vmem]; apply Hex; exact Hm].
        rewrite <- (pmem_tag _ _ Hm). discriminate.
      + destruct (basic_inhabited (PNumber allowed values) Fp eq_refl) as (pt & Hv & Hm).
        apply (Mk (LPt pt)); [constructor; [exact Hv| |exact I]|cbn [vmem]; apply Hex; exact Hm].
        rewrite <- (pmem_tag _ _ Hm). discriminate.
      + destruct (basic_inhabited (PString allowed values) Fp eq_refl) as (pt & Hv & Hm).
        apply (Mk (LPt pt)); [constructor; [exact Hv| |exact I]|cbn [vmem]; apply Hex; exact Hm].
        rewrite <- (pmem_tag _ _ Hm). discriminate.
      + destruct (HL b Hp) as (xs & Hxs & Hev).
        apply (Mk (LList xs)); [constructor; exact Hxs|]. rewrite vmem_list. apply Hex. exact Hev.
    - (* a whole tag *)
      apply N.eqb_neq in Ea. destruct (nonzero_in_val_has_tag _ Ea Vt) as [g Hg].
      destruct (stag_eqb g TgList) eqn:Eg.
      + apply stag_eqb_eq in Eg. subst g. apply (Mk (LList [])); [constructor; constructor|].
        rewrite vmem_list. unfold mem. cbn [point_tag]. rewrite Hg. reflexivity.
      + destruct (tag_point_ok g) as [Hv Ht].
        apply (Mk (LPt (tag_point g))); [constructor; [exact Hv| |exact I]|cbn [vmem]; unfold mem; rewrite Ht, Hg; reflexivity].
        rewrite Ht. intros E. subst g. rewrite stag_eqb_refl in Eg. discriminate.
  Qed.

  Lemma latoms_of_all l : forall ls, latoms_of tbl l = Ok ls ->
    forall a, In a l -> ak a = AList /\ exists la, lookup_latom (ai a) tbl = Some la /\ In la ls.
  Proof.
    unfold latoms_of. induction l as [|a0 l IH]; intros ls H a Hin; [contradiction|]. cbn [map_res] in H.
    destruct (ak a0) eqn:Ek; cbn [bind] in H; try discriminate.
    destruct (lookup_latom (ai a0) tbl) as [la0|] eqn:El; cbn [bind] in H; [|discriminate].
    match type of H with (do ys <- ?X; _) = _ => destruct X as [ls'|e] eqn:Er end; cbn [bind] in H; [|discriminate].
    inversion H; subst ls. destruct Hin as [<-|Hin].
    - split; [exact Ek|]. exists la0. split; [exact El|left; reflexivity].
    - destruct (IH ls' eq_refl a Hin) as [Hk (la & Hl & Hi)]. split; [exact Hk|]. exists la. split; [exact Hl|right; exact Hi].
  Qed.

  Theorem list_is_empty_complete : forall f b, list_is_empty tbl no_struct f b = Ok false ->
    exists xs, Forall ok xs /\ eval (rho_of tbl xs) b = true.
  Proof.
    induction f as [|f IH]; intros b H; [discriminate H|]. cbn [list_is_empty] in H.
    destruct (bdd_every_complete _ _ _ _ H) as (pos & neg & Hpred & _ & _ & Hev).
    destruct (latoms_of tbl pos) as [ps|e] eqn:Eps; cbn [bind] in Hpred; [|discriminate].
    destruct (latoms_of tbl neg) as [ns|e] eqn:Ens; cbn [bind] in Hpred; [|discriminate].
    change (sem_is_empty (fun p => match p with PList b' => list_is_empty tbl no_struct f b' | _ => no_struct p end))
      with (sem_is_empty (struct_empty tbl no_struct f)) in Hpred.
    assert (Gat : forall l ls, latoms_of tbl l = Ok ls -> Forall (good_atom good2) ls).
    { intros l ls Hl. apply Forall_forall. intros la Hla. destruct (latoms_of_in tbl l ls Hl la Hla) as (a & _ & _ & Hlk).
      exact (tbl_good2 _ _ Hlk). }
    destruct (list_formula_is_empty_complete VV vmv good2 (sem_is_empty (struct_empty tbl no_struct f))
                (Logic.conj eq_refl eq_refl) (vm_never tbl real) diff_ok2 inter_ok2 (elem_empty_complete f IH) (Logic.conj eq_refl eq_refl)
                ps ns (Gat _ _ Eps) (Gat _ _ Ens) Hpred) as (xsV & Hpos & Hneg).
    set (xs := map (@proj1_sig _ _) xsV).
    assert (Hok : Forall ok xs).
    { apply Forall_forall. intros v Hv. apply in_map_iff in Hv as [[v' Hv'] [<- _]]. exact Hv'. }
    assert (Hsh : forall prefix items, in_shape vmv xsV prefix items = in_shape (vmem tbl) xs prefix items).
    { intros prefix items. unfold xs. rewrite <- in_shape_map. reflexivity. }
    exists xs. split; [exact Hok|]. apply Hev.
    - intros a Ha. destruct (latoms_of_all pos ps Eps a Ha) as [Hk (la & Hl & Hi)]. unfold rho_of. rewrite Hk, Hl.
      rewrite <- Hsh. apply in_shape_iff. exact (proj1 (Forall_forall _ _) Hpos la Hi).
    - intros a Ha. destruct (latoms_of_all neg ns Ens a Ha) as [Hk (la & Hl & Hi)]. unfold rho_of. rewrite Hk, Hl.
      rewrite <- Hsh. exact (Hneg la Hi).
  Qed.

  (* "not assignable" comes with a separating value *)
  Theorem list_subtype_complete f a b :
    good2 a -> good2 b -> sem_is_subtype_l tbl no_struct f a b = Ok false ->
    exists v, ok v /\ vmem tbl v a = true /\ vmem tbl v b = false.
  Proof.
    intros Ga Gb Hs. unfold sem_is_subtype_l in Hs.
    destruct (sem_diff a b) as [d|e] eqn:Ed; cbn [bind] in Hs; [|discriminate].
    destruct (diff_ok2 a b d Ga Gb Ed) as [Gd Hd].
    destruct (elem_empty_complete f (list_is_empty_complete f) d Gd Hs) as [[v Hv] Hm].
    exists v. split; [exact Hv|]. rewrite (Hd (exist _ v Hv)) in Hm. unfold vmV in Hm. cbn [proj1_sig] in Hm.
    apply andb_prop in Hm as [H1 H2]. apply Bool.negb_true_iff in H2. auto.
  Qed.
End TopC.
