(* MappingIxBridge.v — on atoms without index signature the index-aware decider of Model/MappingEmptyIx.v is the decider of
   Model/MappingEmpty.v, so the theorems of Proofs/MappingSound.v speak about the function that is tied to the engine on the wider
   class of atoms. *)
From Beff Require Import Model.MappingEmptyIx Proofs.ResLemmas.

Lemma forall_res_ext {A} (p q : A -> res bool) xs : (forall x, In x xs -> p x = q x) -> forall_res p xs = forall_res q xs.
Proof.
  induction xs as [|x xs IH]; intros H; cbn; [reflexivity|].
  rewrite (H x (or_introl eq_refl)). destruct (q x) as [[|]|e]; try reflexivity. apply IH. intros y Hy. apply H. right; exact Hy.
Qed.

Section Bridge.
  Variable is_empty : semtype -> res bool.

  Definition plain (fs : list (string * semtype)) : xatom := mkXatom fs None.

  Lemma x_get_exact_plain fs k : x_get_exact (plain fs) k = Ok (get_exact fs k).
  Proof. unfold x_get_exact, get_exact, plain. cbn. destruct (assoc k fs); reflexivity. Qed.
  Lemma x_get_open_plain fs k : x_get_open (plain fs) k = Ok (get_open fs k).
  Proof. unfold x_get_open, get_open, plain. cbn. destruct (assoc k fs); reflexivity. Qed.

  Theorem x_check_plain : forall negs pos,
    x_check is_empty (map plain negs) (plain pos) = check_mapping_empty is_empty negs pos.
  Proof.
    induction negs as [|neg rest IH]; intros pos; cbn [map x_check check_mapping_empty xa_fields plain].
    - reflexivity.
    - destruct (exists_res (fun kv => is_empty (snd kv)) pos) as [[|]|e]; cbn [bind]; try reflexivity.
      rewrite (forall_res_ext
                 (fun k => do vp <- x_get_exact (plain pos) k; do vn <- x_get_open (plain neg) k; do diff <- sem_diff vp vn;
                           do e <- is_empty diff;
                           if e then Ok true else x_check is_empty (map plain rest) (mkXatom (field_insert k diff pos) None))
                 (fun k => do diff <- sem_diff (get_exact pos k) (get_open neg k); do e <- is_empty diff;
                           if e then Ok true else check_mapping_empty is_empty rest (field_insert k diff pos))).
      2:{ intros k _. rewrite x_get_exact_plain, x_get_open_plain. cbn [bind].
          destruct (sem_diff (get_exact pos k) (get_open neg k)) as [d|e]; cbn [bind]; [|reflexivity].
          destruct (is_empty d) as [[|]|e]; cbn [bind]; try reflexivity. apply (IH (field_insert k d pos)). }
      destruct (forall_res _ (all_keys pos neg)) as [[|]|e]; cbn [bind negb]; try reflexivity.
      unfold string_index, index_dimension_is_covered. cbn [xa_index plain bind].
      destruct (minus_keys sem_never (keys pos ++ keys neg)) as [free|e]; cbn [bind]; [|reflexivity].
      destruct (sem_intersect free sem_string) as [s|e]; cbn [bind]; [|reflexivity].
      destruct (is_empty s) as [[|]|e]; cbn [bind negb]; try reflexivity.
  Qed.
End Bridge.
