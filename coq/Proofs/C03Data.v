(* C03Data.v — the data parse() returns is accepted again by the same validator, also with undeclared keys disallowed
   (so it consists of declared parts only), on the fragment without unions, intersections, discriminated dispatch and
   index signatures (where the listed findings union_deepmerge / allof_spread / proto_named_keys live). *)
From Coq Require Import Sorting.Permutation.
From Beff Require Import Model.Parse Proofs.ResLemmas Proofs.SortLemmas.

Definition plain_key (k : string) : bool :=
  negb (mem_str k object_proto_functions) && negb (String.eqb k proto_key) && negb (String.eqb k proto_mark).
Fixpoint nodup_keys (l : list string) : bool :=
  match l with [] => true | x :: l' => negb (mem_str x l') && nodup_keys l' end.

Fixpoint dfrag (r : rt) : bool :=
  match r with
  | RArray t | RSet t | ROptional t | RMeta _ t => dfrag t
  | RMap k v => dfrag k && dfrag v
  | RTuple prefix rest => forallb dfrag prefix && match rest with Some x => dfrag x | None => true end
  | RObject props indexed =>
      match indexed with
      | [] => nodup_keys (keys props) && forallb plain_key (keys props) && forallb (fun kp => dfrag (snd kp)) props
      | _ => false
      end
  | RAllOf _ | RAnyOf _ | RDisc _ _ _ _ => false
  | _ => true
  end.
Definition dfrag_env (env : renv) : bool := forallb (fun kp => dfrag (snd kp)) env.

Lemma map_res_forall2 {A B} (g : A -> res B) : forall l ys, map_res g l = Ok ys -> Forall2 (fun x y => g x = Ok y) l ys.
Proof.
  induction l as [|x l IH]; intros ys H; cbn [map_res] in H; [inversion H; constructor|].
  destruct (g x) as [y|e] eqn:E; cbn [bind] in H; [|discriminate].
  destruct (map_res g l) as [ys'|e] eqn:E2; cbn [bind] in H; [|discriminate]. inversion H; subst. constructor; [exact E|apply IH; reflexivity].
Qed.

Lemma forall_res_intro {A} (p : A -> res bool) l : (forall x, In x l -> p x = Ok true) -> forall_res p l = Ok true.
Proof.
  induction l as [|x l IH]; intros H; [reflexivity|]. cbn [forall_res]. rewrite (H x (or_introl eq_refl)). apply IH.
  intros y Hy. apply H. right. exact Hy.
Qed.

Lemma Forall2_in_r' {A B} (R : A -> B -> Prop) l l' b : Forall2 R l l' -> In b l' -> exists a, In a l /\ R a b.
Proof.
  induction 1 as [|x y l l' Hxy _ IH]; intros Hin; [contradiction|].
  destruct Hin as [<-|Hin]; [exists x; split; [left; reflexivity|exact Hxy]|].
  destruct (IH Hin) as [a [Ha Hr]]. exists a. split; [right; exact Ha|exact Hr].
Qed.
Lemma In_skipn {A} n (l : list A) x : In x (skipn n l) -> In x l.
Proof. intros H. rewrite <- (firstn_skipn n l). apply in_or_app. right. exact H. Qed.

Section Data.
  Variable F : formats.
  Variable env : renv.
  Hypothesis Henv : dfrag_env env = true.

  Lemma env_dfrag n t : assoc n env = Some t -> dfrag t = true.
  Proof. intros H. unfold dfrag_env in Henv. rewrite forallb_forall in Henv. apply (Henv (n, t)). apply assoc_In. exact H. Qed.

  (* whether undefined is accepted does not depend on the strict flag (in the fragment) *)
  Lemma undef_strict_indep : forall f r s1 s2, dfrag r = true ->
    validate F env f s1 r VUndef = Ok true -> validate F env f s2 r VUndef = Ok true.
  Proof.
    induction f as [|f IH]; intros r s1 s2 Hd H; [discriminate|].
    destruct r; cbn [dfrag] in Hd; try discriminate Hd; cbn [validate] in H |- *;
      try exact H; try (cbn in H; discriminate H); try reflexivity.
    - destruct (assoc name env) as [t|] eqn:Ea; [|discriminate]. apply (IH t s1 s2 (env_dfrag _ _ Ea) H).
    - apply (IH r s1 s2 Hd H).
  Qed.

  (* ---------- the loop that builds the projected object ---------- *)
  Section Build.
    Variable strict : bool.
    Variable order : key_order.
    Variable f : nat.
    Variable v : val.
    Variable take : string -> option rt.

    Fixpoint build (ks : list string) (acc : list (string * val)) : res (list (string * val)) :=
      match ks with
      | [] => Ok acc
      | k :: ks' =>
          match take k with
          | Some p => do x <- parse F env strict order f p (get v k); build ks' (obj_assign acc k x)
          | None => build ks' acc
          end
      end.

    Hypothesis take_plain : forall k p, take k = Some p -> plain_key k = true.

    Lemma obj_assign_plain acc k x : plain_key k = true -> obj_assign acc k x = assoc_set k x acc.
    Proof.
      intros H. unfold plain_key in H. apply andb_prop in H as [H _]. apply andb_prop in H as [_ H]. apply Bool.negb_true_iff in H.
      unfold obj_assign. rewrite H. reflexivity.
    Qed.

    Lemma assoc_set_get {A} k k' (x : A) l : assoc k' (assoc_set k x l) = if String.eqb k' k then Some x else assoc k' l.
    Proof.
      induction l as [|[k0 v0] l IH]; cbn [assoc_set assoc]; [destruct (String.eqb k' k); reflexivity|].
      destruct (String.eqb k k0) eqn:E; cbn [assoc].
      - apply String.eqb_eq in E. subst k0. destruct (String.eqb k' k); reflexivity.
      - destruct (String.eqb k' k0) eqn:E2; [|exact IH]. apply String.eqb_eq in E2. subst k0.
        destruct (String.eqb k' k) eqn:E3; [|reflexivity]. apply String.eqb_eq in E3. subst. rewrite String.eqb_refl in E. discriminate.
    Qed.

    (* every entry is an old one or the parse of the input's value under a taken key; taken keys get an entry *)
    Lemma build_spec : forall ks acc0 acc, build ks acc0 = Ok acc ->
      (forall k x, assoc k acc = Some x ->
                   assoc k acc0 = Some x \/ (In k ks /\ exists p, take k = Some p /\ parse F env strict order f p (get v k) = Ok x)) /\
      (forall k, assoc k acc0 <> None -> assoc k acc <> None) /\
      (forall k p, In k ks -> take k = Some p -> assoc k acc <> None).
    Proof.
      induction ks as [|k0 ks IH]; intros acc0 acc H; cbn [build] in H.
      - inversion H; subst. split; [intros k x Hk; left; exact Hk|]. split; [auto|intros k p []].
      - destruct (take k0) as [p0|] eqn:Et.
        + destruct (parse F env strict order f p0 (get v k0)) as [x0|e] eqn:Ep; cbn [bind] in H; [|discriminate].
          rewrite (obj_assign_plain _ _ _ (take_plain _ _ Et)) in H. destruct (IH _ _ H) as (A & B & C).
          split; [|split].
          * intros k x Hk. destruct (A k x Hk) as [Hold|(Hin & p & Hp & Hx)].
            -- rewrite assoc_set_get in Hold. destruct (String.eqb k k0) eqn:E; [|left; exact Hold].
               apply String.eqb_eq in E. subst k0. inversion Hold; subst x0. right. split; [left; reflexivity|]. exists p0. auto.
            -- right. split; [right; exact Hin|]. exists p. auto.
          * intros k Hk. apply B. rewrite assoc_set_get. destruct (String.eqb k k0); [discriminate|exact Hk].
          * intros k p [<-|Hin] Hp; [apply B; rewrite assoc_set_get, String.eqb_refl; discriminate|apply (C k p Hin Hp)].
        + destruct (IH _ _ H) as (A & B & C). split; [|split].
          * intros k x Hk. destruct (A k x Hk) as [Hold|(Hin & p & Hp & Hx)]; [left; exact Hold|].
            right. split; [right; exact Hin|]. exists p. auto.
          * exact B.
          * intros k p [<-|Hin] Hp; [congruence|apply (C k p Hin Hp)].
    Qed.
  End Build.

  Lemma parse_object_input strict f props v :
    parse F env strict OrderInput (S f) (RObject props []) v =
    do acc <- build strict OrderInput f v (fun k => assoc k props) (own_keys v) []; Ok (VObj acc).
  Proof.
    cbn [parse].
    match goal with |- (do acc <- ?G (own_keys v) []; _) = _ =>
      assert (E : forall ks acc, G ks acc = build strict OrderInput f v (fun k => assoc k props) ks acc) end.
    { induction ks as [|k ks IH]; intros acc; [reflexivity|]. cbn [build]. destruct (assoc k props) as [p|].
      - destruct (parse F env strict OrderInput f p (get v k)); cbn [bind]; [apply IH|reflexivity].
      - cbn [bind]. apply IH. }
    rewrite E. reflexivity.
  Qed.

  Lemma parse_object_sorted strict f props v :
    parse F env strict OrderSorted (S f) (RObject props []) v =
    do acc <- build strict OrderSorted f v (fun k => if has_own v k then assoc k props else None) (sort_strings (keys props)) []; Ok (VObj acc).
  Proof.
    cbn [parse].
    match goal with |- (do acc <- ?G (sort_strings (keys props)) []; _) = _ =>
      assert (E : forall ks acc, G ks acc = build strict OrderSorted f v (fun k => if has_own v k then assoc k props else None) ks acc) end.
    { induction ks as [|k ks IH]; intros acc; [reflexivity|]. cbn [build]. destruct (has_own v k); [|apply IH].
      destruct (assoc k props) as [p|]; [|apply IH].
      destruct (parse F env strict OrderSorted f p (get v k)); cbn [bind]; [apply IH|reflexivity]. }
    rewrite E. reflexivity.
  Qed.

  Lemma assoc_nodup_keys {A} k (x : A) l : nodup_keys (keys l) = true -> In (k, x) l -> assoc k l = Some x.
  Proof.
    induction l as [|[k0 v0] l IH]; cbn [keys map fst nodup_keys assoc]; intros Hn Hin; [contradiction|].
    apply andb_prop in Hn as [H0 H1]. destruct Hin as [E|Hin].
    - inversion E; subst. rewrite String.eqb_refl. reflexivity.
    - destruct (String.eqb k k0) eqn:E; [|apply IH; assumption].
      apply String.eqb_eq in E. subst k0. exfalso. apply Bool.negb_true_iff in H0.
      assert (Hk : In k (map fst l)) by (apply in_map_iff; exists (k, x); auto).
      assert (mem_str k (map fst l) = true).
      { clear -Hk. induction (map fst l) as [|y ys IHy]; [contradiction|]. cbn [mem_str]. destruct (String.eqb k y) eqn:E; [reflexivity|].
        destruct Hk as [->|Hk]; [rewrite String.eqb_refl in E; discriminate|apply IHy; exact Hk]. }
      congruence.
  Qed.
  Lemma mem_str_in k l : mem_str k l = true <-> In k l.
  Proof.
    induction l as [|x l IH]; cbn [mem_str In]; [split; [discriminate|contradiction]|].
    destruct (String.eqb k x) eqn:E.
    - apply String.eqb_eq in E. subst. split; auto.
    - rewrite IH. split; [auto|]. intros [->|H]; [rewrite String.eqb_refl in E; discriminate|exact H].
  Qed.

  (* no typed array anywhere in the input (listed finding inherited_length_satisfies_declared_property) *)
  Fixpoint no_typed (v : val) : bool :=
    match v with
    | VTyped _ _ => false
    | VArr xs | VSet xs => forallb no_typed xs
    | VObj fs => forallb (fun kv => no_typed (snd kv)) fs
    | VMap kvs => forallb (fun kv => no_typed (fst kv) && no_typed (snd kv)) kvs
    | _ => true
    end.

  (* reading a plain key that is not an own key of an object-typed input without typed arrays gives undefined *)
  Lemma get_absent v k : is_object_type v = true -> is_array v = false -> no_typed v = true -> plain_key k = true ->
    mem_str k (own_keys v) = false -> get v k = VUndef.
  Proof.
    intros Ho Ha Hn Hp Hk. unfold plain_key in Hp. apply andb_prop in Hp as [Hp H3]. apply andb_prop in Hp as [H1 H2].
    apply Bool.negb_true_iff in H1, H2, H3.
    destruct v; try discriminate Ho; try discriminate Ha; try discriminate Hn; cbn [get]; rewrite ?H1, ?H2; try reflexivity.
    cbn [own_keys] in Hk. destruct (assoc k fs) as [x|] eqn:Ea; [|reflexivity]. exfalso. apply assoc_In in Ea.
    assert (Hin : In k (filter (fun k0 => negb (String.eqb k0 proto_mark)) (keys fs))).
    { apply filter_In. split; [apply in_map_iff; exists (k, x); auto|rewrite H3; reflexivity]. }
    apply mem_str_in in Hin. congruence.
  Qed.
  Lemma get_no_typed v k : no_typed v = true -> no_typed (get v k) = true.
  Proof.
    intros Hn. assert (Hi : no_typed (if mem_str k object_proto_functions then VFun else if String.eqb k proto_key then object_prototype else VUndef) = true)
      by (destruct (mem_str k object_proto_functions); [reflexivity|destruct (String.eqb k proto_key); reflexivity]).
    destruct v; try discriminate Hn; cbn [get]; try exact Hi; try reflexivity.
    - destruct (String.eqb k "length"); [reflexivity|]. destruct (find_index_key k 0 xs) as [x|] eqn:Ef; [|exact Hi].
      cbn [no_typed] in Hn. rewrite forallb_forall in Hn. apply Hn. clear -Ef. revert Ef. generalize 0.
      induction xs as [|y ys IH]; intros n Ef; cbn [find_index_key] in Ef; [discriminate|].
      destruct (String.eqb k (nat_to_string n)); [inversion Ef; left; reflexivity|right; apply (IH _ Ef)].
    - destruct (assoc k fs) as [x|] eqn:Ea; [|exact Hi]. cbn [no_typed] in Hn. rewrite forallb_forall in Hn.
      apply (Hn (k, x)). apply assoc_In. exact Ea.
  Qed.

  Opaque build.
  Theorem parse_revalidates : forall f strict order r v d s',
    dfrag r = true -> no_typed v = true ->
    validate F env f strict r v = Ok true -> parse F env strict order f r v = Ok d ->
    validate F env f s' r d = Ok true.
  Proof.
    induction f as [|f IH]; intros strict order r v d s' Hd Hn Hv Hp; [discriminate|].
    destruct r; cbn [dfrag] in Hd; try discriminate Hd;
      try (cbn [parse] in Hp; inversion Hp; subst d; cbn [validate] in Hv |- *; exact Hv).
    - (* RTuple *)
      apply andb_prop in Hd as [Hdp Hdr]. cbn [validate] in Hv. destruct v as [| | | | | | | | | |xs| | | |]; try discriminate Hv.
      cbn [no_typed] in Hn.
      destruct (prefix_res (validate F env f strict) VUndef xs prefix 0) as [[|]|e] eqn:Epre; cbn [bind negb] in Hv; try discriminate.
      cbn [parse] in Hp.
      destruct (map_res (fun ip => parse F env strict order f (snd ip) (get_idx (VArr xs) (fst ip))) (combine (seq_from 0 (List.length prefix)) prefix))
        as [pre|e] eqn:Emp; cbn [bind] in Hp; [|discriminate].
      apply map_res_forall2 in Emp.
      (* the parsed prefix validates position-wise *)
      assert (Hpre : forall ps idx pre', Forall2 (fun ip y => parse F env strict order f (snd ip) (get_idx (VArr xs) (fst ip)) = Ok y) (combine (seq_from idx (List.length ps)) ps) pre' ->
                       forallb dfrag ps = true -> prefix_res (validate F env f strict) VUndef xs ps idx = Ok true ->
                       forall tl before, List.length before = idx ->
                       prefix_res (validate F env f s') VUndef (before ++ pre' ++ tl) ps idx = Ok true).
      { induction ps as [|p ps IHp]; intros idx pre' HF Hdf Hpr; [reflexivity|].
        cbn [List.length seq_from combine] in HF. inversion HF as [|ip y l l' Hy HF']; subst. cbn [fst snd] in Hy.
        intros tl before Hlen.
        cbn [forallb] in Hdf. apply andb_prop in Hdf as [Hd0 Hd1]. cbn [prefix_res] in Hpr |- *.
        destruct (validate F env f strict p (nth idx xs VUndef)) as [[|]|e] eqn:Evp; try discriminate.
        assert (Hnx : no_typed (nth idx xs VUndef) = true).
        { destruct (Nat.lt_ge_cases idx (List.length xs)) as [Hlt|Hge]; [rewrite forallb_forall in Hn; apply Hn; apply nth_In; exact Hlt|rewrite nth_overflow by exact Hge; reflexivity]. }
        cbn [get_idx] in Hy.
        rewrite app_nth2 by lia. rewrite Hlen, Nat.sub_diag. cbn [app nth].
        rewrite (IH strict order p (nth idx xs VUndef) y s' Hd0 Hnx Evp Hy).
        specialize (IHp (S idx) l' HF' Hd1 Hpr tl (before ++ [y])). rewrite <- app_assoc in IHp. cbn [app] in IHp. apply IHp.
        rewrite app_length. cbn. lia. }
      destruct rest as [rr|].
      + destruct (map_res (parse F env strict order f rr) (skipn (List.length prefix) xs)) as [tl|e] eqn:Etl; cbn [bind] in Hp; [|discriminate].
        inversion Hp; subst d. cbn [validate].
        pose proof (Hpre prefix 0 pre Emp Hdp Epre tl [] eq_refl) as Hq. cbn [app] in Hq. rewrite Hq. cbn [bind negb].
        apply map_res_forall2 in Etl.
        assert (Hlp : List.length pre = List.length prefix).
        { clear -Emp. assert (G : forall ps idx pre', Forall2 (fun (ip : nat * rt) (y : val) => parse F env strict order f (snd ip) (get_idx (VArr xs) (fst ip)) = Ok y) (combine (seq_from idx (List.length ps)) ps) pre' -> List.length pre' = List.length ps).
          { induction ps as [|p ps IHp]; intros idx pre' HF; cbn [List.length seq_from combine] in HF; inversion HF; subst; [reflexivity|]. cbn [List.length]. f_equal. eapply IHp. eassumption. }
          eapply G. exact Emp. }
        replace (skipn (List.length prefix) (pre ++ tl)) with tl by (rewrite <- Hlp, skipn_app, skipn_all, Nat.sub_diag; reflexivity).
        apply forall_res_intro. intros y Hy. destruct (Forall2_in_r' _ _ _ _ Etl Hy) as (x & Hx & Hxy).
        apply (IH strict order rr x y s' Hdr); [|exact (forall_res_true_inv _ _ Hv x Hx)|exact Hxy].
        rewrite forallb_forall in Hn. apply Hn. eapply In_skipn. exact Hx.
      + inversion Hp; subst d. cbn [validate].
        pose proof (Hpre prefix 0 pre Emp Hdp Epre [] [] eq_refl) as Hq. rewrite app_nil_r in Hq. cbn [app] in Hq. rewrite Hq. cbn [bind negb].
        assert (Hlp : List.length pre = List.length prefix).
        { clear -Emp. assert (G : forall ps idx pre', Forall2 (fun (ip : nat * rt) (y : val) => parse F env strict order f (snd ip) (get_idx (VArr xs) (fst ip)) = Ok y) (combine (seq_from idx (List.length ps)) ps) pre' -> List.length pre' = List.length ps).
          { induction ps as [|p ps IHp]; intros idx pre' HF; cbn [List.length seq_from combine] in HF; inversion HF; subst; [reflexivity|]. cbn [List.length]. f_equal. eapply IHp. eassumption. }
          eapply G. exact Emp. }
        rewrite Hlp, Nat.ltb_irrefl. reflexivity.
    - (* RArray *)
      cbn [validate] in Hv. destruct v as [| | | | | | | | | |xs| | | |]; try discriminate Hv. cbn [parse] in Hp. cbn [no_typed] in Hn.
      destruct (map_res (parse F env strict order f r) xs) as [ys|e] eqn:Em; cbn [bind] in Hp; [|discriminate]. inversion Hp; subst d.
      cbn [validate]. apply map_res_forall2 in Em. apply forall_res_intro. intros y Hy.
      destruct (Forall2_in_r' _ _ _ _ Em Hy) as (x & Hx & Hxy).
      apply (IH strict order r x y s' Hd); [rewrite forallb_forall in Hn; apply Hn; exact Hx|exact (forall_res_true_inv _ _ Hv x Hx)|exact Hxy].
    - (* RMap *)
      apply andb_prop in Hd as [Hdk Hdv]. cbn [validate] in Hv. destruct v as [| | | | | | | | | | | |kvs| |]; try discriminate Hv. cbn [parse] in Hp. cbn [no_typed] in Hn.
      match type of Hp with (do out <- ?X; _) = _ => destruct X as [out|e] eqn:Em end; cbn [bind] in Hp; [|discriminate]. inversion Hp; subst d.
      cbn [validate]. apply map_res_forall2 in Em. apply forall_res_intro. intros [a b] Hab.
      destruct (Forall2_in_r' _ _ _ _ Em Hab) as ([k x] & Hkx & Hpar). cbn [fst snd] in *.
      destruct (parse F env strict order f r1 k) as [a'|e] eqn:Ea; cbn [bind] in Hpar; [|discriminate].
      destruct (parse F env strict order f r2 x) as [b'|e] eqn:Eb; cbn [bind] in Hpar; [|discriminate]. inversion Hpar; subst a' b'.
      pose proof (forall_res_true_inv _ _ Hv (k, x) Hkx) as Hvk. cbv beta in Hvk. cbn [fst snd] in Hvk.
      destruct (validate F env f strict r1 k) as [[|]|e] eqn:Evk; cbn [bind negb] in Hvk; try discriminate.
      rewrite forallb_forall in Hn. pose proof (Hn (k, x) Hkx) as Hnk. cbn [fst snd] in Hnk. apply andb_prop in Hnk as [Hn1 Hn2].
      rewrite (IH strict order r1 k a s' Hdk Hn1 Evk Ea). cbn [bind negb]. apply (IH strict order r2 x b s' Hdv Hn2 Hvk Eb).
    - (* RSet *)
      cbn [validate] in Hv. destruct v as [| | | | | | | | | | | | |xs|]; try discriminate Hv. cbn [parse] in Hp. cbn [no_typed] in Hn.
      destruct (map_res (parse F env strict order f r) xs) as [ys|e] eqn:Em; cbn [bind] in Hp; [|discriminate]. inversion Hp; subst d.
      cbn [validate]. apply map_res_forall2 in Em. apply forall_res_intro. intros y Hy.
      destruct (Forall2_in_r' _ _ _ _ Em Hy) as (x & Hx & Hxy).
      apply (IH strict order r x y s' Hd); [rewrite forallb_forall in Hn; apply Hn; exact Hx|exact (forall_res_true_inv _ _ Hv x Hx)|exact Hxy].
    - (* ROptional *)
      cbn [validate] in Hv |- *. cbn [parse] in Hp. destruct (is_nullish v) eqn:En.
      + inversion Hp; subst d. rewrite En. reflexivity.
      + destruct (is_nullish d); [reflexivity|]. apply (IH strict order r v d s' Hd Hn Hv Hp).
    - (* RObject *)
      destruct indexed as [|i0 irest]; [|discriminate Hd]. apply andb_prop in Hd as [Hd Hall]. apply andb_prop in Hd as [Hnd Hplain].
      cbn [validate] in Hv.
      destruct (is_object_type v && negb (is_array v) && negb (match v with VNull => true | _ => false end)) eqn:Eobj; [|discriminate Hv].
      apply andb_prop in Eobj as [Eobj _]. apply andb_prop in Eobj as [Eo Ea]. apply Bool.negb_true_iff in Ea.
      destruct (forall_res (fun kp => validate F env f strict (snd kp) (get v (fst kp))) props) as [[|]|e] eqn:Ef; cbn [bind negb] in Hv; try discriminate.
      (* both key orders run `build` with a choice of keys that picks exactly the declared own keys *)
      assert (Hbuild : exists take ks acc, build strict order f v take ks [] = Ok acc /\ d = VObj acc /\
                  (forall k p, take k = Some p -> plain_key k = true /\ assoc k props = Some p) /\
                  (forall k p, assoc k props = Some p -> mem_str k (own_keys v) = true -> In k ks /\ take k = Some p) /\
                  (forall k p, take k = Some p -> In k ks -> mem_str k (own_keys v) = true)).
      { assert (Hpk : forall k p, assoc k props = Some p -> plain_key k = true).
        { intros k p Hk. rewrite forallb_forall in Hplain. apply Hplain. apply assoc_In in Hk. apply in_map_iff. exists (k, p). auto. }
        destruct order.
        - rewrite parse_object_input in Hp.
          destruct (build strict OrderInput f v (fun k => assoc k props) (own_keys v) []) as [acc|e] eqn:Eb; cbn [bind] in Hp; [|discriminate].
          inversion Hp; subst d. exists (fun k => assoc k props), (own_keys v), acc. split; [exact Eb|]. split; [reflexivity|]. split; [|split].
          + intros k p Hk. split; [apply (Hpk k p Hk)|exact Hk].
          + intros k p Hk Hm. split; [apply mem_str_in; exact Hm|exact Hk].
          + intros k p _ Hin. apply mem_str_in. exact Hin.
        - rewrite parse_object_sorted in Hp.
          destruct (build strict OrderSorted f v (fun k => if has_own v k then assoc k props else None) (sort_strings (keys props)) []) as [acc|e] eqn:Eb; cbn [bind] in Hp; [|discriminate].
          inversion Hp; subst d. exists (fun k => if has_own v k then assoc k props else None), (sort_strings (keys props)), acc.
          split; [exact Eb|]. split; [reflexivity|]. split; [|split].
          + intros k p Hk. destruct (has_own v k); [|discriminate]. split; [apply (Hpk k p Hk)|exact Hk].
          + intros k p Hk Hm. unfold has_own. rewrite Hm. split; [|exact Hk].
            apply (Permutation_in k (sort_perm str_leb (keys props))). apply assoc_In in Hk. apply in_map_iff. exists (k, p). auto.
          + intros k p Hk _. unfold has_own in Hk. destruct (mem_str k (own_keys v)); [reflexivity|discriminate]. }
      destruct Hbuild as (take & ks & acc & Eb & -> & T1 & T2 & T3).
      destruct (build_spec strict order f v take (fun k p H => proj1 (T1 k p H)) ks [] acc Eb) as (A & _ & C).
      cbn [validate is_object_type typeof jstype_eqb is_array negb andb].
      assert (Hprops : forall_res (fun kp => validate F env f s' (snd kp) (get (VObj acc) (fst kp))) props = Ok true).
      { apply forall_res_intro. intros [k p] Hkp. cbn [fst snd].
        assert (Hak : assoc k props = Some p) by (apply assoc_nodup_keys; assumption).
        pose proof (forall_res_true_inv _ _ Ef (k, p) Hkp) as Hvk. cbv beta in Hvk. cbn [fst snd] in Hvk.
        assert (Hdp : dfrag p = true) by (rewrite forallb_forall in Hall; apply (Hall (k, p) Hkp)).
        assert (Hpl : plain_key k = true) by (rewrite forallb_forall in Hplain; apply Hplain; apply in_map_iff; exists (k, p); auto).
        cbn [get]. destruct (assoc k acc) as [x|] eqn:Eka.
        - destruct (A k x Eka) as [Hold|(Hin & p' & Hp' & Hx)]; [discriminate Hold|].
          destruct (T1 k p' Hp') as [_ Hp'']. assert (p' = p) by congruence. subst p'.
          apply (IH strict order p (get v k) x s' Hdp (get_no_typed v k Hn) Hvk Hx).
        - (* the key is not an own key of the input: both the input and the data read undefined *)
          assert (Hm : mem_str k (own_keys v) = false).
          { destruct (mem_str k (own_keys v)) eqn:Em; [|reflexivity]. exfalso. destruct (T2 k p Hak Em) as [Hin Ht]. apply (C k p Hin Ht). exact Eka. }
          rewrite (get_absent v k Eo Ea Hn Hpl Hm) in Hvk.
          unfold plain_key in Hpl. apply andb_prop in Hpl as [Hpl _]. apply andb_prop in Hpl as [H1 H2]. apply Bool.negb_true_iff in H1, H2. rewrite H1, H2.
          apply (undef_strict_indep f p strict s' Hdp Hvk). }
      rewrite Hprops. cbn [bind negb].
      assert (Hex : filter (fun k => negb (mem_str k (keys props))) (own_keys (VObj acc)) = []).
      { assert (G : forall k, In k (own_keys (VObj acc)) -> mem_str k (keys props) = true).
        { intros k Hk. cbn [own_keys] in Hk. apply filter_In in Hk as [Hk _]. apply in_map_iff in Hk as [[k' x] [<- Hin]]. cbn [fst].
          assert (Hsome : exists y, assoc k' acc = Some y).
          { clear -Hin. induction acc as [|[k0 y0] l IHl]; [contradiction|]. cbn [assoc]. destruct (String.eqb k' k0) eqn:E; [exists y0; reflexivity|].
            destruct Hin as [E'|Hin]; [inversion E'; subst; rewrite String.eqb_refl in E; discriminate|apply IHl; exact Hin]. }
          destruct Hsome as [y Hy]. destruct (A k' y Hy) as [Hold|(_ & p' & Hp' & _)]; [discriminate Hold|].
          destruct (T1 k' p' Hp') as [_ Hp'']. apply assoc_In in Hp''. apply mem_str_in. apply in_map_iff. exists (k', p'). auto. }
        clear -G. induction (own_keys (VObj acc)) as [|k l IHl]; [reflexivity|]. cbn [filter]. rewrite (G k (or_introl eq_refl)). cbn [negb].
        apply IHl. intros k' Hk'. apply G. right. exact Hk'. }
      rewrite Hex. destruct s'; reflexivity.
    - (* RRef *)
      cbn [validate] in Hv |- *. cbn [parse] in Hp. destruct (assoc name env) as [t|] eqn:Ea; [|discriminate].
      apply (IH strict order t v d s' (env_dfrag _ _ Ea) Hn Hv Hp).
    - (* RMeta *)
      cbn [validate] in Hv |- *. cbn [parse] in Hp. apply (IH strict order r v d s' Hd Hn Hv Hp).
  Qed.
End Data.
