(* ListSound.v — soundness of list_inhabited / list_formula_is_empty / list_is_empty (Model/ListEmpty.v):
   when the procedure answers "empty", no list value is a member.  The element level (membership of element values, the
   operations on element types, emptiness of element types) is abstract here and instantiated in Proofs/ListSoundTop.v. *)
From Beff Require Import Model.ListSpec Proofs.ResLemmas.

Section ListLevel.
  Variable V : Type.
  Variable vm : V -> semtype -> bool.
  Variable good : semtype -> Prop.
  Variable is_empty : semtype -> res bool.
  Hypothesis good_never : good sem_never.
  Hypothesis vm_never : forall v, vm v sem_never = false.
  Hypothesis diff_ok : forall a b d, good a -> good b -> sem_diff a b = Ok d -> good d /\ forall v, vm v d = vm v a && negb (vm v b).
  Hypothesis inter_ok : forall a b d, good a -> good b -> sem_intersect a b = Ok d -> good d /\ forall v, vm v d = vm v a && vm v b.
  Hypothesis empty_sound : forall t, good t -> is_empty t = Ok true -> forall v, vm v t = false.

  Local Notation in_shape := (in_shape vm).
  Definition in_atom (xs : list V) (la : latom) : bool := in_shape xs (la_prefix la) (la_items la).
  Definition good_atom (la : latom) : Prop := Forall good (la_prefix la) /\ good (la_items la).

  (* position-wise characterisation *)
  Definition Shape (xs : list V) (prefix : list semtype) (items : semtype) : Prop :=
    List.length prefix <= List.length xs /\ forall i x, nth_error xs i = Some x -> vm x (nth i prefix items) = true.

  Lemma in_shape_iff xs : forall prefix items, in_shape xs prefix items = true <-> Shape xs prefix items.
  Proof.
    induction xs as [|x xs IH]; intros prefix items; destruct prefix as [|p prefix]; cbn [in_shape].
    - split; [intros _; split; [cbn; lia|intros i y Hn; destruct i; discriminate]|reflexivity].
    - split; [discriminate|intros [Hl _]; cbn in Hl; lia].
    - rewrite forallb_forall. split.
      + intros H. split; [cbn; lia|]. intros i y Hn. destruct i; cbn [nth]; apply H; eapply nth_error_In; exact Hn.
      + intros [_ H] y Hy. apply In_nth_error in Hy as [i Hi]. specialize (H i y Hi). destruct i; exact H.
    - rewrite andb_true_iff, IH. split.
      + intros [Hx [Hl H]]. split; [cbn; lia|]. intros i y Hn. destruct i as [|i]; cbn in Hn |- *; [inversion Hn; subst; exact Hx|apply H; exact Hn].
      + intros [Hl H]. split; [apply (H 0 x eq_refl)|]. split; [cbn in Hl; lia|]. intros i y Hn. apply (H (S i) y Hn).
  Qed.

  Lemma is_never_eq t : is_never t = true -> t = sem_never.
  Proof.
    destruct t as [a d]. unfold is_never. cbn. intros H. apply andb_prop in H as [Ha Hd]. apply N.eqb_eq in Ha. subst a.
    destruct d; [reflexivity|discriminate].
  Qed.

  Lemma nth_app_repeat (prefix : list semtype) items k i : nth i (prefix ++ repeat items k) items = nth i prefix items.
  Proof.
    destruct (Nat.lt_ge_cases i (List.length prefix)) as [Hlt|Hge].
    - apply app_nth1. exact Hlt.
    - rewrite app_nth2 by exact Hge. rewrite (nth_overflow prefix) by exact Hge.
      destruct (Nat.lt_ge_cases (i - List.length prefix) k) as [H1|H1].
      + apply nth_repeat.
      + apply nth_overflow. rewrite repeat_length. exact H1.
  Qed.

  (* padding the prefix with the rest type only asks for more elements *)
  Lemma shape_pad xs prefix items k :
    Shape xs (prefix ++ repeat items k) items <-> Shape xs prefix items /\ List.length prefix + k <= List.length xs.
  Proof.
    unfold Shape. rewrite app_length, repeat_length. split.
    - intros [Hl H]. split; [split; [lia|]|lia]. intros i x Hn. rewrite <- (nth_app_repeat prefix items k i). apply H. exact Hn.
    - intros [[Hl H] Hk]. split; [lia|]. intros i x Hn. rewrite nth_app_repeat. apply H. exact Hn.
  Qed.

  (* a closed shape: exactly as many elements as the prefix *)
  Lemma shape_closed xs prefix items :
    Shape xs prefix items -> List.length xs = List.length prefix -> Shape xs prefix sem_never.
  Proof.
    intros [Hl H] He. split; [exact Hl|]. intros i x Hn.
    assert (Hi : i < List.length prefix) by (rewrite <- He; apply nth_error_Some; congruence).
    rewrite (nth_indep prefix sem_never items Hi). apply H. exact Hn.
  Qed.

  (* ---------- the loops ---------- *)
  Lemma shorter_loop_false rec items : good items -> forall n s re,
    shorter_loop is_empty rec s items n = Ok (false, re) ->
    forall k, k < n -> (1 <= k -> exists v, vm v items = true) -> rec (s ++ repeat items k) sem_never = Ok false.
  Proof.
    intros Gi. induction n as [|n IH]; intros s re H k Hk Hv; [lia|]. cbn [shorter_loop] in H.
    destruct (rec s sem_never) as [[|]|e] eqn:Er; cbn [bind] in H; try discriminate.
    destruct k as [|k]; [cbn [repeat]; rewrite app_nil_r; exact Er|].
    destruct (is_empty items) as [[|]|e] eqn:Ee; cbn [bind] in H; try discriminate.
    - destruct (Hv ltac:(lia)) as [v Hvm]. rewrite (empty_sound items Gi Ee v) in Hvm. discriminate.
    - cbn [repeat]. replace (s ++ items :: repeat items k) with ((s ++ [items]) ++ repeat items k) by (rewrite <- app_assoc; reflexivity).
      apply (IH _ re); [exact H|lia|]. intros _. apply Hv. lia.
  Qed.

  Lemma shorter_loop_rest_empty rec items : forall n s, shorter_loop is_empty rec s items n = Ok (false, true) -> is_empty items = Ok true.
  Proof.
    induction n as [|n IH]; intros s H; cbn [shorter_loop] in H; [discriminate|].
    destruct (rec s sem_never) as [[|]|e]; cbn [bind] in H; try discriminate.
    destruct (is_empty items) as [[|]|e] eqn:Ee; cbn [bind] in H; try discriminate; [reflexivity|apply (IH _ H)].
  Qed.

  Lemma tail_loop_false rec items diff : forall n s,
    tail_loop rec s items diff n = Ok false -> forall m, m < n -> rec ((s ++ repeat items m) ++ [diff]) items = Ok false.
  Proof.
    induction n as [|n IH]; intros s H m Hm; [lia|]. cbn [tail_loop] in H.
    destruct (rec (s ++ [diff]) items) as [[|]|e] eqn:Er; cbn [bind] in H; try discriminate.
    destruct m as [|m]; [cbn [repeat]; rewrite app_nil_r; exact Er|].
    cbn [repeat]. replace (s ++ items :: repeat items m) with ((s ++ [items]) ++ repeat items m) by (rewrite <- app_assoc; reflexivity).
    apply IH; [exact H|lia].
  Qed.

  Lemma exists_res_false_all {A} (p : A -> res bool) l : exists_res p l = Ok false -> forall x, In x l -> p x = Ok false.
  Proof.
    induction l as [|y l IH]; cbn [exists_res]; intros H x Hx; [contradiction|].
    destruct (p y) as [[|]|e] eqn:E; try discriminate. destruct Hx as [<-|Hx]; [exact E|apply IH; assumption].
  Qed.

  (* ---------- lists ---------- *)
  Lemma nth_set_nth {A} (d : A) i x : forall l j, nth j (set_nth i x l) d = if Nat.eqb j i && Nat.ltb i (List.length l) then x else nth j l d.
  Proof.
    induction i as [|i IH]; intros l j; destruct l as [|y l]; cbn [set_nth List.length].
    - rewrite andb_false_r. reflexivity.
    - destruct j; reflexivity.
    - rewrite andb_false_r. reflexivity.
    - destruct j as [|j]; [reflexivity|]. cbn [nth Nat.eqb]. rewrite IH. reflexivity.
  Qed.
  Lemma set_nth_length {A} i (x : A) : forall l, List.length (set_nth i x l) = List.length l.
  Proof. induction i as [|i IH]; intros [|y l]; cbn [set_nth List.length]; auto. Qed.
  Lemma Forall_set_nth {A} (P : A -> Prop) i x : forall l, Forall P l -> P x -> Forall P (set_nth i x l).
  Proof.
    induction i as [|i IH]; intros [|y l] Hl Hx; cbn [set_nth]; auto; inversion Hl; subst; constructor; auto.
  Qed.
  Lemma Forall_nth_default {A} (P : A -> Prop) l d i : Forall P l -> P d -> P (nth i l d).
  Proof.
    intros Hl Hd. destruct (Nat.lt_ge_cases i (List.length l)) as [H|H]; [apply Forall_nth; assumption|rewrite nth_overflow; assumption].
  Qed.

  Lemma longest_prefix_ge neg : forall n, In n neg -> List.length (la_prefix n) <= longest_prefix neg.
  Proof.
    unfold longest_prefix.
    assert (G : forall l m, m <= fold_left (fun m n => Nat.max m (List.length (la_prefix n))) l m).
    { induction l as [|y l IH]; intros m; cbn [fold_left]; [lia|]. specialize (IH (Nat.max m (List.length (la_prefix y)))). lia. }
    assert (Hgen : forall l m n, In n l -> List.length (la_prefix n) <= fold_left (fun m n => Nat.max m (List.length (la_prefix n))) l m).
    { induction l as [|y l IH]; intros m n Hin; [contradiction|]. cbn [fold_left]. destruct Hin as [<-|Hin]; [|apply IH; exact Hin].
      specialize (G l (Nat.max m (List.length (la_prefix y)))). lia. }
    intros n Hin. apply Hgen. exact Hin.
  Qed.

  Lemma nth_error_firstn' {A} : forall k (l : list A) j, j < k -> nth_error (firstn k l) j = nth_error l j.
  Proof. induction k as [|k IH]; intros l j Hj; [lia|]. destruct l as [|x l]; [destruct j; reflexivity|]. destruct j as [|j]; [reflexivity|]. cbn. apply IH. lia. Qed.
  Lemma nth_error_skipn' {A} : forall k (l : list A) j, nth_error (skipn k l) j = nth_error l (k + j).
  Proof. induction k as [|k IH]; intros l j; [reflexivity|]. destruct l as [|x l]; [destruct j; reflexivity|]. cbn. apply IH. Qed.

  (* inserting a copy of an element at position k *)
  Lemma nth_error_insert (xs : list V) y k j : k <= List.length xs ->
    nth_error (firstn k xs ++ y :: skipn k xs) j =
    if Nat.ltb j k then nth_error xs j else if Nat.eqb j k then Some y else nth_error xs (j - 1).
  Proof.
    intros Hk. assert (Hl : List.length (firstn k xs) = k) by (apply firstn_length_le; exact Hk).
    destruct (Nat.ltb j k) eqn:E1.
    - apply Nat.ltb_lt in E1. rewrite nth_error_app1 by lia. apply nth_error_firstn'. exact E1.
    - apply Nat.ltb_ge in E1. rewrite nth_error_app2 by lia. rewrite Hl.
      destruct (Nat.eqb j k) eqn:E2.
      + apply Nat.eqb_eq in E2. subst j. rewrite Nat.sub_diag. reflexivity.
      + apply Nat.eqb_neq in E2. replace (j - k) with (S (j - 1 - k)) by lia. cbn [nth_error].
        rewrite nth_error_skipn'. f_equal. lia.
  Qed.

  Lemma not_shape_witness xs : forall q j, List.length q <= List.length xs -> in_shape xs q j = false ->
    exists i x, nth_error xs i = Some x /\ vm x (nth i q j) = false.
  Proof.
    induction xs as [|x xs IH]; intros q j Hl H; destruct q as [|p q]; cbn [in_shape List.length] in *; try discriminate; try lia.
    - assert (Hex : existsb (fun y => negb (vm y j)) (x :: xs) = true).
      { destruct (existsb (fun y => negb (vm y j)) (x :: xs)) eqn:E; [reflexivity|]. exfalso.
        assert (forallb (fun y => vm y j) (x :: xs) = true); [|congruence].
        apply forallb_forall. intros y Hy. destruct (vm y j) eqn:Ey; [reflexivity|].
        assert (existsb (fun y => negb (vm y j)) (x :: xs) = true) by (apply existsb_exists; exists y; rewrite Ey; auto). congruence. }
      apply existsb_exists in Hex as [y [Hy Hv]]. apply In_nth_error in Hy as [i Hi]. exists i, y. split; [exact Hi|].
      apply Bool.negb_true_iff in Hv. destruct i; exact Hv.
    - apply andb_false_iff in H as [H|H].
      + exists 0, x. split; [reflexivity|exact H].
      + destruct (IH q j ltac:(lia) H) as (i & y & Hi & Hv). exists (S i), y. split; assumption.
  Qed.

  Section Step.
    Variable rest : list latom.
    Variable rec : list semtype -> semtype -> res bool.
    Variable K : nat.
    Hypothesis IHrec : forall prefix items, Forall good prefix -> good items -> rec prefix items = Ok false ->
      forall xs, Shape xs prefix items -> exists n, In n rest /\ Shape xs (la_prefix n) (la_items n).
    Hypothesis HK : forall n, In n rest -> List.length (la_prefix n) <= K.

    Lemma main_sound nt prefix items :
      good_atom nt -> Forall good prefix -> good items -> List.length (la_prefix nt) <= List.length prefix ->
      inhabited_main is_empty nt K rec prefix items = Ok false ->
      forall xs, Shape xs prefix items -> in_atom xs nt = false -> exists n, In n rest /\ Shape xs (la_prefix n) (la_items n).
    Proof.
      intros [Gnp Gni] Gp Gi Hnl H xs [Hlen Hsh] Hnot. unfold inhabited_main in H.
      set (len := List.length prefix) in *.
      match type of H with (do a <- ?X; _) = _ => destruct X as [[|]|e] eqn:Eex end; cbn [bind] in H; try discriminate.
      destruct (sem_diff items (la_items nt)) as [diff|e] eqn:Ed; cbn [bind] in H; [|discriminate].
      destruct (diff_ok _ _ _ Gi Gni Ed) as [Gd Hdm].
      assert (Hnlx : List.length (la_prefix nt) <= List.length xs) by lia.
      destruct (not_shape_witness xs (la_prefix nt) (la_items nt) Hnlx Hnot) as (i & x & Hi & Hvx).
      assert (Hix : i < List.length xs) by (apply nth_error_Some; congruence).
      destruct (Nat.lt_ge_cases i len) as [Hlt|Hge].
      - (* the element that is outside the negative sits in the prefix *)
        pose proof (exists_res_false_all _ _ Eex i ltac:(apply in_seq; lia)) as Ei. cbv beta in Ei.
        assert (Gpi : good (nth i prefix sem_never)) by (apply Forall_nth_default; assumption).
        assert (Gni' : good (nth i (la_prefix nt) (la_items nt))) by (apply Forall_nth_default; assumption).
        destruct (sem_diff (nth i prefix sem_never) (nth i (la_prefix nt) (la_items nt))) as [d|e] eqn:Edi; cbn [bind] in Ei; [|discriminate].
        destruct (diff_ok _ _ _ Gpi Gni' Edi) as [Gdd Hdd].
        assert (Hxd : vm x d = true).
        { rewrite Hdd, Hvx. rewrite (nth_indep prefix sem_never items Hlt). rewrite (Hsh i x Hi). reflexivity. }
        destruct (is_empty d) as [[|]|e] eqn:Ee; cbn [bind] in Ei; try discriminate.
        { rewrite (empty_sound d Gdd Ee x) in Hxd. discriminate. }
        apply (IHrec (set_nth i d prefix) items (Forall_set_nth _ _ _ _ Gp Gdd) Gi Ei xs).
        split; [rewrite set_nth_length; exact Hlen|]. intros j y Hj. rewrite nth_set_nth.
        destruct (Nat.eqb j i) eqn:Eji; cbn [andb]; [|apply Hsh; exact Hj].
        apply Nat.eqb_eq in Eji. subst j. fold len. destruct (Nat.ltb i len) eqn:El; [|apply Nat.ltb_ge in El; lia].
        rewrite Hi in Hj. inversion Hj; subst y. exact Hxd.
      - (* it sits in the tail: it is in the rest type and not in the negative's rest type *)
        assert (Hxi : vm x items = true) by (rewrite <- (nth_overflow prefix items Hge); apply (Hsh i x Hi)).
        assert (Hxn : vm x (la_items nt) = false) by (rewrite <- (nth_overflow (la_prefix nt) (la_items nt) (n := i)) by lia; exact Hvx).
        assert (Hxd : vm x diff = true) by (rewrite Hdm, Hxi, Hxn; reflexivity).
        destruct (is_empty diff) as [[|]|e] eqn:Ee; cbn [bind] in H; try discriminate.
        { rewrite (empty_sound diff Gd Ee x) in Hxd. discriminate. }
        set (K' := Nat.max len K) in *.
        assert (Tail : forall j y, nth_error xs j = Some y -> len <= j -> vm y items = true).
        { intros j y Hj Hjl. rewrite <- (nth_overflow prefix items Hjl). apply (Hsh j y Hj). }
        destruct (Nat.le_gt_cases i K') as [HiK|HiK].
        + pose proof (tail_loop_false rec items diff _ _ H (i - len) ltac:(lia)) as Er.
          apply (IHrec _ items) with (xs := xs) in Er.
          * exact Er.
          * apply Forall_app. split; [apply Forall_app; split; [exact Gp|apply Forall_forall; intros z Hz; apply repeat_spec in Hz; subst; exact Gi]|constructor; [exact Gd|constructor]].
          * exact Gi.
          * split; [rewrite !app_length, repeat_length; cbn [List.length]; fold len; lia|]. intros j y Hj.
            destruct (Nat.lt_trichotomy j i) as [Hji|[Hji|Hji]].
            -- rewrite app_nth1 by (rewrite app_length, repeat_length; fold len; lia). rewrite nth_app_repeat. apply Hsh. exact Hj.
            -- subst j. rewrite app_nth2 by (rewrite app_length, repeat_length; fold len; lia).
               rewrite app_length, repeat_length. fold len. replace (i - (len + (i - len))) with 0 by lia. cbn [nth].
               rewrite Hi in Hj. inversion Hj; subst y. exact Hxd.
            -- rewrite nth_overflow by (rewrite !app_length, repeat_length; cbn [List.length]; fold len; lia). apply (Tail j y Hj). lia.
        + pose proof (tail_loop_false rec items diff _ _ H (K' - len) ltac:(lia)) as Er.
          set (xs' := firstn K' xs ++ x :: skipn K' xs).
          assert (HK'x : K' <= List.length xs) by lia.
          apply (IHrec _ items) with (xs := xs') in Er.
          * destruct Er as (n & Hn & [Hnl' Hns]). exists n. split; [exact Hn|]. pose proof (HK n Hn) as HKn.
            split; [lia|]. intros j y Hj. destruct (Nat.lt_ge_cases j K') as [HjK|HjK].
            -- apply (Hns j y). unfold xs'. rewrite nth_error_insert by exact HK'x.
               destruct (Nat.ltb j K') eqn:E; [exact Hj|apply Nat.ltb_ge in E; lia].
            -- rewrite nth_overflow by lia. rewrite <- (nth_overflow (la_prefix n) (la_items n) (n := S j)) by lia.
               apply (Hns (S j) y). unfold xs'. rewrite nth_error_insert by exact HK'x.
               destruct (Nat.ltb (S j) K') eqn:E; [apply Nat.ltb_lt in E; lia|].
               destruct (Nat.eqb (S j) K') eqn:E2; [apply Nat.eqb_eq in E2; lia|]. replace (S j - 1) with j by lia. exact Hj.
          * apply Forall_app. split; [apply Forall_app; split; [exact Gp|apply Forall_forall; intros z Hz; apply repeat_spec in Hz; subst; exact Gi]|constructor; [exact Gd|constructor]].
          * exact Gi.
          * assert (Hl' : List.length xs' = S (List.length xs)).
            { unfold xs'. rewrite app_length. cbn [List.length]. rewrite firstn_length_le by exact HK'x. rewrite skipn_length. lia. }
            split; [rewrite !app_length, repeat_length; cbn [List.length]; fold len; lia|]. intros j y Hj.
            unfold xs' in Hj. rewrite nth_error_insert in Hj by exact HK'x.
            destruct (Nat.ltb j K') eqn:E1.
            -- apply Nat.ltb_lt in E1. rewrite app_nth1 by (rewrite app_length, repeat_length; fold len; lia).
               rewrite nth_app_repeat. apply Hsh. exact Hj.
            -- apply Nat.ltb_ge in E1. destruct (Nat.eqb j K') eqn:E2.
               ++ apply Nat.eqb_eq in E2. subst j. inversion Hj; subst y.
                  rewrite app_nth2 by (rewrite app_length, repeat_length; fold len; lia).
                  rewrite app_length, repeat_length. fold len. replace (K' - (len + (K' - len))) with 0 by lia. exact Hxd.
               ++ apply Nat.eqb_neq in E2. rewrite nth_overflow by (rewrite !app_length, repeat_length; cbn [List.length]; fold len; lia).
                  apply (Tail (j - 1) y Hj). lia.
    Qed.

    Lemma step_sound nt prefix items :
      good_atom nt -> Forall good prefix -> good items ->
      inhabited_step is_empty nt K rec prefix items = Ok false ->
      forall xs, Shape xs prefix items -> in_atom xs nt = false -> exists n, In n rest /\ Shape xs (la_prefix n) (la_items n).
    Proof.
      intros Gn Gp Gi H xs Hs Hnot. unfold inhabited_step in H.
      set (len := List.length prefix) in *. set (nl := List.length (la_prefix nt)) in *.
      assert (Gpad : forall k, Forall good (prefix ++ repeat items k)).
      { intros k. apply Forall_app. split; [exact Gp|]. apply Forall_forall. intros z Hz. apply repeat_spec in Hz. subst. exact Gi. }
      destruct (Nat.ltb len nl) eqn:E1.
      - apply Nat.ltb_lt in E1. destruct (is_never items) eqn:En; [apply (IHrec prefix items Gp Gi H xs Hs)|].
        match type of H with (do f <- ?X; _) = _ => destruct X as [[[|] re]|e] eqn:Es end; cbn [bind fst snd] in H; try discriminate.
        assert (Short : List.length xs < nl -> exists n, In n rest /\ Shape xs (la_prefix n) (la_items n)).
        { intros Hshort. destruct Hs as [Hl Hsh]. fold len in Hl.
          pose proof (shorter_loop_false rec items Gi _ _ _ Es (List.length xs - len) ltac:(lia)) as Er.
          assert (Hv : 1 <= List.length xs - len -> exists v, vm v items = true).
          { intros Hk. destruct (nth_error xs len) as [v|] eqn:Ev; [|apply nth_error_None in Ev; lia].
            exists v. rewrite <- (nth_overflow prefix items (n := len)) by (unfold len; lia). apply (Hsh len v Ev). }
          specialize (Er Hv).
          apply (IHrec _ sem_never (Gpad _) good_never Er xs).
          apply shape_closed with (items := items); [|rewrite app_length, repeat_length; fold len; lia].
          apply shape_pad. split; [split; assumption|fold len; lia]. }
        destruct re.
        { (* the rest type is empty: xs has exactly the prefix *)
          apply Short. pose proof (shorter_loop_rest_empty rec items _ _ Es) as Ee. destruct Hs as [Hl Hsh]. fold len in Hl.
          destruct (Nat.eq_dec (List.length xs) len) as [E|E]; [lia|].
          destruct (nth_error xs len) as [v|] eqn:Ev; [|apply nth_error_None in Ev; lia].
          pose proof (Hsh len v Ev) as Hvm. rewrite nth_overflow in Hvm by (unfold len; lia).
          rewrite (empty_sound items Gi Ee v) in Hvm. discriminate. }
        destruct (Nat.lt_ge_cases (List.length xs) nl) as [Hshort|Hlong]; [apply Short; exact Hshort|].
        apply (main_sound nt (prefix ++ repeat items (nl - len)) items Gn (Gpad _) Gi); auto.
        + rewrite app_length, repeat_length. fold len nl. lia.
        + apply shape_pad. split; [exact Hs|fold len; lia].
      - apply Nat.ltb_ge in E1.
        destruct (Nat.ltb nl len && is_never (la_items nt)) eqn:E2; [apply (IHrec prefix items Gp Gi H xs Hs)|].
        apply (main_sound nt prefix items Gn Gp Gi); auto.
    Qed.
  End Step.

  Theorem list_inhabited_sound : forall neg, Forall good_atom neg -> forall prefix items,
    Forall good prefix -> good items -> list_inhabited is_empty neg prefix items = Ok false ->
    forall xs, Shape xs prefix items -> exists n, In n neg /\ Shape xs (la_prefix n) (la_items n).
  Proof.
    induction neg as [|nt rest IH]; intros Gneg prefix items Gp Gi H xs Hs; [discriminate H|].
    inversion Gneg as [|? ? Gnt Grest]; subst. cbn [list_inhabited] in H.
    destruct (in_atom xs nt) eqn:Ein.
    - exists nt. split; [left; reflexivity|apply in_shape_iff; exact Ein].
    - destruct (step_sound rest (list_inhabited is_empty rest) (longest_prefix rest) (IH Grest) (longest_prefix_ge rest)
                           nt prefix items Gnt Gp Gi H xs Hs Ein) as (n & Hn & Hsn).
      exists n. split; [right; exact Hn|exact Hsn].
  Qed.

  (* ---------- the positive atoms ---------- *)
  Hypothesis good_unknown : good sem_unknown.
  Hypothesis vm_unknown : forall v, vm v sem_unknown = true.

  Lemma shape_never_length xs prefix : Shape xs prefix sem_never -> List.length xs = List.length prefix.
  Proof.
    intros [Hl H]. destruct (Nat.eq_dec (List.length xs) (List.length prefix)) as [E|E]; [exact E|].
    destruct (nth_error xs (List.length prefix)) as [v|] eqn:Ev; [|apply nth_error_None in Ev; lia].
    specialize (H _ _ Ev). rewrite nth_overflow in H by lia. rewrite vm_never in H. discriminate.
  Qed.

  Lemma map_res_combine_nth (f : semtype * semtype -> res semtype) : forall l1 l2 r, map_res f (combine l1 l2) = Ok r ->
    List.length r = Nat.min (List.length l1) (List.length l2) /\
    forall j a b, nth_error l1 j = Some a -> nth_error l2 j = Some b -> exists c, nth_error r j = Some c /\ f (a, b) = Ok c.
  Proof.
    induction l1 as [|x l1 IH]; intros l2 r H; [inversion H; subst; split; [reflexivity|intros [|j]; discriminate]|].
    destruct l2 as [|y l2]; [inversion H; subst; split; [reflexivity|intros [|j] a b _; discriminate]|].
    cbn [combine map_res] in H. destruct (f (x, y)) as [c|e] eqn:Ef; cbn [bind] in H; [|discriminate].
    destruct (map_res f (combine l1 l2)) as [r'|e] eqn:Er; cbn [bind] in H; [|discriminate]. inversion H; subst r.
    destruct (IH l2 r' Er) as [Hl Hn]. split; [cbn [List.length]; lia|].
    intros [|j] a b Ha Hb; cbn [nth_error] in *; [inversion Ha; inversion Hb; subst; exists c; auto|apply Hn; assumption].
  Qed.

  Definition good_pair (acc : list semtype * semtype) : Prop := Forall good (fst acc) /\ good (snd acc).

  Lemma meet_positive_sound acc lt o : good_pair acc -> good_atom lt -> meet_positive acc lt = Ok o ->
    match o with
    | None => forall xs, Shape xs (fst acc) (snd acc) -> Shape xs (la_prefix lt) (la_items lt) -> False
    | Some acc' => good_pair acc' /\ forall xs, Shape xs (fst acc) (snd acc) -> Shape xs (la_prefix lt) (la_items lt) -> Shape xs (fst acc') (snd acc')
    end.
  Proof.
    destruct acc as [prefix items]. intros [Gp Gi] [Glp Gli] H. cbn [fst snd] in *. unfold meet_positive in H.
    set (len := List.length prefix) in *. set (nl := List.length (la_prefix lt)) in *. set (new_len := Nat.max len nl) in *.
    destruct (Nat.ltb len new_len && is_never items) eqn:E1.
    { inversion H; subst o. intros xs Hs1 [Hl2 _]. apply andb_prop in E1 as [E1 En]. apply Nat.ltb_lt in E1.
      apply is_never_eq in En. subst items. apply shape_never_length in Hs1. fold len nl in Hs1, Hl2. lia. }
    destruct (Nat.ltb nl new_len && is_never (la_items lt)) eqn:E2.
    { inversion H; subst o. intros xs [Hl1 _] Hs2. apply andb_prop in E2 as [E2 En]. apply Nat.ltb_lt in E2.
      apply is_never_eq in En. rewrite En in Hs2. apply shape_never_length in Hs2. fold len nl in Hs2, Hl1. lia. }
    set (prefix1 := prefix ++ repeat items (new_len - len)) in *.
    set (other := la_prefix lt ++ repeat (la_items lt) (new_len - nl)) in *.
    destruct (map_res (fun pq => sem_intersect (fst pq) (snd pq)) (combine prefix1 other)) as [prefix2|e] eqn:Em; cbn [bind] in H; [|discriminate].
    destruct (sem_intersect items (la_items lt)) as [items2|e] eqn:Ei; cbn [bind] in H; [|discriminate]. inversion H; subst o. clear H.
    destruct (inter_ok _ _ _ Gi Gli Ei) as [Gi2 Hi2].
    destruct (map_res_combine_nth _ _ _ _ Em) as [Hlen2 Hnth2].
    assert (L1 : List.length prefix1 = new_len) by (unfold prefix1; rewrite app_length, repeat_length; fold len; lia).
    assert (L2 : List.length other = new_len) by (unfold other; rewrite app_length, repeat_length; fold nl; lia).
    assert (G1 : Forall good prefix1).
    { apply Forall_app. split; [exact Gp|]. apply Forall_forall. intros z Hz. apply repeat_spec in Hz. subst. exact Gi. }
    assert (G2 : Forall good other).
    { apply Forall_app. split; [exact Glp|]. apply Forall_forall. intros z Hz. apply repeat_spec in Hz. subst. exact Gli. }
    assert (Each : forall j, j < new_len -> exists c, nth_error prefix2 j = Some c /\ good c /\
                                             forall v, vm v c = vm v (nth j prefix items) && vm v (nth j (la_prefix lt) (la_items lt))).
    { intros j Hj.
      destruct (nth_error prefix1 j) as [a|] eqn:Ea; [|apply nth_error_None in Ea; lia].
      destruct (nth_error other j) as [b|] eqn:Eb; [|apply nth_error_None in Eb; lia].
      destruct (Hnth2 j a b Ea Eb) as (c & Hc & Hf). cbn [fst snd] in Hf.
      assert (Ga : good a) by (eapply Forall_forall; [exact G1|eapply nth_error_In; exact Ea]).
      assert (Gb : good b) by (eapply Forall_forall; [exact G2|eapply nth_error_In; exact Eb]).
      destruct (inter_ok _ _ _ Ga Gb Hf) as [Gc Hc2]. exists c. split; [exact Hc|]. split; [exact Gc|]. intros v. rewrite Hc2.
      rewrite <- (nth_app_repeat prefix items (new_len - len) j), <- (nth_app_repeat (la_prefix lt) (la_items lt) (new_len - nl) j).
      fold prefix1 other. rewrite (nth_error_nth _ _ _ Ea), (nth_error_nth _ _ _ Eb). reflexivity. }
    split.
    - split; [|exact Gi2]. cbn [fst]. apply Forall_forall. intros c Hc. apply In_nth_error in Hc as [j Hj].
      assert (Hjl : j < new_len) by (rewrite <- L1; replace (List.length prefix1) with (List.length prefix2) by lia; apply nth_error_Some; congruence).
      destruct (Each j Hjl) as (c' & Hc' & Gc' & _). congruence.
    - cbn [fst snd]. intros xs [Hl1 Hs1] [Hl2 Hs2]. fold len in Hl1. fold nl in Hl2. split; [lia|]. intros j y Hj.
      destruct (Nat.lt_ge_cases j new_len) as [Hlt|Hge].
      + destruct (Each j Hlt) as (c & Hc & _ & Hv). rewrite (nth_error_nth _ _ _ Hc). rewrite Hv, (Hs1 j y Hj), (Hs2 j y Hj). reflexivity.
      + rewrite nth_overflow by lia. rewrite Hi2.
        rewrite <- (nth_overflow prefix items (n := j)) by (fold len; lia).
        rewrite <- (nth_overflow (la_prefix lt) (la_items lt) (n := j)) by (fold nl; lia).
        rewrite (Hs1 j y Hj), (Hs2 j y Hj). reflexivity.
  Qed.

  Lemma meet_all_sound : forall ps acc o, good_pair acc -> Forall good_atom ps -> meet_all acc ps = Ok o ->
    match o with
    | None => forall xs, Shape xs (fst acc) (snd acc) -> Forall (fun lt => Shape xs (la_prefix lt) (la_items lt)) ps -> False
    | Some acc' => good_pair acc' /\
                   forall xs, Shape xs (fst acc) (snd acc) -> Forall (fun lt => Shape xs (la_prefix lt) (la_items lt)) ps -> Shape xs (fst acc') (snd acc')
    end.
  Proof.
    induction ps as [|lt ps IH]; intros acc o Ga Gps H; cbn [meet_all] in H.
    - inversion H; subst o. split; [exact Ga|]. intros xs Hs _. exact Hs.
    - inversion Gps as [|? ? Glt Gps']; subst.
      destruct (meet_positive acc lt) as [o1|e] eqn:Em; cbn [bind] in H; [|discriminate].
      pose proof (meet_positive_sound acc lt o1 Ga Glt Em) as M. destruct o1 as [acc1|].
      + destruct M as [Ga1 M]. pose proof (IH acc1 o Ga1 Gps' H) as R. destruct o as [acc'|].
        * destruct R as [Ga' R]. split; [exact Ga'|]. intros xs Hs Hall. inversion Hall; subst. apply R; [apply M; assumption|assumption].
        * intros xs Hs Hall. inversion Hall; subst. apply (R xs); [apply M; assumption|assumption].
      + inversion H; subst o. intros xs Hs Hall. inversion Hall; subst. apply (M xs); assumption.
  Qed.

  Lemma exists_res_true_some {A} (p : A -> res bool) l : exists_res p l = Ok true -> exists x, In x l /\ p x = Ok true.
  Proof.
    induction l as [|y l IH]; cbn [exists_res]; intros H; [discriminate|].
    destruct (p y) as [[|]|e] eqn:E; try discriminate.
    - exists y. split; [left; reflexivity|exact E].
    - destruct (IH H) as [x [Hx Hp]]. exists x. split; [right; exact Hx|exact Hp].
  Qed.

  Theorem list_formula_is_empty_sound pos neg :
    Forall good_atom pos -> Forall good_atom neg -> list_formula_is_empty is_empty pos neg = Ok true ->
    forall xs, Forall (fun lt => Shape xs (la_prefix lt) (la_items lt)) pos -> exists n, In n neg /\ Shape xs (la_prefix n) (la_items n).
  Proof.
    intros Gpos Gneg H xs Hpos. unfold list_formula_is_empty in H.
    assert (Fin : forall prefix items, Forall good prefix -> good items -> Shape xs prefix items ->
                  (do y <- list_inhabited is_empty neg prefix items; Ok (negb y)) = Ok true ->
                  exists n, In n neg /\ Shape xs (la_prefix n) (la_items n)).
    { intros prefix items Gp Gi Hs Hy. destruct (list_inhabited is_empty neg prefix items) as [[|]|e] eqn:El; cbn [bind negb] in Hy; try discriminate.
      apply (list_inhabited_sound neg Gneg prefix items Gp Gi El xs Hs). }
    destruct pos as [|lt0 ps].
    - cbn [bind] in H. apply (Fin [] sem_unknown); [constructor|exact good_unknown| |exact H].
      split; [cbn; lia|]. intros i x _. destruct i; apply vm_unknown.
    - inversion Gpos as [|? ? G0 Gps]; subst. inversion Hpos as [|? ? H0 Hps]; subst.
      destruct (meet_all (la_prefix lt0, la_items lt0) ps) as [o|e] eqn:Em; cbn [bind] in H; [|discriminate].
      pose proof (meet_all_sound ps (la_prefix lt0, la_items lt0) o G0 Gps Em) as M.
      destruct o as [[prefix items]|]; [|exfalso; apply (M xs); assumption].
      destruct M as [[Gp Gi] M]. cbn [fst snd] in *. specialize (M xs H0 Hps).
      destruct (exists_res is_empty prefix) as [[|]|e] eqn:Ee; cbn [bind] in H; try discriminate.
      + exfalso. destruct (exists_res_true_some _ _ Ee) as (p & Hp & Hpe). apply In_nth_error in Hp as [j Hj].
        destruct M as [Hl Hs]. destruct (nth_error xs j) as [v|] eqn:Ev; [|apply nth_error_None in Ev; assert (j < List.length prefix) by (apply nth_error_Some; congruence); lia].
        specialize (Hs j v Ev). rewrite (nth_error_nth _ _ _ Hj) in Hs.
        rewrite (empty_sound p (proj1 (Forall_forall _ _) Gp p (nth_error_In _ _ Hj)) Hpe v) in Hs. discriminate.
      + apply (Fin prefix items Gp Gi M H).
  Qed.
End ListLevel.
