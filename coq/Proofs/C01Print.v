(* Proofs/C01Print.v — the validator tree print_runtype emits answers what the IR type means (rmember), for the part of
   the IR that is printed structurally: everything except template-literal patterns, intersections, tuples and the two
   dispatch forms of unions (which have their own theorems / known findings). *)
From Beff Require Import Model.Printer Proofs.ResLemmas.

(* ---------- trees print_runtype emits structurally ---------- *)
(* `rej n`: the named type n rejects undefined; `objs n`: it rejects every value that is not an object
   (both are hypotheses of the theorem, see rej_sound / objs_sound below) *)
Definition cst_not_null (c : cst) : bool := match c with CNull => false | _ => true end.
Fixpoint rejects_undef (rej : string -> bool) (r : rt) : bool :=
  match r with
  | RTypeof _ | RDate | RBigInt | RTypedArray _ | RStringFmt _ | RNumberFmt _ | RRegex _ _ | RArray _ | RTuple _ _
  | RObject _ _ | RMap _ _ | RSet _ | RNever | RDisc _ _ _ _ => true
  | RConst c => cst_not_null c
  | RAnyOfConsts cs => forallb cst_not_null cs
  | RMeta _ t => rejects_undef rej t
  | RAnyOf rs => forallb (rejects_undef rej) rs
  | RAllOf rs => match rs with [] => false | _ => true end
  | RRef n => rej n
  | _ => false
  end.
Fixpoint object_only (objs : string -> bool) (r : rt) : bool :=
  match r with
  | RObject _ _ | RDisc _ _ _ _ => true
  | RMeta _ t => object_only objs t
  | RRef n => objs n
  | RAllOf rs => match rs with [] => false | _ => true end
  | _ => false
  end.

Fixpoint plain_rt (rej objs : string -> bool) (r : rt) : bool :=
  match r with
  | RAnyOfConsts _ | RDisc _ _ _ _ | RRegex _ _ => false
  | RTuple prefix rest =>
      forallb (plain_rt rej objs) prefix && forallb (rejects_undef rej) prefix
      && match rest with Some x => plain_rt rej objs x | None => true end
  | RAllOf rs => forallb (plain_rt rej objs) rs && forallb (object_only objs) rs
  | RAnyOf rs => forallb (plain_rt rej objs) rs
  | RArray t | RSet t | ROptional t | RMeta _ t => plain_rt rej objs t
  | RMap k v => plain_rt rej objs k && plain_rt rej objs v
  | RObject props indexed => forallb (fun kv => plain_rt rej objs (snd kv)) props
                             && forallb (fun kv => plain_rt rej objs (fst kv) && plain_rt rej objs (snd kv)) indexed
  | _ => true
  end.

Definition env_printed (rej objs : string -> bool) (env : ienv) (prefer : list string) (renv' : renv) : Prop :=
  forall n body, assoc n env = Some body ->
                 exists r pf, assoc n renv' = Some r /\ print env prefer pf body = Ok r /\ plain_rt rej objs r = true.

(* ---------- loops that agree pointwise agree ---------- *)
Lemma forall_res_rel {A B} (p : A -> res bool) (q : B -> res bool) xs ys :
  Forall2 (fun x y => forall a b, p x = Ok a -> q y = Ok b -> a = b) xs ys ->
  forall a b, forall_res p xs = Ok a -> forall_res q ys = Ok b -> a = b.
Proof.
  induction 1 as [|x y xs ys Hxy _ IH]; cbn; intros a b Ha Hb; [congruence|].
  destruct (p x) as [[|]|e] eqn:Ep; try discriminate; destruct (q y) as [[|]|e] eqn:Eq; try discriminate;
    try (specialize (Hxy _ _ eq_refl eq_refl); discriminate); [eapply IH; eauto|congruence].
Qed.
Lemma exists_res_rel {A B} (p : A -> res bool) (q : B -> res bool) xs ys :
  Forall2 (fun x y => forall a b, p x = Ok a -> q y = Ok b -> a = b) xs ys ->
  forall a b, exists_res p xs = Ok a -> exists_res q ys = Ok b -> a = b.
Proof.
  induction 1 as [|x y xs ys Hxy _ IH]; cbn; intros a b Ha Hb; [congruence|].
  destruct (p x) as [[|]|e] eqn:Ep; try discriminate; destruct (q y) as [[|]|e] eqn:Eq; try discriminate;
    try (specialize (Hxy _ _ eq_refl eq_refl); discriminate); [congruence|eapply IH; eauto].
Qed.
Lemma exists_res_single {A} (p : A -> res bool) x b : exists_res p [x] = Ok b -> p x = Ok b.
Proof. cbn. destruct (p x) as [[|]|e]; congruence. Qed.
Lemma Forall2_same {A} (P : A -> A -> Prop) l : (forall x, In x l -> P x x) -> Forall2 P l l.
Proof. induction l as [|x l IH]; intros H; constructor; [apply H; left; reflexivity|apply IH; intros; apply H; right; assumption]. Qed.

Lemma map_res_Forall2 {A B} (f : A -> res B) xs ys : map_res f xs = Ok ys -> Forall2 (fun x y => f x = Ok y) xs ys.
Proof.
  revert ys. induction xs as [|x xs IH]; cbn; intros ys H; [inversion H; constructor|].
  destruct (f x) as [y|e] eqn:E; cbn in H; [|discriminate].
  destruct (map_res f xs) as [ys'|e] eqn:E2; cbn in H; [|discriminate]. inversion H; subst. constructor; auto.
Qed.
Lemma Forall2_impl2 {A B} (P Q : A -> B -> Prop) xs ys : Forall2 P xs ys -> (forall x y, In x xs -> In y ys -> P x y -> Q x y) -> Forall2 Q xs ys.
Proof.
  induction 1 as [|x y xs ys H _ IH]; intros HPQ; constructor; [apply HPQ; auto; left; reflexivity|].
  apply IH. intros; apply HPQ; auto; right; assumption.
Qed.
Lemma forallb_Forall2_r {A B} (P : A -> B -> Prop) (p : B -> bool) xs ys :
  Forall2 P xs ys -> forallb p ys = true -> Forall2 (fun x y => P x y /\ p y = true) xs ys.
Proof.
  induction 1 as [|x y xs ys H _ IH]; cbn; intros Hp; constructor.
  - apply andb_prop in Hp as [H1 _]. auto.
  - apply andb_prop in Hp as [_ H2]. auto.
Qed.

(* ---------- the literal pattern of a string constant matches that string only ---------- *)
Lemma re_full_null s : re_full ReNull s = false.
Proof. induction s as [|c s IH]; cbn; [reflexivity|exact IH]. Qed.
Lemma re_full_eps s : re_full ReEps s = String.eqb "" s.
Proof. destruct s as [|c s]; cbn; [reflexivity|apply re_full_null]. Qed.
Lemma re_lit_shape c : re_lit c = ReEps /\ c = ""%string \/ re_lit c <> ReEps /\ re_lit c <> ReNull /\ c <> ""%string.
Proof.
  induction c as [|ch c IH]; cbn; [left; split; reflexivity|right].
  destruct IH as [[-> ->]|(H1 & H2 & H3)]; cbn; [repeat split; discriminate|].
  destruct (re_lit c); try congruence; repeat split; discriminate.
Qed.
Lemma re_seq_chr ch R : R <> ReEps -> R <> ReNull -> re_seq (ReChr ch) R = ReSeq (ReChr ch) R.
Proof. destruct R; cbn; congruence. Qed.
Lemma re_full_lit c : forall s, re_full (re_lit c) s = String.eqb c s.
Proof.
  induction c as [|ch c IH]; intros s; cbn [re_lit]; [apply re_full_eps|].
  destruct (re_lit_shape c) as [[E ->]|(H1 & H2 & H3)].
  - cbn. destruct s as [|x s]; cbn; [reflexivity|].
    destruct (Ascii.eqb_spec x ch) as [->|Hne].
    + rewrite Ascii.eqb_refl. apply re_full_eps.
    + assert (Ascii.eqb ch x = false) as -> by (apply Ascii.eqb_neq; congruence). apply re_full_null.
  - rewrite (re_seq_chr ch _ H1 H2). destruct s as [|x s]; [reflexivity|].
    cbn [re_full deriv nullable String.eqb].
    destruct (Ascii.eqb_spec x ch) as [->|Hne].
    + rewrite Ascii.eqb_refl.
      replace (re_seq ReEps (re_lit c)) with (re_lit c) by (destruct (re_lit c); reflexivity). apply IH.
    + assert (Ascii.eqb ch x = false) as -> by (apply Ascii.eqb_neq; congruence).
      replace (re_seq ReNull (re_lit c)) with ReNull by (destruct (re_lit c); reflexivity). apply re_full_null.
Qed.
Lemma re_seq_eps_r a : re_seq a ReEps = a.
Proof. destruct a; reflexivity. Qed.

(* ---------- the union case of print: only the structural branch yields a plain tree ---------- *)
Lemma print_anyof_plain rej objs env prefer f vs r :
  print env prefer (S f) (IAnyOf vs) = Ok r -> plain_rt rej objs r = true ->
  exists rs, map_res (print env prefer f) vs = Ok rs /\ r = RAnyOf rs.
Proof.
  cbn [print]. destruct vs as [|v0 vs']; [discriminate|]. set (vs := v0 :: vs').
  destruct (map_res (extract_union f env) vs) as [flats|e]; cbn [bind]; [|discriminate].
  destruct (all_some (map const_of_ir (dedupe_ir (List.concat flats)))).
  { intros H; inversion H; subst. discriminate. }
  destruct (map_res (object_shape env f) (dedupe_ir (List.concat flats))) as [shapes|e]; cbn [bind]; [|discriminate].
  assert (Plain : (do rs <- map_res (print env prefer f) vs; Ok (RAnyOf rs)) = Ok r ->
                  exists rs, map_res (print env prefer f) vs = Ok rs /\ r = RAnyOf rs).
  { intros H. destruct (map_res (print env prefer f) vs) as [rs|e]; cbn in H; [|discriminate]. inversion H. eauto. }
  destruct (all_some shapes) as [ovs|]; [|intros H _; apply Plain; exact H].
  destruct (first_discriminator env f ovs (prefer ++ List.concat (map keys ovs))) as [[[disc strs]|]|e]; cbn [bind];
    [|intros H _; apply Plain; exact H|discriminate].
  match goal with |- (do m <- ?X; _) = _ -> _ => destruct X as [mapping|e]; cbn [bind]; [|discriminate] end.
  match goal with |- (do m <- ?X; _) = _ -> _ => destruct X as [members|e]; cbn [bind]; [|discriminate] end.
  intros H; inversion H; subst. discriminate.
Qed.

Lemma prefix_res_rel {A B C} (p : A -> C -> res bool) (q : B -> C -> res bool) d xs : forall ps qs idx,
  Forall2 (fun x y => forall c a b, p x c = Ok a -> q y c = Ok b -> a = b) ps qs ->
  forall a b, prefix_res p d xs ps idx = Ok a -> prefix_res q d xs qs idx = Ok b -> a = b.
Proof.
  induction ps as [|x ps IH]; intros qs idx HF a b Ha Hb; inversion HF as [|? y ? qs' Hxy HF']; subst; cbn [prefix_res] in Ha, Hb; [congruence|].
  destruct (p x (nth idx xs d)) as [[|]|e] eqn:Ep; try discriminate; destruct (q y (nth idx xs d)) as [[|]|e] eqn:Eq; try discriminate;
    try (specialize (Hxy _ _ _ Ep Eq); discriminate); [eapply IH; eauto|congruence].
Qed.
Lemma prefix_res_hits_default {B C} (q : B -> C -> res bool) d xs : forall qs idx ok,
  idx <= List.length xs -> List.length xs < idx + List.length qs ->
  Forall (fun r => forall b, q r d = Ok b -> b = false) qs ->
  prefix_res q d xs qs idx = Ok ok -> ok = false.
Proof.
  induction qs as [|r qs IH]; intros idx ok Hle Hlt HF H; [cbn in Hlt; lia|].
  inversion HF as [|? ? Hr HF']; subst. cbn [prefix_res] in H. cbn [List.length] in Hlt.
  destruct (Nat.eq_dec idx (List.length xs)) as [E|E].
  - rewrite nth_overflow in H by lia. destruct (q r d) as [[|]|e] eqn:Eq; try discriminate; [specialize (Hr _ eq_refl); discriminate|congruence].
  - destruct (q r (nth idx xs d)) as [[|]|e] eqn:Eq; try discriminate; [|congruence]. apply (IH (S idx) ok); auto; lia.
Qed.

Section Correct.
  Variable F : formats.
  Variable env : ienv.
  Variable prefer : list string.
  Variable renv' : renv.
  Variable rej objs : string -> bool.
  Hypothesis Henv : env_printed rej objs env prefer renv'.
  Hypothesis rej_sound : forall n, rej n = true -> forall k s b, validate F renv' k s (RRef n) VUndef = Ok b -> b = false.
  Hypothesis objs_sound : forall n, objs n = true -> forall v, is_object_type v = false -> exists k, validate F renv' k false (RRef n) v = Ok false.
  Local Notation plain_rt := (plain_rt rej objs).

  Ltac bind_inv_as H p E :=
    match type of H with
    | bind ?x _ = Ok _ => destruct x as [p|] eqn:E; cbn [bind] in H; [|discriminate H]
    end.

  Lemma validate_any_array k xs b :
    forall_res (validate F renv' k false RAny) xs = Ok b -> b = true.
  Proof.
    induction xs as [|x xs IH]; cbn; intros H; [congruence|].
    destruct k as [|k]; cbn in H; [discriminate|]. apply IH. exact H.
  Qed.

  Lemma exists_res_all_false {A} (p : A -> res bool) l b : (forall x b', In x l -> p x = Ok b' -> b' = false) -> exists_res p l = Ok b -> b = false.
  Proof.
    induction l as [|x l IHl]; cbn [exists_res]; intros H Hb; [congruence|].
    destruct (p x) as [[|]|e] eqn:E; try discriminate; [specialize (H x true (or_introl eq_refl) E); discriminate|].
    apply IHl; [intros y b' Hy; apply H; right; exact Hy|exact Hb].
  Qed.

  Lemma rejects_undef_sound : forall k r s b, rejects_undef rej r = true -> validate F renv' k s r VUndef = Ok b -> b = false.
  Proof.
    induction k as [|k IH]; intros r s b Hr Hv; [discriminate|].
    destruct r; cbn [rejects_undef] in Hr; try discriminate Hr; try (cbn in Hv; congruence).
    - cbn [validate] in Hv. inversion Hv. destruct t; reflexivity.
    - destruct c; try discriminate Hr; cbn [validate] in Hv; inversion Hv; reflexivity.
    - cbn [validate] in Hv. inversion Hv. cbn [is_nullish andb].
      assert (E1 : existsb (fun c => match c with CNull => true | _ => false end) values = false).
      { clear -Hr. induction values as [|c cs IHc]; [reflexivity|]. cbn [forallb existsb] in *. apply andb_prop in Hr as [H0 H1]. rewrite (IHc H1). destruct c; try reflexivity; discriminate H0. }
      rewrite E1. cbn [orb]. clear. induction values as [|c cs IHc]; [reflexivity|]. cbn [existsb]. rewrite IHc. destruct c as [| |[]|]; reflexivity.
    - (* RAllOf *) destruct schemas as [|m rs]; [discriminate Hr|]. cbn [validate forall_res is_object_type typeof jstype_eqb negb] in Hv. congruence.
    - (* RAnyOf *) cbn [validate] in Hv. refine (exists_res_all_false _ _ _ _ Hv). intros m b' Hm Hb'.
      apply (IH m s b'); [rewrite forallb_forall in Hr; apply Hr; exact Hm|exact Hb'].
    - (* RRef *) apply (rej_sound name Hr (S k) s b Hv).
    - (* RMeta *) cbn [validate] in Hv. apply (IH r s b Hr Hv).
  Qed.

  Lemma object_only_sound : forall r, object_only objs r = true -> forall v, is_object_type v = false -> exists k, validate F renv' k false r v = Ok false.
  Proof.
    induction r; cbn [object_only]; intros Ho v Hv; try discriminate Ho.
    - destruct schemas as [|m rs]; [discriminate Ho|]. exists 1. cbn [validate forall_res]. rewrite Hv. reflexivity.
    - exists 1. cbn [validate]. rewrite Hv. reflexivity.
    - exists 1. cbn [validate]. rewrite Hv. reflexivity.
    - apply (objs_sound name Ho v Hv).
    - destruct (IHr Ho v Hv) as [k Hk]. exists (S k). cbn [validate]. exact Hk.
  Qed.

  Lemma opt_wrap_agree k1 (IH : forall t v a pf r k2 b, rmember F env k1 t v = Ok a -> print env prefer pf t = Ok r -> plain_rt r = true ->
                                                          validate F renv' k2 false r v = Ok b -> a = b)
        req t pf r v k2 a b :
    print env prefer pf t = Ok r -> plain_rt r = true ->
    (if negb req && is_nullish v then Ok true else rmember F env k1 t v) = Ok a ->
    validate F renv' k2 false (opt_wrap req r) v = Ok b -> a = b.
  Proof.
    intros Hp Hpl Ha Hb. destruct req; cbn [opt_wrap negb andb] in *.
    - eapply IH; eauto.
    - destruct k2 as [|k2]; [discriminate|]. cbn [validate] in Hb.
      destruct (is_nullish v); [congruence|]. eapply IH; eauto.
  Qed.

  Theorem print_plain_correct : forall k1 t v a pf r k2 b,
      rmember F env k1 t v = Ok a ->
      print env prefer pf t = Ok r -> plain_rt r = true ->
      validate F renv' k2 false r v = Ok b ->
      a = b.
  Proof.
    induction k1 as [|k1 IH]; intros t v a pf r k2 b Hm Hp Hpl Hv; [discriminate|].
    destruct pf as [|pf]; [discriminate|]. destruct k2 as [|k2]; [discriminate|].
    destruct t; cbn [print] in Hp; cbn [rmember] in Hm;
      try (inversion Hp; subst; cbn [validate tyname_type] in Hv; congruence).
    - (* IAnyArrayLike *)
      inversion Hp; subst. cbn [validate] in Hv. destruct v; cbn in Hm, Hv; try congruence.
      apply validate_any_array in Hv. congruence.
    - (* ITpl *)
      destruct items as [|[| | |c|vs] [|i2 items]]; try (inversion Hp; subst; discriminate Hpl).
      inversion Hp; subst. cbn [validate] in Hv.
      cbn [tpl_re_ts tpl_item_re_ts] in Hm. rewrite re_seq_eps_r in Hm.
      destruct v; cbn in Hm, Hv; try congruence. rewrite re_full_lit in Hm. congruence.
    - (* IObject *)
      bind_inv_as Hp props Eprops. bind_inv_as Hp idx' Eidx. inversion Hp; subst. clear Hp.
      cbn [plain_rt] in Hpl. apply andb_prop in Hpl as [Hpl1 Hpl2].
      cbn [validate] in Hv.
      destruct (is_object_type v && negb (is_array v) && negb match v with VNull => true | _ => false end); [|congruence].
      pose proof (map_res_Forall2 _ _ _ Eprops) as F2.
      assert (Hkeys : keys props = keys vs).
      { clear -F2. induction F2 as [|[k [rq t]] [k' r'] vs ps H _ IHF]; [reflexivity|]. cbn in H.
        destruct (print env prefer pf t); cbn in H; [|discriminate]. inversion H; subst. unfold keys in *. cbn. f_equal. exact IHF. }
      rewrite Hkeys in Hv.
      destruct (forall_res (fun kp => (if negb (fst (snd kp)) && is_nullish (get v (fst kp)) then Ok true else rmember F env k1 (snd (snd kp)) (get v (fst kp)))) vs)
        as [okm|e] eqn:Em; cbn [bind] in Hm; [|discriminate].
      destruct (forall_res (fun kp => validate F renv' k2 false (snd kp) (get v (fst kp))) props) as [okv|e] eqn:Ev; cbn [bind] in Hv; [|discriminate].
      assert (okm = okv).
      { eapply (forall_res_rel _ _ vs props); [|exact Em|exact Ev].
        apply (forallb_Forall2_r _ (fun kv => plain_rt (snd kv))) in F2; [|exact Hpl1].
        eapply Forall2_impl2; [exact F2|]. intros [k [rq t]] [k' r'] _ _ [Hpr Hplr] a0 b0 Ha0 Hb0. cbn [fst snd] in *.
        destruct (print env prefer pf t) as [r0|] eqn:Ep; cbn in Hpr; [|discriminate]. inversion Hpr; subst k' r'.
        eapply (opt_wrap_agree k1 IH rq t pf r0); eauto.
        destruct rq; cbn [opt_wrap plain_rt] in Hplr; exact Hplr. }
      subst okv. destruct okm; cbn [negb] in Hm, Hv; [|congruence].
      destruct indexed as [[kt [rq vt]]|].
      + bind_inv_as Eidx rv Erv. bind_inv_as Eidx rk Erk. inversion Eidx; subst idx'. clear Eidx.
        cbn [forallb] in Hpl2. rewrite andb_true_r in Hpl2. apply andb_prop in Hpl2 as [Hplk Hplv]. cbn [fst snd] in Hplk, Hplv.
        eapply (forall_res_rel _ _ _ _ (Forall2_same _ _ _) _ _ Hm Hv).
        Unshelve. intros key _ a0 b0 Ha0 Hb0. apply exists_res_single in Hb0. cbn [fst snd] in Hb0.
        destruct (rmember F env k1 kt (VStr key)) as [ak|] eqn:Eak; cbn [bind] in Ha0; [|discriminate].
        destruct (validate F renv' k2 false rk (VStr key)) as [bk|] eqn:Ebk; cbn [bind] in Hb0; [|discriminate].
        assert (ak = bk) by (eapply IH; eauto). subst bk.
        destruct ak; cbn [negb] in Ha0, Hb0.
        * destruct (validate F renv' k2 false (opt_wrap rq rv) (get v key)) as [[|]|] eqn:Ebv; try discriminate;
            (assert (a0 = _) by (eapply (opt_wrap_agree k1 IH rq vt pf rv); eauto; destruct rq; exact Hplv)); congruence.
        * congruence.
      + inversion Eidx; subst idx'. congruence.
    - (* IArray *)
      bind_inv_as Hp r0 E0. inversion Hp; subst. cbn [plain_rt] in Hpl. cbn [validate] in Hv.
      destruct v; try congruence.
      eapply (forall_res_rel _ _ _ _ (Forall2_same _ _ _) _ _ Hm Hv).
      Unshelve. intros x _ a0 b0 Ha0 Hb0. eapply IH; eauto.
    - (* ITuple *)
      bind_inv_as Hp ps Eps. bind_inv_as Hp rr Err. inversion Hp; subst. clear Hp.
      cbn [plain_rt] in Hpl. apply andb_prop in Hpl as [Hpl Hplr]. apply andb_prop in Hpl as [Hplp Hrej].
      cbn [validate] in Hv. destruct v; try congruence.
      pose proof (map_res_Forall2 _ _ _ Eps) as F2.
      assert (Hlen : List.length ps = List.length prefix) by (clear -F2; induction F2; cbn; congruence).
      destruct (prefix_res (validate F renv' k2 false) VUndef xs ps 0) as [okv|e] eqn:Ev; cbn [bind] in Hv; [|discriminate].
      destruct (Nat.ltb (List.length xs) (List.length prefix)) eqn:Eshort.
      + (* shorter than the prefix: some missing position rejects undefined *)
        apply Nat.ltb_lt in Eshort. inversion Hm; subst a.
        assert (okv = false).
        { apply (prefix_res_hits_default (validate F renv' k2 false) VUndef xs ps 0 okv); [lia|lia| |exact Ev].
          apply Forall_forall. intros r0 Hr0 b0 Hb0. apply (rejects_undef_sound k2 r0 false b0); [rewrite forallb_forall in Hrej; apply Hrej; exact Hr0|exact Hb0]. }
        subst okv. cbn [negb] in Hv. congruence.
      + apply Nat.ltb_ge in Eshort.
        destruct (prefix_res (rmember F env k1) VUndef xs prefix 0) as [okm|e] eqn:Em; cbn [bind] in Hm; [|discriminate].
        assert (okm = okv).
        { eapply (prefix_res_rel (rmember F env k1) (validate F renv' k2 false) VUndef xs prefix ps 0); [|exact Em|exact Ev].
          apply (forallb_Forall2_r _ plain_rt) in F2; [|exact Hplp].
          eapply Forall2_impl2; [exact F2|]. intros t0 r0 _ _ [Hp0 Hpl0] c a0 b0 Ha0 Hb0. eapply IH; eauto. }
        subst okv. destruct okm; cbn [negb] in Hm, Hv; [|congruence].
        destruct rest as [rt0|].
        * bind_inv_as Err y Ey. inversion Err; subst rr. rewrite Hlen in Hv.
          eapply (forall_res_rel _ _ _ _ (Forall2_same _ _ _) _ _ Hm Hv).
          Unshelve. intros x _ a0 b0 Ha0 Hb0. eapply IH; eauto.
        * inversion Err; subst rr. inversion Hm; inversion Hv; subst. rewrite Hlen.
          destruct (Nat.eqb (List.length xs) (List.length prefix)) eqn:E1; destruct (Nat.ltb (List.length prefix) (List.length xs)) eqn:E2; try reflexivity.
          -- apply Nat.eqb_eq in E1. apply Nat.ltb_lt in E2. lia.
          -- apply Nat.eqb_neq in E1. apply Nat.ltb_ge in E2. lia.
    - (* IRef *)
      inversion Hp; subst. cbn [validate] in Hv.
      destruct (assoc name env) as [body|] eqn:Ea; [|discriminate].
      destruct (Henv _ _ Ea) as (r' & pf' & Hr' & Hpr' & Hpl'). rewrite Hr' in Hv. eapply IH; eauto.
    - (* IAnyOf *)
      assert (Hp' : print env prefer (S pf) (IAnyOf vs) = Ok r) by (cbn [print]; exact Hp).
      destruct (print_anyof_plain rej objs env prefer pf vs r Hp' Hpl) as (rs & Hrs & ->).
      cbn [plain_rt] in Hpl. cbn [validate] in Hv.
      pose proof (map_res_Forall2 _ _ _ Hrs) as F2.
      eapply (exists_res_rel _ _ vs rs); [|exact Hm|exact Hv].
      apply (forallb_Forall2_r _ plain_rt) in F2; [|exact Hpl].
      eapply Forall2_impl2; [exact F2|]. intros t0 r0 _ _ [Hp0 Hpl0] a0 b0 Ha0 Hb0. eapply IH; eauto.
    - (* IAllOf *)
      bind_inv_as Hp rs E0. inversion Hp; subst. clear Hp. cbn [plain_rt] in Hpl. apply andb_prop in Hpl as [Hplm Hobj].
      cbn [validate] in Hv. pose proof (map_res_Forall2 _ _ _ E0) as F2.
      destruct (is_object_type v) eqn:Eo; cbn [negb] in Hv.
      + eapply (forall_res_rel _ _ vs rs); [|exact Hm|exact Hv].
        apply (forallb_Forall2_r _ plain_rt) in F2; [|exact Hplm].
        eapply Forall2_impl2; [exact F2|]. intros t0 r0 _ _ [Hp0 Hpl0] a0 b0 Ha0 Hb0. eapply IH; eauto.
      + (* not an object: the validator answers false at once; so does the first member of the intersection *)
        inversion F2 as [|t0 r0 ts rs' Hp0 F2']; subst; [cbn in Hm, Hv; congruence|].
        cbn [forall_res] in Hv. inversion Hv; subst b. cbn [forall_res] in Hm.
        cbn [forallb] in Hplm, Hobj. apply andb_prop in Hplm as [Hpl0 _]. apply andb_prop in Hobj as [Ho0 _].
        destruct (object_only_sound r0 Ho0 v Eo) as [k0 Hk0].
        destruct (rmember F env k1 t0 v) as [[|]|e] eqn:Em0; try discriminate; [|congruence].
        pose proof (IH t0 v true pf r0 k0 false Em0 Hp0 Hpl0 Hk0). discriminate.
    - (* IConst *)
      inversion Hp; subst. destruct c; cbn [cst_of_irconst validate] in Hv; destruct v; cbn in Hm, Hv; congruence.
    - (* IMap *)
      bind_inv_as Hp ra Ea. bind_inv_as Hp rb Eb. inversion Hp; subst. cbn [plain_rt] in Hpl. apply andb_prop in Hpl as [Hpa Hpb].
      cbn [validate] in Hv. destruct v; try congruence.
      eapply (forall_res_rel _ _ _ _ (Forall2_same _ _ _) _ _ Hm Hv).
      Unshelve. intros kv _ a0 b0 Ha0 Hb0.
      destruct (rmember F env k1 t1 (fst kv)) as [ak|] eqn:Eak; cbn [bind] in Ha0; [|discriminate].
      destruct (validate F renv' k2 false ra (fst kv)) as [bk|] eqn:Ebk; cbn [bind] in Hb0; [|discriminate].
      assert (ak = bk) by (eapply IH; eauto). subst bk. destruct ak; cbn [negb] in *; [eapply IH; eauto|congruence].
    - (* ISet *)
      bind_inv_as Hp r0 E0. inversion Hp; subst. cbn [plain_rt] in Hpl. cbn [validate] in Hv.
      destruct v; try congruence.
      eapply (forall_res_rel _ _ _ _ (Forall2_same _ _ _) _ _ Hm Hv).
      Unshelve. intros x _ a0 b0 Ha0 Hb0. eapply IH; eauto.
    - (* IMetaIR *)
      bind_inv_as Hp r0 E0. inversion Hp; subst. cbn [plain_rt] in Hpl. cbn [validate] in Hv. eapply IH; eauto.
  Qed.
End Correct.

(* ---------- canonical choice of the two side tables: read them off the printed environment ---------- *)
Definition rej_of (renv' : renv) (n : string) : bool :=
  match assoc n renv' with Some r => rejects_undef (fun _ => false) r | None => false end.
Definition objs_of (renv' : renv) (n : string) : bool :=
  match assoc n renv' with Some r => object_only (fun _ => false) r | None => false end.

Lemma rej_of_sound F renv' n : rej_of renv' n = true -> forall k s b, validate F renv' k s (RRef n) VUndef = Ok b -> b = false.
Proof.
  unfold rej_of. intros H k s b Hv. destruct k as [|k]; [discriminate|]. cbn [validate] in Hv.
  destruct (assoc n renv') as [r|]; [|discriminate].
  apply (rejects_undef_sound F renv' (fun _ => false) (fun n0 H0 => match Bool.diff_false_true H0 with end) k r s b H Hv).
Qed.
Lemma objs_of_sound F renv' n : objs_of renv' n = true -> forall v, is_object_type v = false -> exists k, validate F renv' k false (RRef n) v = Ok false.
Proof.
  unfold objs_of. intros H v Hv. destruct (assoc n renv') as [r|] eqn:Ea; [|discriminate].
  destruct (object_only_sound F renv' (fun _ => false) (fun n0 H0 => match Bool.diff_false_true H0 with end) r H v Hv) as [k Hk].
  exists (S k). cbn [validate]. rewrite Ea. exact Hk.
Qed.

Theorem print_plain_correct_env F env prefer renv' :
  env_printed (rej_of renv') (objs_of renv') env prefer renv' ->
  forall k1 t v a pf r k2 b,
    rmember F env k1 t v = Ok a ->
    print env prefer pf t = Ok r -> plain_rt (rej_of renv') (objs_of renv') r = true ->
    validate F renv' k2 false r v = Ok b ->
    a = b.
Proof.
  intros Henv. apply (print_plain_correct F env prefer renv' (rej_of renv') (objs_of renv') Henv (rej_of_sound F renv') (objs_of_sound F renv')).
Qed.
