(* Proofs/C02.v — a type that JSON Schema cannot express makes the flat schema() throw. *)
From Beff Require Import Model.Schema Proofs.C16.

Section C02.
  Definition md : mode := Flat.

  (* an inexpressible leaf (Date, bigint, Map, Set, typed array) at a position the printer visits in this mode
     without going through a named reference *)
  Fixpoint inexpr (r : rt) : bool :=
    match r with
    | RDate | RBigInt | RTypedArray _ | RMap _ _ | RSet _ => true
    | RTuple prefix rest => existsb inexpr prefix || match rest with Some x => inexpr x | None => false end
    | RAllOf rs | RAnyOf rs => existsb inexpr rs
    | RArray t | ROptional t | RMeta _ t => inexpr t
    | RDisc ss _ _ smapping =>
        existsb inexpr ss
    | RObject props indexed => existsb (fun kp => inexpr (snd kp)) props
                               || existsb (fun q => inexpr (fst q) || inexpr (snd q)) indexed
    | _ => false
    end.

  Variable env : renv.
  Variable cf : pconf.

  Lemma smap_ok_each {A B} (g : pctx -> A -> res (B * pctx)) l :
    forall c ys c', smap g c l = Ok (ys, c') -> forall x, In x l -> exists c0 y c0', g c0 x = Ok (y, c0').
  Proof.
    induction l as [|a l IH]; intros c ys c'; unfold smap; fold (smap g); [intros _ x []|].
    destruct (g c a) as [[y cy]|e] eqn:E; cbn [bind fst snd]; [|discriminate].
    destruct (smap g cy l) as [[ys' cl]|e] eqn:El; cbn [bind fst snd]; [|discriminate].
    intros _ x [<-|Hin]; [eauto|]. eapply IH; eauto.
  Qed.

  Lemma existsb_false_intro {A} (p : A -> bool) l : (forall x, In x l -> p x = false) -> existsb p l = false.
  Proof.
    intros H. destruct (existsb p l) eqn:E; [|reflexivity].
    apply existsb_exists in E as [x [Hin Hx]]. rewrite (H x Hin) in Hx. discriminate.
  Qed.

  Theorem schema_ok_expressible : forall f seen desc c r j c',
      schema env cf md f seen desc c r = Ok (j, c') -> inexpr r = false.
  Proof.
    induction f as [|f IH]; intros seen desc c r j c'; [discriminate|].
    assert (IHs : forall c0 r0 y c0', schema env cf md f seen None c0 r0 = Ok (y, c0') -> inexpr r0 = false)
      by (intros; eapply IH; eassumption).
    assert (All : forall (l : list rt) c0 ys c0',
               smap (fun c' r' => schema env cf md f seen None c' r') c0 l = Ok (ys, c0') ->
               existsb inexpr l = false).
    { intros l c0 ys c0' H. apply existsb_false_intro. intros x Hin.
      destruct (smap_ok_each _ _ _ _ _ H x Hin) as [c1 [y [c1' Hy]]]. apply (IHs _ _ _ _ Hy). }
    destruct r as [t| |d| |k|items d| | |ctor|fs|fs|cs|prefix rest|rs|rs|item|r1 r2|item|ss disc mapping smapping|t|props indexed|name|d t];
      cbn [schema inexpr]; try (intros _; reflexivity).
    - unfold unsupported; intros H; discriminate H.
    - unfold unsupported; intros H; discriminate H.
    - unfold unsupported; intros H; discriminate H.
    - (* RTuple *)
      destruct (smap _ c prefix) as [[ps cp]|e] eqn:E; cbn [bind fst snd]; [|discriminate].
      rewrite (All _ _ _ _ E). cbn [orb]. destruct rest as [rr|]; [|intros _; reflexivity].
      destruct (schema env cf md f seen None cp rr) as [[x cx]|e] eqn:Er; cbn [bind fst snd]; [|discriminate].
      intros _. apply (IHs _ _ _ _ Er).
    - (* RAllOf *)
      destruct (smap _ c rs) as [[ps cp]|e] eqn:E; cbn [bind fst snd]; [|discriminate]. intros _. apply (All _ _ _ _ E).
    - (* RAnyOf *)
      destruct (smap _ c rs) as [[ps cp]|e] eqn:E; cbn [bind fst snd]; [|discriminate]. intros _. apply (All _ _ _ _ E).
    - (* RArray *)
      destruct (schema env cf md f seen None c item) as [[x cx]|e] eqn:E; cbn [bind fst snd]; [|discriminate].
      intros _. apply (IHs _ _ _ _ E).
    - unfold unsupported; intros H; discriminate H.
    - unfold unsupported; intros H; discriminate H.
    - (* RDisc *)
      destruct (smap _ c ss) as [[ps cp]|e] eqn:E; cbn [bind fst snd]; [|discriminate]. intros _. apply (All _ _ _ _ E).
    - (* ROptional *)
      destruct (schema env cf md f seen None c t) as [[x cx]|e] eqn:E; cbn [bind fst snd]; [|discriminate].
      intros _. apply (IHs _ _ _ _ E).
    - (* RObject *)
      destruct (smap _ c props) as [[ps cp]|e] eqn:E; cbn [bind fst snd]; [|discriminate].
      destruct (smap _ cp indexed) as [[qs cq]|e] eqn:Eq; cbn [bind fst snd]; [|discriminate].
      intros _. apply orb_false_intro.
      + apply existsb_false_intro. intros [k0 p0] Hin. cbn [snd].
        destruct (smap_ok_each _ _ _ _ _ E _ Hin) as [c1 [y [c1' Hy]]]. cbn [fst snd] in Hy.
        destruct (schema env cf md f seen None c1 p0) as [[raw craw]|e] eqn:Er; cbn [bind] in Hy; [|discriminate].
        apply (IHs _ _ _ _ Er).
      + apply existsb_false_intro. intros [kr vr] Hin. cbn [fst snd].
        destruct (smap_ok_each _ _ _ _ _ Eq _ Hin) as [c1 [y [c1' Hy]]]. cbn [fst snd] in Hy.
        destruct (schema env cf md f seen None c1 kr) as [[ks cks]|e] eqn:Ek; cbn [bind fst snd] in Hy; [|discriminate].
        destruct (schema env cf md f seen None cks vr) as [[vs cvs]|e] eqn:Ev; cbn [bind fst snd] in Hy; [|discriminate].
        rewrite (IHs _ _ _ _ Ek), (IHs _ _ _ _ Ev). reflexivity.
    - (* RMeta *) intros H. eapply IH; exact H.
  Qed.
End C02.
