(* Proofs/SemOps.v — SemTypeOps::union / intersect / diff are the set operations on what a semantic type denotes (mem),
   for every interpretation of the structural atoms; is_empty is emptiness on the basic fragment; hence
   is_subtype = inclusion there. *)
From Beff Require Import Model.SemSpec Model.Subtype Proofs.Bdd Proofs.SemType Proofs.ResLemmas.
From Coq Require Import Sorting.Permutation Lia.

(* ================================================================ equality tests *)
Lemma list_eqb_spec {A} (eqb : A -> A -> bool) (l1 l2 : list A) :
  (forall a b, In a l1 -> (eqb a b = true <-> a = b)) -> (list_eqb eqb l1 l2 = true <-> l1 = l2).
Proof.
  revert l2. induction l1 as [|x l1 IH]; intros [|y l2] H; cbn.
  - tauto.
  - split; discriminate.
  - split; discriminate.
  - rewrite andb_true_iff, (H x y (or_introl eq_refl)), (IH l2 (fun a b Ha => H a b (or_intror Ha))).
    split; [intros [-> ->]; reflexivity|intros E; inversion E; auto].
Qed.

Fixpoint tpl_item_eqb_spec (a : tpl_item) : forall b, tpl_item_eqb a b = true <-> a = b.
Proof.
  destruct a as [| | |s|vs]; intros [| | |s'|vs']; cbn; try (split; discriminate); try tauto.
  - rewrite String.eqb_eq. split; [intros ->; reflexivity|intros E; inversion E; reflexivity].
  - assert (H : list_eqb tpl_item_eqb vs vs' = true <-> vs = vs').
    { revert vs'. induction vs as [|x vs IH]; intros [|y vs']; cbn; [tauto|split; discriminate|split; discriminate|].
      rewrite andb_true_iff, (tpl_item_eqb_spec x y), (IH vs'). split; [intros [-> ->]; reflexivity|intros E; inversion E; auto]. }
    rewrite H. split; [intros ->; reflexivity|intros E; inversion E; reflexivity].
Qed.

Lemma str_list_eqb_spec (l1 l2 : list string) : list_eqb String.eqb l1 l2 = true <-> l1 = l2.
Proof. apply list_eqb_spec. intros a b _. apply String.eqb_eq. Qed.

Lemma numval_eqb_spec a b : numval_eqb a b = true <-> a = b.
Proof.
  destruct a as [x|f a1], b as [y|g a2]; cbn; try (split; discriminate).
  - rewrite Z.eqb_eq. split; [intros ->; reflexivity|intros E; inversion E; reflexivity].
  - rewrite andb_true_iff, String.eqb_eq, str_list_eqb_spec. split; [intros [-> ->]; reflexivity|intros E; inversion E; auto].
Qed.
Lemma strval_eqb_spec a b : strval_eqb a b = true <-> a = b.
Proof.
  destruct a as [f a1|x], b as [g a2|y]; cbn; try (split; discriminate).
  - rewrite andb_true_iff, String.eqb_eq, str_list_eqb_spec. split; [intros [-> ->]; reflexivity|intros E; inversion E; auto].
  - rewrite (list_eqb_spec tpl_item_eqb x y (fun a b _ => tpl_item_eqb_spec a b)).
    split; [intros ->; reflexivity|intros E; inversion E; reflexivity].
Qed.
Lemma numval_is_sub_lit a b : numval_lit a = true -> numval_lit b = true -> numval_is_sub a b = Ok (numval_eqb a b).
Proof. destruct a, b; cbn; try discriminate; reflexivity. Qed.
Lemma strval_is_sub_lit a b : strval_lit a = true -> strval_lit b = true -> strval_is_sub a b = Ok (strval_eqb a b).
Proof.
  destruct a as [|[|[| | |s|] [|]]], b as [|[|[| | |s'|] [|]]]; cbn; try discriminate. intros _ _.
  rewrite andb_true_r. reflexivity.
Qed.

(* ================================================================ the allowed / excluded flag algebra *)
Section FlagsSpec.
  Context {K : Type}.
  Variable eqb : K -> K -> bool.
  Hypothesis eqb_spec : forall a b, eqb a b = true <-> a = b.
  Variable is_sub : K -> K -> res bool.
  Variable leb : K -> K -> bool.
  Variable lit : K -> bool.
  Hypothesis is_sub_lit : forall a b, lit a = true -> lit b = true -> is_sub a b = Ok (eqb a b).
  Variable mk : bool -> list K -> proper.
  Variable t : stag.

  Notation all_lit l := (forallb lit l = true).
  Notation lm := (lits_mem eqb).

  Lemma existsb_In_bool x l : existsb (eqb x) l = true <-> In x l.
  Proof. exact (existsb_eqb_In eqb eqb_spec x l). Qed.

  Lemma bool_of_iff (a b : bool) : (a = true <-> b = true) -> a = b.
  Proof. destruct a, b; intros [H1 H2]; try reflexivity; [symmetry; apply H1; reflexivity|apply H2; reflexivity]. Qed.

  Lemma lits_intersect_spec a1 v1 a2 v2 :
    all_lit v1 -> all_lit v2 ->
    exists a v, lits_intersect is_sub eqb leb mk t a1 v1 a2 v2 = Ok (lit_subtype mk t a v) /\ all_lit v /\
                (forall x, lm a v x = lm a1 v1 x && lm a2 v2 x) /\ (a = false -> forall x, In x v1 -> In x v).
  Proof.
    intros H1 H2. unfold lits_intersect, lits_mem.
    destruct a1, a2.
    - destruct (sub_vec_intersect_lit eqb eqb_spec is_sub leb lit is_sub_lit v1 v2 H1 H2) as (v & -> & Hl & Hv).
      exists true, v. repeat split; auto; try discriminate. intros x. apply bool_of_iff.
      rewrite andb_true_iff, !existsb_In_bool. apply Hv.
    - destruct (sub_vec_diff_lit eqb eqb_spec is_sub leb lit is_sub_lit v1 v2 H1 H2) as (v & -> & Hl & Hv).
      exists true, v. repeat split; auto; try discriminate. intros x. apply bool_of_iff.
      rewrite andb_true_iff, negb_true_iff, <- not_true_iff_false, !existsb_In_bool. apply Hv.
    - destruct (sub_vec_diff_lit eqb eqb_spec is_sub leb lit is_sub_lit v2 v1 H2 H1) as (v & -> & Hl & Hv).
      exists true, v. repeat split; auto; try discriminate. intros x. apply bool_of_iff.
      rewrite andb_true_iff, negb_true_iff, <- not_true_iff_false, !existsb_In_bool. rewrite Hv. tauto.
    - destruct (sub_vec_union_lit eqb eqb_spec is_sub leb lit is_sub_lit v1 v2 H1 H2) as (v & -> & Hl & Hv).
      exists false, v. repeat split; auto.
      + intros x. apply bool_of_iff.
        rewrite andb_true_iff, !negb_true_iff, <- !not_true_iff_false, !existsb_In_bool. rewrite Hv. tauto.
      + intros _ x Hx. apply Hv. left. exact Hx.
  Qed.

  Lemma lits_union_spec a1 v1 a2 v2 :
    all_lit v1 -> all_lit v2 ->
    exists a v, lits_union is_sub eqb leb mk t a1 v1 a2 v2 = Ok (lit_subtype mk t a v) /\ all_lit v /\
                forall x, lm a v x = lm a1 v1 x || lm a2 v2 x.
  Proof.
    intros H1 H2. unfold lits_union, lits_mem.
    destruct a1, a2.
    - destruct (sub_vec_union_lit eqb eqb_spec is_sub leb lit is_sub_lit v1 v2 H1 H2) as (v & -> & Hl & Hv).
      exists true, v. repeat split; auto. intros x. apply bool_of_iff.
      rewrite orb_true_iff, !existsb_In_bool. apply Hv.
    - destruct (sub_vec_diff_lit eqb eqb_spec is_sub leb lit is_sub_lit v2 v1 H2 H1) as (v & -> & Hl & Hv).
      exists false, v. repeat split; auto. intros x. apply bool_of_iff.
      rewrite orb_true_iff, !negb_true_iff, <- !not_true_iff_false, !existsb_In_bool. rewrite Hv.
      destruct (in_dec (fun a b => match eqb a b as r return (eqb a b = r -> {a = b} + {a <> b}) with
                                   | true => fun E => left (proj1 (eqb_spec a b) E)
                                   | false => fun E => right (fun H => eq_ind true (fun r => r = false -> False) (fun H0 => Bool.diff_true_false H0) _ (eq_sym (proj2 (eqb_spec a b) H)) E)
                                   end eq_refl) x v1); tauto.
    - destruct (sub_vec_diff_lit eqb eqb_spec is_sub leb lit is_sub_lit v1 v2 H1 H2) as (v & -> & Hl & Hv).
      exists false, v. repeat split; auto. intros x. apply bool_of_iff.
      rewrite orb_true_iff, !negb_true_iff, <- !not_true_iff_false, !existsb_In_bool. rewrite Hv.
      destruct (existsb (eqb x) v2) eqn:E; [apply existsb_In_bool in E; tauto|].
      assert (~ In x v2) by (intros Hin; apply existsb_In_bool in Hin; congruence). tauto.
    - destruct (sub_vec_intersect_lit eqb eqb_spec is_sub leb lit is_sub_lit v1 v2 H1 H2) as (v & -> & Hl & Hv).
      exists false, v. repeat split; auto. intros x. apply bool_of_iff.
      rewrite orb_true_iff, !negb_true_iff, <- !not_true_iff_false, !existsb_In_bool. rewrite Hv.
      destruct (existsb (eqb x) v1) eqn:E; [apply existsb_In_bool in E|]; [|assert (~ In x v1) by (intros Hin; apply existsb_In_bool in Hin; congruence)]; tauto.
  Qed.
End FlagsSpec.

(* ================================================================ proper subtypes *)
Definition pfrag (p : proper) : bool :=
  match p with PTypedArray _ _ | PVoidUndefined _ _ => false | _ => proper_frag p end.
(* the points a value can be: one point per unit tag, structured points only for the structural tags *)
Definition valid_point (pt : point) : bool :=
  match pt with
  | PtUnit t => match t with TgNull | TgOptionalProp | TgBigInt | TgDate | TgVoidUndefined => true | _ => false end
  | PtStruct t _ => match t with TgMapping | TgList | TgMap | TgSet => true | _ => false end
  | _ => true
  end.
Definition sub_ok (tau : stag) (s : subtype) : Prop :=
  match s with
  | SFalse t | STrue t => t = tau
  | SProper p => proper_tag p = tau /\ pfrag p = true
  end.

Lemma pmem_tag p pt : pmem p pt = true -> proper_tag p = point_tag pt.
Proof. destruct p, pt; cbn; try discriminate; try reflexivity; destruct t; try discriminate; reflexivity. Qed.

Lemma smem_lit_num a v z : smem (lit_subtype PNumber TgNumber a v) (PtNum z) = lits_mem numval_eqb a v (NLit z).
Proof. destruct v as [|x v]; [destruct a; reflexivity|reflexivity]. Qed.
Lemma smem_lit_str a v s : smem (lit_subtype PString TgString a v) (PtStr s) = lits_mem strval_eqb a v (lit_str s).
Proof. destruct v as [|x v]; [destruct a; reflexivity|reflexivity]. Qed.
Lemma sub_ok_lit_num a v : forallb numval_lit v = true -> sub_ok TgNumber (lit_subtype PNumber TgNumber a v).
Proof. destruct v as [|x v]; [destruct a; reflexivity|]. intros H. cbn [lit_subtype sub_ok proper_tag pfrag proper_frag]. rewrite H. auto. Qed.
Lemma sub_ok_lit_str a v : forallb strval_lit v = true -> sub_ok TgString (lit_subtype PString TgString a v).
Proof. destruct v as [|x v]; [destruct a; reflexivity|]. intros H. cbn [lit_subtype sub_ok proper_tag pfrag proper_frag]. rewrite H. auto. Qed.

Lemma pfrag_num a v : pfrag (PNumber a v) = true -> forallb numval_lit v = true.
Proof. cbn. intros H. apply andb_prop in H as [H _]. exact H. Qed.
Lemma pfrag_str a v : pfrag (PString a v) = true -> forallb strval_lit v = true.
Proof. cbn. intros H. apply andb_prop in H as [H _]. exact H. Qed.

Ltac point_cases pt Hv Ht :=
  destruct pt as [x|z|s|k|u|u rho]; cbn in Ht; try discriminate Ht;
  try (subst u; cbn in Hv; try discriminate Hv).

Definition num_inter := lits_intersect_spec numval_eqb numval_eqb_spec numval_is_sub numval_leb numval_lit numval_is_sub_lit PNumber TgNumber.
Definition str_inter := lits_intersect_spec strval_eqb strval_eqb_spec strval_is_sub strval_leb strval_lit strval_is_sub_lit PString TgString.
Definition num_union := lits_union_spec numval_eqb numval_eqb_spec numval_is_sub numval_leb numval_lit numval_is_sub_lit PNumber TgNumber.
Definition str_union := lits_union_spec strval_eqb strval_eqb_spec strval_is_sub strval_leb strval_lit strval_is_sub_lit PString TgString.

Lemma bdd_res_ok o b : bdd_res o = Ok b -> o = Some b.
Proof. destruct o; cbn; congruence. Qed.

(* keep the kernel from unfolding the fuelled diagram operations when it re-checks conversions *)
Opaque intersect union diff complement FUEL_BDD.

Lemma proper_intersect_spec p1 p2 s :
  pfrag p1 = true -> pfrag p2 = true -> proper_tag p1 = proper_tag p2 -> proper_intersect p1 p2 = Ok s ->
  sub_ok (proper_tag p1) s /\
  forall pt, valid_point pt = true -> point_tag pt = proper_tag p1 -> smem s pt = pmem p1 pt && pmem p2 pt.
Proof.
  intros F1 F2 Ht Hs.
  destruct p1 as [b1|a1 v1|a1 v1|d1|d1|a1 v1|a1 v1|d1|d1], p2 as [b2|a2 v2|a2 v2|d2|d2|a2 v2|a2 v2|d2|d2];
    try discriminate Ht; try discriminate F1; try discriminate F2; cbn [proper_intersect] in Hs.
  - inversion Hs; subst s. destruct (Bool.eqb b1 b2) eqn:E.
    + split; [split; reflexivity|]. intros pt Hv Hp. point_cases pt Hv Hp. cbn.
      apply Bool.eqb_prop in E. subst. destruct (Bool.eqb b2 x); reflexivity.
    + split; [reflexivity|]. intros pt Hv Hp. point_cases pt Hv Hp. cbn.
      destruct b1, b2, x; try reflexivity; discriminate E.
  - destruct (num_inter a1 v1 a2 v2 (pfrag_num _ _ F1) (pfrag_num _ _ F2)) as (a & v & E & Hl & Hm & _).
    rewrite E in Hs. inversion Hs; subst s. split; [apply sub_ok_lit_num; exact Hl|].
    intros pt Hv Hp. point_cases pt Hv Hp. rewrite smem_lit_num. apply Hm.
  - destruct (str_inter a1 v1 a2 v2 (pfrag_str _ _ F1) (pfrag_str _ _ F2)) as (a & v & E & Hl & Hm & _).
    rewrite E in Hs. inversion Hs; subst s. split; [apply sub_ok_lit_str; exact Hl|].
    intros pt Hv Hp. point_cases pt Hv Hp. rewrite smem_lit_str. apply Hm.
  - destruct (bdd_res (intersect FUEL_BDD d1 d2)) as [b|e] eqn:E; cbn [bind] in Hs; [|discriminate]. inversion Hs; subst s.
    split; [split; reflexivity|]. intros pt Hv Hp. point_cases pt Hv Hp. cbn.
    apply (intersect_sound rho _ _ _ _ (bdd_res_ok _ _ E)).
  - destruct (bdd_res (intersect FUEL_BDD d1 d2)) as [b|e] eqn:E; cbn [bind] in Hs; [|discriminate]. inversion Hs; subst s.
    split; [split; reflexivity|]. intros pt Hv Hp. point_cases pt Hv Hp. cbn.
    apply (intersect_sound rho _ _ _ _ (bdd_res_ok _ _ E)).
  - destruct (bdd_res (intersect FUEL_BDD d1 d2)) as [b|e] eqn:E; cbn [bind] in Hs; [|discriminate]. inversion Hs; subst s.
    split; [split; reflexivity|]. intros pt Hv Hp. point_cases pt Hv Hp. cbn.
    apply (intersect_sound rho _ _ _ _ (bdd_res_ok _ _ E)).
  - destruct (bdd_res (intersect FUEL_BDD d1 d2)) as [b|e] eqn:E; cbn [bind] in Hs; [|discriminate]. inversion Hs; subst s.
    split; [split; reflexivity|]. intros pt Hv Hp. point_cases pt Hv Hp. cbn.
    apply (intersect_sound rho _ _ _ _ (bdd_res_ok _ _ E)).
Qed.

Lemma proper_union_spec p1 p2 s :
  pfrag p1 = true -> pfrag p2 = true -> proper_tag p1 = proper_tag p2 -> proper_union p1 p2 = Ok s ->
  sub_ok (proper_tag p1) s /\
  forall pt, valid_point pt = true -> point_tag pt = proper_tag p1 -> smem s pt = pmem p1 pt || pmem p2 pt.
Proof.
  intros F1 F2 Ht Hs.
  destruct p1 as [b1|a1 v1|a1 v1|d1|d1|a1 v1|a1 v1|d1|d1], p2 as [b2|a2 v2|a2 v2|d2|d2|a2 v2|a2 v2|d2|d2];
    try discriminate Ht; try discriminate F1; try discriminate F2; cbn [proper_union] in Hs.
  - inversion Hs; subst s. destruct (Bool.eqb b1 b2) eqn:E.
    + split; [split; reflexivity|]. intros pt Hv Hp. point_cases pt Hv Hp. cbn.
      apply Bool.eqb_prop in E. subst. destruct (Bool.eqb b2 x); reflexivity.
    + split; [reflexivity|]. intros pt Hv Hp. point_cases pt Hv Hp. cbn.
      destruct b1, b2, x; try reflexivity; discriminate E.
  - destruct (num_union a1 v1 a2 v2 (pfrag_num _ _ F1) (pfrag_num _ _ F2)) as (a & v & E & Hl & Hm).
    rewrite E in Hs. inversion Hs; subst s. split; [apply sub_ok_lit_num; exact Hl|].
    intros pt Hv Hp. point_cases pt Hv Hp. rewrite smem_lit_num. apply Hm.
  - destruct (str_union a1 v1 a2 v2 (pfrag_str _ _ F1) (pfrag_str _ _ F2)) as (a & v & E & Hl & Hm).
    rewrite E in Hs. inversion Hs; subst s. split; [apply sub_ok_lit_str; exact Hl|].
    intros pt Hv Hp. point_cases pt Hv Hp. rewrite smem_lit_str. apply Hm.
  - destruct (bdd_res (union FUEL_BDD d1 d2)) as [b|e] eqn:E; cbn [bind] in Hs; [|discriminate]. inversion Hs; subst s.
    split; [split; reflexivity|]. intros pt Hv Hp. point_cases pt Hv Hp. cbn.
    apply (union_sound rho _ _ _ _ (bdd_res_ok _ _ E)).
  - destruct (bdd_res (union FUEL_BDD d1 d2)) as [b|e] eqn:E; cbn [bind] in Hs; [|discriminate]. inversion Hs; subst s.
    split; [split; reflexivity|]. intros pt Hv Hp. point_cases pt Hv Hp. cbn.
    apply (union_sound rho _ _ _ _ (bdd_res_ok _ _ E)).
  - destruct (bdd_res (union FUEL_BDD d1 d2)) as [b|e] eqn:E; cbn [bind] in Hs; [|discriminate]. inversion Hs; subst s.
    split; [split; reflexivity|]. intros pt Hv Hp. point_cases pt Hv Hp. cbn.
    apply (union_sound rho _ _ _ _ (bdd_res_ok _ _ E)).
  - destruct (bdd_res (union FUEL_BDD d1 d2)) as [b|e] eqn:E; cbn [bind] in Hs; [|discriminate]. inversion Hs; subst s.
    split; [split; reflexivity|]. intros pt Hv Hp. point_cases pt Hv Hp. cbn.
    apply (union_sound rho _ _ _ _ (bdd_res_ok _ _ E)).
Qed.

Lemma proper_complement_spec p c :
  pfrag p = true -> proper_complement p = Ok c ->
  proper_tag c = proper_tag p /\ pfrag c = true /\
  forall pt, valid_point pt = true -> point_tag pt = proper_tag p -> pmem c pt = negb (pmem p pt).
Proof.
  intros F Hc.
  destruct p as [b1|a1 v1|a1 v1|d1|d1|a1 v1|a1 v1|d1|d1]; try discriminate F; cbn [proper_complement] in Hc.
  - inversion Hc; subst c. repeat split. intros pt Hv Hp. point_cases pt Hv Hp. cbn. destruct b1, x; reflexivity.
  - inversion Hc; subst c. repeat split; [exact F|]. intros pt Hv Hp. point_cases pt Hv Hp. cbn. unfold lits_mem. destruct a1; cbn; [reflexivity|rewrite negb_involutive; reflexivity].
  - inversion Hc; subst c. repeat split; [exact F|]. intros pt Hv Hp. point_cases pt Hv Hp. cbn. unfold lits_mem. destruct a1; cbn; [reflexivity|rewrite negb_involutive; reflexivity].
  - destruct (bdd_res (complement FUEL_BDD d1)) as [b|e] eqn:E; cbn [bind] in Hc; [|discriminate]. inversion Hc; subst c.
    repeat split. intros pt Hv Hp. point_cases pt Hv Hp. cbn. apply (complement_sound rho _ _ _ (bdd_res_ok _ _ E)).
  - destruct (bdd_res (complement FUEL_BDD d1)) as [b|e] eqn:E; cbn [bind] in Hc; [|discriminate]. inversion Hc; subst c.
    repeat split. intros pt Hv Hp. point_cases pt Hv Hp. cbn. apply (complement_sound rho _ _ _ (bdd_res_ok _ _ E)).
  - destruct (bdd_res (complement FUEL_BDD d1)) as [b|e] eqn:E; cbn [bind] in Hc; [|discriminate]. inversion Hc; subst c.
    repeat split. intros pt Hv Hp. point_cases pt Hv Hp. cbn. apply (complement_sound rho _ _ _ (bdd_res_ok _ _ E)).
  - destruct (bdd_res (complement FUEL_BDD d1)) as [b|e] eqn:E; cbn [bind] in Hc; [|discriminate]. inversion Hc; subst c.
    repeat split. intros pt Hv Hp. point_cases pt Hv Hp. cbn. apply (complement_sound rho _ _ _ (bdd_res_ok _ _ E)).
Qed.

Lemma proper_diff_spec p1 p2 s :
  pfrag p1 = true -> pfrag p2 = true -> proper_tag p1 = proper_tag p2 -> proper_diff p1 p2 = Ok s ->
  sub_ok (proper_tag p1) s /\
  forall pt, valid_point pt = true -> point_tag pt = proper_tag p1 -> smem s pt = pmem p1 pt && negb (pmem p2 pt).
Proof.
  intros F1 F2 Ht Hs.
  assert (Gen : (do c <- proper_complement p2; proper_intersect p1 c) = Ok s ->
                sub_ok (proper_tag p1) s /\
                forall pt, valid_point pt = true -> point_tag pt = proper_tag p1 -> smem s pt = pmem p1 pt && negb (pmem p2 pt)).
  { intros H. destruct (proper_complement p2) as [c|e] eqn:Ec; cbn [bind] in H; [|discriminate].
    destruct (proper_complement_spec p2 c F2 Ec) as (Tc & Fc & Mc).
    destruct (proper_intersect_spec p1 c s F1 Fc (eq_trans Ht (eq_sym Tc)) H) as (S1 & S2).
    split; [exact S1|]. intros pt Hv Hp. rewrite (S2 pt Hv Hp), (Mc pt Hv (eq_trans Hp Ht)). reflexivity. }
  destruct p1 as [b1|a1 v1|a1 v1|d1|d1|a1 v1|a1 v1|d1|d1], p2 as [b2|a2 v2|a2 v2|d2|d2|a2 v2|a2 v2|d2|d2];
    try discriminate Ht; try discriminate F1; try discriminate F2; cbn [proper_diff] in Hs; try (apply Gen; exact Hs).
  - inversion Hs; subst s. destruct (Bool.eqb b1 b2) eqn:E.
    + split; [reflexivity|]. intros pt Hv Hp. point_cases pt Hv Hp. cbn.
      apply Bool.eqb_prop in E. subst. destruct (Bool.eqb b2 x); reflexivity.
    + split; [split; reflexivity|]. intros pt Hv Hp. point_cases pt Hv Hp. cbn.
      destruct b1, b2, x; try reflexivity; discriminate E.
  - destruct (bdd_res (diff FUEL_BDD d1 d2)) as [b|e] eqn:E; cbn [bind] in Hs; [|discriminate]. inversion Hs; subst s.
    split; [split; reflexivity|]. intros pt Hv Hp. point_cases pt Hv Hp. cbn.
    apply (diff_sound rho _ _ _ _ (bdd_res_ok _ _ E)).
  - destruct (bdd_res (diff FUEL_BDD d1 d2)) as [b|e] eqn:E; cbn [bind] in Hs; [|discriminate]. inversion Hs; subst s.
    split; [split; reflexivity|]. intros pt Hv Hp. point_cases pt Hv Hp. cbn.
    apply (diff_sound rho _ _ _ _ (bdd_res_ok _ _ E)).
  - destruct (bdd_res (diff FUEL_BDD d1 d2)) as [b|e] eqn:E; cbn [bind] in Hs; [|discriminate]. inversion Hs; subst s.
    split; [split; reflexivity|]. intros pt Hv Hp. point_cases pt Hv Hp. cbn.
    apply (diff_sound rho _ _ _ _ (bdd_res_ok _ _ E)).
  - destruct (bdd_res (diff FUEL_BDD d1 d2)) as [b|e] eqn:E; cbn [bind] in Hs; [|discriminate]. inversion Hs; subst s.
    split; [split; reflexivity|]. intros pt Hv Hp. point_cases pt Hv Hp. cbn.
    apply (diff_sound rho _ _ _ _ (bdd_res_ok _ _ E)).
Qed.

(* ================================================================ bits *)
Lemma land_pow2 (x k : N) : N.land x (2 ^ k)%N = if N.testbit x k then (2 ^ k)%N else 0%N.
Proof.
  apply N.bits_inj. intros m. rewrite N.land_spec, N.pow2_bits_eqb.
  destruct (N.eqb_spec k m) as [->|Hne].
  - rewrite andb_true_r. destruct (N.testbit x m); [rewrite N.pow2_bits_true; reflexivity|rewrite N.bits_0; reflexivity].
  - rewrite andb_false_r. destruct (N.testbit x k); [rewrite (N.pow2_bits_false k m Hne); reflexivity|rewrite N.bits_0; reflexivity].
Qed.
Lemma has_bit_testbit x g : has_bit x (stag_code g) = N.testbit x (stag_shift g).
Proof.
  unfold has_bit, stag_code. rewrite N.shiftl_1_l, land_pow2.
  destruct (N.testbit x (stag_shift g)); [|reflexivity].
  destruct (N.eqb_spec (2 ^ stag_shift g)%N 0%N) as [E|_]; [|reflexivity].
  exfalso. revert E. apply N.pow_nonzero. discriminate.
Qed.
Lemma shift_lt_32 g : (stag_shift g < 32)%N.
Proof. destruct g; reflexivity. Qed.
Lemma has_bit_lor a b g : has_bit (N.lor a b) (stag_code g) = has_bit a (stag_code g) || has_bit b (stag_code g).
Proof. rewrite !has_bit_testbit. apply N.lor_spec. Qed.
Lemma has_bit_land a b g : has_bit (N.land a b) (stag_code g) = has_bit a (stag_code g) && has_bit b (stag_code g).
Proof. rewrite !has_bit_testbit. apply N.land_spec. Qed.
Lemma has_bit_not a g : has_bit (not_bits a) (stag_code g) = negb (has_bit a (stag_code g)).
Proof.
  unfold not_bits. rewrite !has_bit_testbit, N.lxor_spec, (N.ones_spec_low 32 _ (shift_lt_32 g)).
  destruct (N.testbit a (stag_shift g)); reflexivity.
Qed.
Lemma has_bit_code g h : has_bit (stag_code g) (stag_code h) = stag_eqb g h.
Proof. destruct g, h; reflexivity. Qed.
Lemma has_bit_0 g : has_bit 0%N (stag_code g) = false.
Proof. destruct g; reflexivity. Qed.
Lemma stag_eqb_eq g h : stag_eqb g h = true <-> g = h.
Proof. destruct g, h; cbn; split; try discriminate; try reflexivity; intros; reflexivity. Qed.
Lemma stag_eqb_refl g : stag_eqb g g = true.
Proof. destruct g; reflexivity. Qed.
Lemma stag_eqb_sym g h : stag_eqb g h = stag_eqb h g.
Proof. destruct g, h; reflexivity. Qed.

Lemma some_bits_acc l acc g :
  has_bit (fold_left (fun a p => N.lor a (proper_code p)) l acc) (stag_code g)
  = has_bit acc (stag_code g) || existsb (fun p => stag_eqb (proper_tag p) g) l.
Proof.
  revert acc. induction l as [|p l IH]; intros acc; cbn [fold_left existsb]; [rewrite orb_false_r; reflexivity|].
  rewrite IH. unfold proper_code. rewrite has_bit_lor, has_bit_code. rewrite orb_assoc. reflexivity.
Qed.
Lemma has_bit_some_bits l g : has_bit (some_bits l) (stag_code g) = existsb (fun p => stag_eqb (proper_tag p) g) l.
Proof. unfold some_bits. rewrite some_bits_acc, has_bit_0. reflexivity. Qed.

(* ================================================================ the merge of two tag-sorted vectors *)
Lemma pi_nil_nil bits : pair_iter bits [] [] = [].
Proof. reflexivity. Qed.
Lemma pi_nil_cons bits d2 l2 :
  pair_iter bits [] (d2 :: l2) = if has_bit bits (proper_code d2) then (None, Some d2) :: pair_iter bits [] l2 else pair_iter bits [] l2.
Proof. reflexivity. Qed.
Lemma pi_cons_nil bits d1 l1 :
  pair_iter bits (d1 :: l1) [] = if has_bit bits (proper_code d1) then (Some d1, None) :: pair_iter bits l1 [] else pair_iter bits l1 [].
Proof. reflexivity. Qed.
Lemma pi_cons_cons bits d1 l1 d2 l2 :
  pair_iter bits (d1 :: l1) (d2 :: l2) =
  match N.compare (proper_code d1) (proper_code d2) with
  | Eq => if has_bit bits (proper_code d1) then (Some d1, Some d2) :: pair_iter bits l1 l2 else pair_iter bits l1 l2
  | Lt => if has_bit bits (proper_code d1) then (Some d1, None) :: pair_iter bits l1 (d2 :: l2) else pair_iter bits l1 (d2 :: l2)
  | Gt => if has_bit bits (proper_code d2) then (None, Some d2) :: pair_iter bits (d1 :: l1) l2 else pair_iter bits (d1 :: l1) l2
  end.
Proof. reflexivity. Qed.

Section Merge.
  Variable tau : stag.
  Variable bits : N.
  Variable g : option proper * option proper -> bool.
  Definition has_tau (p : proper) : bool := stag_eqb (proper_tag p) tau.
  Definition lk (l : list proper) : option proper := find has_tau l.
  (* pairs that do not concern the tag tau contribute nothing *)
  Hypothesis g_local : forall o1 o2,
      (forall p, o1 = Some p -> has_tau p = false) -> (forall p, o2 = Some p -> has_tau p = false) -> g (o1, o2) = false.

  Lemma code_eq_tag p q : proper_code p = proper_code q -> proper_tag p = proper_tag q.
  Proof. unfold proper_code. destruct (proper_tag p), (proper_tag q); cbn; intros H; try reflexivity; discriminate H. Qed.
  Lemma code_lt_tag p q : (proper_code p < proper_code q)%N -> has_tau p = true -> has_tau q = false.
  Proof.
    unfold has_tau, proper_code. intros Hlt Hp. apply stag_eqb_eq in Hp. rewrite Hp in Hlt.
    destruct (stag_eqb (proper_tag q) tau) eqn:E; [|reflexivity]. apply stag_eqb_eq in E. rewrite E in Hlt.
    exfalso. revert Hlt. apply N.lt_irrefl.
  Qed.

  Lemma inc_cons p l : codes_increasing (p :: l) = true ->
    (forall q, In q l -> (proper_code p < proper_code q)%N) /\ codes_increasing l = true.
  Proof.
    cbn [codes_increasing]. intros H. apply andb_prop in H as [H1 H2]. split; [|exact H2].
    intros q Hq. rewrite forallb_forall in H1. apply N.ltb_lt. apply H1. exact Hq.
  Qed.
  (* every element of l lies above a proper of tag tau (or above something above it): tau does not occur in l *)
  Lemma lk_none_above p l : has_tau p = true -> (forall q, In q l -> (proper_code p < proper_code q)%N) -> lk l = None.
  Proof.
    intros Hp Hl. unfold lk. induction l as [|q l IH]; [reflexivity|]. cbn [find].
    rewrite (code_lt_tag p q (Hl q (or_introl eq_refl)) Hp). apply IH. intros r Hr. apply Hl. right. exact Hr.
  Qed.
  Lemma lk_none_above2 p p0 l : has_tau p = true -> (proper_code p < proper_code p0)%N ->
    (forall q, In q l -> (proper_code p0 < proper_code q)%N) -> lk (p0 :: l) = None.
  Proof.
    intros Hp Hlt Hl. unfold lk. cbn [find]. rewrite (code_lt_tag p p0 Hlt Hp).
    apply (lk_none_above p l Hp). intros q Hq. eapply N.lt_trans; [exact Hlt|apply Hl; exact Hq].
  Qed.

  Notation G o1 o2 := (g (o1, o2)).
  Lemma g_none : G None None = false.
  Proof. apply g_local; intros p H; discriminate H. Qed.
  Lemma g_other_l p o2 : has_tau p = false -> (forall q, o2 = Some q -> has_tau q = false) -> G (Some p) o2 = false.
  Proof. intros H1 H2. apply g_local; [intros q E; inversion E; subst; exact H1|exact H2]. Qed.

  Lemma merge_nil l2 : codes_increasing l2 = true ->
    existsb g (pair_iter bits [] l2) = has_bit bits (stag_code tau) && G None (lk l2).
  Proof.
    induction l2 as [|d2 l2 IH]; intros Hinc.
    - rewrite pi_nil_nil. cbn. rewrite g_none, andb_false_r. reflexivity.
    - destruct (inc_cons _ _ Hinc) as [Hab Hinc']. rewrite pi_nil_cons. unfold lk. cbn [find]. fold (lk l2).
      destruct (has_tau d2) eqn:Ed.
      + assert (Hc : proper_code d2 = stag_code tau) by (unfold proper_code; apply stag_eqb_eq in Ed; rewrite Ed; reflexivity).
        rewrite Hc. destruct (has_bit bits (stag_code tau)); cbn [existsb andb].
        * rewrite (IH Hinc'), (lk_none_above d2 l2 Ed Hab), g_none, andb_false_r, orb_false_r. reflexivity.
        * rewrite (IH Hinc'). reflexivity.
      + assert (Hg : G None (Some d2) = false) by (apply g_local; [intros p E; discriminate E|intros p E; inversion E; subst; exact Ed]).
        destruct (has_bit bits (proper_code d2)); cbn [existsb]; rewrite ?Hg; apply (IH Hinc').
  Qed.

  Lemma merge_nil_r l1 : codes_increasing l1 = true ->
    existsb g (pair_iter bits l1 []) = has_bit bits (stag_code tau) && G (lk l1) None.
  Proof.
    induction l1 as [|d1 l1 IH]; intros Hinc.
    - rewrite pi_nil_nil. cbn. rewrite g_none, andb_false_r. reflexivity.
    - destruct (inc_cons _ _ Hinc) as [Hab Hinc']. rewrite pi_cons_nil. unfold lk. cbn [find]. fold (lk l1).
      destruct (has_tau d1) eqn:Ed.
      + assert (Hc : proper_code d1 = stag_code tau) by (unfold proper_code; apply stag_eqb_eq in Ed; rewrite Ed; reflexivity).
        rewrite Hc. destruct (has_bit bits (stag_code tau)); cbn [existsb andb].
        * rewrite (IH Hinc'), (lk_none_above d1 l1 Ed Hab), g_none, andb_false_r, orb_false_r. reflexivity.
        * rewrite (IH Hinc'). reflexivity.
      + assert (Hg : G (Some d1) None = false) by (apply g_other_l; [exact Ed|intros q E; discriminate E]).
        destruct (has_bit bits (proper_code d1)); cbn [existsb]; rewrite ?Hg; apply (IH Hinc').
  Qed.

  Lemma merge_spec l1 : forall l2, codes_increasing l1 = true -> codes_increasing l2 = true ->
    existsb g (pair_iter bits l1 l2) = has_bit bits (stag_code tau) && G (lk l1) (lk l2).
  Proof.
    induction l1 as [|d1 l1 IH1]; intros l2 H1 H2; [apply merge_nil; exact H2|].
    destruct (inc_cons _ _ H1) as [Hab1 Hinc1].
    induction l2 as [|d2 l2 IH2]; [apply merge_nil_r; exact H1|].
    destruct (inc_cons _ _ H2) as [Hab2 Hinc2].
    rewrite pi_cons_cons.
    destruct (N.compare_spec (proper_code d1) (proper_code d2)) as [Heq|Hlt|Hgt].
    - (* same tag *)
      pose proof (code_eq_tag _ _ Heq) as Htag.
      assert (Hsame : has_tau d2 = has_tau d1) by (unfold has_tau; rewrite Htag; reflexivity).
      unfold lk. cbn [find]. fold (lk l1) (lk l2). rewrite Hsame.
      destruct (has_tau d1) eqn:Ed.
      + assert (Hc : proper_code d1 = stag_code tau) by (unfold proper_code; apply stag_eqb_eq in Ed; rewrite Ed; reflexivity).
        rewrite Hc.
        assert (L1 : lk l1 = None) by (apply (lk_none_above d1); [exact Ed|exact Hab1]).
        assert (L2 : lk l2 = None) by (apply (lk_none_above d2); [exact Hsame|exact Hab2]).
        destruct (has_bit bits (stag_code tau)); cbn [existsb andb]; rewrite (IH1 l2 Hinc1 Hinc2), L1, L2, g_none, andb_false_r, ?orb_false_r; reflexivity.
      + assert (Hg : G (Some d1) (Some d2) = false).
        { apply g_other_l; [exact Ed|]. intros q E. inversion E; subst. exact Hsame. }
        destruct (has_bit bits (proper_code d1)); cbn [existsb]; rewrite ?Hg; apply (IH1 l2 Hinc1 Hinc2).
    - (* d1 comes first *)
      unfold lk at 1. cbn [find]. fold (lk l1).
      destruct (has_tau d1) eqn:Ed.
      + assert (Hc : proper_code d1 = stag_code tau) by (unfold proper_code; apply stag_eqb_eq in Ed; rewrite Ed; reflexivity).
        rewrite Hc.
        assert (L1 : lk l1 = None) by (apply (lk_none_above d1); assumption).
        assert (L2 : lk (d2 :: l2) = None) by (apply (lk_none_above2 d1); assumption).
        destruct (has_bit bits (stag_code tau)); cbn [existsb andb]; rewrite (IH1 (d2 :: l2) Hinc1 H2), L1, L2, g_none, andb_false_r, ?orb_false_r; reflexivity.
      + assert (Hg : G (Some d1) None = false) by (apply g_other_l; [exact Ed|intros q E; discriminate E]).
        destruct (has_bit bits (proper_code d1)); cbn [existsb]; rewrite ?Hg; apply (IH1 (d2 :: l2) Hinc1 H2).
    - (* d2 comes first *)
      unfold lk at 2. cbn [find]. fold (lk l2).
      destruct (has_tau d2) eqn:Ed.
      + assert (Hc : proper_code d2 = stag_code tau) by (unfold proper_code; apply stag_eqb_eq in Ed; rewrite Ed; reflexivity).
        rewrite Hc.
        assert (L2 : lk l2 = None) by (apply (lk_none_above d2); assumption).
        assert (L1 : lk (d1 :: l1) = None) by (apply (lk_none_above2 d2); assumption).
        destruct (has_bit bits (stag_code tau)); cbn [existsb andb]; rewrite (IH2 Hinc2), L1, L2, g_none, andb_false_r, ?orb_false_r; reflexivity.
      + assert (Hg : G None (Some d2) = false) by (apply g_local; [intros p E; discriminate E|intros p E; inversion E; subst; exact Ed]).
        destruct (has_bit bits (proper_code d2)); cbn [existsb]; rewrite ?Hg; apply (IH2 Hinc2).
  Qed.
End Merge.

(* ================================================================ collecting the per-tag results *)
Definition contrib (add_true : bool) (o : res (option subtype)) (pt : point) : bool :=
  match o with
  | Ok (Some (STrue t)) => add_true && stag_eqb t (point_tag pt)
  | Ok (Some (SProper p)) => pmem p pt
  | _ => false
  end.

Definition collect_step (f : option proper * option proper -> res (option subtype)) (add_true : bool)
           (acc : res (N * list proper)) (pr : option proper * option proper) : res (N * list proper) :=
  do st <- acc;
  do o <- f pr;
  match o with
  | Some (STrue t) => Ok (if add_true then (N.lor (fst st) (stag_code t), snd st) else st)
  | Some (SProper p) => Ok (fst st, snd st ++ [p])
  | _ => Ok st
  end.

Lemma fold_throw f add_true ps e : fold_left (collect_step f add_true) ps (Throw e) = Throw e.
Proof. induction ps as [|p ps IH]; [reflexivity|exact IH]. Qed.

Lemma collect_fold f add_true pt ps : forall a0 d0 a d,
  fold_left (collect_step f add_true) ps (Ok (a0, d0)) = Ok (a, d) ->
  has_bit a (stag_code (point_tag pt)) || existsb (fun p => pmem p pt) d
  = (has_bit a0 (stag_code (point_tag pt)) || existsb (fun p => pmem p pt) d0)
    || existsb (fun pr => contrib add_true (f pr) pt) ps.
Proof.
  induction ps as [|pr ps IH]; intros a0 d0 a d H; cbn [fold_left existsb] in *.
  - inversion H; subst. rewrite orb_false_r. reflexivity.
  - unfold collect_step at 2 in H. cbn [bind] in H.
    destruct (f pr) as [[[g|g|p]|]|e] eqn:Ef; cbn [bind fst snd] in H; try (rewrite fold_throw in H; discriminate H).
    + rewrite (IH _ _ _ _ H). cbn [contrib]. rewrite orb_false_l. reflexivity.
    + destruct add_true.
      * rewrite (IH _ _ _ _ H). cbn [contrib andb]. rewrite has_bit_lor, has_bit_code.
        destruct (has_bit a0 _), (existsb _ d0), (stag_eqb g _), (existsb _ ps); reflexivity.
      * rewrite (IH _ _ _ _ H). cbn [contrib andb]. rewrite orb_false_l. reflexivity.
    + rewrite (IH _ _ _ _ H). cbn [contrib]. rewrite existsb_app. cbn [existsb]. rewrite orb_false_r.
      destruct (has_bit a0 _), (existsb _ d0), (pmem p pt), (existsb _ ps); reflexivity.
    + rewrite (IH _ _ _ _ H). cbn [contrib]. rewrite orb_false_l. reflexivity.
Qed.

Lemma collect_mem ps f all0 add_true t pt :
  sem_collect ps f all0 add_true = Ok t ->
  mem t pt = has_bit all0 (stag_code (point_tag pt)) || existsb (fun pr => contrib add_true (f pr) pt) ps.
Proof.
  unfold sem_collect. intros H.
  change (fold_left _ ps (Ok (all0, []))) with (fold_left (collect_step f add_true) ps (Ok (all0, []))) in H.
  destruct (fold_left (collect_step f add_true) ps (Ok (all0, []))) as [[a d]|e] eqn:E; cbn [bind] in H; [|discriminate].
  inversion H; subst t. unfold mem. cbn [st_all st_data fst snd].
  rewrite (collect_fold f add_true pt ps _ _ _ _ E). cbn [existsb]. rewrite orb_false_r. reflexivity.
Qed.

(* ================================================================ tags of results, for arbitrary proper subtypes *)
Definition subtype_tag (s : subtype) : stag := match s with SFalse t | STrue t => t | SProper p => proper_tag p end.

Lemma lit_subtype_tag {K} (mk : bool -> list K -> proper) t a v :
  (forall a' v', proper_tag (mk a' v') = t) -> subtype_tag (lit_subtype mk t a v) = t.
Proof. intros H. destruct v; [destruct a; reflexivity|apply H]. Qed.

Lemma lits_intersect_tag {K} is_sub eqb leb (mk : bool -> list K -> proper) t a1 v1 a2 v2 s :
  (forall a' v', proper_tag (mk a' v') = t) -> lits_intersect is_sub eqb leb mk t a1 v1 a2 v2 = Ok s -> subtype_tag s = t.
Proof.
  intros Hmk. unfold lits_intersect. destruct a1, a2;
    match goal with |- (do v <- ?X; _) = _ -> _ => destruct X; cbn [bind]; [|discriminate] end;
    intros H; inversion H; apply lit_subtype_tag; exact Hmk.
Qed.
Lemma lits_union_tag {K} is_sub eqb leb (mk : bool -> list K -> proper) t a1 v1 a2 v2 s :
  (forall a' v', proper_tag (mk a' v') = t) -> lits_union is_sub eqb leb mk t a1 v1 a2 v2 = Ok s -> subtype_tag s = t.
Proof.
  intros Hmk. unfold lits_union. destruct a1, a2;
    match goal with |- (do v <- ?X; _) = _ -> _ => destruct X; cbn [bind]; [|discriminate] end;
    intros H; inversion H; apply lit_subtype_tag; exact Hmk.
Qed.

Ltac struct_tag H :=
  match type of H with (do b <- ?X; _) = _ => destruct X; cbn [bind] in H; [|discriminate H]; inversion H; split; reflexivity end.

Lemma proper_intersect_tag p1 p2 s : proper_intersect p1 p2 = Ok s -> subtype_tag s = proper_tag p1 /\ proper_tag p2 = proper_tag p1.
Proof.
  destruct p1, p2; cbn [proper_intersect]; intros H; try discriminate H; try (struct_tag H).
  - inversion H. destruct (Bool.eqb b b0); split; reflexivity.
  - split; [|reflexivity]. eapply lits_intersect_tag; [|exact H]. reflexivity.
  - split; [|reflexivity]. eapply lits_intersect_tag; [|exact H]. reflexivity.
  - split; [|reflexivity]. eapply lits_intersect_tag; [|exact H]. reflexivity.
  - split; [|reflexivity]. eapply lits_intersect_tag; [|exact H]. reflexivity.
Qed.
Lemma proper_union_tag p1 p2 s : proper_union p1 p2 = Ok s -> subtype_tag s = proper_tag p1 /\ proper_tag p2 = proper_tag p1.
Proof.
  destruct p1, p2; cbn [proper_union]; intros H; try discriminate H; try (struct_tag H).
  - inversion H. destruct (Bool.eqb b b0); split; reflexivity.
  - split; [|reflexivity]. eapply lits_union_tag; [|exact H]. reflexivity.
  - split; [|reflexivity]. eapply lits_union_tag; [|exact H]. reflexivity.
  - split; [|reflexivity]. eapply lits_union_tag; [|exact H]. reflexivity.
  - split; [|reflexivity]. eapply lits_union_tag; [|exact H]. reflexivity.
Qed.
Lemma proper_complement_tag p c : proper_complement p = Ok c -> proper_tag c = proper_tag p.
Proof.
  destruct p; cbn [proper_complement]; intros H; try (inversion H; reflexivity);
    match type of H with (do b <- ?X; _) = _ => destruct X; cbn [bind] in H; [|discriminate H]; inversion H; reflexivity end.
Qed.
Lemma proper_diff_tag p1 p2 s : proper_diff p1 p2 = Ok s -> subtype_tag s = proper_tag p1 /\ proper_tag p2 = proper_tag p1.
Proof.
  assert (Gen : (do c <- proper_complement p2; proper_intersect p1 c) = Ok s -> subtype_tag s = proper_tag p1 /\ proper_tag p2 = proper_tag p1).
  { intros H. destruct (proper_complement p2) as [c|] eqn:Ec; cbn [bind] in H; [|discriminate].
    destruct (proper_intersect_tag _ _ _ H) as [A B]. split; [exact A|]. rewrite <- (proper_complement_tag _ _ Ec). exact B. }
  destruct p1, p2; cbn [proper_diff]; intros H; try (apply Gen; exact H); try (struct_tag H).
  inversion H. destruct (Bool.eqb b b0); split; reflexivity.
Qed.

Lemma smem_other_tag s pt : subtype_tag s <> point_tag pt -> smem s pt = false.
Proof.
  destruct s as [t|t|p]; cbn [smem subtype_tag]; intros H; [reflexivity| |].
  - destruct (stag_eqb t (point_tag pt)) eqn:E; [apply stag_eqb_eq in E; contradiction|reflexivity].
  - destruct (pmem p pt) eqn:E; [apply pmem_tag in E; contradiction|reflexivity].
Qed.
Lemma contrib_smem o s pt : o = Ok (Some s) -> contrib true o pt = smem s pt.
Proof. intros ->. destruct s; reflexivity. Qed.

(* ================================================================ semantic types *)
Definition wf2 (t : semtype) : bool :=
  codes_increasing (st_data t) && forallb pfrag (st_data t)
  && forallb (fun p => negb (has_bit (st_all t) (proper_code p))) (st_data t).

Lemma has_tau_code tau p : has_tau tau p = true -> proper_code p = stag_code tau.
Proof. unfold has_tau, proper_code. intros H. apply stag_eqb_eq in H. rewrite H. reflexivity. Qed.
Lemma pmem_has_tau p pt : pmem p pt = true -> has_tau (point_tag pt) p = true.
Proof. intros H. unfold has_tau. rewrite (pmem_tag _ _ H). apply stag_eqb_refl. Qed.
Lemma lk_some tau l p : lk tau l = Some p -> In p l /\ has_tau tau p = true.
Proof. unfold lk. intros H. apply find_some in H. exact H. Qed.

Lemma existsb_pmem_lk pt l :
  codes_increasing l = true ->
  existsb (fun p => pmem p pt) l = match lk (point_tag pt) l with Some p => pmem p pt | None => false end.
Proof.
  induction l as [|p l IH]; intros Hinc; [reflexivity|].
  destruct (inc_cons _ _ Hinc) as [Hab Hinc']. cbn [existsb]. unfold lk. cbn [find]. fold (lk (point_tag pt) l).
  destruct (has_tau (point_tag pt) p) eqn:E.
  - assert (R : existsb (fun q => pmem q pt) l = false).
    { rewrite (IH Hinc'). rewrite (lk_none_above (point_tag pt) p l E Hab). reflexivity. }
    rewrite R, orb_false_r. reflexivity.
  - destruct (pmem p pt) eqn:Ep; [apply pmem_has_tau in Ep; congruence|]. cbn [orb]. apply IH. exact Hinc'.
Qed.

Lemma mem_lookup t pt : wf2 t = true ->
  mem t pt = has_bit (st_all t) (stag_code (point_tag pt))
             || match lk (point_tag pt) (st_data t) with Some p => pmem p pt | None => false end.
Proof.
  unfold wf2. intros H. apply andb_prop in H as [H _]. apply andb_prop in H as [H _].
  unfold mem. rewrite (existsb_pmem_lk pt _ H). reflexivity.
Qed.

Lemma some_bits_lk tau l : has_bit (some_bits l) (stag_code tau) = match lk tau l with Some _ => true | None => false end.
Proof.
  rewrite has_bit_some_bits. unfold lk. induction l as [|p l IH]; [reflexivity|]. cbn [existsb find]. fold (has_tau tau p).
  destruct (has_tau tau p); [reflexivity|exact IH].
Qed.

(* facts a well-formed type gives about the proper found for a tag *)
Lemma wf2_lk t tau p : wf2 t = true -> lk tau (st_data t) = Some p ->
  pfrag p = true /\ proper_tag p = tau /\ has_bit (st_all t) (stag_code tau) = false.
Proof.
  unfold wf2. intros H Hl. apply andb_prop in H as [H H3]. apply andb_prop in H as [_ H2].
  destruct (lk_some _ _ _ Hl) as [Hin Ht].
  rewrite forallb_forall in H2, H3. repeat split.
  - apply H2. exact Hin.
  - apply stag_eqb_eq. exact Ht.
  - specialize (H3 p Hin). rewrite (has_tau_code _ _ Ht) in H3. apply negb_true_iff in H3. exact H3.
Qed.

(* ================================================================ difference of semantic types *)
Definition f_diff (pr : option proper * option proper) : res (option subtype) :=
  match pr with
  | (None, Some d2) => do c <- proper_complement d2; Ok (Some (SProper c))
  | (Some d1, None) => Ok (Some (SProper d1))
  | (Some d1, Some d2) => do s <- proper_diff d1 d2; Ok (Some s)
  | _ => Ok None
  end.

Lemma f_diff_local tau pt : point_tag pt = tau -> forall o1 o2,
  (forall p, o1 = Some p -> has_tau tau p = false) -> (forall p, o2 = Some p -> has_tau tau p = false) ->
  contrib true (f_diff (o1, o2)) pt = false.
Proof.
  intros Hpt o1 o2 H1 H2. subst tau.
  assert (NT : forall p, has_tau (point_tag pt) p = false -> proper_tag p <> point_tag pt).
  { intros p Hp E. unfold has_tau in Hp. rewrite E, stag_eqb_refl in Hp. discriminate Hp. }
  destruct o1 as [d1|], o2 as [d2|]; cbn [f_diff]; [| | |reflexivity].
  - destruct (proper_diff d1 d2) as [s|e] eqn:E; cbn [bind]; [|reflexivity].
    rewrite (contrib_smem _ s pt eq_refl). apply smem_other_tag.
    destruct (proper_diff_tag _ _ _ E) as [T _]. rewrite T. apply NT. apply H1. reflexivity.
  - cbn [contrib]. destruct (pmem d1 pt) eqn:E; [|reflexivity]. apply pmem_has_tau in E. rewrite (H1 d1 eq_refl) in E. discriminate E.
  - destruct (proper_complement d2) as [c|e] eqn:E; cbn [bind]; [|reflexivity]. cbn [contrib].
    destruct (pmem c pt) eqn:Ec; [|reflexivity]. apply pmem_tag in Ec. rewrite (proper_complement_tag _ _ E) in Ec.
    exfalso. apply (NT d2 (H2 d2 eq_refl)). exact Ec.
Qed.

Lemma sem_diff_is_collect t1 t2 t :
  sem_diff t1 t2 = Ok t ->
  let all := N.land (st_all t1) (not_bits (N.lor (st_all t2) (some_bits (st_data t2)))) in
  let some := N.land (N.land (N.lor (st_all t1) (some_bits (st_data t1))) (not_bits (st_all t2))) (not_bits all) in
  (N.eqb some 0 = true /\ t = mkSem all []) \/
  (N.eqb some 0 = false /\ sem_collect (pair_iter some (st_data t1) (st_data t2)) f_diff all true = Ok t).
Proof.
  unfold sem_diff. cbv zeta. destruct (N.eqb _ 0) eqn:E; intros H.
  - left. split; [reflexivity|]. inversion H. reflexivity.
  - right. split; [reflexivity|]. exact H.
Qed.

(* a successful collection applied its function successfully to every pair *)
Lemma collect_ok_no_throw f add ps : forall acc r,
  fold_left (collect_step f add) ps acc = Ok r -> forall pr, In pr ps -> exists o, f pr = Ok o.
Proof.
  induction ps as [|p ps IH]; intros acc r H pr Hin; [contradiction|].
  cbn [fold_left] in H. destruct acc as [st|e]; [|cbn in H; rewrite fold_throw in H; discriminate H].
  destruct (f p) as [o|e] eqn:Ef.
  - destruct Hin as [<-|Hin]; [eauto|]. eapply IH; [exact H|exact Hin].
  - unfold collect_step at 2 in H. cbn [bind] in H. rewrite Ef in H. cbn [bind] in H. rewrite fold_throw in H. discriminate H.
Qed.

Definition opt_tau (tau : stag) (o : option proper) : bool := match o with Some p => has_tau tau p | None => false end.
Definition throws_tau (tau : stag) (f : option proper * option proper -> res (option subtype)) (pr : option proper * option proper) : bool :=
  (opt_tau tau (fst pr) || opt_tau tau (snd pr)) && match f pr with Throw _ => true | Ok _ => false end.

Lemma throws_local tau f o1 o2 :
  (forall p, o1 = Some p -> has_tau tau p = false) -> (forall p, o2 = Some p -> has_tau tau p = false) -> throws_tau tau f (o1, o2) = false.
Proof.
  intros H1 H2. unfold throws_tau. cbn [fst snd].
  assert (A : opt_tau tau o1 = false) by (destruct o1; [apply H1; reflexivity|reflexivity]).
  assert (B : opt_tau tau o2 = false) by (destruct o2; [apply H2; reflexivity|reflexivity]).
  rewrite A, B. reflexivity.
Qed.

Lemma collect_pair_ok tau some f all0 add l1 l2 t :
  codes_increasing l1 = true -> codes_increasing l2 = true ->
  sem_collect (pair_iter some l1 l2) f all0 add = Ok t ->
  has_bit some (stag_code tau) = true ->
  opt_tau tau (lk tau l1) || opt_tau tau (lk tau l2) = true ->
  exists o, f (lk tau l1, lk tau l2) = Ok o.
Proof.
  intros I1 I2 Hc Hs Ht.
  pose proof (merge_spec tau some (throws_tau tau f) (throws_local tau f) l1 l2 I1 I2) as M. rewrite Hs in M. cbn [andb] in M.
  destruct (f (lk tau l1, lk tau l2)) as [o|e] eqn:Ef; [eauto|].
  exfalso. unfold throws_tau at 2 in M. cbn [fst snd] in M. rewrite Ht, Ef in M. cbn [andb] in M.
  apply existsb_exists in M as [pr [Hin Hthrow]].
  unfold sem_collect in Hc.
  change (fold_left _ (pair_iter some l1 l2) (Ok (all0, []))) with (fold_left (collect_step f add) (pair_iter some l1 l2) (Ok (all0, []))) in Hc.
  destruct (fold_left (collect_step f add) (pair_iter some l1 l2) (Ok (all0, []))) as [r|e'] eqn:E; cbn [bind] in Hc; [|discriminate Hc].
  destruct (collect_ok_no_throw f add _ _ _ E pr Hin) as [o Ho].
  unfold throws_tau in Hthrow. rewrite Ho in Hthrow. rewrite andb_false_r in Hthrow. discriminate Hthrow.
Qed.

Lemma diff_tau_pair_ok t1 t2 t tau :
  wf2 t1 = true -> wf2 t2 = true -> sem_diff t1 t2 = Ok t ->
  ((has_bit (st_all t1) (stag_code tau) || has_bit (some_bits (st_data t1)) (stag_code tau)) && negb (has_bit (st_all t2) (stag_code tau)))
  && negb (has_bit (st_all t1) (stag_code tau) && negb (has_bit (st_all t2) (stag_code tau) || has_bit (some_bits (st_data t2)) (stag_code tau))) = true ->
  opt_tau tau (lk tau (st_data t1)) || opt_tau tau (lk tau (st_data t2)) = true ->
  exists o, f_diff (lk tau (st_data t1), lk tau (st_data t2)) = Ok o.
Proof.
  intros W1 W2 Hd Hs Ht.
  assert (I1 : codes_increasing (st_data t1) = true) by (unfold wf2 in W1; apply andb_prop in W1 as [W _]; apply andb_prop in W as [W _]; exact W).
  assert (I2 : codes_increasing (st_data t2) = true) by (unfold wf2 in W2; apply andb_prop in W2 as [W _]; apply andb_prop in W as [W _]; exact W).
  destruct (sem_diff_is_collect t1 t2 t Hd) as [[Ez _]|[Ez Hc]].
  - exfalso. apply N.eqb_eq in Ez.
    assert (Z : has_bit (N.land (N.land (N.lor (st_all t1) (some_bits (st_data t1))) (not_bits (st_all t2)))
                                (not_bits (N.land (st_all t1) (not_bits (N.lor (st_all t2) (some_bits (st_data t2))))))) (stag_code tau) = false)
      by (rewrite Ez; apply has_bit_0).
    rewrite !has_bit_land, !has_bit_not, !has_bit_lor, !has_bit_land, !has_bit_not, !has_bit_lor in Z. congruence.
  - eapply (collect_pair_ok tau _ f_diff _ true _ _ t I1 I2 Hc); [|exact Ht].
    rewrite !has_bit_land, !has_bit_not, !has_bit_lor, !has_bit_land, !has_bit_not, !has_bit_lor. exact Hs.
Qed.

Theorem sem_diff_mem t1 t2 t pt :
  wf2 t1 = true -> wf2 t2 = true -> valid_point pt = true -> sem_diff t1 t2 = Ok t ->
  mem t pt = mem t1 pt && negb (mem t2 pt).
Proof.
  intros W1 W2 Hv Hd.
  set (tau := point_tag pt).
  rewrite (mem_lookup t1 pt W1), (mem_lookup t2 pt W2). fold tau.
  pose proof (some_bits_lk tau (st_data t1)) as S1. pose proof (some_bits_lk tau (st_data t2)) as S2.
  assert (I1 : codes_increasing (st_data t1) = true) by (unfold wf2 in W1; apply andb_prop in W1 as [W _]; apply andb_prop in W as [W _]; exact W).
  assert (I2 : codes_increasing (st_data t2) = true) by (unfold wf2 in W2; apply andb_prop in W2 as [W _]; apply andb_prop in W as [W _]; exact W).
  (* the membership of the result, in terms of the pair found for the tag of the point *)
  assert (R : mem t pt =
              (has_bit (st_all t1) (stag_code tau) && negb (has_bit (st_all t2) (stag_code tau) || has_bit (some_bits (st_data t2)) (stag_code tau)))
              || (((has_bit (st_all t1) (stag_code tau) || has_bit (some_bits (st_data t1)) (stag_code tau)) && negb (has_bit (st_all t2) (stag_code tau)))
                  && negb (has_bit (st_all t1) (stag_code tau) && negb (has_bit (st_all t2) (stag_code tau) || has_bit (some_bits (st_data t2)) (stag_code tau)))
                  && contrib true (f_diff (lk tau (st_data t1), lk tau (st_data t2))) pt)).
  { destruct (sem_diff_is_collect t1 t2 t Hd) as [[Ez ->]|[Ez Hc]].
    - unfold mem. cbn [st_all st_data existsb]. rewrite orb_false_r. fold tau.
      apply N.eqb_eq in Ez.
      assert (Z : has_bit (N.land (N.land (N.lor (st_all t1) (some_bits (st_data t1))) (not_bits (st_all t2)))
                                  (not_bits (N.land (st_all t1) (not_bits (N.lor (st_all t2) (some_bits (st_data t2))))))) (stag_code tau) = false)
        by (rewrite Ez; apply has_bit_0).
      rewrite !has_bit_land, !has_bit_not, !has_bit_lor, !has_bit_land, !has_bit_not, !has_bit_lor in Z.
      rewrite !has_bit_land, !has_bit_not, !has_bit_lor. rewrite Z. rewrite andb_false_l, orb_false_r. reflexivity.
    - rewrite (collect_mem _ _ _ _ _ pt Hc). fold tau.
      rewrite (merge_spec tau _ (fun pr => contrib true (f_diff pr) pt) (f_diff_local tau pt eq_refl) _ _ I1 I2).
      rewrite !has_bit_land, !has_bit_not, !has_bit_lor, !has_bit_land, !has_bit_not, !has_bit_lor. reflexivity. }
  rewrite R, S1, S2. clear R S1 S2.
  destruct (lk tau (st_data t1)) as [p1|] eqn:L1, (lk tau (st_data t2)) as [p2|] eqn:L2.
  - destruct (wf2_lk t1 tau p1 W1 L1) as (F1 & T1 & A1). destruct (wf2_lk t2 tau p2 W2 L2) as (F2 & T2 & A2).
    rewrite A1, A2. cbn [andb orb negb f_diff].
    destruct (proper_diff p1 p2) as [s|e] eqn:E.
    + cbn [bind]. rewrite (contrib_smem _ s pt eq_refl).
      destruct (proper_diff_spec p1 p2 s F1 F2 (eq_trans T1 (eq_sym T2)) E) as [_ M]. rewrite (M pt Hv (eq_sym T1)). reflexivity.
    + exfalso. (* the operation succeeded as a whole, so it succeeded on this pair *)
      destruct (diff_tau_pair_ok t1 t2 t tau W1 W2 Hd) as [o Ho].
      * rewrite (some_bits_lk tau (st_data t1)), (some_bits_lk tau (st_data t2)), L1, L2, A1, A2. reflexivity.
      * rewrite L1. cbn [opt_tau]. destruct (lk_some _ _ _ L1) as [_ ->]. reflexivity.
      * rewrite L1, L2 in Ho. cbn [f_diff] in Ho. rewrite E in Ho. discriminate Ho.
  - destruct (wf2_lk t1 tau p1 W1 L1) as (F1 & T1 & A1). rewrite A1. cbn [andb orb negb f_diff contrib].
    destruct (has_bit (st_all t2) (stag_code tau)), (pmem p1 pt); reflexivity.
  - destruct (wf2_lk t2 tau p2 W2 L2) as (F2 & T2 & A2). rewrite A2. cbn [andb orb negb f_diff].
    destruct (proper_complement p2) as [c|e] eqn:E.
    + cbn [bind contrib]. destruct (proper_complement_spec p2 c F2 E) as (_ & _ & M). rewrite (M pt Hv (eq_sym T2)).
      destruct (has_bit (st_all t1) (stag_code tau)), (pmem p2 pt); reflexivity.
    + cbn [bind contrib]. destruct (has_bit (st_all t1) (stag_code tau)) eqn:A1; [|reflexivity].
      exfalso. destruct (diff_tau_pair_ok t1 t2 t tau W1 W2 Hd) as [o Ho].
      * rewrite (some_bits_lk tau (st_data t1)), (some_bits_lk tau (st_data t2)), L1, L2, A1, A2. reflexivity.
      * rewrite L2. cbn [opt_tau]. destruct (lk_some _ _ _ L2) as [_ ->]. apply orb_true_r.
      * rewrite L1, L2 in Ho. cbn [f_diff] in Ho. rewrite E in Ho. discriminate Ho.
  - cbn [f_diff contrib]. rewrite !orb_false_r, andb_false_r, orb_false_r. reflexivity.
Qed.

(* ================================================================ assignability = inclusion *)
Section Assignability.
  Variable struct_empty : proper -> res bool.
  (* the structured points values can realise, and the assumption that the emptiness oracle is sound on them *)
  Variable realisable : (atom -> bool) -> Prop.
  Hypothesis oracle_sound : forall p u rho, struct_empty p = Ok true -> realisable rho -> pmem p (PtStruct u rho) = false.

  Definition real_point (pt : point) : Prop :=
    valid_point pt = true /\ match pt with PtStruct _ rho => realisable rho | _ => True end.

  Lemma proper_empty_no_member p pt : proper_is_empty struct_empty p = Ok true -> real_point pt -> pmem p pt = false.
  Proof.
    intros He [Hv Hr]. destruct p; cbn [proper_is_empty] in He; try discriminate He;
      destruct pt as [x|z|s|k|u|u rho]; try reflexivity; try (destruct u; reflexivity);
      apply (oracle_sound _ u rho He Hr).
  Qed.

  Lemma empty_no_member t pt : sem_is_empty struct_empty t = Ok true -> real_point pt -> mem t pt = false.
  Proof.
    unfold sem_is_empty. destruct (N.eqb (st_all t) 0) eqn:Ea; cbn [negb]; [|discriminate].
    intros He Hp. apply N.eqb_eq in Ea. unfold mem. rewrite Ea.
    assert (Z : has_bit 0 (stag_code (point_tag pt)) = false) by apply has_bit_0. rewrite Z. cbn [orb].
    destruct (existsb (fun p => pmem p pt) (st_data t)) eqn:Ex; [|reflexivity].
    apply existsb_exists in Ex as [p [Hin Hm]].
    pose proof (forall_res_true_inv _ _ He p Hin) as Hpe. rewrite (proper_empty_no_member p pt Hpe Hp) in Hm. discriminate Hm.
  Qed.

  Theorem subtype_sound a b :
    wf2 a = true -> wf2 b = true -> sem_is_subtype struct_empty a b = Ok true ->
    forall pt, real_point pt -> mem a pt = true -> mem b pt = true.
  Proof.
    intros Wa Wb Hs pt Hp Ha. unfold sem_is_subtype in Hs.
    destruct (sem_diff a b) as [d|e] eqn:Ed; cbn [bind] in Hs; [|discriminate].
    pose proof (empty_no_member d pt Hs Hp) as Hd.
    rewrite (sem_diff_mem a b d pt Wa Wb (proj1 Hp) Ed), Ha in Hd. cbn [andb] in Hd.
    destruct (mem b pt); [reflexivity|discriminate Hd].
  Qed.
End Assignability.

(* ================================================================ where the collected proper subtypes come from *)
Lemma pair_iter_in bits l1 : forall l2 o1 o2, In (o1, o2) (pair_iter bits l1 l2) ->
  (forall p, o1 = Some p -> In p l1) /\ (forall p, o2 = Some p -> In p l2) /\
  (forall p q, o1 = Some p -> o2 = Some q -> proper_code p = proper_code q).
Proof.
  induction l1 as [|d1 l1 IH1]; intros l2.
  - induction l2 as [|d2 l2 IH2]; intros o1 o2 H; [contradiction|].
    rewrite pi_nil_cons in H.
    assert (G : In (o1, o2) ((None, Some d2) :: pair_iter bits [] l2) -> (forall p, o1 = Some p -> In p []) /\ (forall p, o2 = Some p -> In p (d2 :: l2)) /\
                                                                       (forall p q, o1 = Some p -> o2 = Some q -> proper_code p = proper_code q)).
    { intros [E|E]; [inversion E; subst; repeat split; intros; try discriminate; inversion H0; subst; left; reflexivity|].
      destruct (IH2 _ _ E) as (A & B & C). repeat split; auto. intros p Hp. right. apply B. exact Hp. }
    destruct (has_bit bits (proper_code d2)); [apply G; exact H|apply G; right; exact H].
  - induction l2 as [|d2 l2 IH2]; intros o1 o2 H.
    + rewrite pi_cons_nil in H.
      assert (G : In (o1, o2) ((Some d1, None) :: pair_iter bits l1 []) -> (forall p, o1 = Some p -> In p (d1 :: l1)) /\ (forall p, o2 = Some p -> In p []) /\
                                                                         (forall p q, o1 = Some p -> o2 = Some q -> proper_code p = proper_code q)).
      { intros [E|E]; [inversion E; subst; repeat split; intros; try discriminate; inversion H0; subst; left; reflexivity|].
        destruct (IH1 _ _ _ E) as (A & B & C). repeat split; auto. intros p Hp. right. apply A. exact Hp. }
      destruct (has_bit bits (proper_code d1)); [apply G; exact H|apply G; right; exact H].
    + rewrite pi_cons_cons in H.
      destruct (N.compare_spec (proper_code d1) (proper_code d2)) as [Heq|Hlt|Hgt].
      * assert (G : In (o1, o2) ((Some d1, Some d2) :: pair_iter bits l1 l2) -> (forall p, o1 = Some p -> In p (d1 :: l1)) /\ (forall p, o2 = Some p -> In p (d2 :: l2)) /\
                                                                              (forall p q, o1 = Some p -> o2 = Some q -> proper_code p = proper_code q)).
        { intros [E|E].
          - inversion E; subst. repeat split; intros p; intros; try (inversion H0; subst; left; reflexivity).
            inversion H0; inversion H1; subst. exact Heq.
          - destruct (IH1 _ _ _ E) as (A & B & C). repeat split; auto; intros p Hp; right; [apply A|apply B]; exact Hp. }
        destruct (has_bit bits (proper_code d1)); [apply G; exact H|apply G; right; exact H].
      * assert (G : In (o1, o2) ((Some d1, None) :: pair_iter bits l1 (d2 :: l2)) -> (forall p, o1 = Some p -> In p (d1 :: l1)) /\ (forall p, o2 = Some p -> In p (d2 :: l2)) /\
                                                                                    (forall p q, o1 = Some p -> o2 = Some q -> proper_code p = proper_code q)).
        { intros [E|E]; [inversion E; subst; repeat split; intros; try discriminate; inversion H0; subst; left; reflexivity|].
          destruct (IH1 _ _ _ E) as (A & B & C). repeat split; auto. intros p Hp. right. apply A. exact Hp. }
        destruct (has_bit bits (proper_code d1)); [apply G; exact H|apply G; right; exact H].
      * assert (G : In (o1, o2) ((None, Some d2) :: pair_iter bits (d1 :: l1) l2) -> (forall p, o1 = Some p -> In p (d1 :: l1)) /\ (forall p, o2 = Some p -> In p (d2 :: l2)) /\
                                                                                    (forall p q, o1 = Some p -> o2 = Some q -> proper_code p = proper_code q)).
        { intros [E|E]; [inversion E; subst; repeat split; intros; try discriminate; inversion H0; subst; left; reflexivity|].
          destruct (IH2 _ _ E) as (A & B & C). repeat split; auto. intros p Hp. right. apply B. exact Hp. }
        destruct (has_bit bits (proper_code d2)); [apply G; exact H|apply G; right; exact H].
Qed.

Lemma collect_data_origin f add ps : forall a0 d0 a d,
  fold_left (collect_step f add) ps (Ok (a0, d0)) = Ok (a, d) ->
  forall p, In p d -> In p d0 \/ exists pr, In pr ps /\ f pr = Ok (Some (SProper p)).
Proof.
  induction ps as [|pr ps IH]; intros a0 d0 a d H p Hp; cbn [fold_left] in H.
  - inversion H; subst. left. exact Hp.
  - unfold collect_step at 2 in H. cbn [bind] in H.
    destruct (f pr) as [[[g|g|q]|]|e] eqn:Ef; cbn [bind fst snd] in H; try (rewrite fold_throw in H; discriminate H).
    + destruct (IH _ _ _ _ H p Hp) as [L|(pr' & Hin & Hf)]; [left; exact L|right; exists pr'; split; [right; exact Hin|exact Hf]].
    + destruct add; destruct (IH _ _ _ _ H p Hp) as [L|(pr' & Hin & Hf)]; try (left; exact L); right; exists pr'; (split; [right; exact Hin|exact Hf]).
    + destruct (IH _ _ _ _ H p Hp) as [L|(pr' & Hin & Hf)].
      * apply in_app_or in L as [L|[<-|[]]]; [left; exact L|]. right. exists pr. split; [left; reflexivity|exact Ef].
      * right. exists pr'. split; [right; exact Hin|exact Hf].
    + destruct (IH _ _ _ _ H p Hp) as [L|(pr' & Hin & Hf)]; [left; exact L|right; exists pr'; split; [right; exact Hin|exact Hf]].
Qed.

(* the proper subtypes of a difference of well-formed types are of the fragment, and basic if the operands are *)
Definition basic_proper (p : proper) : bool :=
  match p with PBoolean _ | PNumber _ _ | PString _ _ => true | _ => false end.

Lemma wf2_parts t : wf2 t = true ->
  codes_increasing (st_data t) = true /\ (forall p, In p (st_data t) -> pfrag p = true).
Proof.
  unfold wf2. intros H. apply andb_prop in H as [H _]. apply andb_prop in H as [H1 H2].
  split; [exact H1|]. rewrite forallb_forall in H2. exact H2.
Qed.

Lemma basic_tag_inv p q : proper_tag p = proper_tag q -> basic_proper p = basic_proper q.
Proof. destruct p, q; cbn; intros H; try reflexivity; discriminate H. Qed.

Lemma sem_diff_data t1 t2 t :
  wf2 t1 = true -> wf2 t2 = true -> sem_diff t1 t2 = Ok t ->
  forall p, In p (st_data t) ->
    pfrag p = true /\
    ((forall q, In q (st_data t1) -> basic_proper q = true) -> (forall q, In q (st_data t2) -> basic_proper q = true) -> basic_proper p = true).
Proof.
  intros W1 W2 Hd p Hp.
  destruct (wf2_parts t1 W1) as [I1 F1]. destruct (wf2_parts t2 W2) as [I2 F2].
  destruct (sem_diff_is_collect t1 t2 t Hd) as [[_ ->]|[_ Hc]]; [contradiction|].
  unfold sem_collect in Hc.
  match type of Hc with (do r <- fold_left _ ?ps (Ok (?a0, [])); _) = _ =>
    change (fold_left _ ps (Ok (a0, []))) with (fold_left (collect_step f_diff true) ps (Ok (a0, []))) in Hc;
    destruct (fold_left (collect_step f_diff true) ps (Ok (a0, []))) as [[a d]|e] eqn:E; cbn [bind] in Hc; [|discriminate Hc]
  end.
  inversion Hc; subst t. cbn [st_data snd] in Hp.
  destruct (collect_data_origin _ _ _ _ _ _ _ E p Hp) as [[]|([o1 o2] & Hin & Hf)].
  destruct (pair_iter_in _ _ _ _ _ Hin) as (A & B & C).
  destruct o1 as [d1|], o2 as [d2|]; cbn [f_diff] in Hf.
  - destruct (proper_diff d1 d2) as [s|e] eqn:Es; cbn [bind] in Hf; [|discriminate Hf]. inversion Hf; subst s.
    pose proof (code_eq_tag _ _ (C d1 d2 eq_refl eq_refl)) as Ht.
    destruct (proper_diff_spec d1 d2 _ (F1 d1 (A d1 eq_refl)) (F2 d2 (B d2 eq_refl)) Ht Es) as [[Tp Fp] _].
    split; [exact Fp|]. intros B1 _. rewrite (basic_tag_inv p d1 Tp). apply B1. apply A. reflexivity.
  - inversion Hf; subst p. split; [apply F1; apply A; reflexivity|]. intros B1 _. apply B1. apply A. reflexivity.
  - destruct (proper_complement d2) as [c|e] eqn:Ec; cbn [bind] in Hf; [|discriminate Hf]. inversion Hf; subst c.
    destruct (proper_complement_spec d2 p (F2 d2 (B d2 eq_refl)) Ec) as (Tp & Fp & _).
    split; [exact Fp|]. intros _ B2. rewrite (basic_tag_inv p d2 Tp). apply B2. apply B. reflexivity.
  - discriminate Hf.
Qed.

(* ================================================================ every basic proper subtype of the fragment has a value *)
Definition num_bound (vs : list numval) : Z :=
  fold_right (fun v acc => match v with NLit z => Z.max (Z.abs z) acc | _ => acc end) 0%Z vs.
Lemma num_bound_ge vs z : In (NLit z) vs -> (Z.abs z <= num_bound vs)%Z.
Proof.
  induction vs as [|v vs IH]; cbn [In num_bound fold_right]; [contradiction|].
  intros [->|H]; [apply Z.le_max_l|]. fold (num_bound vs). specialize (IH H).
  destruct v; [eapply Z.le_trans; [exact IH|apply Z.le_max_r]|exact IH].
Qed.
Lemma num_fresh vs : existsb (numval_eqb (NLit (1 + num_bound vs))) vs = false.
Proof.
  destruct (existsb (numval_eqb (NLit (1 + num_bound vs))) vs) eqn:E; [|reflexivity].
  apply (existsb_eqb_In numval_eqb numval_eqb_spec) in E. apply num_bound_ge in E.
  exfalso. revert E. generalize (num_bound vs). intros b. assert (0 <= b \/ b < 0)%Z by apply Z.le_gt_cases.
  destruct H; [rewrite Z.abs_eq by (apply Z.add_nonneg_nonneg; [discriminate|exact H])|]; intros E.
  - apply (Z.lt_irrefl b). eapply Z.lt_le_trans; [|exact E]. apply Z.lt_add_pos_l. reflexivity.
  - pose proof (Z.abs_nonneg (1 + b)). apply (Z.lt_irrefl b). eapply Z.lt_le_trans; [exact H|]. eapply Z.le_trans; [exact H0|exact E].
Qed.

Fixpoint str_len (s : string) : nat := match s with EmptyString => 0 | String _ s' => S (str_len s') end.
Fixpoint a_s (n : nat) : string := match n with O => EmptyString | S n' => String "a" (a_s n') end.
Lemma a_s_len n : str_len (a_s n) = n.
Proof. induction n; cbn; congruence. Qed.
Definition str_bound (vs : list strval) : nat :=
  fold_right (fun v acc => match v with STpl [TplConst s] => Nat.max (str_len s) acc | _ => acc end) 0 vs.
Lemma str_bound_ge vs s : In (STpl [TplConst s]) vs -> str_len s <= str_bound vs.
Proof.
  induction vs as [|v vs IH]; cbn [In str_bound fold_right]; [contradiction|].
  intros [->|H]; [apply Nat.le_max_l|]. fold (str_bound vs). specialize (IH H).
  destruct v as [|[|[| | |c|] [|]]]; try exact IH. eapply Nat.le_trans; [exact IH|apply Nat.le_max_r].
Qed.
Lemma str_fresh vs : existsb (strval_eqb (lit_str (a_s (S (str_bound vs))))) vs = false.
Proof.
  destruct (existsb (strval_eqb (lit_str (a_s (S (str_bound vs))))) vs) eqn:E; [|reflexivity].
  apply (existsb_eqb_In strval_eqb strval_eqb_spec) in E. unfold lit_str in E. apply str_bound_ge in E.
  rewrite a_s_len in E. exfalso. apply (Nat.nle_succ_diag_l _ E).
Qed.

Lemma basic_inhabited p : pfrag p = true -> basic_proper p = true -> exists pt, valid_point pt = true /\ pmem p pt = true.
Proof.
  destruct p as [b|a vs|a vs| | | | | | ]; cbn [basic_proper]; try discriminate; intros F _.
  - exists (PtBool b). split; [reflexivity|]. cbn. apply Bool.eqb_reflx.
  - cbn in F. apply andb_prop in F as [Fl Fn]. destruct a.
    + destruct vs as [|[z|f ar] vs]; try discriminate Fn; try discriminate Fl.
      exists (PtNum z). split; [reflexivity|]. cbn. rewrite Z.eqb_refl. reflexivity.
    + exists (PtNum (1 + num_bound vs)). split; [reflexivity|]. cbn [pmem]. unfold lits_mem. rewrite num_fresh. reflexivity.
  - cbn in F. apply andb_prop in F as [Fl Fn]. destruct a.
    + destruct vs as [|[f ar|[|[| | |c|] [|]]] vs]; try discriminate Fn; try discriminate Fl.
      exists (PtStr c). split; [reflexivity|]. cbn. rewrite String.eqb_refl. reflexivity.
    + exists (PtStr (a_s (S (str_bound vs)))). split; [reflexivity|]. cbn [pmem]. unfold lits_mem. rewrite str_fresh. reflexivity.
Qed.

(* a non-zero tag set inside VAL has a tag, and every tag has a valid point *)
Definition tag_point (g : stag) : point :=
  match g with
  | TgBoolean => PtBool true | TgNumber => PtNum 0 | TgString => PtStr ""
  | TgMapping | TgList | TgMap | TgSet => PtStruct g (fun _ => false)
  | TgTypedArray => PtTyped Uint8Array
  | _ => PtUnit g
  end.
Lemma tag_point_ok g : valid_point (tag_point g) = true /\ point_tag (tag_point g) = g.
Proof. destruct g; split; reflexivity. Qed.

Lemma nonzero_in_val_has_tag a : a <> 0%N -> N.land a VAL = a -> exists g, has_bit a (stag_code g) = true.
Proof.
  intros Hnz Hval.
  destruct (existsb (fun g => has_bit a (stag_code g)) all_stags) eqn:E.
  - apply existsb_exists in E as [g [_ Hg]]. eauto.
  - exfalso. apply Hnz. apply N.bits_inj. intros k. rewrite N.bits_0. rewrite <- Hval, N.land_spec.
    destruct (N.testbit VAL k) eqn:Ek; [|apply andb_false_r]. rewrite andb_true_r.
    assert (Hk : exists g, stag_shift g = k).
    { destruct (N.lt_ge_cases k 14) as [Hlt|Hge].
      - assert (Hc : (k = 0 \/ k = 1 \/ k = 2 \/ k = 3 \/ k = 4 \/ k = 5 \/ k = 6 \/ k = 7 \/ k = 8 \/ k = 9 \/ k = 10 \/ k = 11 \/ k = 12 \/ k = 13)%N) by lia.
        destruct Hc as [->|[->|[->|[->|[->|[->|[->|[->|[->|[->|[->|[->|[->| ->]]]]]]]]]]]]];
          [vm_compute in Ek; discriminate Ek|exists TgBoolean|exists TgNumber|exists TgString|exists TgNull|exists TgMapping|exists TgOptionalProp
           |exists TgList|exists TgBigInt|exists TgDate|exists TgVoidUndefined|exists TgTypedArray|exists TgMap|exists TgSet]; reflexivity.
      - exfalso. rewrite N.bits_above_log2 in Ek; [discriminate Ek|]. eapply N.lt_le_trans; [|exact Hge]. vm_compute. reflexivity. }
    destruct Hk as [g <-]. rewrite <- has_bit_testbit.
    destruct (has_bit a (stag_code g)) eqn:Hg; [|reflexivity].
    assert (X : existsb (fun g0 => has_bit a (stag_code g0)) all_stags = true).
    { apply existsb_exists. exists g. split; [destruct g; cbn; tauto|exact Hg]. }
    congruence.
Qed.

(* ================================================================ completeness on the basic fragment *)
Lemma code_in_val g : N.land (stag_code g) VAL = stag_code g.
Proof. destruct g; reflexivity. Qed.

Lemma collect_all_in_val f add ps : forall a0 d0 a d,
  fold_left (collect_step f add) ps (Ok (a0, d0)) = Ok (a, d) -> N.land a0 VAL = a0 -> N.land a VAL = a.
Proof.
  induction ps as [|pr ps IH]; intros a0 d0 a d H Hv; cbn [fold_left] in H.
  - inversion H; subst. exact Hv.
  - unfold collect_step at 2 in H. cbn [bind] in H.
    destruct (f pr) as [[[g|g|q]|]|e]; cbn [bind fst snd] in H; try (rewrite fold_throw in H; discriminate H);
      try (eapply IH; [exact H|exact Hv]).
    destruct add; [|eapply IH; [exact H|exact Hv]].
    eapply IH; [exact H|]. rewrite N.land_lor_distr_l, Hv, code_in_val. reflexivity.
Qed.

Lemma land_sub_val a x : N.land a VAL = a -> N.land (N.land a x) VAL = N.land a x.
Proof. intros H. rewrite <- N.land_assoc, (N.land_comm x VAL), N.land_assoc, H. reflexivity. Qed.

Lemma sem_diff_all_in_val t1 t2 t : sem_diff t1 t2 = Ok t -> N.land (st_all t1) VAL = st_all t1 -> N.land (st_all t) VAL = st_all t.
Proof.
  intros Hd Hv. destruct (sem_diff_is_collect t1 t2 t Hd) as [[_ ->]|[_ Hc]]; cbn [st_all]; [apply land_sub_val; exact Hv|].
  unfold sem_collect in Hc.
  match type of Hc with (do r <- fold_left _ ?ps (Ok (?a0, [])); _) = _ =>
    change (fold_left _ ps (Ok (a0, []))) with (fold_left (collect_step f_diff true) ps (Ok (a0, []))) in Hc;
    destruct (fold_left (collect_step f_diff true) ps (Ok (a0, []))) as [[a d]|e] eqn:E; cbn [bind] in Hc; [|discriminate Hc]
  end.
  inversion Hc; subst t. cbn [st_all fst]. eapply collect_all_in_val; [exact E|]. apply land_sub_val. exact Hv.
Qed.

Theorem subtype_complete_basic a b :
  wf2 a = true -> wf2 b = true ->
  (forall q, In q (st_data a) -> basic_proper q = true) -> (forall q, In q (st_data b) -> basic_proper q = true) ->
  N.land (st_all a) VAL = st_all a ->
  sem_is_subtype no_struct a b = Ok false ->
  exists pt, valid_point pt = true /\ mem a pt = true /\ mem b pt = false.
Proof.
  intros Wa Wb Ba Bb Hval Hs. unfold sem_is_subtype in Hs.
  destruct (sem_diff a b) as [d|e] eqn:Ed; cbn [bind] in Hs; [|discriminate].
  assert (Hpt : exists pt, valid_point pt = true /\ mem d pt = true).
  { unfold sem_is_empty in Hs. destruct (N.eqb (st_all d) 0) eqn:Ea; cbn [negb] in Hs.
    - destruct (st_data d) as [|p ps] eqn:Edata; [cbn in Hs; discriminate Hs|].
      destruct (sem_diff_data a b d Wa Wb Ed p) as [Fp Bp]; [rewrite Edata; left; reflexivity|].
      destruct (basic_inhabited p Fp (Bp Ba Bb)) as (pt & Hv & Hm).
      exists pt. split; [exact Hv|]. unfold mem. rewrite Edata. cbn [existsb]. rewrite Hm. rewrite orb_true_r. reflexivity.
    - apply N.eqb_neq in Ea.
      destruct (nonzero_in_val_has_tag _ Ea (sem_diff_all_in_val a b d Ed Hval)) as [g Hg].
      destruct (tag_point_ok g) as [Hv Ht]. exists (tag_point g). split; [exact Hv|]. unfold mem. rewrite Ht, Hg. reflexivity. }
  destruct Hpt as (pt & Hv & Hm). exists pt. split; [exact Hv|].
  rewrite (sem_diff_mem a b d pt Wa Wb Hv Ed) in Hm. apply andb_prop in Hm as [H1 H2]. apply negb_true_iff in H2. auto.
Qed.

(* ================================================================ intersection and union of semantic types *)
Lemma pfrag_num_nonempty a v : pfrag (PNumber a v) = true -> v <> [].
Proof. cbn. intros H Hv. subst. discriminate H. Qed.
Lemma pfrag_str_nonempty a v : pfrag (PString a v) = true -> v <> [].
Proof. cbn. intros H Hv. subst. discriminate H. Qed.

Lemma lit_subtype_not_true {K} (mk : bool -> list K -> proper) t a v (v1 : list K) :
  v1 <> [] -> (a = false -> forall x, In x v1 -> In x v) -> forall g, lit_subtype mk t a v <> STrue g.
Proof.
  intros Hne Hsub g. destruct v as [|x v]; [|discriminate]. destruct a; [discriminate|].
  exfalso. destruct v1 as [|y v1]; [apply Hne; reflexivity|]. apply (Hsub eq_refl y). left. reflexivity.
Qed.

Lemma proper_intersect_not_true p1 p2 s :
  pfrag p1 = true -> pfrag p2 = true -> proper_intersect p1 p2 = Ok s -> forall g, s <> STrue g.
Proof.
  intros F1 F2 Hs g.
  destruct p1 as [b1|a1 v1|a1 v1|d1|d1|a1 v1|a1 v1|d1|d1], p2 as [b2|a2 v2|a2 v2|d2|d2|a2 v2|a2 v2|d2|d2];
    try discriminate F1; try discriminate F2; cbn [proper_intersect] in Hs; try discriminate Hs.
  - inversion Hs. destruct (Bool.eqb b1 b2); discriminate.
  - destruct (num_inter a1 v1 a2 v2 (pfrag_num _ _ F1) (pfrag_num _ _ F2)) as (a & v & E & _ & _ & Hsub).
    rewrite E in Hs. inversion Hs. apply (lit_subtype_not_true PNumber TgNumber a v v1 (pfrag_num_nonempty _ _ F1) Hsub).
  - destruct (str_inter a1 v1 a2 v2 (pfrag_str _ _ F1) (pfrag_str _ _ F2)) as (a & v & E & _ & _ & Hsub).
    rewrite E in Hs. inversion Hs. apply (lit_subtype_not_true PString TgString a v v1 (pfrag_str_nonempty _ _ F1) Hsub).
  - destruct (bdd_res (intersect FUEL_BDD d1 d2)); cbn [bind] in Hs; [inversion Hs; discriminate|discriminate].
  - destruct (bdd_res (intersect FUEL_BDD d1 d2)); cbn [bind] in Hs; [inversion Hs; discriminate|discriminate].
  - destruct (bdd_res (intersect FUEL_BDD d1 d2)); cbn [bind] in Hs; [inversion Hs; discriminate|discriminate].
  - destruct (bdd_res (intersect FUEL_BDD d1 d2)); cbn [bind] in Hs; [inversion Hs; discriminate|discriminate].
Qed.

Lemma contrib_false_smem o s pt : o = Ok (Some s) -> (forall g, s <> STrue g) -> contrib false o pt = smem s pt.
Proof. intros -> H. destruct s as [g|g|p]; [reflexivity|exfalso; apply (H g); reflexivity|reflexivity]. Qed.

Definition f_inter (pr : option proper * option proper) : res (option subtype) :=
  match pr with
  | (Some d1, None) => Ok (Some (SProper d1))
  | (None, Some d2) => Ok (Some (SProper d2))
  | (Some d1, Some d2) => do s <- proper_intersect d1 d2; Ok (Some s)
  | _ => Ok None
  end.
Definition f_union (pr : option proper * option proper) : res (option subtype) :=
  match pr with
  | (Some d1, None) => Ok (Some (SProper d1))
  | (None, Some d2) => Ok (Some (SProper d2))
  | (Some d1, Some d2) => do s <- proper_union d1 d2; Ok (Some s)
  | _ => Ok None
  end.

Lemma contrib_other_tag add o s pt : o = Ok (Some s) -> subtype_tag s <> point_tag pt -> contrib add o pt = false.
Proof.
  intros -> H. destruct s as [g|g|p]; cbn [contrib subtype_tag] in *; [reflexivity| |].
  - destruct (stag_eqb g (point_tag pt)) eqn:E; [apply stag_eqb_eq in E; contradiction|apply andb_false_r].
  - destruct (pmem p pt) eqn:E; [apply pmem_tag in E; contradiction|reflexivity].
Qed.

Lemma f_inter_local add tau pt : point_tag pt = tau -> forall o1 o2,
  (forall p, o1 = Some p -> has_tau tau p = false) -> (forall p, o2 = Some p -> has_tau tau p = false) ->
  contrib add (f_inter (o1, o2)) pt = false.
Proof.
  intros Hpt o1 o2 H1 H2. subst tau.
  assert (NT : forall p, has_tau (point_tag pt) p = false -> proper_tag p <> point_tag pt).
  { intros p Hp E. unfold has_tau in Hp. rewrite E, stag_eqb_refl in Hp. discriminate Hp. }
  destruct o1 as [d1|], o2 as [d2|]; cbn [f_inter]; [| | |reflexivity].
  - destruct (proper_intersect d1 d2) as [s|e] eqn:E; cbn [bind]; [|reflexivity].
    apply (contrib_other_tag add _ s pt eq_refl). destruct (proper_intersect_tag _ _ _ E) as [T _]. rewrite T. apply NT. apply H1. reflexivity.
  - apply (contrib_other_tag add _ (SProper d1) pt eq_refl). apply NT. apply H1. reflexivity.
  - apply (contrib_other_tag add _ (SProper d2) pt eq_refl). apply NT. apply H2. reflexivity.
Qed.
Lemma f_union_local add tau pt : point_tag pt = tau -> forall o1 o2,
  (forall p, o1 = Some p -> has_tau tau p = false) -> (forall p, o2 = Some p -> has_tau tau p = false) ->
  contrib add (f_union (o1, o2)) pt = false.
Proof.
  intros Hpt o1 o2 H1 H2. subst tau.
  assert (NT : forall p, has_tau (point_tag pt) p = false -> proper_tag p <> point_tag pt).
  { intros p Hp E. unfold has_tau in Hp. rewrite E, stag_eqb_refl in Hp. discriminate Hp. }
  destruct o1 as [d1|], o2 as [d2|]; cbn [f_union]; [| | |reflexivity].
  - destruct (proper_union d1 d2) as [s|e] eqn:E; cbn [bind]; [|reflexivity].
    apply (contrib_other_tag add _ s pt eq_refl). destruct (proper_union_tag _ _ _ E) as [T _]. rewrite T. apply NT. apply H1. reflexivity.
  - apply (contrib_other_tag add _ (SProper d1) pt eq_refl). apply NT. apply H1. reflexivity.
  - apply (contrib_other_tag add _ (SProper d2) pt eq_refl). apply NT. apply H2. reflexivity.
Qed.

Lemma wf2_inc t : wf2 t = true -> codes_increasing (st_data t) = true.
Proof. unfold wf2. intros W. apply andb_prop in W as [W _]. apply andb_prop in W as [W _]. exact W. Qed.

Lemma zero_bit x g : N.eqb x 0 = true -> has_bit x (stag_code g) = false.
Proof. intros E. apply N.eqb_eq in E. rewrite E. apply has_bit_0. Qed.

(* ---------- union ---------- *)
Lemma sem_union_is_collect t1 t2 t :
  sem_union t1 t2 = Ok t ->
  let all := N.lor (st_all t1) (st_all t2) in
  let some := N.land (N.lor (some_bits (st_data t1)) (some_bits (st_data t2))) (not_bits all) in
  (N.eqb some 0 = true /\ t = mkSem all []) \/
  (N.eqb some 0 = false /\ sem_collect (pair_iter some (st_data t1) (st_data t2)) f_union all true = Ok t).
Proof.
  unfold sem_union. cbv zeta. destruct (N.eqb _ 0) eqn:E; intros H.
  - left. split; [reflexivity|]. inversion H. reflexivity.
  - right. split; [reflexivity|]. exact H.
Qed.

Theorem sem_union_mem t1 t2 t pt :
  wf2 t1 = true -> wf2 t2 = true -> valid_point pt = true -> sem_union t1 t2 = Ok t ->
  mem t pt = mem t1 pt || mem t2 pt.
Proof.
  intros W1 W2 Hv Hd.
  set (tau := point_tag pt).
  rewrite (mem_lookup t1 pt W1), (mem_lookup t2 pt W2). fold tau.
  pose proof (some_bits_lk tau (st_data t1)) as S1. pose proof (some_bits_lk tau (st_data t2)) as S2.
  pose proof (wf2_inc t1 W1) as I1. pose proof (wf2_inc t2 W2) as I2.
  set (A1 := has_bit (st_all t1) (stag_code tau)) in *. set (A2 := has_bit (st_all t2) (stag_code tau)) in *.
  set (B1 := has_bit (some_bits (st_data t1)) (stag_code tau)) in *. set (B2 := has_bit (some_bits (st_data t2)) (stag_code tau)) in *.
  set (sb := (B1 || B2) && negb (A1 || A2)).
  assert (R : mem t pt = (A1 || A2) || (sb && contrib true (f_union (lk tau (st_data t1), lk tau (st_data t2))) pt)
              /\ (sb = true -> opt_tau tau (lk tau (st_data t1)) || opt_tau tau (lk tau (st_data t2)) = true ->
                  exists o, f_union (lk tau (st_data t1), lk tau (st_data t2)) = Ok o)).
  { destruct (sem_union_is_collect t1 t2 t Hd) as [[Ez ->]|[Ez Hc]].
    - pose proof (zero_bit _ tau Ez) as Z. rewrite !has_bit_land, !has_bit_not, !has_bit_lor in Z.
      fold A1 A2 B1 B2 in Z. fold sb in Z. split.
      + unfold mem. cbn [st_all st_data existsb]. rewrite orb_false_r. fold tau. rewrite has_bit_lor. fold A1 A2. rewrite Z. rewrite orb_false_r. reflexivity.
      + intros Hs. congruence.
    - split.
      + rewrite (collect_mem _ _ _ _ _ pt Hc). fold tau.
        rewrite (merge_spec tau _ (fun pr => contrib true (f_union pr) pt) (f_union_local true tau pt eq_refl) _ _ I1 I2).
        rewrite !has_bit_land, !has_bit_not, !has_bit_lor. reflexivity.
      + intros Hs Ht. eapply (collect_pair_ok tau _ f_union _ true _ _ t I1 I2 Hc); [|exact Ht].
        rewrite !has_bit_land, !has_bit_not, !has_bit_lor. exact Hs. }
  destruct R as [R Rok]. rewrite R. unfold sb in *. clear R. rewrite S1, S2 in *.
  destruct (lk tau (st_data t1)) as [p1|] eqn:L1, (lk tau (st_data t2)) as [p2|] eqn:L2.
  - destruct (wf2_lk t1 tau p1 W1 L1) as (F1 & T1 & E1). destruct (wf2_lk t2 tau p2 W2 L2) as (F2 & T2 & E2).
    fold A1 in E1. fold A2 in E2. rewrite E1, E2 in *. cbn [andb orb negb f_union] in *.
    destruct (proper_union p1 p2) as [s|e] eqn:E.
    + cbn [bind]. rewrite (contrib_smem _ s pt eq_refl).
      destruct (proper_union_spec p1 p2 s F1 F2 (eq_trans T1 (eq_sym T2)) E) as [_ M]. apply (M pt Hv (eq_sym T1)).
    + exfalso. destruct (Rok eq_refl) as [o Ho]; [cbn [opt_tau]; destruct (lk_some _ _ _ L1) as [_ ->]; reflexivity|].
      cbn [bind] in Ho. discriminate Ho.
  - destruct (wf2_lk t1 tau p1 W1 L1) as (F1 & T1 & E1). fold A1 in E1. rewrite E1. cbn [andb orb negb f_union contrib].
    destruct A2, (pmem p1 pt); reflexivity.
  - destruct (wf2_lk t2 tau p2 W2 L2) as (F2 & T2 & E2). fold A2 in E2. rewrite E2. cbn [andb orb negb f_union contrib].
    destruct A1, (pmem p2 pt); reflexivity.
  - cbn [f_union contrib andb orb]. rewrite !orb_false_r. reflexivity.
Qed.

(* ---------- intersection ---------- *)
Lemma sem_intersect_is_collect t1 t2 t :
  sem_intersect t1 t2 = Ok t ->
  let all := N.land (st_all t1) (st_all t2) in
  let some := N.land (N.land (N.lor (some_bits (st_data t1)) (st_all t1)) (N.lor (some_bits (st_data t2)) (st_all t2))) (not_bits all) in
  (N.eqb some 0 = true /\ t = mkSem all []) \/
  (N.eqb some 0 = false /\ sem_collect (pair_iter some (st_data t1) (st_data t2)) f_inter all false = Ok t).
Proof.
  unfold sem_intersect. cbv zeta. destruct (N.eqb _ 0) eqn:E; intros H.
  - left. split; [reflexivity|]. inversion H. reflexivity.
  - right. split; [reflexivity|]. exact H.
Qed.

Theorem sem_intersect_mem t1 t2 t pt :
  wf2 t1 = true -> wf2 t2 = true -> valid_point pt = true -> sem_intersect t1 t2 = Ok t ->
  mem t pt = mem t1 pt && mem t2 pt.
Proof.
  intros W1 W2 Hv Hd.
  set (tau := point_tag pt).
  rewrite (mem_lookup t1 pt W1), (mem_lookup t2 pt W2). fold tau.
  pose proof (some_bits_lk tau (st_data t1)) as S1. pose proof (some_bits_lk tau (st_data t2)) as S2.
  pose proof (wf2_inc t1 W1) as I1. pose proof (wf2_inc t2 W2) as I2.
  set (A1 := has_bit (st_all t1) (stag_code tau)) in *. set (A2 := has_bit (st_all t2) (stag_code tau)) in *.
  set (B1 := has_bit (some_bits (st_data t1)) (stag_code tau)) in *. set (B2 := has_bit (some_bits (st_data t2)) (stag_code tau)) in *.
  set (sb := ((B1 || A1) && (B2 || A2)) && negb (A1 && A2)).
  assert (R : mem t pt = (A1 && A2) || (sb && contrib false (f_inter (lk tau (st_data t1), lk tau (st_data t2))) pt)
              /\ (sb = true -> opt_tau tau (lk tau (st_data t1)) || opt_tau tau (lk tau (st_data t2)) = true ->
                  exists o, f_inter (lk tau (st_data t1), lk tau (st_data t2)) = Ok o)).
  { destruct (sem_intersect_is_collect t1 t2 t Hd) as [[Ez ->]|[Ez Hc]].
    - pose proof (zero_bit _ tau Ez) as Z. rewrite !has_bit_land, !has_bit_not, !has_bit_lor, !has_bit_land in Z.
      fold A1 A2 B1 B2 in Z. fold sb in Z. split.
      + unfold mem. cbn [st_all st_data existsb]. rewrite orb_false_r. fold tau. rewrite has_bit_land. fold A1 A2. rewrite Z. rewrite orb_false_r. reflexivity.
      + intros Hs. congruence.
    - split.
      + rewrite (collect_mem _ _ _ _ _ pt Hc). fold tau.
        rewrite (merge_spec tau _ (fun pr => contrib false (f_inter pr) pt) (f_inter_local false tau pt eq_refl) _ _ I1 I2).
        rewrite !has_bit_land, !has_bit_not, !has_bit_lor, !has_bit_land. reflexivity.
      + intros Hs Ht. eapply (collect_pair_ok tau _ f_inter _ false _ _ t I1 I2 Hc); [|exact Ht].
        rewrite !has_bit_land, !has_bit_not, !has_bit_lor, !has_bit_land. exact Hs. }
  destruct R as [R Rok]. rewrite R. unfold sb in *. clear R. rewrite S1, S2 in *.
  destruct (lk tau (st_data t1)) as [p1|] eqn:L1, (lk tau (st_data t2)) as [p2|] eqn:L2.
  - destruct (wf2_lk t1 tau p1 W1 L1) as (F1 & T1 & E1). destruct (wf2_lk t2 tau p2 W2 L2) as (F2 & T2 & E2).
    fold A1 in E1. fold A2 in E2. rewrite E1, E2 in *. cbn [andb orb negb f_inter] in *.
    destruct (proper_intersect p1 p2) as [s|e] eqn:E.
    + cbn [bind]. rewrite (contrib_false_smem _ s pt eq_refl (proper_intersect_not_true p1 p2 s F1 F2 E)).
      destruct (proper_intersect_spec p1 p2 s F1 F2 (eq_trans T1 (eq_sym T2)) E) as [_ M]. apply (M pt Hv (eq_sym T1)).
    + exfalso. destruct (Rok eq_refl) as [o Ho]; [cbn [opt_tau]; destruct (lk_some _ _ _ L1) as [_ ->]; reflexivity|].
      cbn [bind] in Ho. discriminate Ho.
  - destruct (wf2_lk t1 tau p1 W1 L1) as (F1 & T1 & E1). fold A1 in E1. rewrite E1. cbn [andb orb negb f_inter contrib].
    destruct A2, (pmem p1 pt); reflexivity.
  - destruct (wf2_lk t2 tau p2 W2 L2) as (F2 & T2 & E2). fold A2 in E2. rewrite E2. cbn [andb orb negb f_inter contrib].
    destruct A1, (pmem p2 pt); reflexivity.
  - cbn [f_inter contrib andb orb]. rewrite !orb_false_r, andb_false_r, orb_false_r. reflexivity.
Qed.

(* ---------- complement ---------- *)
Lemma val_has_every_tag g : has_bit VAL (stag_code g) = true.
Proof. destruct g; reflexivity. Qed.

Theorem sem_complement_mem t c pt :
  wf2 t = true -> valid_point pt = true -> sem_complement t = Ok c -> mem c pt = negb (mem t pt).
Proof.
  intros W Hv Hc. unfold sem_complement in Hc.
  rewrite (sem_diff_mem (mkSem VAL []) t c pt eq_refl W Hv Hc).
  unfold mem at 1. cbn [st_all st_data existsb]. rewrite val_has_every_tag. reflexivity.
Qed.
